(* ExecStreamsInv.v -- the stage-2 hook of the executor (model/ExecStreams.v: [stream_instr]: streams,
   stream maps, the three canon instructions, new, stream folds) and the farewell compactification
   ([finish_streams]) under the generic induction principle of ExecInv.v:

     stream_instr_preserves_call : frame_invariant R -> (forward hypothesis) -> hook_preserves R stream_instr
     stream_instr_preserves : exec_invariant R -> hook_preserves R stream_instr
     exec2_inv              : exec_invariant R -> forall fuel i x, res_sat R x (exec stream_instr fuel i x)
     finish_streams_inv     : frame_invariant R -> finish_streams x = inl y -> R x y
     finish_streams_frame   : finish_streams x = inl y -> frame x y

   The only non-frame step of the stream instructions is handle_unseen_canon (shared by canon,
   canon map and canon-map-scalar), which pushes the designated peer (different from the current
   one) to the next peers: [ei_forward].
   Kept apart from ExecInv.v so that a change of ExecStreams.v cannot break the stage-1 users. *)
From Coq Require Import Lia.
From Aqua Require Import Base Json Air Trace Handler Values Scalars Lens Exec RunExec ExecStreams CallSpec ExecInv.
From Aqua Require Stream.
Open Scope N_scope.
Open Scope list_scope.

Section StreamsInv.
  Variable R : ctx -> ctx -> Prop.
  Hypothesis HF : frame_invariant R.

  Let Rrefl := fi_refl R HF.
  Let Rtrans := fi_trans R HF.

  Lemma si_with_table t x m : R x (with_table t x m).
  Proof. destruct t; apply (fi_set_ext R HF). Qed.

  Lemma si_set_canon_value x name c y : set_canon_value x name c = POk y -> R x y.
  Proof.
    unfold set_canon_value. destruct (Scalars.set_value canon_wp (x_canons x) name c) as [[m b] |]; intros E; inversion E; subst.
    apply (fi_set_canons R HF).
  Qed.

  Lemma si_set_canon_map_value x name c y : set_canon_map_value x name c = POk y -> R x y.
  Proof.
    unfold set_canon_map_value. destruct (Scalars.set_value canon_map_wp _ name c) as [[m b] |]; intros E; inversion E; subst.
    apply (fi_set_ext R HF).
  Qed.

  (* R-chains, as in ExecInv.v, with the updates of ExecStreams.v *)
  Ltac rch :=
    match goal with
    | |- R ?x ?x => apply Rrefl
    | H : R ?x ?y |- R ?x ?y => exact H
    | |- R ?x (set_scalars ?y _) => apply (Rtrans x y); [rch | apply (fi_set_scalars R HF)]
    | |- R ?x (set_canons ?y _) => apply (Rtrans x y); [rch | apply (fi_set_canons R HF)]
    | |- R ?x (set_iterables ?y _) => apply (Rtrans x y); [rch | apply (fi_set_iterables R HF)]
    | |- R ?x (set_last_error ?y _ _) => apply (Rtrans x y); [rch | apply (fi_set_last_error R HF)]
    | |- R ?x (set_error ?y _ _) => apply (Rtrans x y); [rch | apply (fi_set_error R HF)]
    | |- R ?x (set_complete ?y _) => apply (Rtrans x y); [rch | apply (fi_set_complete R HF)]
    | |- R ?x (set_handler ?y _) => apply (Rtrans x y); [rch | apply (fi_set_handler R HF)]
    | |- R ?x (set_cids ?y _ _) => apply (Rtrans x y); [rch | apply (fi_set_cids R HF)]
    | |- R ?x (set_fold_counter ?y _) => apply (Rtrans x y); [rch | apply (fi_set_fold_counter R HF)]
    | |- R ?x (set_ext ?y _) => apply (Rtrans x y); [rch | apply (fi_set_ext R HF)]
    | |- R ?x (with_streams ?y _) => apply (Rtrans x y); [rch | apply (fi_set_ext R HF)]
    | |- R ?x (with_canon_maps ?y _) => apply (Rtrans x y); [rch | apply (fi_set_ext R HF)]
    | |- R ?x (with_table _ ?y _) => apply (Rtrans x y); [rch | apply si_with_table]
    | |- R ?x (put_in _ ?y _ _ _) => apply (Rtrans x y); [rch | apply si_with_table]
    | |- R ?x (put_stream ?y _ _ _) => apply (Rtrans x y); [rch | apply si_with_table]
    | |- R ?x (all_fold_start ?y) => unfold all_fold_start; rch
    | |- R ?x (all_fold_end ?y) => unfold all_fold_end; rch
    | |- R ?x (all_next_before ?y) => unfold all_next_before; rch
    | |- R ?x (all_next_after ?y) => unfold all_next_after; rch
    | |- R ?x (make_incomplete ?y) => apply (Rtrans x y); [rch | apply (fi_make_incomplete R HF)]
    | |- R ?x (flush_complete ?y) => apply (Rtrans x y); [rch | apply (fi_flush_complete R HF)]
    | |- R ?x (call_end ?y _) => apply (Rtrans x y); [rch | apply (fi_call_end R HF)]
    | |- R ?x (record_cid ?y _ _) => apply (Rtrans x y); [rch | apply (fi_record_cid R HF)]
    | H : set_canon_value ?z _ _ = POk ?y |- R ?x ?y => apply (Rtrans x z); [rch | apply (si_set_canon_value _ _ _ _ H)]
    | H : set_canon_map_value ?z _ _ = POk ?y |- R ?x ?y => apply (Rtrans x z); [rch | apply (si_set_canon_map_value _ _ _ _ H)]
    | H : set_scalar_value ?z _ _ = POk ?y |- R ?x ?y => apply (Rtrans x z); [rch | apply (fi_set_scalar_value' R HF _ _ _ _ H)]
    | H : add_stream_value ?z _ _ _ _ = POk ?y |- R ?x ?y => apply (Rtrans x z); [rch | apply (fi_add_stream_value' R HF _ _ _ _ _ _ H)]
    | H : R ?z ?y |- R ?x ?y => apply (Rtrans x z); [rch | exact H]
    end.

  Lemma sat_trans x y r : R x y -> res_sat R y r -> res_sat R x r.
  Proof. intros H. destruct r; cbn [res_sat]; auto; intros H2; rch. Qed.

  (* destruct every scrutinee of the goal, innermost first; never a sub-instruction *)
  Ltac dms :=
    match goal with
    | |- context [match ?d with _ => _ end] =>
        lazymatch d with
        | context [match _ with _ => _ end] => fail
        | _ => lazymatch type of d with
               | instr => fail
               | _ => destruct d eqn:?
               end
        end
    end.
  Lemma si_lift' {A} x y (r : pres A) k :
    R x y -> (forall a, r = POk a -> res_sat R x (k a)) -> res_sat R x (lift y r k).
  Proof. intros Hy H. destruct r; cbn [lift res_sat]; auto. Qed.
  Lemma si_with_handler' {A} x y (r : res A) k :
    R x y -> (forall a, r = Ok a -> res_sat R x (k a)) -> res_sat R x (with_handler y r k).
  Proof. intros Hy H. destruct r; cbn [with_handler res_sat]; auto. Qed.

  Ltac step :=
    first [ match goal with |- res_sat R ?x (with_handler ?y _ _) => apply (si_with_handler' x y); [rch | intros ? _] end
          | match goal with |- res_sat R ?x (lift ?y _ _) => apply (si_lift' x y); [rch | intros ? ?] end
          | dms ].
  (* equations left by si_lift': a local pres-valued match that answered POk *)
  Ltac hyps :=
    repeat match goal with
           | H : (match ?d with _ => _ end) = POk _ |- _ => destruct d eqn:?; try discriminate H
           | H : POk _ = POk _ |- _ => inversion H; subst; clear H
           end.
  Ltac crush := cbn [res_sat pres_sat fst snd];
                repeat (step; cbn [res_sat pres_sat fst snd]);
                hyps;
                first [exact I | discriminate | rch].

  Lemma si_with_trace x r k :
    (forall y, R x y -> res_sat R x (k y)) -> res_sat R x (with_trace x r k).
  Proof.
    intros H. unfold with_trace. apply (fi_with_handler R HF). intros h _. apply H. rch.
  Qed.

  Lemma si_exec_ap_stream x a sv : res_sat R x (exec_ap_stream x a sv).
  Proof. unfold exec_ap_stream. crush. Qed.

  Lemma si_exec_ap_map x k a m : res_sat R x (exec_ap_map x k a m).
  Proof. unfold exec_ap_map. crush. Qed.

  Lemma si_canon_epilog k x values t c : res_sat R x (canon_epilog k x values t c).
  Proof. unfold canon_epilog. crush. Qed.

  Lemma si_create_canon_first_time k tb x stream peer : res_sat R x (create_canon_first_time k tb x stream peer).
  Proof.
    unfold create_canon_first_time. eapply sat_trans; [| apply si_canon_epilog]. rch.
  Qed.

  Lemma si_handle_canon_executed k x p c : res_sat R x (handle_canon_executed k x p c).
  Proof.
    unfold handle_canon_executed. apply (fi_lift R HF). intros peer _.
    destruct (negb (cid_mem c (cs_canon_results (x_cids x)))); cbn [res_sat]; [rch |].
    destruct c; cbn [res_sat]; auto.
    destruct (negb (cid_mem c (cs_tetraplets (x_cids x)))); cbn [res_sat]; [rch |].
    destruct c; cbn [res_sat]; auto.
    apply (fi_lift R HF). intros _ _. apply (fi_lift R HF). intros vals _.
    eapply sat_trans; [| apply si_canon_epilog]. rch.
  Qed.

  Lemma si_run_compact_plan x pl : res_sat R x (run_compact_plan x pl).
  Proof. unfold run_compact_plan. crush. Qed.

  Lemma si_compactify_table t x : res_sat R x (compactify_table t x).
  Proof.
    unfold compactify_table. destruct (Stream.streams_compactify vagg va_pos _ (table_of t x)) as [m pl].
    eapply sat_trans; [| apply si_run_compact_plan]. rch.
  Qed.

  Lemma si_new_stream_epilog t x name : res_sat R x (new_stream_epilog t x name).
  Proof.
    unfold new_stream_epilog.
    destruct (Stream.streams_meet_scope_end vagg va_pos (table_of t x) name) as [[[m b] pl] | e | s]; cbn [res_sat]; auto; try rch.
    eapply sat_trans; [| apply si_run_compact_plan]. rch.
  Qed.

  (* ---------------------------------------------------------------------------------------- *)
  (* handle_unseen_canon is the one step that is not a frame *)
  Hypothesis Hfwd : forall x p, String.eqb p (current_peer x) = false -> R x (set_next_peers x (x_next_peers x ++ [p])).

  Lemma si_exec_canon_generic k tb x p stream : res_sat R x (exec_canon_generic k tb x p stream).
  Proof.
    unfold exec_canon_generic. apply (fi_with_handler R HF). intros rh _.
    set (x0 := set_handler x (snd rh)). assert (H0 : R x x0) by (unfold x0; rch).
    destruct (fst rh) as [| r].
    - destruct (resolve_peer_id_to_string x0 p) as [peer | e | s | w]; cbn [res_sat]; auto.
      + destruct (negb (String.eqb (current_peer x0) peer)) eqn:Ep; cbn [res_sat].
        * apply Bool.negb_true_iff in Ep. rewrite String.eqb_sym in Ep.
          pose proof (Hfwd (make_incomplete x0) peer Ep) as Hf.
          change (x_next_peers (make_incomplete x0)) with (x_next_peers x0) in Hf. rch.
        * eapply sat_trans; [exact H0 | apply si_create_canon_first_time].
      + destruct (is_joinable e); cbn [res_sat]; rch.
    - destruct r as [sender | c].
      + apply (sat_trans _ _ _ H0). apply (fi_lift R HF). intros peer _.
        destruct (negb (String.eqb (current_peer x0) peer)); cbn [res_sat]; [rch | apply si_create_canon_first_time].
      + eapply sat_trans; [exact H0 | apply si_handle_canon_executed].
  Qed.

  (* ---------------------------------------------------------------------------------------- *)
  Variable run : instr -> ctx -> xres.
  Hypothesis Hrun : forall i x, res_sat R x (run i x).

  Ltac dmr :=
    match goal with
    | |- context [match run ?a ?z with _ => _ end] =>
        let H := fresh "HI" in
        pose proof (Hrun a z) as H; destruct (run a z) eqn:?; cbn [res_sat] in H
    | |- context [match new_stream_epilog ?t ?y ?n with _ => _ end] =>
        let H := fresh "HE" in
        pose proof (si_new_stream_epilog t y n) as H; destruct (new_stream_epilog t y n) eqn:?; cbn [res_sat] in H
    | _ => step
    end.
  Ltac crushr := cbn [res_sat pres_sat fst snd];
                 repeat (dmr; cbn [res_sat pres_sat fst snd]);
                 hyps;
                 first [exact I | discriminate | rch
                       | eapply sat_trans; [| apply si_new_stream_epilog]; rch
                       | eapply sat_trans; [| apply Hrun]; rch ].

  Lemma si_exec_new_stream t x sv body sp : res_sat R x (exec_new_stream t run x sv body sp).
  Proof. unfold exec_new_stream. crushr. Qed.

  Lemma si_exec_new_canon_map x v body : res_sat R x (exec_new_canon_map run x v body).
  Proof. unfold exec_new_canon_map. crushr. Qed.

  Lemma si_fold_batch x batch fold_id iter body last : res_sat R x (fold_batch run x batch fold_id iter body last).
  Proof. unfold fold_batch. crushr. Qed.

  Lemma si_execute_iterations batches : forall x fold_id iter body last observed,
    res_sat R x (fst (execute_iterations run x batches fold_id iter body last observed)).
  Proof.
    induction batches as [| b rest IH]; intros x fold_id iter body last observed; cbn [execute_iterations fst res_sat].
    - rch.
    - destruct b as [| v b']; [apply IH |].
      destruct (meet_iteration_start cid (x_handler x) fold_id (va_pos v)) as [h | e | s]; cbn [fst res_sat]; auto; try rch.
      pose proof (si_fold_batch (set_handler x h) (v :: b') fold_id iter body last) as Hb.
      assert (Hafter : forall y, R x y ->
                res_sat R x (fst match meet_generation_end cid (x_handler y) fold_id with
                                 | Err e => (XErr (trace_err e) y, observed)
                                 | Crash _ => (XCrash "trace handler panic", observed)
                                 | Ok h' =>
                                     execute_iterations run (set_handler y h') rest fold_id iter body last
                                                        (observed || x_complete (set_handler y h'))
                                 end)).
      { intros y Hy. destruct (meet_generation_end cid (x_handler y) fold_id) as [h' | e | s]; cbn [fst res_sat]; auto.
        eapply sat_trans; [| apply IH]. rch. }
      destruct (fold_batch run (set_handler x h) (v :: b') fold_id iter body last) as [y | e y | | |];
        cbn [res_sat] in Hb; cbn [fst res_sat]; auto.
      + apply Hafter. rch.
      + destruct (is_catchable e); [apply Hafter; rch | cbn [fst res_sat]; rch].
  Qed.

  Lemma si_fold_stream_loop t n : forall x st rc sv iter body last fold_id observed,
    res_sat R x (fst (fold_stream_loop t n run x st rc sv iter body last fold_id observed)).
  Proof.
    induction n as [| n IH]; intros x st rc sv iter body last fold_id observed;
      destruct st as [batches |]; cbn [fold_stream_loop fst res_sat]; auto; try rch.
    pose proof (si_execute_iterations batches x fold_id iter body last observed) as He.
    destruct (execute_iterations run x batches fold_id iter body last observed) as [r obs].
    destruct r as [y | e y | | |]; cbn [fst res_sat] in *; auto.
    destruct (get_in t y (v_name sv) (v_pos sv)) as [s |]; cbn [fst res_sat]; auto.
    destruct (Stream.met_iteration_end vagg rc s) as [[[st' rc'] s'] | e | c]; cbn [fst res_sat]; auto.
    eapply sat_trans; [| apply IH]. rch.
  Qed.

  Lemma si_exec_fold_stream t x sv iter body last : res_sat R x (exec_fold_stream t run x sv iter body last).
  Proof.
    unfold exec_fold_stream. destruct (get_in t x (v_name sv) (v_pos sv)) as [s |]; cbn [res_sat]; [| rch].
    eapply sat_trans with (y := set_fold_counter x (x_fold_counter x + 1)); [rch |].
    apply si_with_trace. intros x2 H2.
    destruct (Stream.met_fold_start vagg Stream.rcursor_new s) as [[[st rc] s'] | e | c]; cbn [res_sat]; auto.
    pose proof (si_fold_stream_loop t fold_rounds (put_in t x2 (v_name sv) (v_pos sv) s') st rc sv iter body last
                                    (x_fold_counter x + 1) false) as Hl.
    destruct (fold_stream_loop t fold_rounds run _ st rc sv iter body last (x_fold_counter x + 1) false) as [r obs].
    destruct r as [y | e y | | |]; cbn [fst res_sat] in *; auto; try rch.
    eapply sat_trans with (y := set_complete y obs); [rch |].
    apply si_with_trace. intros y2 Hy2. cbn [res_sat]. exact Hy2.
  Qed.

  Lemma si_exec_next_stream x iter fs fold_id : res_sat R x (exec_next_stream run x iter fs fold_id).
  Proof.
    unfold exec_next_stream. apply si_with_trace. intros x0 H0.
    destruct (it_next (fs_iterable fs)) as [moved it'].
    destruct (negb moved).
    - eapply sat_trans; [exact H0 |]. apply si_with_trace. intros x1 H1.
      destruct (fs_last fs) as [li |].
      + eapply sat_trans; [| apply Hrun]. rch.
      + destruct (negb (fs_back_started fs)); cbn [res_sat]; rch.
    - destruct (it_peek it') as [item |]; cbn [res_sat]; auto.
      eapply sat_trans with (y := set_iterables x0 _); [rch |].
      apply si_with_trace. intros x2 H2.
      repeat dmr; cbn [res_sat]; auto; try rch.
      eapply sat_trans with (y := set_iterables _ _); [| apply si_with_trace; intros y2 Hy2; cbn [res_sat]; exact Hy2].
      rch.
  Qed.

  Lemma si_stream_instr i x r : stream_instr run i x = Some r -> res_sat R x r.
  Proof.
    unfold stream_instr.
    destruct i; try discriminate;
      repeat match goal with |- context [match ?d with _ => _ end] => destruct d end; try discriminate;
      intros E; inversion E; subst;
      first [ apply si_exec_ap_stream | apply si_exec_ap_map | apply si_exec_canon_generic | apply si_exec_fold_stream
            | apply si_exec_new_stream | apply si_exec_new_canon_map | apply si_exec_next_stream ].
  Qed.

End StreamsInv.

(* with exactly the two hypotheses the stream instructions use *)
Theorem stream_instr_preserves_call R :
  frame_invariant R ->
  (forall x p, String.eqb p (current_peer x) = false -> R x (set_next_peers x (x_next_peers x ++ [p]))) ->
  hook_preserves R stream_instr.
Proof. intros HF Hfw run Hrun i x r E. apply (si_stream_instr R HF Hfw run Hrun i x r E). Qed.

Theorem stream_instr_preserves R : exec_invariant R -> hook_preserves R stream_instr.
Proof. intros HE. apply (stream_instr_preserves_call R (ei_frame R HE) (ei_forward R HE)). Qed.

Theorem exec2_inv R : exec_invariant R -> forall fuel i x, res_sat R x (exec stream_instr fuel i x).
Proof. intros HE. apply (exec_inv R HE stream_instr (stream_instr_preserves R HE)). Qed.

Lemma finish_streams_inv R : frame_invariant R -> forall x y, finish_streams x = inl y -> R x y.
Proof.
  intros HF x y. unfold finish_streams.
  pose proof (si_compactify_table R HF TStreams x) as H1.
  destruct (compactify_table TStreams x) as [x1 | e x1 | | |]; cbn [res_sat] in H1;
    try discriminate; [| destruct e; discriminate].
  pose proof (si_compactify_table R HF TMaps x1) as H2.
  destruct (compactify_table TMaps x1) as [x2 | e x2 | | |]; cbn [res_sat] in H2;
    try discriminate; [| destruct e; discriminate].
  intros E. inversion E; subst. apply (fi_trans R HF _ _ _ H1 H2).
Qed.

Lemma finish_streams_frame x y : finish_streams x = inl y -> frame x y.
Proof. apply (finish_streams_inv frame frame_is_frame_invariant). Qed.
