(* SeqProofs.v -- lemmas about the sequential reading (model/SeqSem.v) itself. *)
From Aqua Require Import Base Json Air SeqSem.
From Coq Require Import Lia.
Open Scope N_scope.
Open Scope list_scope.

Section Sanity.
  Variable svc : string -> string -> string -> list json -> answer.
  Variable known : call_ev -> bool.
  Variable init_peer : string.
  Variable timestamp ttl : N.

  Notation step := (seq_step svc known init_peer timestamp ttl).
  Notation eval := (seq_eval svc known init_peer timestamp ttl).

  (* [ev'] answers like [ev] wherever [ev] has an answer *)
  Definition refines (ev ev' : env -> instr -> outcome) : Prop :=
    forall e i, ev e i <> OutOfFuel -> ev' e i = ev e i.

  Lemma andthen_refines : forall (o o' : outcome) k k',
      (o <> OutOfFuel -> o' = o) ->
      (forall cs e st, k cs e st <> OutOfFuel -> k' cs e st = k cs e st) ->
      andthen o k <> OutOfFuel -> andthen o' k' = andthen o k.
  Proof.
    intros o o' k k' Ho Hk H. destruct o as [cs e st| |w]; simpl in *.
    - rewrite Ho by discriminate. simpl. apply Hk. exact H.
    - congruence.
    - rewrite Ho by discriminate. reflexivity.
  Qed.

  Lemma more_refines : forall cs (o o' : outcome) f,
      (o <> OutOfFuel -> o' = o) ->
      more cs o f <> OutOfFuel -> more cs o' f = more cs o f.
  Proof.
    intros cs o o' f Ho H. destruct o as [cs' e st| |w]; simpl in *.
    - rewrite Ho by discriminate. reflexivity.
    - congruence.
    - rewrite Ho by discriminate. reflexivity.
  Qed.

  Lemma early_refines : forall A e (r : rres A) k k',
      (forall a, k a <> OutOfFuel -> k' a = k a) ->
      early e r k <> OutOfFuel -> early e r k' = early e r k.
  Proof. intros A e r k k' Hk H. destruct r; simpl in *; auto. Qed.

  Lemma step_refines : forall ev ev', refines ev ev' -> refines (step ev) (step ev').
  Proof.
    intros ev ev' R e i H.
    destruct i; simpl in *; try reflexivity.
    - (* seq *)
      apply andthen_refines; auto. intros cs e1 st Hk.
      destruct st; try reflexivity; apply more_refines; auto.
    - (* par *)
      apply andthen_refines; auto. intros cs e1 st Hk. apply more_refines; auto.
    - (* xor *)
      apply andthen_refines; auto. intros cs e1 st Hk.
      destruct st; try reflexivity; apply more_refines; auto.
    - (* match *)
      apply early_refines; auto. intros lv Hl. apply early_refines; auto. intros rv Hr.
      destruct (Bool.eqb (json_eqb lv rv) true); try reflexivity. apply more_refines; auto.
    - (* mismatch *)
      apply early_refines; auto. intros lv Hl. apply early_refines; auto. intros rv Hr.
      destruct (Bool.eqb (json_eqb lv rv) false); try reflexivity. apply more_refines; auto.
    - (* fold *)
      apply early_refines; auto. intros xs Hx. destruct xs; try reflexivity. apply more_refines; auto.
    - (* new *)
      destruct a; try reflexivity. apply more_refines; auto.
    - (* next *)
      destruct (assoc (iters e) (v_name iter)) as [st|]; try reflexivity.
      destruct (is_rest st) as [|x [|y rest]].
      + destruct (is_last st); try reflexivity. apply more_refines; auto.
      + destruct (is_last st); try reflexivity. apply more_refines; auto.
      + apply more_refines; auto.
  Qed.

  Lemma eval_refines_succ : forall f, refines (eval f) (eval (S f)).
  Proof.
    induction f as [|f IH].
    - intros e i H. simpl in H. congruence.
    - change (eval (S (S f))) with (step (eval (S f))). change (eval (S f)) with (step (eval f)) at 1.
      apply step_refines. exact IH.
  Qed.

  (* more fuel, same result once the evaluation has an answer *)
  Lemma seq_eval_fuel_mono : forall f f' e i,
      (f <= f')%nat -> eval f e i <> OutOfFuel -> eval f' e i = eval f e i.
  Proof.
    intros f f' e i Hle. induction Hle as [|m Hle IH]; intros H.
    - reflexivity.
    - rewrite <- IH by exact H. apply eval_refines_succ. rewrite IH by exact H. exact H.
  Qed.

  (* two evaluations that both have an answer agree: the answer does not depend on the fuel *)
  Lemma seq_eval_fuel_indep : forall f f' e i,
      eval f e i <> OutOfFuel -> eval f' e i <> OutOfFuel -> eval f e i = eval f' e i.
  Proof.
    intros f f' e i H H'. destruct (Nat.le_ge_cases f f') as [L|L].
    - symmetry. apply seq_eval_fuel_mono; assumption.
    - apply seq_eval_fuel_mono; assumption.
  Qed.
End Sanity.

(* the reading is a function of the script and of the services (and of what is known): pointwise equal
   service functions give the same evaluation *)
Lemma early_ext : forall A e (r : rres A) k k', (forall a, k a = k' a) -> early e r k = early e r k'.
Proof. intros A e r k k' H. destruct r; simpl; auto. Qed.
Lemma andthen_ext : forall o k k', (forall cs e st, k cs e st = k' cs e st) -> andthen o k = andthen o k'.
Proof. intros o k k' H. destruct o; simpl; auto. Qed.

Lemma step_ext : forall svc svc' known known' p ts ttl ev ev',
    (forall a b c d, svc a b c d = svc' a b c d) -> (forall c, known c = known' c) ->
    (forall e i, ev e i = ev' e i) ->
    forall e i, seq_step svc known p ts ttl ev e i = seq_step svc' known' p ts ttl ev' e i.
Proof.
  intros svc svc' known known' p ts ttl ev ev' Hs Hk He e i.
  destruct i; simpl; try reflexivity; repeat rewrite He; try reflexivity.
  - (* call *)
    repeat (apply early_ext; intros). rewrite Hk, Hs. reflexivity.
  - (* seq *)
    apply andthen_ext. intros cs e1 st. destruct st; try reflexivity; rewrite He; reflexivity.
  - apply andthen_ext. intros cs e1 st. rewrite He; reflexivity.
  - apply andthen_ext. intros cs e1 st. destruct st; try reflexivity; rewrite He; reflexivity.
  - repeat (apply early_ext; intros). destruct a; try reflexivity. rewrite He; reflexivity.
  - destruct a; try reflexivity. rewrite He; reflexivity.
  - destruct (assoc (iters e) (v_name iter)) as [st|]; try reflexivity.
    destruct (is_rest st) as [|x [|y rest]]; try (destruct (is_last st); try reflexivity); rewrite He; reflexivity.
Qed.

Lemma seq_eval_ext : forall svc svc' known known' p ts ttl,
    (forall a b c d, svc a b c d = svc' a b c d) -> (forall c, known c = known' c) ->
    forall f e i, seq_eval svc known p ts ttl f e i = seq_eval svc' known' p ts ttl f e i.
Proof.
  intros svc svc' known known' p ts ttl Hs Hk f. induction f as [|f IH]; intros e i.
  - reflexivity.
  - simpl. apply step_ext; assumption.
Qed.
