"""Shared parts of checks/C06.py and checks/C05.py: the histories that go through the driver
`ids06` (harness/src/bin/ids06.rs): scripts whose call sites have unique function names, services whose
results carry the id of the request they answer, schedules that hand back results in arbitrary
subsets together with stale / never issued ids and with new current data."""
import json
import os

import airgen
import vlib

HEADER = ("From Aqua Require Import Base Json Air Trace Handler Values Scalars Lens Exec RunExec ExecCases CallSpec IdsSpec IdsCases.\n"
          "Open Scope N_scope.\nOpen Scope list_scope.\n")
TYPE = "case_t"

SERVICES = airgen.DEFAULT_SERVICES + [
    ["s", "raw", {"raw": [0, "this is not JSON"]}],
    ["s", "cnt", {"const": 7}],
]


# ------------------------------------------------------------------------------------------------
# unique call sites

def _skip_string(s, i):
    j = i + 1
    while j < len(s) and s[j] != '"':
        j += 2 if s[j] == "\\" else 1
    return j + 1


def _matching_bracket(s, i):
    """index just after the bracket list starting at s[i] == '['"""
    depth, j = 0, i
    while j < len(s):
        ch = s[j]
        if ch == '"':
            j = _skip_string(s, j)
            continue
        if ch == "[":
            depth += 1
        elif ch == "]":
            depth -= 1
            if depth == 0:
                return j + 1
        j += 1
    return len(s)


def uniquify(script):
    """Give every call site its own function name `fn#k` and append the iterators of the enclosing folds to
    its arguments (so that a call instance is identified by function + arguments).  Returns the new script
    and the list of function names of the sites that are inside a fold over a STREAM."""
    out = []
    folds = []          # (iterator, depth of the fold's parenthesis, over_stream)
    depth = 0
    site = 0
    stream_sites = []
    i = 0
    n = len(script)
    while i < n:
        ch = script[i]
        if ch == '"':
            j = _skip_string(script, i)
            out.append(script[i:j])
            i = j
            continue
        if ch == "(":
            depth += 1
            if script.startswith("(fold ", i):
                toks = script[i + 6:i + 200].split()
                if len(toks) >= 2:
                    folds.append((toks[1], depth, toks[0].startswith("$")))
            elif script.startswith("(call ", i):
                # (call TARGET ("s" "fn") [args] out?)
                j = i + 6
                if script[j] == '"':
                    j = _skip_string(script, j)
                else:
                    while script[j] != " ":
                        j += 1
                head = script[i:j]
                rest = script[j:]
                pre = ' ("s" "'
                if rest.startswith(pre):
                    k = rest.index('"', len(pre))
                    fn = rest[len(pre):k]
                    after = rest[k:]            # '") [args]...'
                    if after.startswith('") ['):
                        a0 = j + k + 3
                        a1 = _matching_bracket(script, a0)
                        args = script[a0 + 1:a1 - 1].strip()
                        site += 1
                        name = "%s#%d" % (fn, site)
                        its = [f[0] for f in folds]
                        extra = " ".join(x for x in its if x not in args.split())
                        new_args = (args + " " + extra).strip()
                        if any(f[2] for f in folds):
                            stream_sites.append(name)
                        out.append('%s ("s" "%s") [%s]' % (head, name, new_args))
                        i = a1
                        continue
            out.append(ch)
            i += 1
            continue
        if ch == ")":
            while folds and folds[-1][1] >= depth:
                folds.pop()
            depth -= 1
        out.append(ch)
        i += 1
    return "".join(out), stream_sites


# ------------------------------------------------------------------------------------------------
# scripts for long run sequences on one peer

def _call(n, fn, args="", out=""):
    return '(call "@A" ("s" "%s") [%s]%s)' % (fn, args, (" " + out) if out else "")


def chain_script(rng, width, length, with_fold=True, with_fail=True):
    """(seq (par c1 .. cw) (seq d1 (seq d2 ...))): `width` calls pending at once, then `length` calls one
    after the other, each seeing the result of the one before."""
    fns = ["id", "num", "obj", "args", "tag", "cnt", "arr"]
    pars = []
    for k in range(width):
        fn = rng.choice(fns + (["fail"] if with_fail and rng.random() < 0.15 else []))
        out = rng.choice(["p%d" % k, "p%d" % k, "", "$ps"])
        if fn == "fail":
            out = ""
        pars.append(_call(k, fn, '"w%d"' % k, out))
    if with_fail:
        pars = [("(xor %s (null))" % p) if '"fail"' in p else p for p in pars]
    tree = pars[-1] if pars else "(null)"
    for p in reversed(pars[:-1]):
        tree = "(par %s %s)" % (p, tree)
    chain = "(null)"
    prev_vars = ["q%d" % k for k in range(length)]
    for k in reversed(range(length)):
        arg = prev_vars[k - 1] if k > 0 else '"first"'
        fn = rng.choice(["id", "args", "obj", "cnt"])
        c = _call(k, fn, arg, prev_vars[k])
        if with_fail and rng.random() < 0.1:
            c = "(seq (xor %s (null)) %s)" % (_call(k, "fail", arg), c)
        chain = "(seq %s %s)" % (c, chain)
    body = "(seq %s %s)" % (tree, chain)
    if with_fold and rng.random() < 0.6:
        mode = rng.choice(["par", "seq"])
        inner = '(call "@A" ("s" "args") [i "in-fold"] $fs)' if rng.random() < 0.5 else '(seq (call "@A" ("s" "id") [i] y) (call "@A" ("s" "args") [y i]))'
        fold = ('(seq (call "@A" ("s" "arr") [] xs) (fold xs i (%s %s (next i))))' % (mode, inner))
        body = "(seq %s %s)" % (fold, body) if rng.random() < 0.5 else "(par %s %s)" % (fold, body)
    return body


def adversarial_return_ops(rng, n_runs, peers=1, p_extra=0.5, with_cur=False):
    ops = [["start"]]
    for _ in range(n_runs):
        x = rng.random()
        p = rng.randrange(peers)
        if x < 0.06:
            ops.append(["idle", p])
            continue
        if peers > 1 and x < 0.35:
            ops.append([rng.choice(["d", "d", "d", "dup", "re"]), rng.randrange(8)])
            continue
        # which pending ids: one, a few, all
        y = rng.random()
        mask = (1 << rng.randrange(6)) if y < 0.45 else rng.randrange(1, 64) if y < 0.8 else 0
        extra = {"sel": rng.randrange(1000)}
        if rng.random() < p_extra:
            extra["stale"] = rng.choice([0, 1, 1, 2, 3])
            extra["never"] = rng.choice([0, 0, 1, 1, 2])
        if with_cur and rng.random() < 0.3:
            extra["cur"] = rng.randrange(4)
        ops.append(["r", p, mask, extra])
    return ops


def drain_ops(peers, rounds=14):
    ops = []
    for _ in range(rounds):
        for p in range(peers):
            ops.append(["r", p, 0, {}])
        ops.append(["d", 0])
    return ops


def sequence_case(rng, tier, oracles, long=False, probe_max=6):
    """one peer, many runs"""
    if long:
        width = rng.choice([20, 40, 60]) if tier == "thorough" else rng.choice([6, 10])
        length = rng.choice([30, 60, 90]) if tier == "thorough" else rng.choice([6, 12])
    else:
        width = rng.choice([2, 3, 5, 8])
        length = rng.choice([2, 4, 6])
    script = chain_script(rng, width, length)
    script, stream_sites = uniquify(script)
    n_runs = (width + length) * 2 + 10
    n_runs = min(n_runs, 210)
    ops = adversarial_return_ops(rng, n_runs, peers=1)
    return {"script": script, "peers": ["A"], "init": 0, "services": SERVICES, "ops": ops + drain_ops(1, 6 if not long else 30),
            "oracles": list(oracles), "stream_fold_sites": stream_sites, "gen": "chain-long" if long else "chain",
            "probe": ({"every": 0, "at": sorted({0, rng.randrange(5, 40), rng.randrange(40, max(41, n_runs - 10))}), "special": True, "max": probe_max}
                      if long else {"every": 3, "special": True, "max": probe_max}), "seed": rng.randrange(1 << 30)}


def generated_case(rng, tier, oracles, peers=3, streams=True, n_ops=None, p_extra=0.4, probe_max=5):
    prof = airgen.Profile(peers=peers, depth=rng.choice([3, 4, 4, 5]), streams=streams, canon=streams and rng.random() < 0.6,
                          stream_folds=streams, var_targets=peers > 1, last_error=False,
                          par_weight=rng.choice([3, 5]), xor_weight=rng.choice([1, 2, 3]))
    script = airgen.gen_script(rng, prof)
    script, stream_sites = uniquify(script)
    n = n_ops if n_ops is not None else rng.choice([10, 18, 30])
    ops = adversarial_return_ops(rng, n, peers=peers, p_extra=p_extra, with_cur=peers > 1)
    return {"script": script, "peers": airgen.PEERS[:peers], "init": 0, "services": SERVICES, "ops": ops + drain_ops(peers),
            "oracles": list(oracles), "stream_fold_sites": stream_sites, "gen": "airgen/%dp%s" % (peers, "/streams" if streams else ""),
            "probe": {"every": 4, "special": True, "max": probe_max}, "seed": rng.randrange(1 << 30)}


# the history of DESIGN section 7-11 (stream fold cursor hole), with tagged services and unique sites
HOLE_SCRIPT = ('(seq (par (call "@A" ("s" "va#1") [] $s) (call "@B" ("s" "vb#2") [] $s)) '
               '(seq (call "@P" ("s" "gate#3") [] g) '
               '(seq (fold $s i (seq (xor (match i.$.v "a" (ap "c" $s)) (null)) (seq (call "@P" ("s" "visit#4") [i]) (next i))) (null)) '
               '(call "@Q" ("s" "end#5") []))))')


def hole_case(oracles):
    return {"script": HOLE_SCRIPT, "peers": ["P", "A", "B", "Q"], "init": 0,
            "services": [["s", "va", {"const": "a"}], ["s", "vb", {"const": "b"}], ["s", "gate", {"const": 1}],
                         ["s", "visit", {"const": "visited"}], ["s", "end", {"const": 0}]],
            "ops": [["start"], ["d", 0], ["r", 1, 0, {}], ["d", 1], ["r", 0, 0, {}], ["r", 0, 0, {}], ["r", 0, 0, {}],
                    ["d", 0], ["r", 2, 0, {}], ["d", 0], ["r", 0, 0, {}], ["r", 0, 0, {}]] + drain_ops(4),
            "oracles": list(oracles), "stream_fold_sites": ["visit#4"], "gen": "fixed/stream-fold-hole",
            "probe": {"every": 0, "special": False, "max": 0}, "seed": 0}


# ------------------------------------------------------------------------------------------------

def evaluate(cases, result, checks, tag, known_keys=(), shard_size=16, property_id=None):
    """Runs the cases through `ids06`; Rust-side oracle failures come back in `oracle_failures`; the
    ecase terms go to Coq for `checks` (name -> function; names starting with 'oracle' are property
    oracles, the others correspondence)."""
    if not cases:
        return
    if property_id:
        # corpus replays recorded for other drivers / properties: evaluate this property's oracles on them too
        cases = [dict(c, oracles=sorted(set(c.get("oracles") or []) | {property_id})) for c in cases]
    outs = vlib.harness_lines("ids06", [json.dumps(c) for c in cases], timeout=1800)
    terms, owner = [], []
    dist = result["distribution"]
    for ci, o in enumerate(outs):
        case = cases[ci]
        if "error" in o:
            result["errors"].append(o["error"])
            continue
        hdr = "let script := %s in " % o["script_term"]
        for ti, t in enumerate(o["coq"]):
            terms.append("(" + hdr + t + ")")
            owner.append((ci, ti))
        for cl in o["classes"]:
            dist["probed " + cl] = dist.get("probed " + cl, 0) + 1
        for k, v in o.get("stats", {}).items():
            dist[k] = dist.get(k, 0) + int(v)
        result["evaluations"] += int(o.get("runs", 0))
        dist["histories"] = dist.get("histories", 0) + 1
        g = "gen " + case.get("gen", "replay")
        dist[g] = dist.get(g, 0) + 1
        dist["service invocations"] = dist.get("service invocations", 0) + int(o.get("invocations", 0))
        dist["max runs on one peer in one history"] = max(dist.get("max runs on one peer in one history", 0), int(o.get("max_runs_one_peer", 0)))
        dist["max request id"] = max(dist.get("max request id", 0), int(o.get("max_id") or 0))
        if int(o.get("invocations", 0)) > 0:
            result["distinct"].add(json.dumps([case["script"], case["ops"]], sort_keys=True))
        for f in o.get("oracle_failures", []):
            if property_id and f.get("property") != property_id:
                continue
            key = f.get("key")
            result["oracle_fail"].append({"case": dict(case), "detail": f, "key": key if key in known_keys else None,
                                          "raw_key": key,
                                          "what": "property oracle false on the implementation: %s" % f.get("what", "")})
            dist["oracle failure " + str(key)] = dist.get("oracle failure " + str(key), 0) + 1
        if len(result["samples"]) < 3 and o["coq"]:
            result["samples"].append({"case": {k: case[k] for k in ("script", "ops", "peers")}, "first_term": o["coq"][0][:600]})
    if not terms or not checks:
        return
    # spread the terms over the shards round-robin: the heavy terms (late runs of long histories) come in blocks
    nshards = max(1, (len(terms) + shard_size - 1) // shard_size)
    order = sorted(range(len(terms)), key=lambda i: (i % nshards, i))
    terms = [terms[i] for i in order]
    owner = [owner[i] for i in order]
    fails, errs = vlib.coq_eval_cases(tag, HEADER, TYPE, checks, terms, shard_size=shard_size)
    result["errors"].extend(errs)
    dist["runs given to the model"] = dist.get("runs given to the model", 0) + len(terms)
    for name, idxs in fails.items():
        if name.startswith("count"):
            dist[name] = dist.get(name, 0) + (len(terms) - len(idxs))
            continue
        for i in idxs:
            ci, ti = owner[i]
            info = outs[ci]["info"][ti] if ti < len(outs[ci]["info"]) else {}
            entry = {"case": dict(cases[ci], probe_steps=[info.get("step")]) if info.get("step") is not None else dict(cases[ci]),
                     "term_index": ti, "info": info, "check": name}
            if name.startswith("oracle"):
                entry["what"] = "property oracle %s (Coq) is false on the implementation's observation" % checks[name]
                entry["key"] = None
                result["oracle_fail"].append(entry)
            else:
                entry["what"] = "the executor model (%s) disagrees with the implementation on this run" % checks[name]
                result["mismatch"].append(entry)
