"""C03 -- every produced data is accepted and verifiable by any other peer."""
import json
import os

import airgen
import exec_common
import sched04
import vlib

PID = "C03"
MODEL_TARGETS = ["model/ExecCases.vo", "model/SignCases.vo"]
HARNESS_BINS = ["exec"]
RULE = ("a case is one honest multi-peer history of one particle (generated script, deterministic service table, random delivery "
        "order with duplications, re-deliveries and partial call-result batches, then a deterministic drain). After EVERY run "
        "that returns new data (code 0, 10000-19999, 30000) the Rust oracle harness/src/oracles.rs c03 -- written from the "
        "property text -- requires of the REAL output bytes: they decode; interpreter_version >= min_supported_version(); "
        "CidInfo::verify() (every stored item hashes to its CID, store-to-store references present); every service-result / "
        "canon-result CID of the trace is in its store; DataVerifier::new(data, particle_id).verify() with the real Ed25519 "
        "keys (EVERY peer with results in the trace, salt = particle id); an observer peer with empty previous data runs "
        "execute_air with the bytes as current data and must not answer a preparation error. In addition: every participant "
        "that receives data in the history must not answer a preparation error (codes 1-9999), the current peer's own signature "
        "must verify over exactly the CIDs the trace attributes to it (info.sig_ok, real crypto), and two oracles are "
        "evaluated in Coq on the implementation's observation (SignCases.c03_oracle_closed = SignSpec.store_closed incl. the "
        "provenance references, c03_oracle_attr). Correspondence: every run is given to the executor model (run2) and compared "
        "on kind/code, the multiset of CIDs the signing step signs (model: x_tracker; implementation: CIDs the real trace "
        "attributes to the current peer), the references of the trace and the five stores (c03_check); SignSpec.attributed_cids "
        "is cross-checked against the harness's copy of collect_peers_cids_from_trace on every real trace (c03_attr_agrees). "
        "evaluations = runs of execute_air; distinct non-trivial = (script, run position, code, trace length) of runs whose "
        "output trace is not empty. Streams of cases: random scripts over 3-5 peers with streams / canon / scalar and stream "
        "folds / new / xor / failing services (ret_code != 0) / services whose result is not JSON / calls without output; relay "
        "chains through 3-5 peers mixing all of these; par windows of different shape meeting at one peer; recursive stream folds (known finding stream-fold-cursor-hole).")
PARTIAL = ["C03_full is kept as a Definition. Proved for every script / data / results / fuel over run2 (call, seq, par, xor, match, "
           "fail, ap, new, scalar folds, streams, canon, stream folds, compactification): the signed multiset equals the multiset "
           "the verifier attributes to the current peer (C03_own_signature), the verifier's lookups succeed, the own signature "
           "verifies (C03_sig_verifies), every trace reference is in the stores and the stores stay reference-closed "
           "(C03_store_closed) EXCEPT the provenance reference of canon elements (CanonCidAggregate.provenance -> service / canon "
           "result store): it needs an invariant over every value held in scalars / streams / iterables and is checked by the "
           "oracle (CidInfo::verify on the real bytes + c03_oracle_closed) only",
           "signatures of OTHER peers carried along (C03_foreign_full: the output trace attributes to a foreign peer exactly the "
           "larger of the two input multisets) are not proved: C03_foreign_partial shows that the signature kept by the "
           "verification step verifies on the output IF that multiset equality holds; the equality needs the merge invariant of "
           "the trace handler over whole histories (DESIGN appendix B) and is REFUTED for recursive stream folds by the known "
           "finding stream-fold-cursor-hole (replayed in corpus/C03/stream_fold_hole_signature.json); the oracle checks every "
           "foreign signature with the real keys on every run",
           "C03_accepted is conditional on foreign_ok (the foreign signatures verify), on the receiving peer's previous data being "
           "comparable (no equivocation, C15) and on the provenance references (cid_info_verify = cid_info_verify_np)",
           "decoding and 'every stored item hashes to its CID' are by construction in the model (symbolic CIDs); on the real "
           "bytes they are observations of the oracle (decode_data, CidInfo::verify)"]
ASSUMPTIONS = ["symbolic content ids: a CID is the content term it was computed from (collision resistance, DESIGN section 5); "
               "cid_eqb decides equality (proved: SignProofs.cid_eqb_true_eq)",
               "Ed25519 is unforgeable and borsh((cids, salt)) is injective: a signature is the term Sig signer cids salt "
               "(model/Sig.v); the key pair handed to execute_air belongs to current_peer_id (the host contract; the harness "
               "derives both from the peer name)",
               "the real CID text of a content term is an arbitrary function cid_text : cid -> string in C03_sig_verifies / "
               "C03_accepted (no injectivity needed for 'verifies')",
               "services are deterministic functions of (peer, service, function, arguments); the host follows air/README.md"]

ORACLES = ["C03"]
BAD_SERVICES = [["s", "bad", {"raw": [0, "not json {"]}], ["s", "bad2", {"raw": [0, ""]}], ["s", "bad3", {"raw": [0, "{\"a\": 1,}"]}]]
SERVICES = airgen.DEFAULT_SERVICES + BAD_SERVICES
KNOWN_HOLE = "stream-fold-cursor-hole"

HOLE_SCRIPT = ('(seq (par (call "@B" ("s" "va") [] $s) (call "@C" ("s" "vb") [] $s)) (seq (call "@A" ("s" "gate") [] g) '
               '(seq (fold $s i (seq (xor (match i "a" (ap "c" $s)) (null)) (seq (call "@A" ("s" "visit") [i] w) '
               '(seq (call "@D" ("s" "note") [i]) (next i)))) (null)) (call "@D" ("s" "end") []))))')
HOLE_SERVICES = [["s", "va", {"const": "a"}], ["s", "vb", {"const": "b"}], ["s", "gate", {"const": 1}], ["s", "visit", {"echo": 0}],
                 ["s", "note", {"const": 0}], ["s", "end", {"const": 0}]]


# par windows of different shape meeting at one peer, continued on another peer (the par FSM left-window defect, fixed in /repo
# by f72c6f7, showed up here as a signature that no longer covered the owner's results: corpus/C03/par_left_window_signature.json)
PAR_SCRIPTS = [
    '(seq (par (seq (par (call "@C" ("s" "args") [[]] v1) (call "@B" ("s" "arr") [] v2)) (call "@A" ("s" "num") ["lit" v1 v2.$.length])) '
    '(new v7 (call "@A" ("s" "tag") [] v7))) (call "@B" ("s" "tag") [] z))',
    '(seq (par (seq (par (call "@C" ("s" "args") [[]] v1) (call "@B" ("s" "arr") [] v2)) (call "@A" ("s" "num") ["lit" v1 v2.$.length])) '
    '(par (call "@A" ("s" "tag") [] v7) (call "@C" ("s" "tag") [] v8))) (call "@B" ("s" "tag") [] z))',
    '(seq (par (seq (par (call "@B" ("s" "tag") [] v1) (call "@C" ("s" "bad") [] v2)) (call "@A" ("s" "id") [v2])) '
    '(seq (call "@A" ("s" "tag") [] $st) (canon "@A" $st #can))) (call "@C" ("s" "args") [#can] z))',
]


def sprinkle_bad(rng, script, p):
    """replace some calls of total services by services whose result is not JSON"""
    out = []
    for part in script.split('("s" "num")'):
        out.append(part)
    res = out[0]
    for part in out[1:]:
        res += ('("s" "%s")' % rng.choice(["bad", "bad2", "bad3"])) if rng.random() < p else '("s" "num")'
        res += part
    out = res.split('("s" "tag")')
    res = out[0]
    for part in out[1:]:
        res += ('("s" "%s")' % rng.choice(["bad", "bad3"])) if rng.random() < p / 2 else '("s" "tag")'
        res += part
    return res


def relay_script(rng, n):
    """data relayed through n peers: every hop adds results of a different kind"""
    peers = airgen.PEERS[:n]
    order = peers[:]
    rng.shuffle(order)
    hops = []
    names = []
    streams = ["$st"]
    for k, p in enumerate(order + [rng.choice(peers) for _ in range(rng.randint(0, 2))]):
        kind = rng.choice(["scalar", "scalar", "stream", "none", "fail", "bad", "canon", "dupcall", "fold"])
        arg = "[%s]" % (rng.choice(names) if names and rng.random() < 0.6 else "")
        if kind == "scalar":
            v = "r%d" % k
            names.append(v)
            hops.append('(call "@%s" ("s" "%s") %s %s)' % (p, rng.choice(["tag", "args", "num"]), arg, v))
        elif kind == "stream":
            hops.append('(call "@%s" ("s" "%s") %s %s)' % (p, rng.choice(["tag", "args"]), arg, rng.choice(streams)))
        elif kind == "none":
            hops.append('(call "@%s" ("s" "%s") %s)' % (p, rng.choice(["tag", "num", "arr"]), arg))
        elif kind == "fail":
            hops.append('(xor (call "@%s" ("s" "%s") %s) (call "@%s" ("s" "tag") []))' % (p, rng.choice(["fail", "fail2"]), arg, rng.choice(peers)))
        elif kind == "bad":
            out = rng.choice(["", " b%d" % k, " $st"])
            hops.append('(xor (call "@%s" ("s" "%s") %s%s) (null))' % (p, rng.choice(["bad", "bad2", "bad3"]), arg, out))
        elif kind == "canon":
            hops.append('(seq (ap "x%d" $st) (canon "@%s" $st #can%d))' % (k, p, k))
        elif kind == "dupcall":
            # the same call twice: the same service-result CID appears twice in the peer's multiset
            hops.append('(seq (call "@%s" ("s" "num") [] d%da) (call "@%s" ("s" "num") [] d%db))' % (p, k, p, k))
        else:
            hops.append('(seq (call "@%s" ("s" "arr") [] a%d) (fold a%d it%d (seq (call "@%s" ("s" "id") [it%d] $st) (next it%d))))'
                        % (p, k, k, k, rng.choice(peers), k, k))
    if rng.random() < 0.3:
        hops.append('(call "@%s" ("s" "%s") [])' % (rng.choice(peers), rng.choice(["bad", "fail"])))     # the run ends in a catchable error
    s = hops[-1]
    for h in reversed(hops[:-1]):
        s = "(%s %s %s)" % ("par" if rng.random() < 0.15 else "seq", h, s)
    return "(new $st %s)" % s if rng.random() < 0.5 else s


def rand_ops(rng, n, peers):
    ops = [["start"]]
    for _ in range(n):
        x = rng.random()
        if x < 0.45:
            ops.append(["d", rng.randrange(6)])
        elif x < 0.53:
            ops.append(["dup", rng.randrange(6)])
        elif x < 0.58:
            ops.append(["re", rng.randrange(6)])
        else:
            ops.append(["r", rng.randrange(peers), 0 if rng.random() < 0.7 else rng.randrange(1, 8)])
    for _ in range(10):
        for p in range(peers):
            ops.append(["r", p, 0])
        ops.append(["d", 0])
    return ops


# values that reach a canon WITHOUT being a stored service result themselves (added after the seeded change
# C03-canon-value-not-stored-for-projections was missed): lens projections, fold iterators, a canon pushed into another
# stream, {key,value} pairs of a stream map -- the canon element's value must be in the value store of the produced data
def derived_canon_script(rng):
    a, b, c = rng.sample(["A", "B", "C"], 3)
    src = rng.choice([
        '(seq (call "@%s" ("s" "obj") [] o) (seq (ap o.$.%s $d) (ap o.$.l.[%d] $d)))' % (a, rng.choice(["f", "n", "l", "o"]), rng.randrange(2)),
        '(seq (call "@%s" ("s" "arr") [] xs) (fold xs it (seq (ap it $d) (next it))))' % a,
        '(seq (call "@%s" ("s" "arr2") [] xs) (fold xs it (seq (ap it.$.[0] $d) (next it))))' % a,
        '(seq (seq (call "@%s" ("s" "tag") [] $e) (canon "@%s" $e #inner)) (seq (ap #inner $d) (ap #inner.$.[0] $d)))' % (a, a),
        '(seq (call "@%s" ("s" "obj") [] o) (seq (seq (ap ("k1" o.$.f) %%m) (ap (7 o) %%m)) (seq (canon "@%s" %%m #%%cm) (seq (ap #%%cm.$.k1 $d) (ap #%%cm.$.[7].[0] $d)))))' % (a, a),
    ])
    tail = rng.choice([
        '(seq (canon "@%s" $d #dc) (call "@%s" ("s" "args") [#dc]))' % (a, b),
        '(seq (canon "@%s" $d #dc) (seq (call "@%s" ("s" "args") [#dc.$.[0]]) (call "@%s" ("s" "tag") [] z)))' % (b, c, a),
    ])
    return "(seq %s %s)" % (src, tail)


def case_of(script, peers, ops, services, stream, seed):
    return {"script": script, "peers": airgen.PEERS[:peers], "init": 0, "services": services, "ops": ops, "oracles": ORACLES,
            "seed": seed, "stream": stream}


def gen_cases(rng, tier, escalate=False):
    quick = tier == "quick"
    mul = 3 if escalate else 1
    cases = []
    for k in range((22 if quick else 240) * mul):
        kw = dict(peers=rng.choice([3, 3, 4, 5]), depth=rng.choice([2, 3, 3, 4]), recursive_streams=False)
        r = rng.random()
        if r < 0.25:
            kw.update(xor_weight=5, failing=True)
        elif r < 0.4:
            kw.update(streams=False, canon=False, stream_folds=False)
        elif r < 0.55:
            kw.update(par_weight=6)
        prof = airgen.Profile(**kw)
        script = sprinkle_bad(rng, airgen.gen_script(rng, prof), rng.choice([0.0, 0.3, 0.6]))
        cases.append(case_of(script, prof.peers, rand_ops(rng, rng.choice([8, 14, 22]), prof.peers), SERVICES, "random", rng.randrange(1 << 30)))
    for k in range((14 if quick else 160) * mul):
        n = rng.choice([3, 4, 4, 5])
        cases.append(case_of(relay_script(rng, n), n, rand_ops(rng, rng.choice([6, 12, 20]), n), SERVICES, "relay", rng.randrange(1 << 30)))
    for k in range((6 if quick else 80) * mul):
        if rng.random() < 0.6:
            script, n = rng.choice(PAR_SCRIPTS), 3
        else:
            prof = airgen.Profile(peers=3, depth=rng.choice([3, 4]), par_weight=8, recursive_streams=False)
            script, n = airgen.gen_script(rng, prof), 3
        cases.append(case_of(script, n, rand_ops(rng, rng.choice([10, 20]), n), SERVICES, "par", rng.randrange(1 << 30)))
    for k in range((10 if quick else 80) * mul):
        cases.append(case_of(derived_canon_script(rng), 3, rand_ops(rng, rng.choice([8, 14]), 3), SERVICES, "derived_canon", rng.randrange(1 << 30)))
    # recursive stream folds: the known finding (a third peer loses a foreign executed state; the carried signature breaks)
    for k in range((4 if quick else 30) * mul):
        if rng.random() < 0.5:
            cases.append(case_of(HOLE_SCRIPT, 4, rand_ops(rng, 30, 4), HOLE_SERVICES, "recursive_folds", rng.randrange(1 << 30)))
        else:
            prof = airgen.Profile(peers=4, depth=3, recursive_streams=True, stream_folds=True)
            cases.append(case_of(airgen.gen_script(rng, prof), 4, rand_ops(rng, 20, 4), SERVICES, "recursive_folds", rng.randrange(1 << 30)))
    return cases


def classify(script, key):
    """known-finding key of a failure with Rust/plugin key `key` on this script, or the key itself (= a new violation)"""
    if key in ("signature", "rejected-by-peer", "participant-rejects:9") and sched04.recursive_stream_folds(script):
        return KNOWN_HOLE
    return key


CHECKS = {"model": "c03_check", "model_attr": "c03_attr_agrees", "oracle_closed": "c03_oracle_closed", "oracle_attr": "c03_oracle_attr"}
SHAPES = [("failed state in output", 0), ("executed canon in output", 1), ("unused value in output", 2), ("stream call result in output", 3),
          ("foreign results carried", 4), ("own results signed", 5), ("merge of two non-empty data", 6), ("non-JSON service result consumed", 7)]


def evaluate(cases, result, tier):
    if not cases:
        return
    header = exec_common.HEADER + "From Aqua Require Import ExecStreams SignSpec SignCases.\n"
    outs = vlib.harness_lines("exec", [json.dumps(c) for c in cases], timeout=2400)
    dist = result["distribution"]
    terms, owner = [], []

    def fail(case, what, key, detail=None):
        result["oracle_fail"].append({"case": dict(case), "what": what, "key": classify(case.get("script", ""), key), "detail": detail})

    for ci, o in enumerate(outs):
        case = cases[ci]
        if "error" in o:
            result["errors"].append(o["error"])
            continue
        hdr = "let script := %s in " % o["script_term"]
        for ti, t in enumerate(o["coq"]):
            terms.append("(" + hdr + t + ")")
            owner.append((ci, ti))
        st = "histories:" + case.get("stream", "corpus")
        dist[st] = dist.get(st, 0) + 1
        for cl in o["classes"]:
            k = "outcome " + cl
            dist[k] = dist.get(k, 0) + 1
        result["evaluations"] += int(o.get("runs", len(o["classes"])))
        dist["service invocations"] = dist.get("service invocations", 0) + int(o.get("invocations", 0))
        for inf in o["info"]:
            if inf.get("trace_len"):
                result["distinct"].add(json.dumps([case["script"], inf.get("step"), inf.get("code"), inf.get("trace_len")]))
            code = inf.get("code")
            if isinstance(code, int) and 1 <= code <= 9999:
                fail(dict(case, probe_steps=[inf.get("step")]),
                     "a participant rejects delivered data with preparation error %d at run %s" % (code, inf.get("step")),
                     "participant-rejects:%d" % code, inf)
            if inf.get("sig_ok") is False:
                fail(dict(case, probe_steps=[inf.get("step")]),
                     "the current peer's own signature does not verify over the CIDs its trace attributes to it (run %s)" % inf.get("step"),
                     "own-signature", inf)
        for f in o.get("oracle_failures", []):
            fail(case, "property oracle false on the implementation: %s" % f.get("what", ""), f.get("key"), f)
        if len(result["samples"]) < 3 and o["coq"]:
            result["samples"].append({"case": case, "first_term": o["coq"][0][:600]})
    if not terms:
        return
    masks, errs = eval_masks(header, terms, 30 if tier == "quick" else 48)
    result["errors"].extend(errs)
    for name, bit in SHAPES:
        dist["runs with " + name] = sum(1 for m in masks if m is not None and (m >> (8 + bit)) & 1)
    dist["runs given to the model"] = len(terms)
    dist["runs the model does not support"] = sum(1 for m in masks if m is not None and (m >> 4) & 1)
    for i, m in enumerate(masks):
        if m is None:
            continue
        for bit, name in enumerate(["model", "model_attr", "oracle_closed", "oracle_attr"]):
            if not (m >> bit) & 1:
                continue
            ci, ti = owner[i]
            info = outs[ci]["info"][ti] if ti < len(outs[ci]["info"]) else {}
            case = dict(cases[ci], probe_steps=[info.get("step")]) if info.get("step") is not None else dict(cases[ci])
            if name.startswith("oracle"):
                fail(case, "property oracle %s (Coq, on the implementation's observation) is false at run %s" % (CHECKS[name], info.get("step")),
                     {"oracle_closed": "dangling-reference", "oracle_attr": "verifier-lookup-fails"}[name], info)
            else:
                result["mismatch"].append({"case": case, "term_index": ti, "info": info, "check": name,
                                           "what": "%s is false: the executor model / the attribution function disagrees with the implementation on this run" % CHECKS[name]})


def eval_masks(header, terms, shard_size):
    """SignCases.c03_all on every term: one .v file per shard under .cache/cases/C03/, one vm_compute each"""
    import concurrent.futures
    import re
    import shutil
    d = os.path.join(vlib.CACHE, "cases", PID)
    shutil.rmtree(d, ignore_errors=True)
    os.makedirs(d, exist_ok=True)
    shards = [terms[i:i + shard_size] for i in range(0, len(terms), shard_size)]

    def work(k):
        path = os.path.join(d, "cases_%d.v" % k)
        with open(path, "w") as f:
            f.write(header + "\nDefinition cases : list (%s) := [\n" % exec_common.TYPE)
            f.write(";\n".join(shards[k]))
            f.write("\n].\nEval vm_compute in (map c03_all cases).\n")
        return vlib.sh(["coqc", "-noglob", "-Q", vlib.COQ, "Aqua", "-w", "-notation-overridden", path], timeout=1800, cwd=d)

    with concurrent.futures.ThreadPoolExecutor(vlib.NPROC) as ex:
        outs = list(ex.map(work, range(len(shards))))
    masks, errors = [], []
    for k, (rc, out, _) in enumerate(outs):
        m = re.search(r"=\s*\[(.*?)\]\s*:\s*list N", out, flags=re.S)
        if rc != 0 or not m:
            errors.append("shard %d: rc=%d: %s" % (k, rc, out[-1200:]))
            masks.extend([None] * len(shards[k]))
            continue
        vals = [int(x) for x in re.findall(r"\d+", m.group(1))]
        if len(vals) != len(shards[k]):
            errors.append("shard %d: %d answers for %d cases" % (k, len(vals), len(shards[k])))
            masks.extend([None] * len(shards[k]))
            continue
        masks.extend(vals)
    return masks, errors
