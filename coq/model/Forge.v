(* Forge.v -- what the verification step accepts: CID stores, the attribution of results to
   peers, signatures, the attacker (property C14).

   Mirrors:
     crates/air-lib/interpreter-data/src/cid_info.rs           CidInfo::verify and its four helpers
     crates/air-lib/interpreter-data/src/cid_store.rs          CidStore::{verify, verify_raw_value, check_reference}
     crates/air-lib/interpreter-data/src/executed_state/impls.rs   CallResult::get_cid, ValueRef::get_cid
     crates/air-lib/interpreter-data/src/interpreter_data/verification.rs
                                                               collect_peers_cids_from_trace (the reading of the trace:
                                                               model/Sig.v takes its result as an input; here it is computed)
     air/src/verification_step.rs                              verify
     air/src/runner.rs                                         salt = params.particle_id

   Content ids are the id TEXTS of the real data (they are what is sorted and signed); a store is a
   HashMap from id text to content = an association list [Sig.amap].  Whether a content hashes to an
   id is the relation of property C25 (interpreter-cid verify_value / verify_raw_value: the id names
   the JSON codec, SHA2-256 or BLAKE3, and carries the full digest of the canonical bytes); here it
   is one Section variable per store, [ok_value] .. [ok_service].  An entry (key, content) is honest
   iff [ok key content = true].  Collision resistance ("an id has one content") is a Section
   hypothesis of the theorems that need it, never an axiom.

   Signatures are the symbolic terms of model/Sig.v; the verification itself IS Sig.verification_step,
   applied to the per-peer CID lists computed here.
   Definitions only (proofs: proofs/ForgeProofs.v). *)
From Aqua Require Import Base RunTop Trace Values Sig.
Open Scope N_scope.
Open Scope list_scope.

(* ------------------------------------------------------------------------------------------ *)
(* the five CID stores (cid_info.rs)                                                            *)

(* ServiceResultCidAggregate { value_cid, argument_hash, tetraplet_cid } *)
Record service_agg := MkSAgg { sg_value : string; sg_arg_hash : string; sg_tetraplet : string }.
(* Provenance *)
Inductive fprov := FPLiteral | FPService (c : string) | FPCanon (c : string).
(* CanonCidAggregate { value, tetraplet, provenance } *)
Record canon_elem_agg := MkCElem { cg_value : string; cg_tetraplet : string; cg_prov : fprov }.
(* CanonResultCidAggregate { tetraplet, values } *)
Record canon_result_agg := MkCRes { cr_tetraplet : string; cr_values : list string }.

Record cid_info := MkCidInfo {
  ci_values : amap string;                     (* value_store: id -> raw JSON text *)
  ci_tetraplets : amap tetraplet;              (* tetraplet_store *)
  ci_canon_elems : amap canon_elem_agg;        (* canon_element_store *)
  ci_canon_results : amap canon_result_agg;    (* canon_result_store *)
  ci_services : amap service_agg               (* service_result_store *)
}.
Definition empty_cid_info : cid_info := MkCidInfo [] [] [] [] [].

(* CidStore::check_reference: `self.0.get(target_cid).ok_or_else(MissingReference)` *)
Definition has_ref {V : Type} (m : amap V) (k : string) : bool :=
  match map_get k m with Some _ => true | None => false end.

(* ------------------------------------------------------------------------------------------ *)
(* executed states: which of them carry a CID that somebody has to sign                         *)

(* executed_state/impls.rs: CallResult::get_cid + ValueRef::get_cid *)
Definition value_ref_get_cid (v : value_ref string) : option string :=
  match v with
  | VRScalar c => Some c
  | VRStream c _ => Some c
  | VRUnused _ => None                          (* the id of an unused value is a VALUE id; nobody signs it *)
  end.
Definition call_get_cid (c : call_result string) : option string :=
  match c with
  | RequestSentBy _ => None
  | Executed v => value_ref_get_cid v
  | Failed c => Some c
  end.

(* one iteration of the loop of collect_peers_cids_from_trace *)
Inductive attr_step :=
| ANone                                   (* `_ => {}` and calls without a CID *)
| APush (peer cid : string)               (* try_push_cid(grouped_cids, peer_pk, cid) *)
| ADangling.                              (* the trace names an id the stores do not hold: the store lookup fails *)

Definition attribute_state (ci : cid_info) (s : state string) : attr_step :=
  match s with
  | SCall call =>
      match call_get_cid call with
      | Some cid =>
          match map_get cid (ci_services ci) with                          (* service_result_store.get(cid) *)
          | Some sr =>
              match map_get (sg_tetraplet sr) (ci_tetraplets ci) with      (* tetraplet_store.get(&service_result.tetraplet_cid) *)
              | Some t => APush (tp_peer t) cid                            (* the peer is the STORED tetraplet's peer_pk *)
              | None => ADangling
              end
          | None => ADangling
          end
      | None => ANone
      end
  | SCanon (CanonExecuted cid) =>
      match map_get cid (ci_canon_results ci) with                         (* canon_result_store.get(cid) *)
      | Some cr =>
          match map_get (cr_tetraplet cr) (ci_tetraplets ci) with          (* tetraplet_store.get(&canon_result.tetraplet) *)
          | Some t => APush (tp_peer t) cid
          | None => ADangling
          end
      | None => ADangling
      end
  | _ => ANone
  end.

(* verification.rs: collect_peers_cids_from_trace, the trace-reading half: the (peer, cid) pairs in
   trace order up to the first dangling id (true = there is one: when the real function gets there --
   unless a PeerIdNotFound error ended it earlier -- it panics (`.expect(..)`) or, in sources where the
   lookups read `.ok_or_else(|| cid_not_found(..))?`, returns DataVerifierError::CidNotFound; which of
   the two is read from the sources: Generated.forge_dangling_id_is_error) *)
Fixpoint collect_peers_cids (ci : cid_info) (tr : list (state string)) : list (string * string) * bool :=
  match tr with
  | [] => ([], false)
  | s :: r =>
      match attribute_state ci s with
      | ANone => collect_peers_cids ci r
      | APush p c => let '(l, d) := collect_peers_cids ci r in ((p, c) :: l, d)
      | ADangling => ([], true)
      end
  end.

(* the part of InterpreterData the verification step reads *)
Record fdata := MkFData {
  fd_trace : list (state string);
  fd_ci : cid_info;
  fd_sigs : amap sig
}.
Definition empty_fdata : fdata := MkFData [] empty_cid_info [].

Definition attributed (d : fdata) : list (string * string) := fst (collect_peers_cids (fd_ci d) (fd_trace d)).
Definition dangling (d : fdata) : bool := snd (collect_peers_cids (fd_ci d) (fd_trace d)).
(* the CIDs d's trace attributes to peer p, in trace order *)
Definition cids_of (d : fdata) (p : string) : list string := peer_cids p (attributed d).
(* what model/Sig.v looks at *)
Definition sig_view (d : fdata) : data := MkData (attributed d) (fd_sigs d).
Definition wf_fdata (d : fdata) : Prop := NoDup (keys (fd_sigs d)).

(* a service result as the stores resolve it: (raw value, tetraplet, argument hash) *)
Definition resolve_service (ci : cid_info) (c : string) : option (string * tetraplet * string) :=
  match map_get c (ci_services ci) with
  | Some sr =>
      match map_get (sg_value sr) (ci_values ci), map_get (sg_tetraplet sr) (ci_tetraplets ci) with
      | Some v, Some t => Some (v, t, sg_arg_hash sr)
      | _, _ => None
      end
  | None => None
  end.

(* outcome of the verification step *)
Inductive fres :=
| FOk (st : amap sig)            (* the merged signature store; execution starts *)
| FErr (e : prep_err)            (* preparation error: the previous data is returned (RunTop.execute_air) *)
| FCrash.                        (* the expect in collect_peers_cids_from_trace *)

(* what the dangling id found by DataVerifier::new ends in, per the sources *)
Definition dangling_outcome : fres :=
  if forge_dangling_id_is_error then FErr DataSignatureCheckError else FCrash.

(* the attacker: owns some keys; every signature term in a data it sends is made with an owned key
   or is one some key holder really produced (Dolev-Yao: signatures are not forgeable) *)
Definition dolev_yao (owned : string -> bool) (produced : sig -> Prop) (sigs : amap sig) : Prop :=
  forall p k l s, map_get p sigs = Some (Sig k l s) -> owned k = true \/ produced (Sig k l s).

Section Forge.
  (* the hash relation of each store: interpreter-cid verify_raw_value (values) / verify_value (the rest) = Ok *)
  Variable ok_value : string -> string -> bool.
  Variable ok_tetraplet : string -> tetraplet -> bool.
  Variable ok_elem : string -> canon_elem_agg -> bool.
  Variable ok_result : string -> canon_result_agg -> bool.
  Variable ok_service : string -> service_agg -> bool.

  (* CidStore::verify / verify_raw_value: every entry hashes to its key.  The HashMap iteration
     order cannot matter: every failure is the same PreparationError::CidStoreVerificationError. *)
  Definition store_verify {V : Type} (ok : string -> V -> bool) (m : amap V) : bool :=
    forallb (fun e => ok (fst e) (snd e)) m.

  (* cid_info.rs: verify_canon_result_store *)
  Definition verify_canon_result_store (ci : cid_info) : bool :=
    store_verify ok_elem (ci_canon_elems ci) &&
    store_verify ok_result (ci_canon_results ci) &&
    forallb (fun e => forallb (has_ref (ci_canon_elems ci)) (cr_values (snd e)) &&
                      has_ref (ci_tetraplets ci) (cr_tetraplet (snd e))) (ci_canon_results ci) &&
    forallb (fun e => has_ref (ci_tetraplets ci) (cg_tetraplet (snd e)) &&
                      has_ref (ci_values ci) (cg_value (snd e)) &&
                      match cg_prov (snd e) with
                      | FPLiteral => true
                      | FPService c => has_ref (ci_services ci) c
                      | FPCanon c => has_ref (ci_canon_results ci) c
                      end) (ci_canon_elems ci).

  (* cid_info.rs: verify_service_result_store.  The argument hash is a plain string: it refers to nothing. *)
  Definition verify_service_result_store (ci : cid_info) : bool :=
    store_verify ok_service (ci_services ci) &&
    forallb (fun e => has_ref (ci_tetraplets ci) (sg_tetraplet (snd e)) &&
                      has_ref (ci_values ci) (sg_value (snd e))) (ci_services ci).

  (* cid_info.rs: CidInfo::verify.  Store-to-store references only: NOT the ids the trace names. *)
  Definition cid_info_verify (ci : cid_info) : bool :=
    store_verify ok_value (ci_values ci) &&           (* verify_value_store *)
    store_verify ok_tetraplet (ci_tetraplets ci) &&   (* verify_tetraplet_store *)
    verify_canon_result_store ci &&
    verify_service_result_store ci.

  (* the same, as a proposition: every stored item hashes to its id, aggregates reference present items *)
  Definition store_honest (ci : cid_info) : Prop :=
    (forall k v, In (k, v) (ci_values ci) -> ok_value k v = true) /\
    (forall k v, In (k, v) (ci_tetraplets ci) -> ok_tetraplet k v = true) /\
    (forall k v, In (k, v) (ci_canon_elems ci) -> ok_elem k v = true) /\
    (forall k v, In (k, v) (ci_canon_results ci) -> ok_result k v = true) /\
    (forall k v, In (k, v) (ci_services ci) -> ok_service k v = true) /\
    (forall k v, In (k, v) (ci_services ci) ->
       has_ref (ci_tetraplets ci) (sg_tetraplet v) = true /\ has_ref (ci_values ci) (sg_value v) = true) /\
    (forall k v, In (k, v) (ci_canon_results ci) ->
       has_ref (ci_tetraplets ci) (cr_tetraplet v) = true /\
       forall e, In e (cr_values v) -> has_ref (ci_canon_elems ci) e = true) /\
    (forall k v, In (k, v) (ci_canon_elems ci) ->
       has_ref (ci_tetraplets ci) (cg_tetraplet v) = true /\ has_ref (ci_values ci) (cg_value v) = true /\
       match cg_prov v with
       | FPLiteral => True
       | FPService c => has_ref (ci_services ci) c = true
       | FPCanon c => has_ref (ci_canon_results ci) c = true
       end).

  Section Step.
    Variable key_ok : string -> bool.      (* PublicKey::validate, as in model/Sig.v *)

    (* air/src/verification_step.rs: verify(prev_data, current_data, salt), salt = particle id.
       DataVerifier::new reads the trace while it fills the per-peer lists: a PeerIdNotFound before the
       first dangling id wins over the panic; key validation comes before both. *)
    Definition forge_verify (o : orders) (prev cur : fdata) (salt : string) : fres :=
      if negb (cid_info_verify (fd_ci cur)) then FErr CidStoreVerificationError else
      match dv_new key_ok (o_new_prev o) (sig_view prev) with
      | DErr _ => FErr DataSignatureCheckError
      | DOk _ =>
          if dangling prev then dangling_outcome else
          match dv_new key_ok (o_new_cur o) (sig_view cur) with
          | DErr _ => FErr DataSignatureCheckError
          | DOk _ =>
              if dangling cur then dangling_outcome else
              match verification_step key_ok o true (sig_view prev) (sig_view cur) salt with
              | ROk st => FOk st
              | RErr e => FErr e
              end
          end
      end.

    (* ---------------------------------------------------------------------------------------- *)
    (* statements of C14 (verification half)                                                      *)

    (* accepted under salt: every peer with a result in the trace has a signature, and every
       signature in the data is exactly its key's signature over the sorted list of the CIDs the
       trace attributes to that peer, salted with THIS particle id *)
    Definition C14_signed_stmt : Prop :=
      forall o prev cur salt st, wf_fdata prev -> wf_fdata cur ->
        forge_verify o prev cur salt = FOk st ->
        (forall p c, In (p, c) (attributed cur) -> exists s, map_get p (fd_sigs cur) = Some s) /\
        (forall p s, map_get p (fd_sigs cur) = Some s -> s = Sig p (sort_cids (cids_of cur p)) salt).

    (* hence, for an attacker that cannot forge: a result attributed to a peer whose key the attacker
       does not own is covered by a signature that peer produced for this particle *)
    Definition C14_honest_stmt : Prop :=
      forall o prev cur salt st owned produced, wf_fdata prev -> wf_fdata cur ->
        dolev_yao owned produced (fd_sigs cur) ->
        forge_verify o prev cur salt = FOk st ->
        forall p c, owned p = false -> In (p, c) (attributed cur) ->
          exists l, produced (Sig p l salt) /\ In c l /\ l = sort_cids (cids_of cur p).

    (* accepted: the stores are honest *)
    Definition C14_store_stmt : Prop :=
      forall o prev cur salt st, forge_verify o prev cur salt = FOk st -> store_honest (fd_ci cur).
    Definition C14_store_iff_stmt : Prop :=
      forall ci, cid_info_verify ci = true <-> store_honest ci.

    (* a data signed for one particle is rejected under every other particle id (as soon as it holds a signature) *)
    Definition C14_replay_stmt : Prop :=
      forall o prev cur salt salt' st, wf_fdata prev -> wf_fdata cur ->
        forge_verify o prev cur salt = FOk st -> fd_sigs cur <> [] -> salt' <> salt ->
        forge_verify o prev cur salt' = FErr DataSignatureCheckError.

    (* the verdicts: acceptance, the two preparation errors, or (old sources) the panic on a dangling id *)
    Definition C14_verdicts_stmt : Prop :=
      forall o prev cur salt,
        match forge_verify o prev cur salt with
        | FOk _ => cid_info_verify (fd_ci cur) = true /\ dangling prev = false /\ dangling cur = false
        | FErr e => e = CidStoreVerificationError \/ e = DataSignatureCheckError
        | FCrash => dangling prev = true \/ dangling cur = true
        end.

    (* changing which CIDs the trace attributes to an honest peer (a CID rewritten, a result added,
       dropped, duplicated, moved to or taken from that peer by a tetraplet change, or a state kind
       change that adds/removes a CID) to a multiset the peer never signed for this particle: rejected *)
    Definition C14_attribution_stmt : Prop :=
      forall o prev cur salt owned produced p, wf_fdata prev -> wf_fdata cur ->
        dolev_yao owned produced (fd_sigs cur) -> owned p = false ->
        (exists c, In (p, c) (attributed cur)) ->
        ~ produced (Sig p (sort_cids (cids_of cur p)) salt) ->
        match forge_verify o prev cur salt with
        | FOk _ => False
        | FErr e => e = CidStoreVerificationError \/ e = DataSignatureCheckError
        | FCrash => True
        end.

    (* the ideal property: EVERY executed / failed call result of an accepted data is attributed to a
       peer (and therefore signed).  Refuted by Executed(Unused): see C14_refuted_unused. *)
    Definition every_result_attributed (d : fdata) : Prop :=
      forall call, In (SCall call) (fd_trace d) ->
        match call with
        | RequestSentBy _ => True
        | _ => exists p c, In (p, c) (attributed d) /\ call_get_cid call = Some c
        end.
    Definition C14_every_result_signed_stmt : Prop :=
      forall o prev cur salt st, wf_fdata prev -> wf_fdata cur ->
        forge_verify o prev cur salt = FOk st -> every_result_attributed cur.

    (* the verdict reads the trace only through [attribute_state]: it cannot tell a Failed state from an
       Executed one with the same CID (the KIND of a state is covered by no signature) *)
    Definition C14_kind_blind_stmt : Prop :=
      forall o prev cur cur' salt,
        fd_ci cur' = fd_ci cur -> fd_sigs cur' = fd_sigs cur ->
        map (attribute_state (fd_ci cur)) (fd_trace cur') = map (attribute_state (fd_ci cur)) (fd_trace cur) ->
        forge_verify o prev cur' salt = forge_verify o prev cur salt.

    (* the ideal: a failure presented as a success (same CID, same stores, same signatures) is rejected.
       Refuted: C14_refuted_kind. *)
    Definition C14_kind_signed_stmt : Prop :=
      forall o prev cur cur' salt st l1 l2 c,
        wf_fdata prev -> wf_fdata cur ->
        forge_verify o prev cur salt = FOk st ->
        fd_ci cur' = fd_ci cur -> fd_sigs cur' = fd_sigs cur ->
        fd_trace cur = l1 ++ SCall (Failed c) :: l2 ->
        fd_trace cur' = l1 ++ SCall (Executed (VRScalar c)) :: l2 ->
        forall st', forge_verify o prev cur' salt <> FOk st'.
  End Step.

  (* ------------------------------------------------------------------------------------------ *)
  (* under collision resistance an id determines its content in every accepted data: a value,
     tetraplet or argument hash changed under an unchanged id is a CidStoreVerificationError *)
  Definition collision_free : Prop :=
    (forall k a b, ok_value k a = true -> ok_value k b = true -> a = b) /\
    (forall k a b, ok_tetraplet k a = true -> ok_tetraplet k b = true -> a = b) /\
    (forall k a b, ok_service k a = true -> ok_service k b = true -> a = b) /\
    (forall k a b, ok_result k a = true -> ok_result k b = true -> a = b) /\
    (forall k a b, ok_elem k a = true -> ok_elem k b = true -> a = b).

  Definition C14_binds_stmt : Prop :=
    collision_free ->
    forall ci ci' c x y, cid_info_verify ci = true -> cid_info_verify ci' = true ->
      resolve_service ci c = Some x -> resolve_service ci' c = Some y -> x = y.

  (* a tampered entry: the content of one value / tetraplet / service entry replaced under the same key *)
  Definition C14_tamper_store_stmt : Prop :=
    collision_free ->
    forall key_ok o prev cur cur' salt k,
      cid_info_verify (fd_ci cur) = true ->
      ((exists a b, map_get k (ci_values (fd_ci cur)) = Some a /\ map_get k (ci_values (fd_ci cur')) = Some b /\ a <> b) \/
       (exists a b, map_get k (ci_tetraplets (fd_ci cur)) = Some a /\ map_get k (ci_tetraplets (fd_ci cur')) = Some b /\ a <> b) \/
       (exists a b, map_get k (ci_services (fd_ci cur)) = Some a /\ map_get k (ci_services (fd_ci cur')) = Some b /\ a <> b)) ->
      forge_verify key_ok o prev cur' salt = FErr CidStoreVerificationError.
End Forge.

(* ------------------------------------------------------------------------------------------ *)
(* tie to the sources (tools/genx_forge.py)                                                     *)

(* the model's reading of get_cid on one representative of every variant, by the variant's name *)
Definition model_get_cid_table : list (string * bool) :=
  let some (o : option string) := match o with Some _ => true | None => false end in
  [("CallResult::RequestSentBy", some (call_get_cid (RequestSentBy (SPeer "p"))));
   ("CallResult::Executed", true);          (* delegates to ValueRef::get_cid *)
   ("CallResult::Failed", some (call_get_cid (Failed "c")));
   ("ValueRef::Scalar", some (call_get_cid (Executed (VRScalar "c"))));
   ("ValueRef::Stream", some (call_get_cid (Executed (VRStream "c" 0))));
   ("ValueRef::Unused", some (call_get_cid (Executed (VRUnused "c"))))]%string.

(* which executed states contribute, on a store that resolves every id *)
Definition model_attribution_table : list (string * bool) :=
  let ci := MkCidInfo [] [("t", {| tp_peer := "q"; tp_service := ""; tp_function := ""; tp_lens := "" |})] []
                      [("c", MkCRes "t" [])] [("c", MkSAgg "v" "h" "t")] in
  let pushes (s : state string) := match attribute_state ci s with APush "q" "c" => true | _ => false end in
  [("Call", pushes (SCall (Failed "c")));
   ("Canon::Executed", pushes (SCanon (CanonExecuted "c")));
   ("Canon::RequestSentBy", pushes (SCanon (CanonRequestSentBy "q")));
   ("Par", pushes (SPar 0 0)); ("Ap", pushes (SAp [])); ("Fold", pushes (SFold []))]%string.

Definition forge_source_agrees : bool :=
  list_eqb (pair_eqb String.eqb Bool.eqb) model_get_cid_table forge_get_cid_table &&
  list_eqb (pair_eqb String.eqb Bool.eqb)
           (filter (fun e => snd e) model_attribution_table) (map (fun n => (n, true)) forge_attribution_arms) &&
  forge_attribution_peer_from_stored_tetraplet &&
  list_eqb String.eqb forge_cid_info_verify_order
           ["verify_value_store"; "verify_tetraplet_store"; "verify_canon_result_store"; "verify_service_result_store"]%string &&
  list_eqb String.eqb forge_cid_info_store_checks
           ["value_store.verify_raw_value"; "tetraplet_store.verify"; "service_result_store.verify";
            "canon_element_store.verify"; "canon_result_store.verify"]%string &&
  list_eqb String.eqb forge_cid_info_references
           ["service:tetraplet_store<-tetraplet_cid"; "service:value_store<-value_cid";
            "canon_result:canon_element_store<-val"; "canon_result:tetraplet_store<-tetraplet";
            "canon_element:tetraplet_store<-tetraplet"; "canon_element:value_store<-value";
            "canon_element:service_result_store<-cid"; "canon_element:canon_result_store<-cid"]%string &&
  match verify_step_order with "cid_info_verify_cur"%string :: _ => true | _ => false end &&
  forge_salt_is_particle_id && forge_signature_covers_salt.
