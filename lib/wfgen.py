"""C10 generators.

(1) `gen_script`: fold/par-heavy well-scoped AIR scripts (in addition to lib/airgen.py profiles): streams filled
    from several peers (several generations), stream folds with `next` in seq / par position and under xor (the only place the
    validator lets something follow a `next`), last instructions, nested stream folds, recursive appends under a guard, `new` scopes around streams,
    catchable failures inside iterations and par branches (with and without xor), canon inside folds.
(2) `gen_tree`: driver forests of coq/model/WfTrace.v (`dts`) as (Coq term, op list for harness/src/bin/handler.rs).

Every random choice comes from the `random.Random` passed in."""

PEERS = ["A", "B", "C"]


class SGen:
    def __init__(self, rng, peers=3):
        self.r = rng
        self.peers = PEERS[:peers]
        self.n = 0

    def fresh(self, p):
        self.n += 1
        return "%s%d" % (p, self.n)

    def peer(self):
        return '"@%s"' % self.r.choice(self.peers)

    def value(self, iters):
        opts = ['"a"', '"x"', "1"] + iters + iters
        return self.r.choice(opts)

    def call(self, iters, out="", fn=None):
        r = self.r
        fn = fn or r.choice(["id", "id", "tag", "num", "args"])
        if fn == "id":
            args = "[%s]" % self.value(iters)
        elif fn == "args":
            args = "[%s %s]" % (self.value(iters), self.value(iters))
        else:
            args = "[]"
        return '(call %s ("s" "%s") %s%s)' % (self.peer(), fn, args, (" " + out) if out else "")

    def fill(self, s, k):
        """k writes into stream s from different peers, in par or seq"""
        r = self.r
        parts = []
        for _ in range(k):
            x = r.random()
            if x < 0.6:
                parts.append(self.call([], out=s, fn=r.choice(["id", "tag", "num"])))
            else:
                parts.append("(ap %s %s)" % (r.choice(['"a"', '"x"', "1", '"b"']), s))
        out = parts[0]
        for p in parts[1:]:
            out = "(%s %s %s)" % (r.choice(["par", "par", "seq"]), out, p)
        return out

    def piece(self, streams, iters, depth, own=None):
        """one instruction of an iteration body (or of the top level)"""
        r = self.r
        x = r.random()
        if x < 0.22:
            return self.call(iters)
        if x < 0.34 and streams:
            return self.call(iters, out=r.choice(streams))
        if x < 0.42 and streams:
            return "(ap %s %s)" % (self.value(iters), r.choice(streams))
        if x < 0.50:
            return "(xor %s (null))" % self.call(iters, fn=r.choice(["fail", "fail2"]))
        if x < 0.55:
            return self.call(iters, fn="fail")                         # uncaught inside the iteration / branch
        if x < 0.60:
            return '(xor (match %s "a" %s) (null))' % (self.value(iters), self.call(iters))
        if x < 0.66 and streams:
            return "(canon %s %s #%s)" % (self.peer(), r.choice(streams), self.fresh("canon"))
        if x < 0.78 and depth > 0:
            a = self.piece(streams, iters, depth - 1, own)
            b = self.piece(streams, iters, depth - 1, own)
            return "(par %s %s)" % (a, b)
        if x < 0.86 and depth > 0:
            a = self.piece(streams, iters, depth - 1, own)
            b = self.piece(streams, iters, depth - 1, own)
            return "(seq %s %s)" % (a, b)
        if x < 0.93 and depth > 0 and streams:
            cand = [s for s in streams if s != own] or streams
            return self.fold(r.choice(cand), streams, iters, depth - 1)
        if depth > 0:
            s = self.fresh("$n")
            body = "(seq %s %s)" % (self.fill(s, r.choice([1, 2])), self.fold(s, streams + [s], iters, depth - 1))
            return "(new %s %s)" % (s, body)
        return "(null)"

    def fold(self, s, streams, iters, depth):
        r = self.r
        it = self.fresh("i")
        its = iters + [it]
        inner_streams = [x for x in streams if x != s]
        body = self.piece(inner_streams, its, depth, own=s)
        if r.random() < 0.25:
            guard = r.choice(['"a"', '"x"', "1"])
            body = '(seq (xor (match %s %s (ap "rec" %s)) (null)) %s)' % (it, guard, s, body)
        nxt = "(next %s)" % it
        # the validator rejects instructions after `next` in seq/par position for stream folds
        # (FoldHasInstructionAfterNext); what can follow a `next` is the right branch of an enclosing xor
        form = r.choice(["seq", "seq", "par", "par", "xor", "seqxor", "parxor"])
        if form == "seq":
            b = "(seq %s %s)" % (body, nxt)
        elif form == "par":
            b = "(par %s %s)" % (body, nxt)
        elif form == "seqxor":
            b = "(seq %s (xor %s %s))" % (body, nxt, self.piece(inner_streams, its, max(depth - 1, 0), own=s))
        elif form == "parxor":
            b = "(par %s (xor %s %s))" % (body, nxt, self.call(its))
        else:
            b = "(xor (seq %s %s) %s)" % (body, nxt, self.call(its))
        last = ""
        if r.random() < 0.3:
            last = " " + r.choice(["(null)", self.call(iters), "(never)"])
        return "(fold %s %s %s%s)" % (s, it, b, last)

    def script(self):
        r = self.r
        s1 = self.fresh("$s")
        streams = [s1]
        pre = self.fill(s1, r.choice([2, 3, 3, 4]))
        if r.random() < 0.5:
            s2 = self.fresh("$s")
            streams.append(s2)
            pre = "(%s %s %s)" % (r.choice(["seq", "par"]), pre, self.fill(s2, r.choice([1, 2, 3])))
        parts = []
        for _ in range(r.choice([1, 1, 2])):
            x = r.random()
            if x < 0.75:
                parts.append(self.fold(r.choice(streams), streams, [], r.choice([1, 2, 2, 3])))
            else:
                parts.append(self.piece(streams, [], 3))
        body = parts[0]
        for p in parts[1:]:
            body = "(%s %s %s)" % (r.choice(["seq", "par"]), body, p)
        tail = self.call([])
        if r.random() < 0.3:
            body = "(xor %s %s)" % (body, self.call([]))
        return "(seq %s (seq %s %s))" % (pre, body, tail)


def gen_script(rng, peers=3):
    return SGen(rng, peers).script()


# ------------------------------------------------------------------------------------------------
# driver forests (coq/model/WfTrace.v) -> (Coq term of type `dts`, ops for the `handler` driver)

def _s(x):
    return '"' + x.replace('"', '""') + '"'


def _call_result(d):
    k = d[0]
    if k == "sent":
        return "(RequestSentBy (SPeer %s))" % _s(d[1])
    if k == "sent_id":
        return "(RequestSentBy (SPeerCall %s %d))" % (_s(d[1]), d[2])
    if k == "scalar":
        return "(Executed (VRScalar %s))" % _s(d[1])
    if k == "stream":
        return "(Executed (VRStream %s %d))" % (_s(d[1]), d[2])
    if k == "unused":
        return "(Executed (VRUnused %s))" % _s(d[1])
    return "(Failed %s)" % _s(d[1])


def _canon_result(d):
    return "(CanonRequestSentBy %s)" % _s(d[1]) if d[0] == "csent" else "(CanonExecuted %s)" % _s(d[1])


class TGen:
    """Random driver forests.  `shape` (a Random) decides the structure -- re-seeding it identically gives "the same
    script" again; `know` (a Random) decides what this run knows: whether a call / canon is executed or only
    requested (`known` = probability of executed), whether an iteration exits early, how many generations a
    fold sees."""

    def __init__(self, shape, know, known, peer):
        self.r = shape
        self.k = know
        self.known = known
        self.peer = peer
        self.fold_ids = 0
        self.cid = 0

    def leaf(self, ops):
        r, k = self.r, self.k
        x = r.random()
        raw = r.random() < 0.2
        if x < 0.06:
            # update_generation while the run goes on (a `new` scope ending): some positions, some generations
            us = [(k.randrange(0, 12), k.randrange(0, 4)) for _ in range(k.choice([1, 2, 3]))]
            for p, g in us:
                ops.append(["upd_gen", p, g])
            return "(DGens [%s])" % "; ".join("(%d, %d)" % u for u in us)
        if x < 0.45:
            self.cid += 1
            kind = r.choice(["scalar", "scalar", "stream", "unused", "failed"])
            cid = "c%d" % self.cid
            if k.random() < self.known:
                d = [kind, cid, 0] if kind == "stream" else [kind, cid]
            else:
                d = ["sent", self.peer] if k.random() < 0.7 else ["sent_id", self.peer, k.randrange(1, 9)]
                if k.random() < 0.15:
                    d = None
            if not raw:
                ops.append(["call_auto", d, True])
                return "(DCall (CallAuto %s true))" % ("(Some %s)" % _call_result(d) if d else "None")
            ops.append(["call_start"])
            if d:
                ops.append(["call_end", d])
            return "(DCall (CallRaw %s))" % ("(Some %s)" % _call_result(d) if d else "None")
        if x < 0.8:
            g = r.randrange(3)
            if not raw:
                ops.append(["ap_auto", g])
                return "(DAp (ApAuto %d))" % g
            ops.append(["ap_start"])
            ops.append(["ap_end", [g]])
            return "(DAp (ApRaw [%d]))" % g
        self.cid += 1
        d = ["cexec", "cn%d" % self.cid] if k.random() < self.known else ["csent", self.peer]
        ops.append(["canon_auto", d, True])
        return "(DCanon (CanonAuto %s true))" % _canon_result(d)

    def dt(self, depth, ops):
        r, k = self.r, self.k
        x = r.random()
        if depth > 0 and x < 0.25:
            ops.append(["par_start"])
            a, _ = self.dts(depth - 1, ops, cut=True)
            ops.append(["par_end", True])
            b, _ = self.dts(depth - 1, ops, cut=True)
            ops.append(["par_end", False])
            return "(DPar %s %s)" % (a, b)
        if depth > 0 and x < 0.5:
            self.fold_ids += 1
            fid = self.fold_ids
            ops.append(["fold_start", fid])
            gs = []
            ngens = r.choice([0, 1, 1, 2, 3])
            seen = ngens if k.random() < 0.7 else k.randrange(0, ngens + 1)     # later generations not there yet
            for gi in range(ngens):
                sink = ops if gi < seen else []
                v = r.randrange(0, 6)
                sink.append(["iter_nth", fid, v])
                b = self.body(fid, depth - 1, sink, r.choice([1, 2, 3, 4]))
                sink.append(["gen_end", fid])
                if gi < seen:
                    gs.append((v, b))
            ops.append(["fold_end", fid])
            t = "GNil"
            for v, b in reversed(gs):
                t = "(GCons (VNth %d) %s %s)" % (v, b, t)
            return "(DFold %d %s)" % (fid, t)
        return self.leaf(ops)

    def dts(self, depth, ops, n=None, cut=False):
        """`cut`: this sequence may be cut short by a catchable error (decided by `know`)"""
        r, k = self.r, self.k
        n = r.choice([0, 1, 1, 2, 3]) if n is None else n
        keep = n
        if cut and k.random() < 0.12:
            keep = k.randrange(0, n + 1)
        items = []
        for i in range(n):
            sink = ops if i < keep else []
            it = self.dt(depth, sink)
            if i < keep:
                items.append(it)
        t = "DNil"
        for i in reversed(items):
            t = "(DCons %s %s)" % (i, t)
        return t, keep < n

    def body(self, fid, depth, ops, remaining):
        """one execution of the body of fold `fid`; `remaining` = values left in the generation (this one included)"""
        r, k = self.r, self.k
        no_next = r.random() < 0.08                       # a body without next
        before, was_cut = self.dts(depth, ops, r.choice([0, 1, 1, 2]), cut=True)
        if no_next or was_cut or k.random() < 0.06:       # next not reached
            self.hole(fid, depth, [], remaining)          # keep the shape stream in step
            self.dts(depth, [], r.choice([0, 0, 1, 2]))
            return "(BPlain %s)" % before
        h = self.hole(fid, depth, ops, remaining)
        after, _ = self.dts(depth, ops, r.choice([0, 0, 1, 2]), cut=True)
        return "(BHole %s %s %s)" % (before, h, after)

    def hole(self, fid, depth, ops, remaining):
        r, k = self.r, self.k
        x = r.random()
        if depth > 0 and x < 0.2:
            ops.append(["par_start"])
            b = self.body(fid, depth - 1, ops, remaining)
            ops.append(["par_end", True])
            rr, _ = self.dts(depth - 1, ops)
            ops.append(["par_end", False])
            return "(HParL %s %s)" % (b, rr)
        if depth > 0 and x < 0.45:
            ops.append(["par_start"])
            ll, _ = self.dts(depth - 1, ops)
            ops.append(["par_end", True])
            b = self.body(fid, depth - 1, ops, remaining)
            ops.append(["par_end", False])
            return "(HParR %s %s)" % (ll, b)
        ops.append(["iter_end", fid])
        if remaining <= 1:
            ops.append(["back", fid])
            last, _ = self.dts(depth, ops, r.choice([0, 0, 1]))
            return "(HNextEnd %s)" % last
        v = r.randrange(0, 6)
        ops.append(["iter_nth", fid, v])
        b = self.body(fid, depth, ops, remaining - 1)
        back = k.random() < 0.9                            # false: the inner body failed catchably
        if back:
            ops.append(["back", fid])
        return "(HNextMore (VNth %d) %s %s)" % (v, b, "true" if back else "false")


def gen_tree(shape, know, known, peer):
    """returns (Coq term : dts string, ops for harness/src/bin/handler.rs)"""
    g = TGen(shape, know, known, peer)
    ops = []
    items = []
    for _ in range(shape.choice([0, 2, 3])):               # a few stream values first so that iteration positions exist
        gen = shape.randrange(2)
        ops.append(["ap_auto", gen])
        items.append("(DAp (ApAuto %d))" % gen)
    depth = shape.choice([1, 2, 2, 3])
    for _ in range(shape.choice([1, 2, 3])):
        items.append(g.dt(depth, ops))
    t = "DNil"
    for i in reversed(items):
        t = "(DCons %s %s)" % (i, t)
    return t, ops
