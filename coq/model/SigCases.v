(* SigCases.v -- executable comparison functions used by the generated case files of C15:
   the model's verdict vs. what the real DataVerifier / execute_air did ([check_case]), and the
   property oracle evaluated on the implementation's observation alone ([c15_oracle]). *)
From Aqua Require Import Base RunTop Sig.
Open Scope N_scope.

(* what the harness saw when it drove DataVerifier::new(prev), ::new(cur), cur.verify(), prev.merge(cur) *)
Inductive obs_verdict :=
| ObsErr (kind : string) (subject : string)      (* DataVerifierError variant; the peer id / key it names *)
| ObsOk (store : list (string * sig)).           (* the merged SignatureStore (peer id, signature), sorted by peer id *)

(* what air::execute_air did on (prev, cur) at the peer that owns prev *)
Record run_obs := MkRun {
  r_observer : string;               (* current_peer_id of the run *)
  r_code : Z;                        (* ret_code *)
  r_same : bool;                     (* the run failed and the returned data == prev bytes *)
  r_sigs : list (string * sig)       (* signatures of the returned data (when it decodes) *)
}.

Record case_t := MkCase {
  c_salt : string;                   (* the particle id the verification runs under *)
  c_cid_ok : bool;                   (* current_data.cid_info.verify() *)
  c_prev : data;
  c_cur : data;
  c_direct : obs_verdict;
  c_run : option run_obs
}.

(* the harness prints a key that PublicKey::validate refuses as "BAD:<base58>" *)
Definition case_key_ok (k : string) : bool := negb (String.prefix "BAD:" k).

Definition has_sig (m : amap sig) (p : string) : bool := match map_get p m with Some _ => true | None => false end.

Definition store_agrees (st : amap sig) (obs : list (string * sig)) : bool :=
  Nat.eqb (length st) (length obs) &&
  forallb (fun e => match map_get (fst e) st with Some s => sig_eqb s (snd e) | None => false end) obs.

(* the peer / key an error names is a legitimate one (which one is reported depends on hash-map
   iteration order, except for PeerIdNotFound which follows the trace) *)
Definition offender_ok (c : case_t) (e : dv_err) (subject : string) : bool :=
  match e with
  | MalformedKey _ => negb (case_key_ok subject) && (has_sig (d_sigs (c_prev c)) subject || has_sig (d_sigs (c_cur c)) subject)
  | MalformedSignature => false
  | PeerIdNotFound p => String.eqb p subject
  | SignatureMismatch _ =>
      match map_get subject (d_sigs (c_cur c)) with
      | Some s => negb (sig_verify subject (Mof (c_cur c) subject) (c_salt c) s)
      | None => false
      end
  | MergeMismatch _ => incomparableb (Mof (c_prev c) subject) (Mof (c_cur c) subject)
  | CidNotFound => false          (* the model's verifier never raises it (attribution is an input) *)
  end.

Definition direct_agrees (c : case_t) : bool :=
  match dv_verification case_key_ok id_orders (c_prev c) (c_cur c) (c_salt c), c_direct c with
  | DErr e, ObsErr kind subject => String.eqb (dv_err_name e) kind && offender_ok c e subject
  | DOk st, ObsOk obs => store_agrees st obs
  | _, _ => false
  end.

Definition run_agrees (c : case_t) (r : run_obs) : bool :=
  match verification_step case_key_ok id_orders (c_cid_ok c) (c_prev c) (c_cur c) (c_salt c) with
  | RErr e => (r_code r =? prep_err_code e)%Z && r_same r
  | ROk _ => negb (r_code r =? prep_err_code CidStoreVerificationError)%Z &&
             negb (r_code r =? prep_err_code DataSignatureCheckError)%Z
  end.

(* correspondence: model verdict = implementation verdict, at both levels *)
Definition check_case (c : case_t) : bool :=
  direct_agrees c && match c_run c with Some r => run_agrees c r | None => true end.

(* ---------------- the property, on the implementation's observation only ---------------- *)
Fixpoint dedup (l : list string) : list string :=
  match l with
  | [] => []
  | x :: r => if existsb (String.eqb x) r then dedup r else x :: dedup r
  end.
(* every peer that has a result or a signature in one of the two data, once *)
Definition case_peers (c : case_t) : list string :=
  dedup (map fst (d_trace (c_prev c)) ++ map fst (d_trace (c_cur c)) ++ keys (d_sigs (c_prev c)) ++ keys (d_sigs (c_cur c))).

Definition equivocation (c : case_t) : bool :=
  existsb (fun p => incomparableb (Mof (c_prev c) p) (Mof (c_cur c) p)) (case_peers c).

(* "previous data" of the property is data this interpreter accepted earlier: its signatures verify *)
Definition prev_verified (c : case_t) : bool :=
  forallb (fun e => sig_verify (fst e) (Mof (c_prev c) (fst e)) (c_salt c) (snd e)) (d_sigs (c_prev c)).

(* the store keeps for p the signature over the larger of its two result multisets *)
Definition kept_ok (c : case_t) (store : list (string * sig)) (p : string) : bool :=
  match map_get p (d_sigs (c_prev c)), map_get p (d_sigs (c_cur c)) with
  | Some _, Some _ =>
      match map_get p store with
      | Some s => sig_verify p (larger_of (Mof (c_prev c) p) (Mof (c_cur c) p)) (c_salt c) s
      | None => false
      end
  | Some s0, None | None, Some s0 =>
      match map_get p store with Some s => sig_eqb s s0 | None => false end
  | None, None => match map_get p store with Some _ => false | None => true end
  end.

Definition code_sig : Z := prep_err_code DataSignatureCheckError.
Definition code_cid : Z := prep_err_code CidStoreVerificationError.

Definition c15_oracle (c : case_t) : bool :=
  if equivocation c then
    (* rejected during preparation, previous data returned *)
    match c_direct c with ObsErr _ _ => true | ObsOk _ => false end &&
    match c_run c with
    | Some r => ((r_code r =? code_sig)%Z || (negb (c_cid_ok c) && (r_code r =? code_cid)%Z)) && r_same r
    | None => true
    end
  else if negb (prev_verified c) then true
  else
    match c_direct c with
    | ObsErr kind _ => negb (String.eqb kind "MergeMismatch")     (* no equivocation: not rejected as one *)
    | ObsOk store =>
        forallb (kept_ok c store) (case_peers c) &&
        match c_run c with
        | Some r =>
            negb (r_code r =? code_sig)%Z &&
            (if (r_code r =? 0)%Z
             then forallb (fun p => String.eqb p (r_observer r) ||
                                    negb (has_sig (d_sigs (c_prev c)) p && has_sig (d_sigs (c_cur c)) p) ||
                                    kept_ok c (r_sigs r) p) (case_peers c)
             else true)
        | None => true
        end
    end.
