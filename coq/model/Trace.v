(* Trace.v -- executed states and traces.

   Mirrors crates/air-lib/interpreter-data/src/executed_state.rs.  The type is parametric in the
   representation [C] of content ids: the trace-handler correspondence instantiates it with the
   CID text (string), the executor model with symbolic content terms.
   Definitions only. *)
From Aqua Require Import Base.
Open Scope N_scope.

Inductive sender :=
| SPeer (p : string)                       (* Sender::PeerId *)
| SPeerCall (p : string) (call_id : N).    (* Sender::PeerIdWithCallId *)

Record sub_desc := { sd_pos : N; sd_len : N }.                        (* SubTraceDesc *)
Record fold_sub_lore := { fl_value_pos : N; fl_descs : list sub_desc }. (* FoldSubTraceLore *)

Definition sender_eqb (a b : sender) : bool :=
  match a, b with
  | SPeer p, SPeer q => String.eqb p q
  | SPeerCall p i, SPeerCall q j => String.eqb p q && (i =? j)
  | _, _ => false
  end.
Definition sub_desc_eqb (a b : sub_desc) : bool := (sd_pos a =? sd_pos b) && (sd_len a =? sd_len b).
Definition fold_sub_lore_eqb (a b : fold_sub_lore) : bool :=
  (fl_value_pos a =? fl_value_pos b) && list_eqb sub_desc_eqb (fl_descs a) (fl_descs b).

(* list access by N position *)
(* the bound check first: [N.to_nat] of an adversarial 32-bit position must never be evaluated *)
Definition nth_N {A} (l : list A) (n : N) : option A :=
  if n <? N.of_nat (length l) then nth_error l (N.to_nat n) else None.
Definition len_N {A} (l : list A) : N := N.of_nat (length l).
Fixpoint set_nth {A} (l : list A) (n : nat) (x : A) : list A :=
  match l, n with
  | [], _ => []
  | _ :: r, O => x :: r
  | y :: r, S k => y :: set_nth r k x
  end.

Section Trace.
  Variable C : Type.
  Variable ceqb : C -> C -> bool.

  Inductive value_ref :=
  | VRScalar (cid : C)
  | VRStream (cid : C) (generation : N)
  | VRUnused (cid : C).

  Inductive call_result :=
  | RequestSentBy (s : sender)
  | Executed (v : value_ref)
  | Failed (cid : C).

  Inductive canon_result :=
  | CanonRequestSentBy (p : string)
  | CanonExecuted (cid : C).

  Inductive state :=
  | SPar (left right : N)
  | SCall (c : call_result)
  | SAp (generations : list N)
  | SCanon (c : canon_result)
  | SFold (lore : list fold_sub_lore).

  Definition trace := list state.

  (* ---- equality (derive(PartialEq)) ---- *)
  Definition value_ref_eqb (a b : value_ref) : bool :=
    match a, b with
    | VRScalar x, VRScalar y => ceqb x y
    | VRStream x g, VRStream y h => ceqb x y && (g =? h)
    | VRUnused x, VRUnused y => ceqb x y
    | _, _ => false
    end.
  Definition call_result_eqb (a b : call_result) : bool :=
    match a, b with
    | RequestSentBy s, RequestSentBy t => sender_eqb s t
    | Executed v, Executed w => value_ref_eqb v w
    | Failed x, Failed y => ceqb x y
    | _, _ => false
    end.
  Definition canon_result_eqb (a b : canon_result) : bool :=
    match a, b with
    | CanonRequestSentBy p, CanonRequestSentBy q => String.eqb p q
    | CanonExecuted x, CanonExecuted y => ceqb x y
    | _, _ => false
    end.
  Definition state_eqb (a b : state) : bool :=
    match a, b with
    | SPar l r, SPar l' r' => (l =? l') && (r =? r')
    | SCall c, SCall d => call_result_eqb c d
    | SAp g, SAp h => list_eqb N.eqb g h
    | SCanon c, SCanon d => canon_result_eqb c d
    | SFold l, SFold m => list_eqb fold_sub_lore_eqb l m
    | _, _ => false
    end.
  Definition trace_eqb (a b : trace) : bool := list_eqb state_eqb a b.

End Trace.

Arguments VRScalar {C}. Arguments VRStream {C}. Arguments VRUnused {C}.
Arguments RequestSentBy {C}. Arguments Executed {C}. Arguments Failed {C}.
Arguments CanonRequestSentBy {C}. Arguments CanonExecuted {C}.
Arguments SPar {C}. Arguments SCall {C}. Arguments SAp {C}. Arguments SCanon {C}. Arguments SFold {C}.
