//! det20: C20 "execution is deterministic".
//!
//! Parent mode (default): one JSON case per stdin line = a history (script, peers, services, schedule)
//! plus probes (bogus call results that stay unprocessed, tampered current data with several culprits).
//! Every run of the history is re-executed (a) twice more in this process (every new HashMap of the
//! second execution gets other SipHash keys than the first one: std's RandomState increments its
//! per-thread key on every construction) and (b) in N fresh child processes (`det20 --child`, spawned
//! from the parent's own executable, so the process-wide random keys differ).  The outcomes are
//! compared after canonicalisation (sim::canon_outcome: code, MESSAGE, decoded data with sorted
//! stores, requests, next peers as a sorted set, flags).  The byte order of maps in the encoded data
//! and the order of the next peers are allowed to differ; how often they did is reported.
//!
//! input : {"script","peers","init","services","ops","particle_id","children":N,
//!          "bogus": [[after_op_index, peer, k], ...]          k unprocessed results handed to `peer`
//!          "tamper": [[after_op_index, kind, seed], ...]      kind in swap_sigs|drop_sigs|bad_values|two_bad_keys|dangling_refs|fork_data
//!          "services_fork": table | null                       second world for fork_data (same peers sign other results)
//!          "map_kvs": [[key, value] ...] | null                key/value pairs of the canon map probe
//!          "expect": "canon-map-colliding-keys" | null}
//! output: {"runs", "executions", "classes", "info", "oracle_failures", "coq"}
//!
//! Child mode: one run input per line, one observation per line.

use air_interpreter_data::*;
use air_interpreter_signatures::{PublicKey, Signature};
use aquah::coqfmt as c;
use aquah::sim::*;
use serde_json::json;
use serde_json::Value as J;
use std::collections::BTreeMap;
use std::io::{BufRead, Read, Write};
use std::process::{Command, Stdio};

fn input_to_json(i: &RunInput) -> J {
    json!({
        "air": i.air, "prev": hex(&i.prev), "cur": hex(&i.cur), "init": i.init_peer_id, "current": i.current_peer_id,
        "secret": hex(&i.secret), "key_format": i.key_format, "particle": i.particle_id, "timestamp": i.timestamp,
        "ttl": i.ttl,
        "results": i.call_results.iter().map(|(k, (c, t))| json!([k, c, t])).collect::<Vec<J>>(),
    })
}

fn input_from_json(j: &J) -> RunInput {
    let mut results = BTreeMap::new();
    if let Some(a) = j["results"].as_array() {
        for e in a {
            results.insert(e[0].as_u64().unwrap_or(0) as u32, (e[1].as_i64().unwrap_or(0) as i32, e[2].as_str().unwrap_or("").to_string()));
        }
    }
    RunInput {
        air: j["air"].as_str().unwrap_or("").to_string(),
        prev: unhex(j["prev"].as_str().unwrap_or("")),
        cur: unhex(j["cur"].as_str().unwrap_or("")),
        init_peer_id: j["init"].as_str().unwrap_or("").to_string(),
        current_peer_id: j["current"].as_str().unwrap_or("").to_string(),
        secret: unhex(j["secret"].as_str().unwrap_or("")),
        key_format: j["key_format"].as_u64().unwrap_or(0) as u8,
        particle_id: j["particle"].as_str().unwrap_or("").to_string(),
        timestamp: j["timestamp"].as_u64().unwrap_or(0),
        ttl: j["ttl"].as_u64().unwrap_or(0) as u32,
        limits: Limits::unlimited(),
        call_results: results,
        call_results_raw: None,
    }
}

fn fnv(b: &[u8]) -> String {
    let mut h: u64 = 0xcbf29ce484222325;
    for x in b {
        h ^= *x as u64;
        h = h.wrapping_mul(0x100000001b3);
    }
    format!("{:016x}", h)
}

/// what one execution shows: the canonical outcome + the raw, order-carrying parts
fn observe(o: &RunOut) -> J {
    json!({"canon": canon_outcome(o), "next_raw": o.next, "data_fnv": fnv(&o.data), "req_fnv": fnv(&o.requests_raw)})
}

fn child_main() {
    quiet_panics();
    let stdin = std::io::stdin();
    let out = std::io::stdout();
    let mut out = out.lock();
    for line in stdin.lock().lines() {
        let line = match line { Ok(l) => l, Err(_) => break };
        if line.trim().is_empty() { continue; }
        let j: J = serde_json::from_str(&line).unwrap_or(J::Null);
        let o = run(&input_from_json(&j));
        let _ = writeln!(out, "{}", observe(&o));
    }
}

// ------------------------------------------------------------------------------------------
// tampering: current data with SEVERAL culprits, so that which one an error finds first may
// depend on an iteration order

fn key_name(pk: &PublicKey) -> String {
    pk.to_peer_id().map(|p| p.to_string()).unwrap_or_else(|_| pk.to_string())
}

fn reencode(orig: &[u8], d: &InterpreterData) -> Option<Vec<u8>> {
    let env = InterpreterDataEnvelope::try_from_slice(orig).ok()?;
    let inner = d.serialize().ok()?;
    let env2 = InterpreterDataEnvelope { versions: env.versions.clone(), inner_data: inner.into() };
    env2.serialize().ok()
}

fn tamper(kind: &str, bytes: &[u8], seed: u64) -> Option<Vec<u8>> {
    let mut d = decode_data(bytes).ok()?.data;
    match kind {
        // every signature moved to the next signer (>= 2 signers): every peer with results is a culprit
        "swap_sigs" => {
            let mut v: Vec<(PublicKey, Signature)> = d.signatures.iter().map(|(p, s)| (p.clone(), s.clone())).collect();
            if v.len() < 2 { return None; }
            v.sort_by_key(|a| key_name(&a.0));
            let n = v.len();
            let sh = 1 + (seed as usize) % (n - 1);
            let sigs: Vec<Signature> = v.iter().map(|x| x.1.clone()).collect();
            for (i, (pk, _)) in v.iter().enumerate() {
                d.signatures.put(pk.clone(), sigs[(i + sh) % n].clone());
            }
        }
        // all signatures dropped: the first peer met in the TRACE is reported (trace order, not a map)
        "drop_sigs" => {
            if d.signatures.is_empty() { return None; }
            d.signatures = Default::default();
        }
        // two or more values of the value store replaced by other JSON: CidStore::verify walks a HashMap
        "bad_values" => {
            let j = serde_json::to_value(&d).ok()?;
            let mut j = j;
            let vs = j.get_mut("cid_info")?.get_mut("value_store")?.as_object_mut()?;
            if vs.len() < 2 { return None; }
            for (_, v) in vs.iter_mut() {
                *v = J::String(format!("tampered-{}", seed));
            }
            d = serde_json::from_value(j).ok()?;
        }
        // two malformed public keys among the signatures: DataVerifier::new names the first one it meets
        "two_bad_keys" => {
            let sig = d.signatures.iter().map(|(_, s)| s.clone()).next()?;
            for name in ["badkeyA", "badkeyB", "badkeyC"] {
                let pk: PublicKey = serde_json::from_str(&format!("\"{}{}\"", name, seed % 7)).ok()?;
                d.signatures.put(pk, sig.clone());
            }
        }
        // the tetraplet store emptied: every service result / canon aggregate has a dangling reference
        "dangling_refs" => {
            let mut j = serde_json::to_value(&d).ok()?;
            let ci = j.get_mut("cid_info")?;
            let n = ci.get("service_result_store")?.as_object()?.len() + ci.get("canon_element_store")?.as_object()?.len();
            if n < 2 { return None; }
            *ci.get_mut("tetraplet_store")? = json!({});
            d = serde_json::from_value(j).ok()?;
        }
        _ => return None,
    }
    reencode(bytes, &d)
}

// ------------------------------------------------------------------------------------------

struct Rec {
    case: usize,
    step: usize,
    kind: String,
    input: RunInput,
    first: J,
}

fn diff_fields(a: &J, b: &J) -> Vec<&'static str> {
    let mut what = vec![];
    for k in ["panic", "code", "msg", "data", "next", "requests", "flags"] {
        if a[k] != b[k] { what.push(k); }
    }
    what
}

fn data_diff_fields(a: &J, b: &J) -> Vec<String> {
    let mut v = vec![];
    if let (Some(x), Some(y)) = (a.as_object(), b.as_object()) {
        for (k, xv) in x {
            if y.get(k) != Some(xv) { v.push(k.clone()); }
        }
    } else if a != b {
        v.push("bytes".into());
    }
    v
}

/// all numeric-looking keys of objects inside the arguments (candidates of the 42 / "42" overlap)
fn numeric_keys(j: &J, out: &mut Vec<String>) {
    match j {
        J::Array(a) => a.iter().for_each(|x| numeric_keys(x, out)),
        J::Object(o) => {
            for (k, v) in o {
                if k.parse::<i128>().is_ok() { out.push(k.clone()); }
                numeric_keys(v, out);
            }
        }
        _ => {}
    }
}

/// a and b are equal except below object members with a numeric-looking key
fn equal_up_to_numeric_keys(a: &J, b: &J) -> bool {
    match (a, b) {
        (J::Array(x), J::Array(y)) => x.len() == y.len() && x.iter().zip(y).all(|(p, q)| equal_up_to_numeric_keys(p, q)),
        (J::Object(x), J::Object(y)) => {
            x.len() == y.len()
                && x.iter().all(|(k, v)| match y.get(k) {
                    Some(w) => k.parse::<i128>().is_ok() || equal_up_to_numeric_keys(v, w),
                    None => false,
                })
        }
        _ => a == b,
    }
}

fn classify(case: &J, rec: &Rec, a: &J, b: &J, how: &str) -> J {
    let what = diff_fields(a, b);
    let code = a["code"].as_i64().unwrap_or(-1);
    let codeb = b["code"].as_i64().unwrap_or(-1);
    let mut key = "nondeterministic";
    if what == vec!["msg"] && code == 30000 {
        // property text: "same result code and message" -- the 30000 text is Debug of a HashMap
        key = "unprocessed-results-message-order";
    } else if what == vec!["msg"] && code == codeb && rec.kind.starts_with("tamper:") && (1..10000).contains(&code) {
        // which culprit a preparation error names.  DataVerifier::verify and CidStore::verify* visit their maps in key order
        // since the fix; the sites that still walk a HashMap are recognised by their error text
        let (ma, mb) = (a["msg"].as_str().unwrap_or(""), b["msg"].as_str().unwrap_or(""));
        let uncovered = ["malformed key:", "inconsistent CID multisets on merge for peer", "Reference CID "];
        if uncovered.iter().any(|p| ma.starts_with(p) && mb.starts_with(p)) {
            key = "preparation-error-first-culprit-uncovered-sites";
        }
    } else if case["expect"].as_str() == Some("canon-map-colliding-keys") {
        // the JSON rendering of a canon map whose keys 42 and "42" collide: the call arguments may differ
        // only below numeric-looking keys; everything else of the same run must agree; later runs may
        // then disagree on the argument hash (InstructionParametersMismatch) -- still the same defect
        let only_args = what.iter().all(|k| *k == "requests" || *k == "data" || *k == "code" || *k == "msg");
        let args_ok = match (a["requests"].as_array(), b["requests"].as_array()) {
            (Some(x), Some(y)) if x.len() == y.len() => x.iter().zip(y).all(|(p, q)| {
                p[0] == q[0] && p[1] == q[1] && p[2] == q[2] && equal_up_to_numeric_keys(&p[3], &q[3])
            }),
            (None, None) => true,
            _ => what.contains(&"code"),
        };
        if only_args && args_ok { key = "canon-map-colliding-keys"; }
        // consequence of the same defect: this execution renders the map differently from the execution that
        // produced the stored state, so the argument hash check of the executed call fails (20017) in one of them
        let mismatch = |x: &J| x["code"].as_i64() == Some(20017) && x["msg"].as_str().map(|m| m.contains("call argument_hash")).unwrap_or(false);
        if mismatch(a) != mismatch(b) { key = "canon-map-colliding-keys"; }
    }
    let dd = if what.contains(&"data") { data_diff_fields(&a["data"], &b["data"]) } else { vec![] };
    json!({"property": "C20", "step": rec.step, "key": key, "how": how, "kind": rec.kind,
           "what": format!("{} differs in {:?}{} (code {} vs {}; msg `{}` vs `{}`)", how, what,
                if dd.is_empty() { String::new() } else { format!(" data fields {:?}", dd) }, code, codeb,
                a["msg"].as_str().unwrap_or("").chars().take(220).collect::<String>(),
                b["msg"].as_str().unwrap_or("").chars().take(220).collect::<String>())})
}

fn coq_strs(v: &[String]) -> String {
    c::list(v.iter().map(|x| c::s(x)))
}

fn main() {
    if std::env::args().any(|a| a == "--child") {
        child_main();
        return;
    }
    quiet_panics();
    let mut text = String::new();
    let _ = std::io::stdin().lock().read_to_string(&mut text);
    let cases: Vec<J> = text.lines().filter(|l| !l.trim().is_empty()).map(|l| serde_json::from_str(l).unwrap_or(J::Null)).collect();
    let mut recs: Vec<Rec> = vec![];
    let mut errors: Vec<Option<String>> = vec![None; cases.len()];
    let mut children = 0usize;

    for (ci, case) in cases.iter().enumerate() {
        children = children.max(case["children"].as_u64().unwrap_or(4) as usize);
        let peers: Vec<String> = case["peers"].as_array().map(|a| a.iter().filter_map(|x| x.as_str().map(String::from)).collect()).unwrap_or_default();
        let script = Net::instantiate(case["script"].as_str().unwrap_or("(null)"), &peers);
        if let Err(e) = air_parser::parse(&script) {
            errors[ci] = Some(format!("script does not parse: {}", e.chars().take(300).collect::<String>()));
            continue;
        }
        let services_json = Net::instantiate(&case["services"].to_string(), &peers);
        let services = Services::from_json(&serde_json::from_str(&services_json).unwrap_or(J::Null));
        let init = case["init"].as_u64().unwrap_or(0) as usize;
        let ops = ops_from_json(&case["ops"]);
        let mut net = Net::new(&script, &peers, init, services, case["particle_id"].as_str().unwrap_or("particle-1"));
        // a second world: same script, peers, keys, particle id and schedule, other service results (the same peers sign
        // diverging results); its data delivered into the first world gives DataVerifier::merge several inconsistent peers
        let mut net2: Option<Net> = if case["services_fork"].is_array() {
            let sj = Net::instantiate(&case["services_fork"].to_string(), &peers);
            Some(Net::new(&script, &peers, init, Services::from_json(&serde_json::from_str(&sj).unwrap_or(J::Null)), case["particle_id"].as_str().unwrap_or("particle-1")))
        } else { None };
        let bogus: Vec<(usize, usize, usize)> = case["bogus"].as_array().map(|a| a.iter().map(|e| (e[0].as_u64().unwrap_or(0) as usize, e[1].as_u64().unwrap_or(0) as usize, e[2].as_u64().unwrap_or(2) as usize)).collect()).unwrap_or_default();
        let tampers: Vec<(usize, String, u64)> = case["tamper"].as_array().map(|a| a.iter().map(|e| (e[0].as_u64().unwrap_or(0) as usize, e[1].as_str().unwrap_or("").to_string(), e[2].as_u64().unwrap_or(0))).collect()).unwrap_or_default();
        for (opi, op) in ops.iter().enumerate() {
            if let Some(rec) = net.exec(op) {
                let first = observe(&rec.out);
                recs.push(Rec { case: ci, step: rec.step, kind: "run".into(), input: rec.input, first });
            }
            if let Some(n2) = net2.as_mut() { let _ = n2.exec(op); }
            for (at, p, k) in bogus.iter() {
                if *at != opi { continue; }
                // results under ids nobody asked for: they stay unprocessed (code 30000)
                let p = *p % net.hosts.len();
                let mut res = BTreeMap::new();
                for i in 0..*k {
                    res.insert(900_000 + (i as u32) * 7, (if i % 3 == 2 { 1 } else { 0 }, format!("\"left-{}\"", i)));
                }
                let input = net.make_input(p, vec![], res);
                let out = run(&input);
                net.apply(p, &out);
                let first = observe(&out);
                recs.push(Rec { case: ci, step: net.step, kind: format!("bogus:{}", k), input, first });
                net.step += 1;
            }
            for (at, kind, seed) in tampers.iter() {
                if *at != opi || kind != "fork_data" { continue; }
                if let Some(n2) = net2.as_ref() {
                    let h = (*seed as usize) % n2.hosts.len();
                    let p = ((*seed as usize) / 7) % net.hosts.len();
                    if n2.hosts[h].prev.is_empty() || net.hosts[p].prev.is_empty() { continue; }
                    let input = net.make_input(p, n2.hosts[h].prev.clone(), BTreeMap::new());
                    let out = run(&input);
                    let first = observe(&out);
                    recs.push(Rec { case: ci, step: net.step, kind: "tamper:fork_data".into(), input, first });
                    net.step += 1;
                }
            }
            for (at, kind, seed) in tampers.iter() {
                if *at != opi || net.inflight.is_empty() || kind == "fork_data" { continue; }
                let m = net.inflight[(*seed as usize) % net.inflight.len()].clone();
                if let Some(bad) = tamper(kind, &m.data, *seed) {
                    let input = net.make_input(m.to, bad, BTreeMap::new());
                    let out = run(&input);
                    // a refused particle changes nothing at the host (the outcome carries the previous data)
                    let first = observe(&out);
                    recs.push(Rec { case: ci, step: net.step, kind: format!("tamper:{}", kind), input, first });
                    net.step += 1;
                }
            }
        }
    }

    // (a) same process, twice more
    let mut failures: Vec<Vec<J>> = cases.iter().map(|_| vec![]).collect();
    let mut stats: Vec<BTreeMap<String, u64>> = cases.iter().map(|_| BTreeMap::new()).collect();
    let mut bump = |ci: usize, k: &str, n: u64| { *stats[ci].entry(k.to_string()).or_insert(0) += n; };
    let mut all_obs: Vec<Vec<J>> = recs.iter().map(|r| vec![r.first.clone()]).collect();
    for (ri, rec) in recs.iter().enumerate() {
        for _ in 0..2 {
            let again = observe(&run(&rec.input));
            all_obs[ri].push(again);
        }
        bump(rec.case, "executions", 3);
    }
    // (b) fresh processes
    let exe = std::env::current_exe().expect("own path");
    let lines: String = recs.iter().map(|r| input_to_json(&r.input).to_string() + "\n").collect();
    let mut handles = vec![];
    if !recs.is_empty() {
        for _ in 0..children {
            let mut ch = Command::new(&exe).arg("--child").stdin(Stdio::piped()).stdout(Stdio::piped()).stderr(Stdio::null()).spawn().expect("spawn child");
            let mut sin = ch.stdin.take().expect("stdin");
            let l = lines.clone();
            let w = std::thread::spawn(move || { let _ = sin.write_all(l.as_bytes()); });
            handles.push((ch, w));
        }
    }
    let mut machinery: Vec<String> = vec![];
    for (mut ch, w) in handles {
        let mut out = String::new();
        if let Some(mut so) = ch.stdout.take() { let _ = so.read_to_string(&mut out); }
        let _ = w.join();
        let _ = ch.wait();
        let obs: Vec<J> = out.lines().filter(|l| !l.trim().is_empty()).map(|l| serde_json::from_str(l).unwrap_or(J::Null)).collect();
        if obs.len() != recs.len() {
            machinery.push(format!("child answered {} of {} runs", obs.len(), recs.len()));
            continue;
        }
        for (ri, o) in obs.into_iter().enumerate() {
            all_obs[ri].push(o);
            bump(recs[ri].case, "executions", 1);
        }
    }

    // compare
    let mut classes: Vec<Vec<String>> = cases.iter().map(|_| vec![]).collect();
    let mut coq: Vec<Vec<String>> = cases.iter().map(|_| vec![]).collect();
    let mut infos: Vec<Vec<J>> = cases.iter().map(|_| vec![]).collect();
    for (ri, rec) in recs.iter().enumerate() {
        let ci = rec.case;
        let obs = &all_obs[ri];
        let a = &obs[0]["canon"];
        let code = a["code"].as_i64().unwrap_or(-1);
        bump(ci, "runs", 1);
        let mut reported: Vec<String> = vec![];
        for (k, o) in obs.iter().enumerate().skip(1) {
            let how = if k <= 2 { "re-execution in the same process" } else { "execution in a fresh process" };
            if &o["canon"] != a {
                let f = classify(&cases[ci], rec, a, &o["canon"], how);
                let sig = format!("{}|{}|{:?}", f["key"], how, diff_fields(a, &o["canon"]));
                if !reported.contains(&sig) {
                    reported.push(sig);
                    failures[ci].push(f);
                }
            }
        }
        // allowed differences, measured
        let byte_var = obs.iter().any(|o| o["data_fnv"] != obs[0]["data_fnv"]);
        let next_var = obs.iter().any(|o| o["next_raw"] != obs[0]["next_raw"]);
        let req_var = obs.iter().any(|o| o["req_fnv"] != obs[0]["req_fnv"]);
        if byte_var { bump(ci, "runs whose data bytes differ between executions (allowed)", 1); }
        if next_var { bump(ci, "runs whose next-peer ORDER differs between executions (allowed)", 1); }
        if req_var { bump(ci, "runs whose request-map bytes differ between executions (allowed)", 1); }
        let nreq = a["requests"].as_array().map(|x| x.len()).unwrap_or(0);
        let nnext = a["next"].as_array().map(|x| x.len()).unwrap_or(0);
        let nsig = a["data"]["signatures"].as_array().map(|x| x.len()).unwrap_or(0);
        let trace = a["data"]["trace"].as_array().cloned().unwrap_or_default();
        let n_stream_states = trace.iter().filter(|s| s.get("ap").is_some() || s.to_string().contains("\"stream\"")).count();
        classes[ci].push(format!("{}:code:{}", rec.kind.split(':').next().unwrap_or("run"), code));
        if nnext >= 2 { bump(ci, "runs with >= 2 next peers", 1); }
        if nsig >= 2 { bump(ci, "runs with >= 2 signers", 1); }
        if nreq >= 2 { bump(ci, "runs with >= 2 call requests", 1); }
        if n_stream_states >= 2 { bump(ci, "runs with >= 2 stream generations in the trace", 1); }
        if code == 30000 { bump(ci, "runs with unprocessed results (30000)", 1); }
        // Coq cases: the model's order-parameterised pieces against what the executions showed
        let nexts: Vec<Vec<String>> = obs.iter().filter(|o| o["canon"]["code"] == a["code"]).map(|o| o["next_raw"].as_array().map(|x| x.iter().filter_map(|s| s.as_str().map(String::from)).collect()).unwrap_or_default()).collect();
        if nnext >= 1 {
            let mut distinct: Vec<Vec<String>> = vec![];
            for n in nexts { if !distinct.contains(&n) { distinct.push(n); } }
            coq[ci].push(format!("(CNext {})", c::list(distinct.iter().map(|l| coq_strs(l)))));
        }
        if code == 30000 && rec.kind.starts_with("bogus") {
            let left: Vec<String> = rec.input.call_results.iter().map(|(id, (rc, t))| format!("({}, ({}, {}))", c::s(&id.to_string()), c::z(*rc as i128), c::s(t))).collect();
            let mut msgs: Vec<String> = vec![];
            for o in obs.iter() {
                let m = o["canon"]["msg"].as_str().unwrap_or("").to_string();
                if !msgs.contains(&m) { msgs.push(m); }
            }
            // only when every supplied result is left over (an Idle run: nothing was pending for these ids)
            coq[ci].push(format!("(CMsg {} {})", c::list(left), coq_strs(&msgs)));
            bump(ci, &format!("30000 runs with {} distinct message texts", msgs.len()), 1);
        }
        if let Some(kvs) = cases[ci]["map_kvs"].as_array() {
            // the canon-map probe: arguments that are objects
            let mut seen: Vec<J> = vec![];
            for o in obs.iter() {
                if let Some(rs) = o["canon"]["requests"].as_array() {
                    for r in rs {
                        if r[2].as_str() == Some("mapprobe") {
                            let arg = r[3][0].clone();
                            if !seen.contains(&arg) { seen.push(arg); }
                        }
                    }
                }
            }
            if !seen.is_empty() {
                let kv_t = c::list(kvs.iter().map(|kv| {
                    let k = match &kv[0] { J::String(s) => format!("(KStr {})", c::s(s)), J::Number(n) => format!("(KInt {})", c::z(n.as_i64().unwrap_or(0) as i128)), _ => "(KStr \"\")".into() };
                    format!("({}, {})", k, c::s(kv[1].as_str().unwrap_or("")))
                }));
                let seen_t = c::list(seen.iter().map(|a| {
                    // rendered as association lists key -> list of value texts
                    let o = a.as_object().cloned().unwrap_or_default();
                    c::list(o.iter().map(|(k, v)| format!("({}, {})", c::s(k), c::list(v.as_array().cloned().unwrap_or_default().iter().map(|x| c::s(&x.to_string()))))))
                }));
                coq[ci].push(format!("(CMap {} {})", kv_t, seen_t));
                bump(ci, &format!("canon-map probes with {} distinct renderings", seen.len()), 1);
            }
        }
        if infos[ci].len() < 40 {
            infos[ci].push(json!({"step": rec.step, "kind": rec.kind, "code": code, "next": nnext, "requests": nreq, "signers": nsig,
                                  "bytes_vary": byte_var, "next_order_varies": next_var}));
        }
    }
    for (ci, _) in cases.iter().enumerate() {
        if let Some(e) = &errors[ci] {
            println!("{}", json!({"error": e}));
            continue;
        }
        let mut o = json!({"coq": coq[ci], "classes": classes[ci], "info": infos[ci], "oracle_failures": failures[ci], "stats": stats[ci],
                           "runs": stats[ci].get("runs").cloned().unwrap_or(0), "executions": stats[ci].get("executions").cloned().unwrap_or(0)});
        if !machinery.is_empty() { o["machinery"] = json!(machinery); }
        println!("{}", o);
    }
}
