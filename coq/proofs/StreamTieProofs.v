(* StreamTieProofs.v -- the functions of model/Stream.v are what the tables read from the Rust sources
   (tools/genx_stream.py -> Generated.v, src_...) describe, under the interpretation of model/StreamTie.v.
   Every lemma here is closed by computation on the generated tables: a change of the source that
   changes a table breaks it. *)
From Coq Require Import Lia.
From Aqua Require Import Base Stream StreamTie.
Open Scope N_scope.
Open Scope list_scope.

Section TieProofs.
  Variable V : Type.

  (* the names used by the tables are the fields of `struct Stream<T>`, in declaration order *)
  Lemma fields_tie : src_stream_fields = known_fields.
  Proof. reflexivity. Qed.

  (* Stream::iter chains previous, current, new *)
  Lemma iter_tie (s : stream V) : stream_iter V s = iter_by V src_stream_iter_chain s.
  Proof. unfold stream_iter, iter_by. cbn. rewrite app_nil_r. reflexivity. Qed.

  (* Stream::slice_iter chains previous from cursor.previous_start_idx, current from .., new from .. *)
  Lemma slice_iter_tie (s : stream V) (c : stream_cursor) :
    stream_slice_iter V s c = slice_iter_by V src_stream_slice_iter_chain s c.
  Proof. unfold stream_slice_iter, slice_iter_by. cbn. rewrite app_nil_r. reflexivity. Qed.

  (* Stream::cursor = StreamCursor::new(previous count, current count, new count), field by field *)
  Lemma cursor_tie (s : stream V) :
    stream_get_cursor V s = cursor_by V src_stream_cursor_args src_stream_cursor_params s.
  Proof.
    unfold stream_get_cursor, cursor_by. cbn.
    destruct (generations_count V (s_prev s)); cbn; [|reflexivity|reflexivity].
    destruct (generations_count V (s_cur s)); cbn; [|reflexivity|reflexivity].
    destruct (generations_count V (s_new s)); cbn; reflexivity.
  Qed.
  Lemma cursor_empty_tie : cursor_empty = cursor_of src_stream_cursor_empty /\ map fst src_stream_cursor_empty = known_cfields.
  Proof. split; reflexivity. Qed.

  (* check_stream_size_limit: prev + cur + new >= STREAM_MAX_SIZE -> StreamSizeLimitExceeded *)
  Lemma size_check_tie (s : stream V) :
    check_stream_size_limit V s = check_by V src_stream_size_terms src_stream_size_cmp s /\
    src_stream_size_bound = "STREAM_MAX_SIZE"%string /\ src_stream_size_error = "StreamSizeLimitExceeded"%string /\
    In src_stream_size_error uncatchable_error_variants.
  Proof.
    split; [|split; [reflexivity|split; [reflexivity|]]].
    - unfold check_stream_size_limit, check_by, stream_size, size_by. cbn.
      replace (matrix_get_size V (s_prev s) + (matrix_get_size V (s_cur s) + (matrix_get_size V (s_new s) + 0)))
        with (matrix_get_size V (s_prev s) + matrix_get_size V (s_cur s) + matrix_get_size V (s_new s)) by lia.
      reflexivity.
    - vm_compute. tauto.
  Qed.

  (* add_value: the generation guard, then the inserting match, then the size check *)
  Lemma guard_tie (g : generation) : refused_by src_stream_add_guard g = negb (generation_in_range g).
  Proof.
    destruct g as [n|n|]; cbn; [| |reflexivity].
    - rewrite N.ltb_antisym, Bool.negb_involutive. reflexivity.
    - rewrite N.ltb_antisym, Bool.negb_involutive. reflexivity.
  Qed.
  Lemma add_value_tie (s : stream V) v g :
    stream_add_value V s v g =
    add_by V src_stream_add_order src_stream_add_guard src_stream_add_arms src_stream_size_terms src_stream_size_cmp s v g.
  Proof.
    unfold stream_add_value.
    change (add_by V src_stream_add_order src_stream_add_guard src_stream_add_arms src_stream_size_terms src_stream_size_cmp s v g)
      with (if refused_by src_stream_add_guard g then SErr StreamSizeLimitExceeded
            else sbind (insert_by V src_stream_add_arms s v g) (fun s1 =>
                 sbind (check_by V src_stream_size_terms src_stream_size_cmp s1) (fun _ => SOk s1))).
    rewrite guard_tie. destruct (negb (generation_in_range g)); [reflexivity|].
    assert (E : forall s1, check_by V src_stream_size_terms src_stream_size_cmp s1 = check_stream_size_limit V s1)
      by (intros s1; symmetry; apply size_check_tie).
    destruct g as [n|n|]; cbn [insert_by arm_of src_stream_add_arms String.eqb Ascii.eqb Bool.eqb].
    - cbn. destruct (add_value_to_generation V (s_prev s) v n); cbn; try reflexivity. rewrite <- E. reflexivity.
    - cbn. destruct (add_value_to_generation V (s_cur s) v n); cbn; try reflexivity. rewrite <- E. reflexivity.
    - cbn. destruct (new_add_to_last_generation V (s_new s) v); cbn; try reflexivity. rewrite <- E. reflexivity.
  Qed.

  (* compactify numbers previous from 0, current from |previous|, new from |previous| + |current| *)
  Lemma compactify_tie (s : stream V) :
    compact_tagged V s = tagged_by V src_stream_compactify_steps s /\
    src_stream_compactify_removes_empty_first = known_fields /\ src_update_generations_is_start_plus_position = true.
  Proof.
    split; [|split; reflexivity].
    unfold compact_tagged, tagged_by. cbn. rewrite app_nil_r, !N.add_0_r. reflexivity.
  Qed.

  (* ValuesMatrix *)
  Lemma matrix_tie (m : matrix V) (skip : N) :
    matrix_slice_iter V m skip = slice_ops_by V src_matrix_slice_iter_ops (map snd (m_cells m)) skip /\
    (src_matrix_generations_count_is_len && src_matrix_remove_empty_is_retain_non_empty && src_matrix_iter_is_flat_map &&
     src_new_matrix_adds_to_last_row && src_new_matrix_push_pop_last)%bool = true /\
    (* `if generation_idx >= self.values.len() { resize }` is the model's `m_len m <=? g` *)
    (forall g, cmp_apply src_matrix_add_resize_cmp g (m_len m) = (m_len m <=? g)).
  Proof. split; [reflexivity|split; [reflexivity|intros g; reflexivity]]. Qed.

  (* the cursor protocol *)
  Lemma met_fold_start_tie (rc : rcursor) (s : stream V) :
    met_fold_start V rc s = cursor_steps V src_met_fold_start_steps Exhausted rc s.
  Proof.
    unfold met_fold_start. cbn.
    destruct (stream_get_cursor V s); cbn; reflexivity.
  Qed.
  Lemma met_iteration_end_tie (rc : rcursor) (s : stream V) :
    met_iteration_end V rc s = cursor_steps V src_met_iteration_end_steps Exhausted rc s.
  Proof.
    unfold met_iteration_end. cbn.
    destruct (remove_last_generation_if_empty V s) as [a|e|c]; cbn; try reflexivity.
  Qed.
End TieProofs.

(* Generation::from_data and the ValueSource of a merge scheme *)
Lemma generation_tie (src : stream_value_source) (g : N) :
  generation_by src_generation_from_data src g = Some (generation_from_data src g).
Proof. destruct src; reflexivity. Qed.
Lemma driver_rule_tie (in_prev in_cur : bool) :
  source_by src_value_source_of_scheme in_prev in_cur = driver_source_rule in_prev in_cur.
Proof. destruct in_prev, in_cur; reflexivity. Qed.
Lemma misc_tie : (src_cursor_state_is_slice_from_cursor && src_streams_compactify_every_descriptor)%bool = true.
Proof. reflexivity. Qed.
