(* props/C19.v -- calls run only where addressed; the particle is forwarded exactly where needed.
   Only pinned statements, [exact], non-vacuity examples and Print Assumptions.
   The statements ([..._stmt]) are defined in model/CallSpec.v; the stream/canon instructions of
   stage 2 enter through the hook hypothesis [hook_preserves c19_rel hook] ("if [run] only appends
   requests and only pushes peers other than the current one, so does the stream instruction built
   on it"). *)
From Aqua Require Import Base Json Air Trace Handler Values Scalars Lens Exec RunExec ExecStreams CallSpec C19Canon ExecInv ExecStreamsInv C19Proofs C19CanonProofs.
From Aqua Require SeqLocal NetLin NetLinCases NetLinProofs.
Open Scope N_scope.
Open Scope list_scope.

(* 1. a request is added only by a call whose resolved target is the current peer: a resolved call
   addressed elsewhere leaves requests and request counter alone; a call instruction that changes the
   requests resolves to the current peer and appends exactly one request (service / function of the
   resolved triplet, next id); whole executions only append requests *)
Theorem C19_requests_local : C19_requests_local_stmt.
Proof. exact C19_requests_local_proof. Qed.

(* 2. every peer execution pushes to the next peers differs from the current peer; the farewell
   dedup keeps exactly the pushed peers, once each; so the outcome's next peers have no duplicates and
   do not contain the current peer *)
Theorem C19_next_peers_not_self : C19_next_peers_not_self_stmt.
Proof. exact C19_next_peers_not_self_proof. Qed.

(* the stage-1 interpreter (no stream instructions): unconditional *)
Theorem C19_next_peers_not_self_run1 :
  forall fuel i code d next reqs signed,
    run1 fuel i = OutNewData code d next reqs signed ->
    NoDup next /\ ~ In (rp_current_peer (ri_params i)) next.
Proof. exact run1_next_peers. Qed.

(* the full interpreter (stage 2: streams, canon with its push of the designated peer, new, stream
   folds; model/ExecStreams.v): unconditional as well *)
Theorem C19_exec2 :
  forall fuel i x y, outcome_ctx (exec stream_instr fuel i x) = Some y -> c19_rel x y.
Proof. exact exec2_c19. Qed.

Theorem C19_next_peers_not_self_run2 :
  forall fuel i code d next reqs signed,
    run2 fuel i = OutNewData code d next reqs signed ->
    NoDup next /\ ~ In (rp_current_peer (ri_params i)) next.
Proof. exact run2_next_peers. Qed.

(* 3. a call writes a new RequestSentBy(PeerId p) state exactly when it pushes its target (which is
   not the current peer) to the next peers, and then p is the current peer *)
Theorem C19_marked_forwarded : C19_marked_forwarded_stmt.
Proof. exact C19_marked_forwarded_proof. Qed.

(* the canon half (canon, canon of a stream map, canon of a stream map into a scalar): a canon never
   touches the call bookkeeping; it pushes at most the designated peer, which is not the current one,
   exactly when it newly marks the canon as sent by the current peer; and a canon result that is not
   the one found in the data is made only by the peer the canon is designated to *)
Theorem C19_canon : C19_canon_stmt.
Proof. exact C19_canon_proof. Qed.

(* the exact effect of one resolved call on requests / request counter / next peers / supplied
   results / run parameters and on the result trace *)
Theorem C19_call_step :
  forall x t args out y, outcome_ctx (resolved_call_execute x t args out) = Some y -> call_step x t y.
Proof. exact resolved_call_execute_spec. Qed.

(* 4. the history-level consequence claimed by the property text ("once every particle and call result has
   been delivered no call or canon remains marked as sent but unexecuted": CallSpec.C19_full, every peer of a
   quiescent clean history takes over no mark of another peer from the merged data) is REFUTED by the model,
   with the same witness as on the real code (known finding forwarded-before-arguments-known): a call whose
   arguments are not known yet is marked and forwarded at once, the sender keeps its mark when it learns them *)
Theorem C19_full_refuted : ~ C19_full stream_instr finish_streams.
Proof. exact C19_full_refuted_proof. Qed.

(* 5. the decisive source lines (comparison that chooses handle_remote_call, the pushes, the dedup) *)
Theorem C19_source_tie : C19_source_tie_stmt.
Proof. exact C19_source_tie_proof. Qed.

(* ---- non-vacuity ---- *)
Definition ex_params : run_params := {| rp_init_peer := "A"; rp_current_peer := "A"; rp_timestamp := 1; rp_ttl := 2 |}.
Definition ex_call (peer fn : string) : instr :=
  ICall "call" {| t_peer := PLiteral peer; t_service := SLiteral "s"; t_function := SLiteral fn |} [] OutNone.
Definition ex_input (s : instr) : run_input :=
  {| ri_script := s; ri_params := ex_params; ri_prev := empty_data; ri_cur := empty_data; ri_results := [] |}.

Definition ex_obs (o : outcome) : option (list (state cid) * list string * list (N * string)) :=
  match o with
  | OutNewData _ d next reqs _ => Some (d_trace d, next, map (fun p => (fst p, rq_function (snd p))) reqs)
  | _ => None
  end.

(* a call addressed to B, run at A: marked as sent by A, forwarded to B, no request *)
Example C19_ex_remote :
  ex_obs (run1 10 (ex_input (ex_call "B" "f"))) = Some ([SCall (RequestSentBy (SPeer "A"))], ["B"], []).
Proof. vm_compute. reflexivity. Qed.

(* a call addressed to A, run at A: a request, no forward *)
Example C19_ex_local :
  ex_obs (run1 10 (ex_input (ex_call "A" "f"))) = Some ([SCall (RequestSentBy (SPeerCall "A" 1))], [], [(1, "f")]).
Proof. vm_compute. reflexivity. Qed.

(* two calls to B and one to C in parallel: B is pushed twice, the outcome lists it once *)
Example C19_ex_dedup :
  ex_obs (run1 10 (ex_input (IPar (ex_call "B" "f") (IPar (ex_call "C" "g") (ex_call "B" "h"))))) =
  Some ([SPar 1 3; SCall (RequestSentBy (SPeer "A")); SPar 1 1; SCall (RequestSentBy (SPeer "A"));
         SCall (RequestSentBy (SPeer "A"))], ["B"; "C"], []).
Proof. vm_compute. reflexivity. Qed.

(* a mark left by another peer for a call addressed to a third peer is kept and NOT forwarded again *)
Example C19_ex_kept_mark :
  ex_obs (run1 10 {| ri_script := ex_call "C" "f"; ri_params := ex_params; ri_prev := empty_data;
                     ri_cur := {| d_trace := [SCall (RequestSentBy (SPeer "B"))]; d_lcid := 0; d_cids := empty_cids |};
                     ri_results := [] |}) = Some ([SCall (RequestSentBy (SPeer "B"))], [], []).
Proof. vm_compute. reflexivity. Qed.

(* ... and a mark left by another peer for a call addressed to the current peer is taken over *)
Example C19_ex_taken_over :
  ex_obs (run1 10 {| ri_script := ex_call "A" "f"; ri_params := ex_params; ri_prev := empty_data;
                     ri_cur := {| d_trace := [SCall (RequestSentBy (SPeer "B"))]; d_lcid := 0; d_cids := empty_cids |};
                     ri_results := [] |}) = Some ([SCall (RequestSentBy (SPeerCall "A" 1))], [], [(1, "f")]).
Proof. vm_compute. reflexivity. Qed.

(* a canon designated to B, run at A: marked as sent by A, forwarded to B; designated to A: made at A *)
Definition ex_canon (peer : string) : instr :=
  ICanon "canon" (PLiteral peer) {| v_name := "$stream"; v_pos := 0 |} {| v_name := "#canon"; v_pos := 0 |}.
Example C19_ex_canon_remote :
  ex_obs (run2 10 (ex_input (ex_canon "B"))) = Some ([SCanon (CanonRequestSentBy "A")], ["B"], []).
Proof. vm_compute. reflexivity. Qed.
Example C19_ex_canon_local :
  ex_obs (run2 10 (ex_input (ex_canon "A"))) =
  Some ([SCanon (CanonExecuted (CCanonResult (CTetraplet {| tp_peer := "A"; tp_service := ""; tp_function := ""; tp_lens := "" |}) []))],
        [], []).
Proof. vm_compute. reflexivity. Qed.

(* the relation of theorem 2 holds between two different contexts, and fails when the current peer is pushed *)
Example C19_ex_rel_nontrivial :
  let x := initial_ctx (ex_input INull) in
  c19_rel x (set_next_peers x ["B"]) /\ ~ c19_rel x (set_next_peers x ["A"]).
Proof.
  split.
  - split; [reflexivity |]. split; [exists []; reflexivity |]. exists ["B"]. split; [reflexivity |].
    constructor; [discriminate | constructor].
  - intros (_ & _ & (sent & Hs & Hf)). cbn in Hs. subst sent. inversion Hf; subst. apply H1. reflexivity.
Qed.

(* ---- history level, straight-line scripts on several peers (model/NetLin.v: the approximation invariant) ----
   Locality in EVERY honest history of a straight-line script: a request is pending at a host only for the next call
   of the sequential reading and only at the peer that call is addressed to; the invocations (each logged with the
   peer that executed it) are a prefix of the reading's calls, whose peer is the addressed one. *)
Theorem C19_linear_locality : forall svc init ts ttl,
    (NetLin.lin_pending_is_next svc init ts ttl RunExec.run1 /\ NetLin.lin_log_is_prefix svc init ts ttl RunExec.run1) /\
    (NetLin.lin_pending_is_next svc init ts ttl ExecStreams.run2 /\ NetLin.lin_log_is_prefix svc init ts ttl ExecStreams.run2).
Proof.
  intros. split; (split; [apply NetLinProofs.pending_is_next_gen | apply NetLinProofs.log_is_prefix_gen]);
    first [apply NetLinProofs.run1_step | apply NetLinProofs.run2_step].
Qed.

Example C19_linear_locality_example :
  map SeqSem.c_peer (SeqLocal.n_log (NetLinCases.nlx_history 10)) = ["A"; "B"; "B"; "A"] /\
  map (fun k => map (fun ph => (fst ph, map fst (SeqLocal.h_pending (snd ph)))) (SeqLocal.n_hosts (NetLinCases.nlx_history k))) [1; 3; 4; 6]%nat =
  [[("A", [1%N]); ("B", [])]; [("A", []); ("B", [1%N])]; [("A", []); ("B", [2%N])]; [("A", [2%N]); ("B", [])]].
Proof. vm_compute. split; reflexivity. Qed.

Print Assumptions C19_requests_local.
Print Assumptions C19_next_peers_not_self.
Print Assumptions C19_next_peers_not_self_run1.
Print Assumptions C19_exec2.
Print Assumptions C19_next_peers_not_self_run2.
Print Assumptions C19_marked_forwarded.
Print Assumptions C19_canon.
Print Assumptions C19_call_step.
Print Assumptions C19_full_refuted.
Print Assumptions C19_source_tie.
Print Assumptions C19_linear_locality.
