"""C25 -- content ids are canonical and verification accepts exactly the matching pairs."""
import hashlib
import json

import vlib

PID = "C25"
MODEL_TARGETS = ["model/CidCases.vo"]
HARNESS_BINS = ["cid"]
RULE = ("a case is one call of the real air_interpreter_cid on a generated JSON value: (a) verify_value (on serde_json::Value and on "
        "the interpreter's JValue) and verify_raw_value of an id text derived from the value's real ids by a named mutation "
        "(other codec, other hash code, sha2-512, identity, truncated / extended / altered digest, digest of the other algorithm or "
        "of another value, another multibase, CIDv0, edited or garbage text), judged against the `cid` crate's parse of that text "
        "and the sha2 / blake3 crates' digests of serde_json::to_vec(value); (b) the ids of one value built in several ways "
        "(Value, JValue, raw text, alternative spellings of numbers / strings / whitespace / member order in the text); "
        "(c) one duplicate-free member list inserted into a serde_json::Map and a JValue object in several orders. "
        "distinct = different Coq term; non-trivial = every case (an id was computed or verified)")
PARTIAL = [
    "the text <-> (version, codec, hash code, digest) mapping of ids is the `cid` crate's (oracle parse_cid / print_cid); "
    "the model starts after the parse",
    "SHA2-256, BLAKE3 and the canonical bytes of a value (serde_json) are arbitrary functions in the theorems; "
    "C25_distinct_values_distinct_ids has collision-freeness and injectivity of the printer as explicit premises",
    "C25_canonical is about the model's objects (Json.v: sorted duplicate-free association lists, the shape of BTreeMap); that the real "
    "maps iterate in that order is checked by the correspondence (member order of the serialized object = order of jobj_of)",
]
ASSUMPTIONS = [
    "cid::Cid::from_str / Cid::to_string: parse (print p) = Some p  [premise of C25_own_id_verifies, C25_distinct_values_distinct_ids]",
    "blake3 is collision-free and serde_json::to_vec is injective on values  [premises of C25_distinct_values_distinct_ids only]",
    "serde_json::to_writer into a hasher cannot fail for JSON values (string keys, finite numbers), so the InvalidJson branch is unreachable "
    "and the model's bytes_of is total (the harness reports RvInvalidJson if it ever happens)",
    "a BLAKE3-256 digest has 32 bytes  [premise of C25_id_total: Code::Blake3_256.wrap(..).expect does not panic]",
]
HEADER = "From Aqua Require Import Base Json Cid CidCases.\nOpen Scope N_scope.\n"

FLOATS = [("1.5", ["15e-1", "1.50", "0.15E1"]), ("100.0", ["1e2", "1E2", "1.0e+2", "100.00"]), ("0.1", ["1e-1", "0.10"]),
          ("-2.5", ["-25e-1", "-2.50"]), ("1e300", ["1E300", "1.0e300", "10e299"]), ("1e-7", ["0.0000001", "1.0E-7"]),
          ("3.141592653589793", ["314.1592653589793e-2", "0.3141592653589793E1"]), ("0.0", ["0e0", "0.00", "0.0e5"]),
          ("-0.0", ["-0e0", "-0.00"]), ("1.8446744073709552e19", ["18446744073709551616", "18446744073709551616.0"]),
          ("123456.789", ["1.23456789e5", "123456.7890"]), ("5e-324", ["4.9406564584124654e-324"])]
INTS = [0, 1, -1, 2, 7, 42, 100, 255, 2**31 - 1, -2**31, 2**32, 2**53, 2**53 + 1, 2**63 - 1, -2**63, 2**63, 2**64 - 1]
STRS = ["", "a", "key", "hello world", "é", "中文", "\U0001F600", "a\"b", "back\\slash", "line\nbreak", "tab\t", "\u0000", "\u001f", "/",
        "x" * 40, "ключ", "\u2028", "1", "1.0", "null", "{}", "\ud7ff", "\uffff"]
KEYS = ["a", "b", "c", "B", "A", "aa", "ab", "a b", "", "é", "z", "Z", "0", "10", "2", "key", "Key", "_", "-", "~", "中", "\U0001F600", "a\"q",
        "b\\s", "ü", "aé", "a/", "a.b", "ключ", "zz", "{", "}", "[", ":", ","]


def gen_val(rng, depth):
    r = rng.random()
    if depth <= 0 or r < 0.45:
        k = rng.randrange(6)
        if k == 0:
            return ("null",)
        if k == 1:
            return ("bool", rng.random() < 0.5)
        if k == 2:
            return ("int", rng.choice(INTS) if rng.random() < 0.6 else rng.randrange(-10**6, 10**6))
        if k == 3:
            return ("float",) + rng.choice(FLOATS)
        return ("str", rng.choice(STRS) if rng.random() < 0.7 else "".join(chr(rng.choice([rng.randrange(32, 127), rng.randrange(0xA0, 0x500)])) for _ in range(rng.randrange(0, 12))))
    if r < 0.7:
        return ("arr", [gen_val(rng, depth - 1) for _ in range(rng.randrange(0, 5))])
    keys = rng.sample(KEYS, rng.randrange(0, 6))
    return ("obj", [(k, gen_val(rng, depth - 1)) for k in keys])


def render(t, rng=None):
    """canonical compact text when rng is None, otherwise an alternative spelling of the same value"""
    k = t[0]
    sp = (lambda: rng.choice(["", "", " ", "\n", "  ", "\t"])) if rng else (lambda: "")
    if k == "null":
        return "null"
    if k == "bool":
        return "true" if t[1] else "false"
    if k == "int":
        return str(t[1])
    if k == "float":
        return rng.choice([t[1]] + t[2]) if rng else t[1]
    if k == "str":
        return json.dumps(t[1], ensure_ascii=bool(rng and rng.random() < 0.5))
    if k == "arr":
        return "[" + sp() + ("," + sp()).join(render(x, rng) + sp() for x in t[1]) + "]"
    members = list(t[1])
    if rng:
        rng.shuffle(members)
    return "{" + sp() + ("," + sp()).join(json.dumps(kk, ensure_ascii=bool(rng and rng.random() < 0.5)) + sp() + ":" + sp() + render(v, rng) + sp()
                                         for kk, v in members) + "}"


MUTATIONS = ["plain/sha", "plain/bl",
             "codec:85/sha", "codec:85/bl", "codec:113/bl", "codec:297/sha", "codec:112/sha", "codec:513/bl", "codec:0/bl", "codec:511/bl",
             "codec:4294967808/bl",
             "hash:19/sha", "hash:0/bl", "hash:27/sha", "hash:22/bl", "hash:45600/bl", "hash:24/sha", "hash:17/sha", "hash:31/bl",
             "hash:29/bl", "hash:4179/sha", "sha512", "identity",
             "truncate:0/sha", "truncate:1/bl", "truncate:16/sha", "truncate:16/bl", "truncate:20/sha", "truncate:31/sha", "truncate:31/bl",
             "extend:1/sha", "extend:1/bl", "extend:32/bl",
             "flip:0:0/sha", "flip:31:7/bl", "flip:13:3/bl", "flip:7:5/sha",
             "swapalg/sha", "swapalg/bl", "other_value/sha", "other_value/bl",
             "base:base58btc/bl", "base:base58btc/sha", "base:base32upper/bl", "base:base64/sha", "base:base64url/bl", "base:base16/bl",
             "base:base16upper/sha", "base:base36/bl", "base:base2/sha", "base:base32hex/bl", "base:base32z/sha", "base:base10/bl",
             "v0",
             "text:garbage", "text:", "text:b", "text:bagaa", "text:z", "text:Qm", "text:bagaaihra", "text:1", "text: ", "text:bafy",
             "text:QmR2Wx64QvGt8Sah8uBCrZXUbFF9W2BksCUrE9zg4dD2Q0",
             "own_edit:replace", "own_edit:remove", "own_edit:append", "own_edit:upper", "own_edit:upper_body", "own_edit:prefix",
             "own_edit:space"]


def gen_cases(rng, tier, escalate=False):
    scale = {"quick": 1, "thorough": 12}[tier] * (3 if escalate else 1)
    cases = []
    for k in range(36 * scale):
        v = gen_val(rng, rng.choice([0, 1, 2, 3]))
        o = gen_val(rng, rng.choice([0, 1, 2]))
        muts = ["plain/sha", "plain/bl"] + rng.sample(MUTATIONS[2:], 22 if tier == "quick" else 36)
        muts = [m + (":%d" % rng.randrange(64) if m.startswith("own_edit:re") else "") for m in muts]
        cases.append({"kind": "verify", "text": render(v, rng if rng.random() < 0.3 else None), "other": render(o), "seed": rng.randrange(1 << 30),
                      "mutations": muts})
    # hand-picked values: the pairs the property names
    for text, other in [("1", "1.0"), ("1.0", "1"), ("1e2", "100"), ("100.0", "1e2"), ("{\"a\":1,\"b\":2}", "{\"a\":1,\"b\":2.0}"),
                        ("\"\"", "null"), ("[]", "{}"), ("0", "-0.0"), ("\"1\"", "1")]:
        cases.append({"kind": "verify", "text": text, "other": other, "seed": rng.randrange(1 << 30), "mutations": MUTATIONS})
    for k in range(40 * scale):
        v = gen_val(rng, rng.choice([0, 1, 2, 3]))
        cases.append({"kind": "ids", "texts": [render(v)] + [render(v, rng) for _ in range(rng.randrange(1, 5))]})
    for texts in (["1", "1.0"], ["1e2", "100.0", "1.0E+2"], ["1e2", "100"], ["0", "-0.0"], ["0.0", "-0.0"], ["\"A\"", "\"\\u0041\""],
                  ["{\"a\":1,\"b\":2}", "{\"b\":2,\"a\":1}", "{ \"b\" : 2 , \"a\" : 1 }"], ["[1,2]", "[2,1]"],
                  ["{\"a\":1,\"a\":2}", "{\"a\":2}"], ["18446744073709551615", "18446744073709551615.0"],
                  ["9007199254740993", "9007199254740993.0"]):
        cases.append({"kind": "ids", "texts": texts})
    for k in range(40 * scale):
        n = rng.choice([1, 2, 2, 3, 3, 4, 5, 6, 8, 12])
        keys = rng.sample(KEYS, min(n, len(KEYS)))
        members = [[kk, render(gen_val(rng, rng.choice([0, 0, 1, 2])))] for kk in keys]
        orders = [list(range(len(keys)))] + [rng.sample(range(len(keys)), len(keys)) for _ in range(rng.randrange(1, 6))]
        orders.append(list(reversed(range(len(keys)))))
        cases.append({"kind": "order", "members": members, "orders": orders})
    return cases


def evaluate(cases, result, tier):
    if not cases:
        return
    outs = vlib.harness_lines("cid", [json.dumps(c) for c in cases])
    group = []
    for ci, o in enumerate(outs):
        if "error" in o:
            result["errors"].append(o["error"])
            continue
        for ti, t in enumerate(o["coq"]):
            group.append((t, ci, ti))
            cl = o["classes"][ti]
            result["distribution"][cl] = result["distribution"].get(cl, 0) + 1
            result["evaluations"] += 1
            result["distinct"].add(hashlib.sha1(t.encode()).hexdigest()[:20])
        if len(result["samples"]) < 3 and o["coq"]:
            if not any(s["case"].get("kind") == cases[ci].get("kind") for s in result["samples"]):
                c = dict(cases[ci])
                if "mutations" in c:
                    c["mutations"] = c["mutations"][:6]
                result["samples"].append({"case": c, "first_term": o["coq"][0][:500]})
    if not group:
        return
    terms = [g[0] for g in group]
    fails, errs = vlib.coq_eval_cases("cid", HEADER, "case_t", {"model": "check_case", "oracle": "c25_oracle"}, terms, shard_size=160)
    result["errors"].extend(errs)
    for i in fails["model"]:
        _, ci, ti = group[i]
        case = dict(cases[ci])
        info = outs[ci]["info"][ti]
        if "mutations" in case and info.get("mutation"):
            case["mutations"] = [info["mutation"]]
        result["mismatch"].append({"case": case, "term_index": ti, "term": terms[i][:3000], "info": info,
                                   "class": outs[ci]["classes"][ti],
                                   "what": "model/Cid.v disagrees with the implementation on this observation"})
    for i in fails["oracle"]:
        _, ci, ti = group[i]
        case = dict(cases[ci])
        info = outs[ci]["info"][ti]
        if "mutations" in case and info.get("mutation"):
            case["mutations"] = [info["mutation"]]
        result["oracle_fail"].append({"case": case, "term_index": ti, "term": terms[i][:3000], "info": info, "key": None,
                                      "what": "c25_oracle is false on the implementation's observation: " + outs[ci]["classes"][ti]})
