#!/usr/bin/env python3
"""tools/seed_auto.py <tag> <seeded-id>: reads /tmp/mut_<tag>/out/demo/README to find the demo file, where it goes and how it is
run, then calls tools/seed_confirm.sh"""
import os, re, sys, subprocess, glob
tag, sid = sys.argv[1], sys.argv[2]
out = "/tmp/mut_%s/out" % tag
demos = [os.path.basename(f) for f in glob.glob(out + "/demo/*.rs")]
assert demos, "no demo .rs"
demo = demos[0]
readme = open(out + "/demo/README").read() if os.path.exists(out + "/demo/README") else ""
name = demo[:-3]
m = re.search(r"cp\s+\S*%s\s+(\S+)" % re.escape(demo), readme)
dest = None
if m:
    d = m.group(1)
    d = re.sub(r"^\$\{?\w+\}?/", "", d)          # $TREE/ , $WT/
    d = re.sub(r"^/tmp/[^/]+/[^/]+/", "", d)      # /tmp/x/wt/
    d = d.strip('"\'')
    # a placeholder for the tree root written without `$` (TREE/air/tests/.., T/crates/..)
    while d.split("/")[0] not in ("air", "crates", "avm", "tools", "junk") and "/" in d:
        d = d.split("/", 1)[1]
    dest = d if d.endswith(".rs") else d.rstrip("/") + "/" + demo
m2 = re.search(r"cargo test\s+(-p\s+\S+(?:\s+--features\s+\S+)?)", readme)
crate = None
if m2:
    crate = m2.group(1).replace("-p ", "", 1).strip()
if not dest or not crate:
    print("cannot parse README: dest=%r crate=%r" % (dest, crate)); sys.exit(2)
print("demo", demo, "dest", dest, "crate", crate, "test", name)
sys.exit(subprocess.call(["/verif/tools/seed_confirm.sh", tag, sid, demo, dest, crate, name]))
