"""Translator piece for C12 / C13 (streams): the decisive lines of

    air/src/execution_step/value_types/stream/{stream_definition,values_matrix,recursive_stream}.rs
    air/src/execution_step/execution_context/streams_variables.rs
    crates/air-lib/trace-handler/src/merger/call_merger.rs   (ValueSource of a merge scheme)

re-read on every run and emitted as small tables.  model/StreamTie.v INTERPRETS these tables
(e.g. `iter_by src_stream_iter_chain`) and proofs/StreamTieProofs.v proves that the interpretation is
the hand-written function of model/Stream.v the C12/C13 theorems are about (`stream_iter`, `stream_slice_iter`,
`stream_get_cursor`, `check_stream_size_limit`, `stream_add_value`, `compact_tagged`, `met_fold_start`,
`met_iteration_end`, `generation_from_data`, ...).  A change of the order of the previous/current/new chain, of
the numbering order of compactify, of the `>=` of the size check, of the generation guard, of the cursor
construction or of the cursor protocol changes a table and breaks `C12_source_tie` / `C13_source_tie`.

    src_stream_iter_chain            Stream::iter: matrices chained, in order
    src_stream_slice_iter_chain      Stream::slice_iter: (matrix, cursor field) chained, in order
    src_stream_cursor_args/_params   Stream::cursor / StreamCursor::new: which count goes to which field
    src_stream_size_terms/_cmp/...   check_stream_size_limit: sum of sizes, comparison, bound, error
    src_stream_add_guard             add_value: variants guarded, comparison, bound, error (fix C01-stream-generation-resize)
    src_stream_add_arms/_order       add_value: variant -> (matrix, method); guard, insert, check in this order
    src_stream_compactify_steps      compactify: matrix numbered + the matrices whose generation counts make its start index
    src_matrix_*                     ValuesMatrix / NewValuesMatrix facts (slice_iter filters before it skips, ...)
    src_generation_from_data         Generation::from_data arms
    src_value_source_of_scheme       From<PreparationScheme> for ValueSource
    src_met_fold_start_steps / src_met_iteration_end_steps     the cursor protocol, statement by statement
    src_streams_*                    Streams::compactify / meet_scope_end
"""
import re

from gen_model import TranslationError, coq_list, coq_str, read, strip_comments, const_int, CMP

SD = "air/src/execution_step/value_types/stream/stream_definition.rs"
VM = "air/src/execution_step/value_types/stream/values_matrix.rs"
RS = "air/src/execution_step/value_types/stream/recursive_stream.rs"
SV = "air/src/execution_step/execution_context/streams_variables.rs"
CM = "crates/air-lib/trace-handler/src/merger/call_merger.rs"


def block_at(src, i):
    """text of the brace block opening at index i (src[i] == '{'), without the outer braces"""
    depth, j = 1, i + 1
    while j < len(src) and depth > 0:
        depth += {"{": 1, "}": -1}.get(src[j], 0)
        j += 1
    if depth:
        raise TranslationError("unbalanced braces")
    return src[i + 1:j - 1]


def impl_blocks(src, type_name):
    out = []
    for m in re.finditer(r"\bimpl(?:<[^>{]*>)?\s+(?:[\w:]+(?:<[^>{]*>)?\s+for\s+)?" + re.escape(type_name) + r"\b[^{;]*\{", src):
        out.append(block_at(src, m.end() - 1))
    return out


def fn_in_impl(src, rel, type_name, fn_name):
    for b in impl_blocks(src, type_name):
        m = re.search(r"\bfn\s+" + re.escape(fn_name) + r"\b", b)
        if m:
            i = b.find("{", m.end())
            semi = b.find(";", m.end())
            if i < 0 or (0 <= semi < i):
                continue
            return re.sub(r"\s+", " ", block_at(b, i)).strip()
    raise TranslationError("fn %s of impl %s not found in %s" % (fn_name, type_name, rel))


def free_fn(src, rel, fn_name):
    m = re.search(r"\bfn\s+" + re.escape(fn_name) + r"\b", src)
    if not m:
        raise TranslationError("fn %s not found in %s" % (fn_name, rel))
    return re.sub(r"\s+", " ", block_at(src, src.find("{", m.end()))).strip()


def need(cond, what):
    if not cond:
        raise TranslationError("streams: " + what)


def strs(xs):
    return coq_list([coq_str(x) for x in xs])


def generate():
    sd = strip_comments(read(SD))
    vm = strip_comments(read(VM))
    rs = strip_comments(read(RS))
    sv = strip_comments(read(SV))
    cm = strip_comments(read(CM))
    out = ["(* --- tools/genx_stream.py: streams (C12, C13) --- *)"]
    w = out.append

    # ---- Stream: fields
    m = re.search(r"pub struct Stream<T>\s*\{(.*?)\}", sd, flags=re.S)
    need(m, "struct Stream<T> not found")
    fields = re.findall(r"(\w+)\s*:\s*(\w+)<T>", m.group(1))
    need([t for _, t in fields] == ["ValuesMatrix", "ValuesMatrix", "NewValuesMatrix"], "Stream fields are not (ValuesMatrix, ValuesMatrix, NewValuesMatrix): %s" % fields)
    w("Definition src_stream_fields : list string := %s." % strs([f for f, _ in fields]))

    # ---- Stream::iter
    body = fn_in_impl(sd, SD, "Stream", "iter")
    m = re.fullmatch(r"self\.(\w+)\.iter\(\)\.chain\(self\.(\w+)\.iter\(\)\)\.chain\(self\.(\w+)\.iter\(\)\)", body.replace(" ", ""))
    need(m, "Stream::iter is not a chain of three matrix iterators: " + body)
    chain = list(m.groups())
    w("Definition src_stream_iter_chain : list string := %s." % strs(chain))

    # ---- Stream::slice_iter
    body = fn_in_impl(sd, SD, "Stream", "slice_iter")
    m = re.fullmatch(r"self\.(\w+)\.slice_iter\(cursor\.(\w+)\)\.chain\(self\.(\w+)\.slice_iter\(cursor\.(\w+)\)\)\.chain\(self\.(\w+)\.slice_iter\(cursor\.(\w+)\)\)",
                     body.replace(" ", ""))
    need(m, "Stream::slice_iter is not a chain of three slice iterators: " + body)
    sl = [(m.group(1), m.group(2)), (m.group(3), m.group(4)), (m.group(5), m.group(6))]
    w("Definition src_stream_slice_iter_chain : list (string * string) := %s." % coq_list(["(%s, %s)" % (coq_str(a), coq_str(b)) for a, b in sl]))

    # ---- Stream::cursor and StreamCursor::new / empty
    body = fn_in_impl(sd, SD, "Stream", "cursor")
    m = re.fullmatch(r"StreamCursor::new\(\s*(.*?),?\s*\)", body)
    need(m, "Stream::cursor is not one StreamCursor::new(..) call: " + body)
    args = re.findall(r"self\.(\w+)\.generations_count\(\)", m.group(1))
    need(len(args) == 3 and len(m.group(1).split(",")) in (3, 4), "Stream::cursor arguments: " + body)
    w("Definition src_stream_cursor_args : list string := %s." % strs(args))
    m = re.search(r"fn\s+new\s*\(([^)]*)\)\s*->\s*Self\s*\{\s*Self\s*\{([^}]*)\}", "\n".join(impl_blocks(rs, "StreamCursor")), flags=re.S)
    need(m, "StreamCursor::new not found")
    params = re.findall(r"(\w+)\s*:\s*GenerationIdx", m.group(1))
    inits = [x.strip() for x in m.group(2).split(",") if x.strip()]
    need(len(params) == 3 and inits == params, "StreamCursor::new does not copy its three parameters to the same-named fields: %s / %s" % (params, inits))
    w("Definition src_stream_cursor_params : list string := %s." % strs(params))
    body = fn_in_impl(rs, RS, "StreamCursor", "empty")
    zeros = re.findall(r"(\w+)\s*:\s*GenerationIdx::from\((\d+)\)", body)
    need(len(zeros) == 3 and all(z == "0" for _, z in zeros), "StreamCursor::empty is not all zeros: " + body)
    w("Definition src_stream_cursor_empty : list (string * N) := %s." % coq_list(["(%s, %s%%N)" % (coq_str(a), z) for a, z in zeros]))

    # ---- check_stream_size_limit
    body = fn_in_impl(sd, SD, "Stream", "check_stream_size_limit")
    lets = dict(re.findall(r"let (\w+) = self\.(\w+)\.get_size\(\);", body))
    m = re.search(r"let cumulative_size = ([\w +]+);", body)
    need(m and len(lets) == 3, "check_stream_size_limit: sizes not recognised: " + body)
    terms = [t.strip() for t in m.group(1).split("+")]
    need(all(t in lets for t in terms) and len(terms) == 3, "check_stream_size_limit: cumulative_size is not the sum of the three sizes")
    m = re.search(r"if cumulative_size (<=|<|>=|>|==|!=) (\w+) \{ Err\(ExecutionError::Uncatchable\(UncatchableError::(\w+)\)\) \} else \{ Ok\(\(\)\) \}", body)
    need(m, "check_stream_size_limit: comparison not recognised: " + body)
    w("Definition src_stream_size_terms : list string := %s." % strs([lets[t] for t in terms]))
    w("Definition src_stream_size_cmp : cmp_op := %s." % CMP[m.group(1)])
    w("Definition src_stream_size_bound : string := %s." % coq_str(m.group(2)))
    w("Definition src_stream_size_error : string := %s." % coq_str(m.group(3)))
    need(m.group(2) == "STREAM_MAX_SIZE", "check_stream_size_limit compares with %s" % m.group(2))
    const_int(SD, "STREAM_MAX_SIZE")      # must be an integer literal (stream_max_size of the main translator)

    # ---- add_value: guard, insert, check
    body = fn_in_impl(sd, SD, "Stream", "add_value")
    g = re.search(r"match generation \{ ((?:Generation::\w+\(\w+\)\s*\|?\s*)+) if (\w+) (<=|<|>=|>|==|!=) (\w+) => \{? ?return Err\(ExecutionError::Uncatchable\(UncatchableError::(\w+)\)\);? ?\}? ?,? _ => \{\} ,? ?\}", body)
    need(g, "add_value: the generation guard `Previous(g) | Current(g) if g >= STREAM_MAX_SIZE => return Err(..)` is not there: " + body)
    gvars = re.findall(r"Generation::(\w+)\((\w+)\)", g.group(1))
    need(all(v == g.group(2) for _, v in gvars), "add_value guard: bound variable mismatch")
    w("Definition src_stream_add_guard : list string * cmp_op * string * string := (%s, %s, %s, %s)." % (
        strs([k for k, _ in gvars]), CMP[g.group(3)], coq_str(g.group(4)), coq_str(g.group(5))))
    ins = re.search(r"match generation \{ (Generation::\w+(?:\(\w+\))? => self\.\w+\.\w+\([^)]*\) ?,? ?)+\}", body)
    need(ins, "add_value: the inserting match is not recognised: " + body)
    arms = re.findall(r"Generation::(\w+)(?:\((\w+)\))? => self\.(\w+)\.(\w+)\(([^)]*)\)", ins.group(0))
    need(len(arms) == 3, "add_value: three arms expected")
    for variant, var, field, method, a in arms:
        want = "value, " + var if var else "value"
        need(a.strip() == want, "add_value arm %s passes (%s)" % (variant, a))
    w("Definition src_stream_add_arms : list (string * string * string) := %s." % coq_list(
        ["(%s, %s, %s)" % (coq_str(v), coq_str(f), coq_str(mth)) for v, _, f, mth, _ in arms]))
    chk = body.rfind("self.check_stream_size_limit()")
    need(chk > ins.end() - 1 and g.end() <= ins.start() and body.endswith("self.check_stream_size_limit()"),
         "add_value: order is not guard, insert, check_stream_size_limit (as the value of the function)")
    w("Definition src_stream_add_order : list string := %s." % strs(["guard", "insert", "check_stream_size_limit"]))

    # ---- compactify / update_generations
    body = fn_in_impl(sd, SD, "Stream", "compactify")
    rem = re.findall(r"self\.(\w+)\.remove_empty_generations\(\);", body)
    upd = [(mm.start(), mm.group(1)) for mm in re.finditer(r"Self::update_generations\(self\.(\w+)\.slice_iter\(0\.into\(\)\), start_idx, trace_ctx\)\?;", body)]
    need(len(rem) == 3 and len(upd) == 3, "compactify: three remove_empty_generations and three update_generations expected: " + body)
    need(body.rfind("remove_empty_generations") < upd[0][0], "compactify: empty generations are not removed before the numbering")
    # the start index in force at each update_generations
    steps = []
    for pos, field in upd:
        pre = body[:pos]
        defs = list(re.finditer(r"let start_idx = ([^;]+);", pre))
        need(defs, "compactify: no start_idx before update_generations(%s)" % field)
        # unfold the chain of definitions
        counts = []
        for d in defs:
            e = d.group(1).strip()
            if e == "0.into()":
                counts = []
            elif re.fullmatch(r"self\.(\w+)\.generations_count\(\)", e):
                counts = [re.fullmatch(r"self\.(\w+)\.generations_count\(\)", e).group(1)]
            else:
                mm = re.fullmatch(r"start_idx\.checked_add\(self\.(\w+)\.generations_count\(\)\)\.unwrap\(\)", e)
                need(mm, "compactify: start_idx expression not recognised: " + e)
                counts = counts + [mm.group(1)]
        steps.append((field, counts))
    w("Definition src_stream_compactify_steps : list (string * list string) := %s." % coq_list(
        ["(%s, %s)" % (coq_str(f), strs(cs)) for f, cs in steps]))
    w("Definition src_stream_compactify_removes_empty_first : list string := %s." % strs(rem))
    body = fn_in_impl(sd, SD, "Stream", "update_generations")
    ok = bool(re.search(r"for \(position, values\) in values\.enumerate\(\) \{ let generation = start_idx\.checked_add\(position\.into\(\)\)\.unwrap\(\); for value in values\.iter\(\) \{ trace_ctx \.update_generation\(value\.get_trace_pos\(\), generation\)", body))
    need(ok, "update_generations: generation = start_idx + position over enumerate() not recognised: " + body)
    w("Definition src_update_generations_is_start_plus_position : bool := true.")

    # ---- ValuesMatrix / NewValuesMatrix
    body = fn_in_impl(vm, VM, "ValuesMatrix", "slice_iter")
    ops = re.findall(r"\.\s*(iter|filter|skip|map)\(", body)
    need(ops == ["iter", "filter", "skip", "map"] and "!generation.is_empty()" in body and "skip(skip.into())" in body,
         "ValuesMatrix::slice_iter is not iter().filter(non-empty).skip(skip).map(..): " + body)
    w("Definition src_matrix_slice_iter_ops : list string := %s." % strs(["iter", "filter_non_empty", "skip", "map"]))
    body = fn_in_impl(vm, VM, "ValuesMatrix", "generations_count")
    need(body == "self.values.len().into()", "ValuesMatrix::generations_count is not self.values.len(): " + body)
    w("Definition src_matrix_generations_count_is_len : bool := true.")
    body = fn_in_impl(vm, VM, "ValuesMatrix", "remove_empty_generations")
    need(body == "self.values.retain(|generation| !generation.is_empty())", "ValuesMatrix::remove_empty_generations: " + body)
    w("Definition src_matrix_remove_empty_is_retain_non_empty : bool := true.")
    body = fn_in_impl(vm, VM, "ValuesMatrix", "iter")
    need(body == "self.values.iter().flat_map(|generation| generation.iter())", "ValuesMatrix::iter: " + body)
    w("Definition src_matrix_iter_is_flat_map : bool := true.")
    body = fn_in_impl(vm, VM, "ValuesMatrix", "add_value_to_generation")
    m = re.fullmatch(r"if generation_idx (<=|<|>=|>|==|!=) self\.values\.len\(\) \{ let new_size = generation_idx\.checked_add\(1\.into\(\)\)\.unwrap\(\); "
                     r"self\.values\.resize\(new_size\.into\(\), Vec::new\(\)\); \} self\.values\[generation_idx\]\.push\(value\); self\.size \+= 1;", body)
    need(m, "ValuesMatrix::add_value_to_generation: " + body)
    w("Definition src_matrix_add_resize_cmp : cmp_op := %s." % CMP[m.group(1)])
    body = fn_in_impl(vm, VM, "NewValuesMatrix", "last_non_empty_generation_idx")
    need(re.fullmatch(r"let values_len = self\.0\.values\.len\(\); if values_len == 0 \{ return 0\.into\(\); \} \(values_len - 1\)\.into\(\)", body),
         "NewValuesMatrix::last_non_empty_generation_idx: " + body)
    body = fn_in_impl(vm, VM, "NewValuesMatrix", "add_to_last_generation")
    need(re.fullmatch(r"let last_generation_idx = self\.last_non_empty_generation_idx\(\); self\.0\.add_value_to_generation\(value, last_generation_idx\);", body),
         "NewValuesMatrix::add_to_last_generation: " + body)
    w("Definition src_new_matrix_adds_to_last_row : bool := true.")
    need(fn_in_impl(vm, VM, "NewValuesMatrix", "add_new_empty_generation") == "self.0.values.push(vec![]);", "NewValuesMatrix::add_new_empty_generation")
    need(fn_in_impl(vm, VM, "NewValuesMatrix", "remove_last_generation") == "self.0.values.pop();", "NewValuesMatrix::remove_last_generation")
    body = fn_in_impl(vm, VM, "NewValuesMatrix", "last_generation_is_empty")
    need(re.fullmatch(r"if self\.0\.values\.is_empty\(\) \{ return true; \} self\.0\.values\[self\.last_non_empty_generation_idx\(\)\]\.is_empty\(\)", body),
         "NewValuesMatrix::last_generation_is_empty: " + body)
    w("Definition src_new_matrix_push_pop_last : bool := true.")

    # ---- Generation::from_data, ValueSource of a scheme
    body = fn_in_impl(sd, SD, "Generation", "from_data")
    arms = re.findall(r"ValueSource::(\w+) => Generation::(\w+)\(generation\)", body)
    need(len(arms) == 2, "Generation::from_data: " + body)
    w("Definition src_generation_from_data : list (string * string) := %s." % coq_list(["(%s, %s)" % (coq_str(a), coq_str(b)) for a, b in arms]))
    body = fn_in_impl(sd, SD, "Generation", "from_met_result")
    need(body == "Self::from_data(result.value_source, result.generation)", "Generation::from_met_result: " + body)
    m = re.search(r"impl From<PreparationScheme> for ValueSource \{(.*?)\n\}", cm, flags=re.S)
    need(m, "From<PreparationScheme> for ValueSource not found in " + CM)
    flat = re.sub(r"\s+", " ", m.group(1))
    pairs = []
    for lhs, rhs in re.findall(r"((?:PreparationScheme::\w+ ?\|? ?)+) => ValueSource::(\w+)", flat):
        for s_ in re.findall(r"PreparationScheme::(\w+)", lhs):
            pairs.append((s_, rhs))
    need(len(pairs) == 3, "ValueSource of a scheme: " + flat)
    w("Definition src_value_source_of_scheme : list (string * string) := %s." % coq_list(["(%s, %s)" % (coq_str(a), coq_str(b)) for a, b in pairs]))

    # ---- the cursor protocol
    def steps_of(body, what):
        stmts = [x.strip() for x in re.split(r";(?![^{]*\})", body) if x.strip()]
        out_ = []
        for st in stmts:
            if st == "let state = self.cursor_state(stream)":
                out_.append("cursor_state")
            elif st == "self.cursor = stream.cursor()":
                out_.append("cursor")
            elif st == "remove_last_generation_if_empty(stream)":
                out_.append("remove_last_generation_if_empty")
            elif st == "stream.new_values().add_new_empty_generation()":
                out_.append("add_new_empty_generation")
            elif re.fullmatch(r"if state\.should_continue\(\) \{ stream\.new_values\(\)\.add_new_empty_generation\(\); \} state", st):
                out_ += ["if_continue:add_new_empty_generation", "return_state"]
            elif st == "state":
                out_.append("return_state")
            else:
                raise TranslationError("%s: statement not recognised: %s" % (what, st))
        return out_
    fs = steps_of(fn_in_impl(rs, RS, "RecursiveStreamCursor", "met_fold_start"), "met_fold_start")
    ie = steps_of(fn_in_impl(rs, RS, "RecursiveStreamCursor", "met_iteration_end"), "met_iteration_end")
    need(fs[-1:] == ["return_state"] and ie[-1:] == ["return_state"], "the cursor functions do not return the state computed first")
    w("Definition src_met_fold_start_steps : list string := %s." % strs(fs[:-1]))
    w("Definition src_met_iteration_end_steps : list string := %s." % strs(ie[:-1]))
    body = fn_in_impl(rs, RS, "RecursiveStreamCursor", "cursor_state")
    need("stream.slice_iter(self.cursor)" in body and "RecursiveCursorState::from_iterable_values(iterable)" in body, "cursor_state: " + body)
    body = fn_in_impl(rs, RS, "RecursiveCursorState", "from_iterable_values")
    need(re.fullmatch(r"if values\.is_empty\(\) \{ Self::Exhausted \} else \{ Self::Continue\(values\) \}", body), "from_iterable_values: " + body)
    body = free_fn(rs, RS, "remove_last_generation_if_empty")
    need(re.fullmatch(r"if stream\.new_values\(\)\.last_generation_is_empty\(\) \{ stream\.new_values\(\)\.remove_last_generation\(\); \}", body),
         "remove_last_generation_if_empty: " + body)
    body = fn_in_impl(rs, RS, "RecursiveStreamCursor", "new")
    need(re.fullmatch(r"Self \{ cursor: StreamCursor::empty\(\), \}", body), "RecursiveStreamCursor::new: " + body)
    w("Definition src_cursor_state_is_slice_from_cursor : bool := true.")

    # ---- Streams
    body = fn_in_impl(sv, SV, "Streams", "compactify")
    need(re.fullmatch(r"for \(_, descriptors\) in self\.streams\.iter_mut\(\) \{ for descriptor in descriptors \{ descriptor\.stream\.compactify\(trace_ctx\)\?; \} \} Ok\(\(\)\)", body),
         "Streams::compactify: " + body)
    body = fn_in_impl(sv, SV, "Streams", "meet_scope_end")
    need(re.search(r"let mut last_descriptor = stream_descriptors\.pop\(\)\.unwrap\(\);", body) and body.endswith("last_descriptor.stream.compactify(trace_ctx)"),
         "Streams::meet_scope_end: " + body)
    w("Definition src_streams_compactify_every_descriptor : bool := true.")
    w("")
    return out
