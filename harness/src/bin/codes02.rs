//! `codes02`: C02 driver (failed runs return the previous data; outcomes follow the code ranges).
//!
//! One JSON case per input line -> one JSON line
//!   {"coq": [terms of CodesCases.case_t ...], "classes": [...], "info": [...], "oracle_failures": [...], "runs": n}
//!
//! case = { "script", "peers", "init", "services", "ops", "seed", "particle_id",
//!          "probe_steps": [..]|null,      // steps at which the mutations are applied (null: every step)
//!          "mutations": [names] }         // see `mutate`
//!
//! The history is run honestly with `aquah::sim::Net` (the real `air::execute_air`).  Every honest
//! run and, at the probed steps, every mutated variant of the run's input (NOT fed back into the
//! history) is reported as one term: the stage results of the input (`cmd_limits::world_of`, the
//! crates' public decoders), what the executor did (read off the return code) and the observation
//! (code, data == previous bytes?, empty?, decodable?, number of next peers / requests).
//! Two oracles written from the property text run on every run: `oracles::c02` (shared) and
//! `strong` (below): on a non-failing code the new data must contain what this run did.

use air_interpreter_data::{ApResult, CallResult, CanonResult, ExecutedState, InterpreterData, InterpreterDataEnvelope, Sender, ValueRef, Versions};
use aquah::cmd_limits::{flags_term, limits_term, world_of};
use aquah::coqfmt as c;
use aquah::oracles;
use aquah::sim::*;
use serde_json::Value as J;
use std::io::BufRead;
use std::rc::Rc;

fn garbage(n: usize, seed: u64) -> Vec<u8> {
    let mut h = seed | 1;
    (0..n)
        .map(|_| {
            h ^= h << 13;
            h ^= h >> 7;
            h ^= h << 17;
            (h >> 11) as u8
        })
        .collect()
}

fn decode(bytes: &[u8]) -> Option<InterpreterData> {
    if bytes.is_empty() {
        return Some(InterpreterData::default());
    }
    decode_data(bytes).ok().map(|d| d.data)
}

/// re-encode a (tampered) data under the envelope of `orig`
fn reencode(orig: &[u8], d: &InterpreterData) -> Option<Vec<u8>> {
    let env = InterpreterDataEnvelope::try_from_slice(orig).ok()?;
    let inner = d.serialize().ok()?;
    let env2 = InterpreterDataEnvelope { versions: env.versions.clone(), inner_data: inner.into() };
    env2.serialize().ok()
}

fn is_rsb(s: &ExecutedState) -> bool {
    matches!(s, ExecutedState::Call(CallResult::RequestSentBy(_)))
}

/// Structural edits of the trace that keep every peer's CID multiset (so the signatures of the
/// current data still verify and the run reaches the executor).
fn tamper_trace(d: &mut InterpreterData, kind: &str, seed: u64, me: &str) -> Option<()> {
    let mut v: Vec<ExecutedState> = d.trace.to_vec();
    let rsbs: Vec<usize> = v.iter().enumerate().filter(|(_, s)| is_rsb(s)).map(|(i, _)| i).collect();
    // prefer a pending state that is NOT this peer's own request with an id (so that results handed
    // in for earlier requests are applied before the mismatch is met), and the last such state
    let foreign: Vec<usize> = rsbs
        .iter()
        .cloned()
        .filter(|&i| !matches!(&v[i], ExecutedState::Call(CallResult::RequestSentBy(Sender::PeerIdWithCallId { peer_id, .. })) if peer_id.as_str() == me))
        .collect();
    let pick = |l: &Vec<usize>| -> Option<usize> { if l.is_empty() { None } else { Some(l[l.len() - 1 - (seed as usize % l.len().min(2))]) } };
    match kind {
        "rsb_to_par" => {
            let i = pick(&foreign).or_else(|| pick(&rsbs))?;
            v[i] = ExecutedState::par(0, 0);
        }
        "rsb_to_ap" => {
            let i = pick(&foreign).or_else(|| pick(&rsbs))?;
            v[i] = ExecutedState::Ap(ApResult::new(0.into()));
        }
        "rsb_to_canon" => {
            let i = pick(&foreign).or_else(|| pick(&rsbs))?;
            v[i] = ExecutedState::Canon(CanonResult::request_sent_by(Rc::new(me.to_string())));
        }
        "scalar_to_stream" => {
            let idx: Vec<usize> = v.iter().enumerate().filter(|(_, s)| matches!(s, ExecutedState::Call(CallResult::Executed(ValueRef::Scalar(_))))).map(|(i, _)| i).collect();
            let i = pick(&idx)?;
            if let ExecutedState::Call(CallResult::Executed(ValueRef::Scalar(cid))) = v[i].clone() {
                v[i] = ExecutedState::Call(CallResult::Executed(ValueRef::Stream { cid, generation: 0.into() }));
            }
        }
        "swap_executed" => {
            let idx: Vec<usize> = v.iter().enumerate().filter(|(_, s)| matches!(s, ExecutedState::Call(CallResult::Executed(ValueRef::Scalar(_))))).map(|(i, _)| i).collect();
            if idx.len() < 2 {
                return None;
            }
            let a = idx[seed as usize % idx.len()];
            let b = idx[(seed as usize / 3 + 1 + seed as usize % idx.len()) % idx.len()];
            if a == b || v[a] == v[b] {
                return None;
            }
            v.swap(a, b);
        }
        "par_grow" => {
            let idx: Vec<usize> = v.iter().enumerate().filter(|(_, s)| matches!(s, ExecutedState::Par(_))).map(|(i, _)| i).collect();
            let i = pick(&idx)?;
            if let ExecutedState::Par(p) = &v[i] {
                v[i] = ExecutedState::par(p.left_size as usize + 3 + (seed % 5) as usize, p.right_size as usize);
            }
        }
        "drop_last" => {
            if v.len() < 2 || !is_rsb(v.last()?) {
                return None;
            }
            v.pop();
        }
        _ => return None,
    }
    d.trace = v.into();
    Some(())
}

/// edits through the serde view of the data: CID stores and signatures
fn tamper_json(d: &InterpreterData, kind: &str, seed: u64) -> Option<InterpreterData> {
    let mut j = serde_json::to_value(d).ok()?;
    match kind {
        "store_swap_values" => {
            // two entries of one CID store exchange their contents: the hashes no longer match
            let ci = j.get_mut("cid_info")?.as_object_mut()?;
            let mut done = false;
            let names: Vec<String> = ci.keys().cloned().collect();
            let start = seed as usize % names.len().max(1);
            for k in 0..names.len() {
                let name = &names[(start + k) % names.len()];
                if let Some(store) = ci.get_mut(name).and_then(|s| s.as_object_mut()) {
                    let keys: Vec<String> = store.keys().cloned().collect();
                    if keys.len() >= 2 && store[&keys[0]] != store[&keys[1]] {
                        let a = store[&keys[0]].clone();
                        let b = store[&keys[1]].clone();
                        store.insert(keys[0].clone(), b);
                        store.insert(keys[1].clone(), a);
                        done = true;
                        break;
                    }
                }
            }
            if !done {
                return None;
            }
        }
        "drop_sig" => {
            let sigs = j.get_mut("signatures")?;
            if let Some(a) = sigs.as_array_mut() {
                if a.is_empty() {
                    return None;
                }
                let k = seed as usize % a.len();
                a.remove(k);
            } else if let Some(o) = sigs.as_object_mut() {
                let keys: Vec<String> = o.keys().cloned().collect();
                if keys.is_empty() {
                    return None;
                }
                o.remove(&keys[seed as usize % keys.len()]);
            } else {
                return None;
            }
        }
        _ => return None,
    }
    serde_json::from_value::<InterpreterData>(j).ok()
}

/// Mutated variant of one run's input; None when the mutation does not apply here.
fn mutate(inp: &RunInput, m: &str, seed: u64) -> Option<RunInput> {
    let mut i = inp.clone();
    match m {
        "none" => {}
        // ---- bytes level: every preparation stage ----
        "cur_garbage" => i.cur = garbage(40, seed),
        "cur_truncated" => {
            if i.cur.len() < 8 { return None; }
            let n = i.cur.len() - 1 - (seed as usize % (i.cur.len() / 2));
            i.cur.truncate(n)
        }
        "prev_garbage" => i.prev = garbage(33, seed),
        "prev_truncated" => {
            if i.prev.len() < 8 { return None; }
            let n = i.prev.len() - 1 - (seed as usize % (i.prev.len() / 2));
            i.prev.truncate(n)
        }
        "cur_inner_garbage" => {
            let src = if inp.cur.is_empty() { &inp.prev } else { &inp.cur };
            let env = InterpreterDataEnvelope::try_from_slice(src).ok()?;
            let env2 = InterpreterDataEnvelope { versions: env.versions.clone(), inner_data: garbage(24, seed).into() };
            i.cur = env2.serialize().ok()?;
        }
        "prev_inner_garbage" => {
            let env = InterpreterDataEnvelope::try_from_slice(&inp.prev).ok()?;
            let env2 = InterpreterDataEnvelope { versions: env.versions.clone(), inner_data: garbage(24, seed).into() };
            i.prev = env2.serialize().ok()?;
        }
        "old_version" => {
            let src = if inp.cur.is_empty() { &inp.prev } else { &inp.cur };
            let env = InterpreterDataEnvelope::try_from_slice(src).ok()?;
            let env2 = InterpreterDataEnvelope {
                versions: Versions { data_version: env.versions.data_version.clone(), interpreter_version: semver::Version::new(0, (seed % 60) as u64, 7) },
                inner_data: env.inner_data.clone(),
            };
            i.cur = env2.serialize().ok()?;
        }
        "cur_no_inner_field" => {
            // the envelope's `inner_data` key is renamed: the versions are still readable, the envelope is not
            let src = if inp.cur.is_empty() { &inp.prev } else { &inp.cur };
            let mut b = src.clone();
            let key = b"inner_data";
            let pos = b.windows(key.len()).position(|w| w == key)?;
            b[pos + key.len() - 1] = b'_';
            i.cur = b;
        }
        "hard_limit_air" => {
            i.limits = Limits { air: (seed % 7), particle: u64::MAX, result: u64::MAX, hard: true };
        }
        "hard_limit_particle" => {
            if i.cur.is_empty() { return None; }
            i.limits = Limits { air: u64::MAX, particle: (i.cur.len() as u64).saturating_sub(1 + seed % 5), result: u64::MAX, hard: true };
        }
        "hard_limit_result" => {
            if i.call_results.is_empty() { return None; }
            i.limits = Limits { air: u64::MAX, particle: u64::MAX, result: 0, hard: true };
        }
        "air_garbage" => i.air = "(seq (call".to_string(),
        "air_unscoped" => i.air = "(call \"x\" (\"s\" \"f\") [undefined_var])".to_string(),
        "air_two_iterators" => i.air = "(seq (call \"x\" (\"s\" \"f\") [] xs) (fold xs i (fold xs i (next i))))".to_string(),
        "cr_garbage" => i.call_results_raw = Some(garbage(12, seed)),
        "cr_other_codec" => {
            let mut b = encode_call_results(&i.call_results);
            if !b.is_empty() { b[0] ^= 0x01; }
            i.call_results_raw = Some(b)
        }
        "cr_unknown_id" => {
            i.call_results.insert(4_000_000 + (seed % 1000) as u32, (0, "\"stray\"".to_string()));
        }
        "bad_key_format" => i.key_format = 9,
        "bad_key_bytes" => i.secret = vec![1, 2, 3],
        "other_key" => i.secret = secret_of("somebody-else"),
        // ---- the current data is the peer's own previous data / the incoming data with an edited trace
        //      (signatures still verify): uncatchable errors inside execution, after results were applied ----
        "rsb_to_par" | "rsb_to_ap" | "rsb_to_canon" | "scalar_to_stream" | "swap_executed" | "par_grow" | "drop_last" => {
            let base = if inp.cur.is_empty() { &inp.prev } else { &inp.cur };
            if base.is_empty() { return None; }
            let mut d = decode(base)?;
            tamper_trace(&mut d, m, seed, &inp.current_peer_id)?;
            i.cur = reencode(base, &d)?;
        }
        "store_swap_values" | "drop_sig" => {
            let base = if inp.cur.is_empty() { &inp.prev } else { &inp.cur };
            if base.is_empty() { return None; }
            let d = decode(base)?;
            let d2 = tamper_json(&d, m, seed)?;
            i.cur = reencode(base, &d2)?;
        }
        // the previous data with an edited trace: prev is trusted (not verified), the executor meets it
        "prev_rsb_to_par" => {
            if inp.prev.is_empty() { return None; }
            let mut d = decode(&inp.prev)?;
            tamper_trace(&mut d, "rsb_to_par", seed, &inp.current_peer_id)?;
            i.prev = reencode(&inp.prev, &d)?;
        }
        _ => return None,
    }
    Some(i)
}

fn is_prev_code(c: i64) -> bool {
    (1..=9999).contains(&c) || (20000..=29999).contains(&c)
}
fn is_new_code(c: i64) -> bool {
    c == 0 || (10000..=19999).contains(&c) || c == 30000
}

/// C02, second sentence, strengthened: "new, decodable data that includes everything executed in that run".
/// Sound consequences of the text that can be read off one run:
///  * every call request handed to the host in this run is recorded in the new trace as a pending state
///    of this peer under that id;
///  * the new data's last call request id is not below any id handed out, nor below the previous one;
///  * every next peer corresponds to a pending state sent by this peer (call or canon);
///  * (honest inputs, code 0) a result handed in is consumed: no pending state under its id remains.
fn strong(rec: &StepRecord, honest: bool) -> Vec<J> {
    let mut v = vec![];
    let o = &rec.out;
    if o.panic.is_some() || !is_new_code(o.code) || o.data.is_empty() {
        return v;
    }
    let d = match decode_data(&o.data) { Ok(d) => d.data, Err(_) => return v };
    let me = rec.input.current_peer_id.as_str();
    let mut my_ids: Vec<u32> = vec![];
    let mut sent_by_me = 0usize;
    for st in d.trace.iter() {
        match st {
            ExecutedState::Call(CallResult::RequestSentBy(Sender::PeerIdWithCallId { peer_id, call_id })) if peer_id.as_str() == me => my_ids.push(*call_id),
            ExecutedState::Call(CallResult::RequestSentBy(Sender::PeerId(p))) if p.as_str() == me => sent_by_me += 1,
            ExecutedState::Canon(CanonResult::RequestSentBy(p)) if p.as_str() == me => sent_by_me += 1,
            _ => {}
        }
    }
    if let Some(reqs) = &o.requests {
        for id in reqs.keys() {
            if !my_ids.contains(id) {
                v.push(oracles::fail("C02", rec.step, format!("code {}: request {} was handed to the host but the returned data has no pending state for it", o.code, id), "new-data-misses-request"));
            }
            if d.last_call_request_id < *id {
                v.push(oracles::fail("C02", rec.step, format!("code {}: request {} was handed out but the returned data's last request id is {}", o.code, id, d.last_call_request_id), "new-data-lcid-behind"));
            }
        }
    } else {
        v.push(oracles::fail("C02", rec.step, format!("code {}: call requests do not decode", o.code), "requests-undecodable"));
    }
    if let Some(p) = decode(&rec.input.prev) {
        if d.last_call_request_id < p.last_call_request_id {
            v.push(oracles::fail("C02", rec.step, format!("code {}: last request id went back from {} to {}", o.code, p.last_call_request_id, d.last_call_request_id), "new-data-lcid-behind"));
        }
    }
    if sent_by_me < o.next.len() {
        v.push(oracles::fail("C02", rec.step, format!("code {}: {} next peers but only {} pending states sent by this peer in the returned data", o.code, o.next.len(), sent_by_me), "new-data-misses-sent-state"));
    }
    if honest && o.code == 0 {
        for id in rec.input.call_results.keys() {
            if my_ids.contains(id) {
                v.push(oracles::fail("C02", rec.step, format!("code 0: the result under id {} was handed in but the returned data still waits for it", id), "new-data-misses-result"));
            }
        }
    }
    v
}

fn exec_class(code: i64) -> String {
    if code == 0 {
        "(XcOk false)".into()
    } else if code == 30000 {
        "(XcOk true)".into()
    } else if (10000..20000).contains(&code) {
        format!("(XcCatchable {})", code - 10000)
    } else if (20000..30000).contains(&code) {
        format!("(XcUncatchable {})", code - 20000)
    } else if (1..10000).contains(&code) {
        "(XcOk false)".into() // never reached: a preparation stage fails first
    } else {
        format!("(XcOther {})", c::z(code as i128))
    }
}

/// (Coq term, class, info) of one run
fn report(step: usize, m: &str, inp: &RunInput, out: &RunOut) -> (String, String, J) {
    // the stage results are those of the input under no limits (cmd_limits reads verify / key pair off the code)
    let mut unl = inp.clone();
    unl.limits = Limits::unlimited();
    let twin = if inp.limits.hard || inp.limits.air != u64::MAX || inp.limits.particle != u64::MAX || inp.limits.result != u64::MAX { run(&unl) } else { out.clone() };
    let w = world_of(inp, &twin);
    let wterm = w.term.replace("w_rest := 0", &format!("w_rest := {}", exec_class(if (1..10000).contains(&out.code) { twin.code } else { out.code })));
    let eq_prev = out.data == inp.prev;
    let decodable = !out.data.is_empty() && decode_data(&out.data).is_ok();
    let reqs = match &out.requests { Some(r) => format!("(Some {})", r.len()), None => "None".into() };
    let obs = format!(
        "{{| co_panic := {}; co_code := {}; co_eq_prev := {}; co_empty := {}; co_decodable := {}; co_next := {}; co_reqs := {}; co_flags := {} |}}",
        c::b(out.panic.is_some()), c::z(out.code as i128), c::b(eq_prev), c::b(out.data.is_empty()), c::b(decodable), out.next.len(), reqs, flags_term(&out.flags)
    );
    let term = format!("{{| cc_world := {}; cc_limits := {}; cc_prev_empty := {}; cc_obs := {} |}}", wterm, limits_term(&inp.limits), c::b(inp.prev.is_empty()), obs);
    let dk = if out.panic.is_some() { "panic" } else if eq_prev && is_prev_code(out.code) { "prev" } else if out.data.is_empty() { "empty" } else if decodable { "new" } else { "undecodable" };
    let results = inp.call_results.len();
    let class = format!("{}/{}:{}{}", m, dk, out.code, if results > 0 && is_prev_code(out.code) && out.code >= 20000 { "/with-results" } else { "" });
    let info = serde_json::json!({"step": step, "mutation": m, "code": out.code, "data": dk, "results_in": results,
        "prev_len": inp.prev.len(), "cur_len": inp.cur.len(), "next": out.next.len(),
        "requests": out.requests.as_ref().map(|r| r.len()), "msg": out.msg.chars().take(100).collect::<String>()});
    (term, class, info)
}

fn run_case(case: &J) -> J {
    let peers: Vec<String> = case["peers"].as_array().map(|a| a.iter().filter_map(|x| x.as_str().map(String::from)).collect()).unwrap_or_default();
    let script = Net::instantiate(case["script"].as_str().unwrap_or("(null)"), &peers);
    let services_json = Net::instantiate(&case["services"].to_string(), &peers);
    let services = Services::from_json(&serde_json::from_str(&services_json).unwrap_or(J::Null));
    let init = case["init"].as_u64().unwrap_or(0) as usize;
    let ops = ops_from_json(&case["ops"]);
    let seed = case["seed"].as_u64().unwrap_or(1);
    let mutations: Vec<String> = case["mutations"].as_array().map(|a| a.iter().filter_map(|x| x.as_str().map(String::from)).collect()).unwrap_or_default();
    let probe_steps: Option<Vec<u64>> = case["probe_steps"].as_array().map(|a| a.iter().filter_map(|x| x.as_u64()).collect());
    if peers.is_empty() {
        return serde_json::json!({"error": "no peers"});
    }

    let mut net = Net::new(&script, &peers, init, services, case["particle_id"].as_str().unwrap_or("particle-1"));
    let mut terms = vec![];
    let mut classes = vec![];
    let mut infos = vec![];
    let mut failures: Vec<J> = vec![];
    let mut runs = 0usize;
    for op in &ops {
        let rec = match net.exec(op) { Some(r) => r, None => continue };
        runs += 1;
        failures.extend(oracles::c02(&rec));
        failures.extend(strong(&rec, true));
        let (t, cl, inf) = report(rec.step, "none", &rec.input, &rec.out);
        terms.push(t);
        classes.push(cl);
        infos.push(inf);
        let probe_here = match &probe_steps { None => true, Some(v) => v.contains(&(rec.step as u64)) };
        if !probe_here { continue; }
        for (mi, m) in mutations.iter().enumerate() {
            let inp = match mutate(&rec.input, m, seed.wrapping_add(mi as u64 * 7919 + rec.step as u64)) { Some(i) => i, None => continue };
            let out = run(&inp);
            runs += 1;
            let mrec = StepRecord { step: rec.step, peer: rec.peer, input: inp, out };
            for mut f in oracles::c02(&mrec).into_iter().chain(strong(&mrec, false)) {
                f["mutation"] = J::String(m.clone());
                failures.push(f);
            }
            let (t, cl, inf) = report(mrec.step, m, &mrec.input, &mrec.out);
            terms.push(t);
            classes.push(cl);
            infos.push(inf);
        }
    }
    serde_json::json!({"coq": terms, "classes": classes, "info": infos, "oracle_failures": failures, "runs": runs})
}

fn main() {
    quiet_panics();
    for line in std::io::stdin().lock().lines() {
        let line = match line { Ok(l) => l, Err(_) => break };
        if line.trim().is_empty() { continue; }
        let case: J = match serde_json::from_str(&line) {
            Ok(c) => c,
            Err(e) => { println!("{}", serde_json::json!({"error": format!("bad case: {e}")})); continue; }
        };
        println!("{}", run_case(&case));
    }
}
