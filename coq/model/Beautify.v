(* Beautify.v -- the AIR beautifier (crates/beautifier) over the syntax tree of Air.v, the
   flattening of a script, and an independent indentation reader.

   Mirrors:
     crates/beautifier/src/beautifier.rs   Beautifier::{beautify_ast, beautify_walker, beautify_call,
                                           beautify_simple, beautify_seq, beautify_par, beautify_xor,
                                           beautify_match, beautify_mismatch, beautify_fold_*, beautify_new},
                                           macros multiline!/compound!, fmt_indent, CallArgs, CallTriplet
     crates/beautifier/src/virtual.rs      try_hopon, canon_shadows_peer_id, HopOn's Display
     crates/air-lib/air-parser/src/ast/{instruction_arguments,values}/traits.rs and
     crates/air-lib/lambda/ast/src/ast/traits.rs
                                           the Display of the operands of a call (the beautifier prints a
                                           call in its own format, so the [text] of Air.v is not enough there)

   What is opaque: the [text] of every node of Air.v (the real AST's Display of the instruction), used
   for every instruction the beautifier prints through Display (ap, canon, fail, next, and the headers
   of match / mismatch / fold / new).
   What is partial in the Rust code and explicit here: `$indent + indent_step` is an unchecked usize
   addition ([walker_overflows], outcome [BCrash]).  The writer is a Vec (no I/O error).
   Definitions only (proofs are in proofs/BeautifyProofs.v). *)
From Coq Require Import DecimalString.
From Aqua Require Import Base Air.
Open Scope N_scope.

Infix "+++" := String.append (right associativity, at level 60).

Definition nl : ascii := "010"%char.
Definition space : ascii := " "%char.

(* ============================================================================================ *)
(* 1. Display of the operands of a call                                                          *)
(* ============================================================================================ *)

Definition dec_N (n : N) : string := NilZero.string_of_uint (N.to_uint n).
Definition dec_Z (z : Z) : string := NilZero.string_of_int (Z.to_int z).

Fixpoint join (sep : string) (l : list string) : string :=
  match l with
  | [] => ""
  | [x] => x
  | x :: r => x +++ sep +++ join sep r
  end%string.

(* ---- f64: Air.v carries serde_json's (ryu) text of the number; Rust's `{}` prints the same shortest
   digits positionally, without exponent and without a trailing ".0".  The lexer accepts floats of at
   most 11 characters ([+-]digits.digits), so the value is finite. ---- *)
Fixpoint split_at (c : ascii) (s : string) : string * option string :=
  match s with
  | EmptyString => (EmptyString, None)
  | String x r =>
      if Ascii.eqb x c then (EmptyString, Some r)
      else let (a, b) := split_at c r in (String x a, b)
  end.
Fixpoint zeros (n : nat) : string := match n with O => EmptyString | S k => String "0" (zeros k) end.
Fixpoint strip_trailing_zeros (s : string) : string :=
  match s with
  | EmptyString => EmptyString
  | String c r =>
      let r' := strip_trailing_zeros r in
      match r' with
      | EmptyString => if Ascii.eqb c "0" then EmptyString else String c EmptyString
      | _ => String c r'
      end
  end.
Fixpoint strip_leading_zeros (s : string) : string :=   (* keeps one digit *)
  match s with
  | String c (String _ _ as r) => if Ascii.eqb c "0" then strip_leading_zeros r else s
  | _ => s
  end.
Fixpoint take (n : nat) (s : string) : string :=
  match n, s with S k, String c r => String c (take k r) | _, _ => EmptyString end.
Fixpoint drop (n : nat) (s : string) : string :=
  match n, s with S k, String _ r => drop k r | _, _ => s end.

Definition f64_display (repr : string) : string :=
  let (neg, body) := match repr with String "-" r => (true, r) | _ => (false, repr) end in
  let (mant, ex) := split_at "e" body in
  let (ip, fp) := split_at "." mant in
  let fp := match fp with Some f => f | None => EmptyString end in
  let e := match ex with
           | None => Some 0%Z
           | Some x => option_map Z.of_int (NilZero.int_of_string (match x with String "+" r => r | _ => x end))
           end in
  match e with
  | None => repr                                   (* not a number text ("null": unreachable, see above) *)
  | Some e =>
      let digits := ip +++ fp in
      let len := Z.of_nat (String.length digits) in
      let p := (Z.of_nat (String.length ip) + e)%Z in
      let '(i, f) :=
        if (p <=? 0)%Z then ("0"%string, zeros (Z.to_nat (- p)) +++ digits)
        else if (len <=? p)%Z then (digits +++ zeros (Z.to_nat (p - len)), EmptyString)
        else (take (Z.to_nat p) digits, drop (Z.to_nat p) digits) in
      let i := strip_leading_zeros (match i with EmptyString => "0"%string | _ => i end) in
      let f := strip_trailing_zeros f in
      (if neg then "-" else "")%string +++ i +++ (match f with EmptyString => EmptyString | _ => String "." f end)
  end.

(* lambda/ast/src/ast/traits.rs: Display for ValueAccessor / LambdaAST / Functor *)
Definition display_accessor (a : accessor) : string :=
  match a with
  | ArrayAccess idx => "[" +++ dec_N idx +++ "]"
  | FieldAccessByName f => f
  | FieldAccessByScalar s => "[" +++ s +++ "]"
  | AccessorError => "a parser error occurred while parsing lambda expression"
  end%string.
Definition display_lambda (l : lambda) : string :=
  match l with
  | LFunctorLength => ".length"
  | LValuePath p => ".$." +++ join "." (map display_accessor p)
  end%string.
Definition display_opt_lambda (l : option lambda) : string :=
  match l with Some x => display_lambda x | None => EmptyString end.

(* values/traits.rs *)
Definition display_var (v : var) : string := v_name v.
Definition display_var_l (v : var_l) : string := vl_name v +++ display_lambda (vl_lambda v).
Definition quoted (s : string) : string := (String """" s) +++ String """" EmptyString.

(* instruction_arguments/traits.rs: Display for ResolvableToPeerIdVariable / ResolvableToStringVariable *)
Definition display_peer (p : peer_arg) : string :=
  match p with
  | PInitPeerId => "%init_peer_id%"
  | PLiteral s => quoted s
  | PScalar v => display_var v
  | PScalarL v | PCanonL v | PCanonMapL v => display_var_l v
  end%string.
Definition display_string_arg (p : string_arg) : string :=
  match p with
  | SLiteral s => quoted s
  | SScalar v => display_var v
  | SScalarL v | SCanonL v | SCanonMapL v => display_var_l v
  end.
Definition display_number (n : number) : string :=
  match n with NumInt z => dec_Z z | NumFloat r => f64_display r end.
(* Display for ImmutableValue (display_error / display_last_error included) *)
Definition display_value (v : value) : string :=
  match v with
  | VInitPeerId => "%init_peer_id%"
  | VError l => ":error:" +++ display_opt_lambda l
  | VLastError l => "%last_error%" +++ display_opt_lambda l
  | VTimestamp => "%timestamp%"
  | VTTL => "%ttl%"
  | VLiteral s => quoted s
  | VNumber n => display_number n
  | VBoolean b => if b then "true" else "false"
  | VEmptyArray => "[]"
  | VScalar v | VCanon v | VCanonMap v => display_var v
  | VScalarL v | VCanonL v | VCanonMapL v => display_var_l v
  end%string.

(* Display for Call (instructions/traits.rs), used only to cross-check this section against [text] *)
Definition display_call (t : triplet) (args : list value) (out : call_output) : string :=
  ("call " +++ display_peer (t_peer t) +++ " (" +++ display_string_arg (t_service t) +++ " "
     +++ display_string_arg (t_function t) +++ ") [" +++ join " " (map display_value args) +++ "] "
     +++ match out with OutScalar v | OutStream v => display_var v | OutNone => EmptyString end)%string.

(* ============================================================================================ *)
(* 2. The beautifier                                                                             *)
(* ============================================================================================ *)

Record line := { l_indent : N; l_text : string }.

Definition kw_par : string := "par:".
Definition kw_par_sep : string := "|".
Definition kw_try : string := "try:".
Definition kw_catch : string := "catch:".
Definition kw_last : string := "last:".
Definition kw_colon : string := ":".

(* beautifier.rs: beautify_call with CallTriplet / CallArgs *)
Definition call_line (t : triplet) (args : list value) (out : call_output) : string :=
  (match out with
   | OutScalar v => display_var v +++ " <- "
   | OutStream v => display_var v +++ " <- "
   | OutNone => EmptyString
   end
   +++ "call " +++ (display_peer (t_peer t) +++ " (" +++ display_string_arg (t_service t) +++ ", "
                      +++ display_string_arg (t_function t) +++ ")")
   +++ " [" +++ join ", " (map display_value args) +++ "]")%string.

(* virtual.rs: canon_shadows_peer_id *)
Definition canon_shadows_peer_id (canon_name : string) (p : peer_arg) : bool :=
  match p with
  | PInitPeerId => false
  | PLiteral _ => false
  | PScalar _ => false
  | PScalarL _ => false
  | PCanonMapL _ => false
  | PCanonL v => String.eqb (vl_name v) canon_name
  end.

(* virtual.rs: try_hopon (root `new` = its argument and its body) *)
Definition try_hopon (root_arg : new_arg) (root_body : instr) : option peer_arg :=
  match root_body, root_arg with
  | INew _ nested_arg nested_body _, NStream stream_name =>
      match nested_body, nested_arg with
      | ICanon _ peer_id stream canon_stream, NCanon nested_canon_name =>
          if String.eqb (v_name canon_stream) (v_name nested_canon_name)
             && String.eqb (v_name stream) (v_name stream_name)
             && negb (canon_shadows_peer_id (v_name nested_canon_name) peer_id)
          then Some peer_id else None
      | _, _ => None
      end
  | _, _ => None
  end.
Definition hopon_line (p : peer_arg) : string := ("hopon " +++ display_peer p)%string.

Definition mk (indent : N) (text : string) : line := {| l_indent := indent; l_text := text |}.

(* beautifier.rs: beautify_walker and the methods it dispatches to.
   multiline!(b, indent; "kw"; nest ...) = the line (indent, kw), then the walker on nest at indent + step;
   compound!(b, indent, i) = multiline!(b, indent; "{}:", i; &i.instruction). *)
Fixpoint beautify_walker (hopon : bool) (step : N) (node : instr) (indent : N) {struct node} : list line :=
  let compound := fun (text : string) (body : instr) =>
    mk indent (text +++ kw_colon) :: beautify_walker hopon step body (indent + step) in
  let fold := fun (text : string) (body : instr) (last : option instr) =>
    (compound text body ++
     match last with
     | Some l => mk indent kw_last :: beautify_walker hopon step l (indent + step)
     | None => []
     end)%list in
  match node with
  | ICall _ t args out => [mk indent (call_line t args out)]                      (* beautify_call *)
  | IAp text _ _ => [mk indent text]                                               (* beautify_simple *)
  | IApMap text _ _ _ => [mk indent text]
  | ICanon text _ _ _ => [mk indent text]
  | ICanonMap text _ _ _ => [mk indent text]
  | ICanonStreamMapScalar text _ _ _ => [mk indent text]
  | ISeq a b => (beautify_walker hopon step a indent ++ beautify_walker hopon step b indent)%list   (* beautify_seq *)
  | IPar a b =>                                                                     (* beautify_par *)
      (mk indent kw_par :: beautify_walker hopon step a (indent + step) ++
       mk indent kw_par_sep :: beautify_walker hopon step b (indent + step))%list
  | IXor a b =>                                                                     (* beautify_xor *)
      (mk indent kw_try :: beautify_walker hopon step a (indent + step) ++
       mk indent kw_catch :: beautify_walker hopon step b (indent + step))%list
  | IMatch text _ _ body => compound text body                                      (* beautify_match *)
  | IMisMatch text _ _ body => compound text body                                   (* beautify_mismatch *)
  | IFail text _ => [mk indent text]
  | IFoldScalar text _ _ body last _ => fold text body last                         (* beautify_fold_scalar *)
  | IFoldStream text _ _ body last _ => fold text body last                         (* beautify_fold_stream *)
  | IFoldStreamMap text _ _ body last _ => fold text body last                      (* beautify_fold_stream_map *)
  | INever => [mk indent "never"%string]
  | INew text arg body _ =>                                                         (* beautify_new *)
      match (if hopon then try_hopon arg body else None) with
      | Some p => [mk indent (hopon_line p)]
      | None => compound text body
      end
  | INext text _ => [mk indent text]
  | INull => [mk indent "null"%string]
  | IError => [mk indent "error"%string]
  end.

(* the unchecked `$indent + indent_step` of multiline! (usize; the crates are built with overflow checks) *)
Definition usize_max : N := 18446744073709551615.
Fixpoint walker_overflows (hopon : bool) (step : N) (node : instr) (indent : N) {struct node} : bool :=
  let ov := usize_max <? indent + step in
  let nested := fun (i : instr) => walker_overflows hopon step i (indent + step) in
  let olast := fun (last : option instr) => match last with Some l => nested l | None => false end in
  match node with
  | ISeq a b => walker_overflows hopon step a indent || walker_overflows hopon step b indent
  | IPar a b | IXor a b => ov || nested a || nested b
  | IMatch _ _ _ body | IMisMatch _ _ _ body => ov || nested body
  | IFoldScalar _ _ _ body last _ | IFoldStream _ _ _ body last _ | IFoldStreamMap _ _ _ body last _ =>
      ov || nested body || olast last
  | INew _ arg body _ =>
      match (if hopon then try_hopon arg body else None) with
      | Some _ => false
      | None => ov || nested body
      end
  | _ => false
  end.

(* fmt_indent + writeln!: `{:indent$}` of the empty string, the text, a newline *)
Fixpoint spaces_nat (n : nat) : string := match n with O => EmptyString | S k => String space (spaces_nat k) end.
Definition spaces (n : N) : string := spaces_nat (N.to_nat n).
Fixpoint render_lines (ls : list line) : string :=
  match ls with
  | [] => EmptyString
  | l :: r => spaces (l_indent l) +++ l_text l +++ String nl (render_lines r)
  end.

Inductive outcome := BOk (text : string) | BCrash.

(* Beautifier::beautify_ast on a Vec writer (hopon = the `try_hopon` field, step = `indent_step`) *)
Definition beautify_ast (hopon : bool) (step : N) (t : instr) : outcome :=
  if walker_overflows hopon step t 0 then BCrash
  else BOk (render_lines (beautify_walker hopon step t 0)).

(* tie to the source (tools/genx_beautify.py): the dispatch of the walker, the keywords of each method,
   the formats of the call line and of hopon, the default of the hopon switch *)
Definition str3_eqb (a b : string * string * string) : bool :=
  match a, b with (a1, a2, a3), (b1, b2, b3) => String.eqb a1 b1 && String.eqb a2 b2 && String.eqb a3 b3 end.
Definition kwrow_eqb (a b : string * list string * N * N) : bool :=
  match a, b with
  | (a1, a2, a3, a4), (b1, b2, b3, b4) => String.eqb a1 b1 && list_eqb String.eqb a2 b2 && (a3 =? b3) && (a4 =? b4)
  end.
Definition beautify_tables_agree : bool :=
  list_eqb str3_eqb bt_walker_dispatch
    [("Call", "beautify_call", ""); ("Ap", "beautify_simple", ""); ("ApMap", "beautify_simple", "");
     ("Canon", "beautify_simple", ""); ("CanonMap", "beautify_simple", ""); ("CanonStreamMapScalar", "beautify_simple", "");
     ("Seq", "beautify_seq", ""); ("Par", "beautify_par", ""); ("Xor", "beautify_xor", "");
     ("Match", "beautify_match", ""); ("MisMatch", "beautify_mismatch", ""); ("Fail", "beautify_simple", "");
     ("FoldScalar", "beautify_fold_scalar", ""); ("FoldStream", "beautify_fold_stream", "");
     ("FoldStreamMap", "beautify_fold_stream_map", ""); ("Never", "beautify_simple", ""); ("New", "beautify_new", "");
     ("Next", "beautify_simple", ""); ("Null", "beautify_simple", ""); ("Error", "beautify_simple", "error")]%string
  && list_eqb kwrow_eqb bt_method_keywords
    [("beautify_call", [], 0, 0); ("beautify_fold_scalar", [kw_last], 1, 0); ("beautify_fold_stream", [kw_last], 1, 0);
     ("beautify_fold_stream_map", [kw_last], 1, 0); ("beautify_match", [], 1, 0); ("beautify_mismatch", [], 1, 0);
     ("beautify_new", [], 1, 1); ("beautify_par", [kw_par; kw_par_sep], 0, 0); ("beautify_seq", [], 0, 0);
     ("beautify_simple", [], 0, 0); ("beautify_xor", [kw_try; kw_catch], 0, 0)]%string
  && String.eqb bt_compound_format ("{}" +++ kw_colon)
  && bt_multiline_is_standard && bt_indent_is_padding && bt_simple_is_display_line && bt_seq_is_flat
  && list_eqb (pair_eqb String.eqb String.eqb) bt_call_output_formats
       [("Scalar", "{v} <- "); ("Stream", "{v} <- "); ("None", "")]%string
  && String.eqb bt_call_format "call {} [{}]"
  && String.eqb bt_call_triplet_format "{} ({}, {})"
  && String.eqb bt_call_args_separator ", "
  && negb bt_hopon_default
  && String.eqb bt_hopon_format "hopon {}"
  && list_eqb (pair_eqb String.eqb String.eqb) bt_hopon_shadow_table
       [("InitPeerId", "false"); ("Literal", "false"); ("Scalar", "false"); ("ScalarWithLambda", "false");
        ("CanonStreamMapWithLambda", "false"); ("CanonStreamWithLambda", "name_eq")]%string
  && bt_try_hopon_is_standard
  && (default_indent_step =? 4).

(* ============================================================================================ *)
(* 3. The structure of a script: sequences flattened, every other instruction kept               *)
(* ============================================================================================ *)

Inductive tree :=
| TLeaf (text : string)                                   (* an instruction without nested instructions *)
| TPar (l r : list tree)
| TTry (l r : list tree)
| TBlock (header : string) (body : list tree)             (* match / mismatch / new / fold *)
| TBlockLast (header : string) (body last : list tree).   (* fold with a last instruction *)

(* what one instruction looks like in the script: its own Display (the opaque [text]) -- except a call,
   which the beautifier writes as `out <- call peer (service, function) [a, b]`, and the virtual hopon *)
Fixpoint flatten (hopon : bool) (t : instr) {struct t} : list tree :=
  let fold := fun (text : string) (body : instr) (last : option instr) =>
    match last with
    | Some l => [TBlockLast text (flatten hopon body) (flatten hopon l)]
    | None => [TBlock text (flatten hopon body)]
    end in
  match t with
  | ISeq a b => (flatten hopon a ++ flatten hopon b)%list
  | IPar a b => [TPar (flatten hopon a) (flatten hopon b)]
  | IXor a b => [TTry (flatten hopon a) (flatten hopon b)]
  | IMatch text _ _ body | IMisMatch text _ _ body => [TBlock text (flatten hopon body)]
  | IFoldScalar text _ _ body last _ | IFoldStream text _ _ body last _ | IFoldStreamMap text _ _ body last _ =>
      fold text body last
  | INew text arg body _ =>
      match (if hopon then try_hopon arg body else None) with
      | Some p => [TLeaf (hopon_line p)]
      | None => [TBlock text (flatten hopon body)]
      end
  | ICall _ tr args out => [TLeaf (call_line tr args out)]
  | IAp text _ _ | IApMap text _ _ _ | ICanon text _ _ _ | ICanonMap text _ _ _
  | ICanonStreamMapScalar text _ _ _ | IFail text _ | INext text _ => [TLeaf text]
  | INever => [TLeaf "never"%string]
  | INull => [TLeaf "null"%string]
  | IError => [TLeaf "error"%string]
  end.

(* nesting depth of the script (seq does not nest) *)
Fixpoint tree_depth (t : tree) : N :=
  let m := fun l => fold_right N.max 0 (map tree_depth l) in
  match t with
  | TLeaf _ => 0
  | TPar l r | TTry l r => 1 + N.max (m l) (m r)
  | TBlock _ b => 1 + m b
  | TBlockLast _ b l => 1 + N.max (m b) (m l)
  end.
Definition forest_depth (ts : list tree) : N := fold_right N.max 0 (map tree_depth ts).

(* every instruction with its nesting depth, in script order; the text is the line that introduces it *)
Fixpoint tree_listing (depth : N) (t : tree) : list (N * string) :=
  let sub := flat_map (tree_listing (depth + 1)) in
  match t with
  | TLeaf x => [(depth, x)]
  | TPar l r => ((depth, kw_par) :: sub l ++ sub r)%list
  | TTry l r => ((depth, kw_try) :: sub l ++ sub r)%list
  | TBlock h b => (depth, h +++ kw_colon) :: sub b
  | TBlockLast h b l => ((depth, h +++ kw_colon) :: sub b ++ sub l)%list
  end.
Definition listing (depth : N) (ts : list tree) : list (N * string) := flat_map (tree_listing depth) ts.

(* reference printer of a structure (used in the proofs only; the beautifier is beautify_walker) *)
Fixpoint print_tree (step d : N) (t : tree) : list line :=
  let sub := flat_map (print_tree step (d + step)) in
  match t with
  | TLeaf x => [mk d x]
  | TPar l r => (mk d kw_par :: sub l ++ mk d kw_par_sep :: sub r)%list
  | TTry l r => (mk d kw_try :: sub l ++ mk d kw_catch :: sub r)%list
  | TBlock h b => mk d (h +++ kw_colon) :: sub b
  | TBlockLast h b l => (mk d (h +++ kw_colon) :: sub b ++ mk d kw_last :: sub l)%list
  end.
Definition print_trees (step d : N) (ts : list tree) : list line := flat_map (print_tree step d) ts.

(* ============================================================================================ *)
(* 4. The independent reader: text -> lines -> indentation forest -> structure                   *)
(*    It knows the layout rule (deeper lines belong to the line above) and the block keywords     *)
(*    `par:` / `|`, `try:` / `catch:`, `<header>:` / `last:`; nothing about AIR.                  *)
(* ============================================================================================ *)

(* rows of a text: every row is terminated by a newline *)
Fixpoint parse_rows (s : string) : option (list string) :=
  match s with
  | EmptyString => Some []
  | String c r =>
      if Ascii.eqb c nl then option_map (cons EmptyString) (parse_rows r)
      else match parse_rows r with
           | Some (row :: rows) => Some (String c row :: rows)
           | _ => None
           end
  end.
(* a row = its leading blanks counted + the rest *)
Fixpoint line_of_row (s : string) : line :=
  match s with
  | String c r =>
      if Ascii.eqb c space then let l := line_of_row r in mk (N.succ (l_indent l)) (l_text l) else mk 0 s
  | EmptyString => mk 0 EmptyString
  end.
Definition parse_lines (s : string) : option (list line) := option_map (map line_of_row) (parse_rows s).

(* indentation forest: a line owns the lines below it that are indented deeper, up to the next line
   that is not (built from the last line backwards) *)
Inductive gnode := GNode (ind : N) (txt : string) (kids : list gnode).
Definition g_ind (n : gnode) : N := match n with GNode i _ _ => i end.
Definition g_txt (n : gnode) : string := match n with GNode _ t _ => t end.
Definition g_kids (n : gnode) : list gnode := match n with GNode _ _ k => k end.

Fixpoint span_deeper (d : N) (s : list gnode) : list gnode * list gnode :=
  match s with
  | n :: r => if d <? g_ind n then let (k, r') := span_deeper d r in (n :: k, r') else ([], s)
  | [] => ([], [])
  end.
Definition add_line (l : line) (s : list gnode) : list gnode :=
  let (k, r) := span_deeper (l_indent l) s in GNode (l_indent l) (l_text l) k :: r.
Definition gforest (ls : list line) : list gnode := fold_right add_line [] ls.

Definition is_separator (x : string) : bool :=
  String.eqb x kw_par_sep || String.eqb x kw_catch || String.eqb x kw_last.
Definition is_keyword (x : string) : bool :=
  String.eqb x kw_par || String.eqb x kw_try || is_separator x.

(* "h:" -> h *)
Fixpoint strip_colon (s : string) : option string :=
  match s with
  | EmptyString => None
  | String c EmptyString => if Ascii.eqb c ":" then Some EmptyString else None
  | String c r => option_map (String c) (strip_colon r)
  end.

Definition nonempty {A} (l : list A) : bool := match l with [] => false | _ => true end.

(* siblings -> structures; [f] reads the children of one node *)
Definition items_with (f : gnode -> option (list tree)) : list gnode -> option (list tree) :=
  fix items (l : list gnode) : option (list tree) :=
    match l with
    | [] => Some []
    | x :: r =>
        let tx := g_txt x in
        let pair_block := fun (sep : string) (mkt : list tree -> list tree -> tree) =>
          match r with
          | y :: r' =>
              if String.eqb (g_txt y) sep then
                match f x, f y, items r' with
                | Some a, Some b, Some m => if nonempty a && nonempty b then Some (mkt a b :: m) else None
                | _, _, _ => None
                end
              else None
          | [] => None
          end in
        if String.eqb tx kw_par then pair_block kw_par_sep TPar
        else if String.eqb tx kw_try then pair_block kw_catch TTry
        else if is_separator tx then None
        else
          match g_kids x with
          | [] => match items r with Some m => Some (TLeaf tx :: m) | None => None end
          | _ :: _ =>
              match strip_colon tx, f x with
              | Some h, Some body =>
                  match r with
                  | y :: r' =>
                      if String.eqb (g_txt y) kw_last then
                        match f y, items r' with
                        | Some lst, Some m => if nonempty lst then Some (TBlockLast h body lst :: m) else None
                        | _, _ => None
                        end
                      else match items r with Some m => Some (TBlock h body :: m) | None => None end
                  | [] => Some [TBlock h body]
                  end
              | _, _ => None
              end
          end
    end.
Fixpoint kids_trees (n : gnode) : option (list tree) :=
  match n with GNode _ _ kids => items_with kids_trees kids end.
Definition items : list gnode -> option (list tree) := items_with kids_trees.

Definition read_lines (ls : list line) : option (list tree) := items (gforest ls).
Definition read_text (s : string) : option (list tree) :=
  match parse_lines s with Some ls => read_lines ls | None => None end.

(* every line of the forest sits at indentation step * (its nesting depth) *)
Fixpoint indents_ok (step k : N) (n : gnode) : bool :=
  match n with GNode i _ kids => (i =? step * k) && forallb (indents_ok step (k + 1)) kids end.

(* the lines that introduce an instruction (everything but the separators `|`, `catch:`, `last:`) *)
Definition instruction_lines (ls : list line) : list (N * string) :=
  map (fun l => (l_indent l, l_text l)) (filter (fun l => negb (is_separator (l_text l))) ls).

(* ============================================================================================ *)
(* 5. The hypothesis on the operand renderings, and the statements                               *)
(* ============================================================================================ *)

Fixpoint has_char (c : ascii) (s : string) : bool :=
  match s with EmptyString => false | String x r => Ascii.eqb x c || has_char c r end.
Definition starts_with_space (s : string) : bool :=
  match s with String c _ => Ascii.eqb c space | EmptyString => false end.
(* a line text survives the trip through the text: no newline inside, no leading blank *)
Definition row_safe (x : string) : bool := negb (has_char nl x) && negb (starts_with_space x).
(* ... and is not one of the reader's keywords *)
Definition line_ok (x : string) : bool := row_safe x && negb (is_keyword x).

Fixpoint tree_texts_ok (t : tree) : bool :=
  match t with
  | TLeaf x => line_ok x
  | TPar l r | TTry l r => forallb tree_texts_ok l && forallb tree_texts_ok r
  | TBlock h b => line_ok (h +++ kw_colon) && forallb tree_texts_ok b
  | TBlockLast h b l => line_ok (h +++ kw_colon) && forallb tree_texts_ok b && forallb tree_texts_ok l
  end.
(* the exact hypothesis of the theorems: every rendering the beautifier prints for this script (the
   Display of an instruction, the call line, the hopon line) has no newline inside, does not begin with a
   blank and is not literally `par:`, `try:`, `|`, `catch:` or `last:` *)
Definition texts_ok (hopon : bool) (t : instr) : bool := forallb tree_texts_ok (flatten hopon t).

(* C28, on lines *)
Definition C28_read_flatten_stmt : Prop :=
  forall (hopon : bool) (step : N) (t : instr),
    0 < step -> texts_ok hopon t = true ->
    read_lines (beautify_walker hopon step t 0) = Some (flatten hopon t).

(* C28, on the text the beautifier writes *)
Definition C28_text_stmt : Prop :=
  forall (hopon : bool) (step : N) (t : instr) (s : string),
    0 < step -> texts_ok hopon t = true ->
    beautify_ast hopon step t = BOk s ->
    read_text s = Some (flatten hopon t).

(* every instruction once, in script order, at indentation step * depth *)
Definition C28_listing_stmt : Prop :=
  forall (hopon : bool) (step : N) (t : instr),
    texts_ok hopon t = true ->
    instruction_lines (beautify_walker hopon step t 0)
    = map (fun p => (step * fst p, snd p)) (listing 0 (flatten hopon t)).

(* every line (separators included) at indentation step * depth *)
Definition C28_indent_stmt : Prop :=
  forall (hopon : bool) (step : N) (t : instr),
    0 < step ->
    forallb (indents_ok step 0) (gforest (beautify_walker hopon step t 0)) = true.

(* the only partial operation: no crash while step * depth fits usize *)
Definition C28_no_crash_stmt : Prop :=
  forall (hopon : bool) (step : N) (t : instr),
    step * forest_depth (flatten hopon t) <= usize_max ->
    exists s, beautify_ast hopon step t = BOk s.

(* the property WITHOUT the hypothesis on the renderings (what the property text says literally) *)
Definition C28_unrestricted : Prop :=
  forall (step : N) (t : instr) (s : string),
    0 < step -> error_nodes t = 0%nat ->
    beautify_ast false step t = BOk s ->
    read_text s = Some (flatten false t).
