(* TetraProofs.v -- proofs of the statements of model/TetraSpec.v (property C17). *)
From Coq Require Import Lia.
From Aqua Require Import Base Json Air Trace Handler Values Scalars Lens Exec RunExec ExecStreams CallSpec ExecInv ExecStreamsInv TetraSpec.
From Aqua Require Stream.
Open Scope N_scope.
Open Scope list_scope.

(* ------------------------------------------------------------------------------------------ *)
(* basics *)

Lemma tetraplet_eqb_eq a b : tetraplet_eqb a b = true -> a = b.
Proof.
  destruct a as [a1 a2 a3 a4], b as [b1 b2 b3 b4]. unfold tetraplet_eqb. cbn [tp_peer tp_service tp_function tp_lens].
  rewrite !Bool.andb_true_iff, !String.eqb_eq. intros [[[H1 H2] H3] H4]. subst. reflexivity.
Qed.

Lemma tet_origin_of t : tet (origin_of t) (tp_lens t) = t.
Proof. destruct t; reflexivity. Qed.

Lemma add_lens_lensed t l : add_lens t l = lensed t l.
Proof. reflexivity. Qed.

Lemma verify_call_tetraplet eh et sh st_ u : verify_call eh et sh st_ = POk u -> et = st_.
Proof.
  unfold verify_call. destruct (negb (cid_eqb eh sh)); [discriminate |].
  destruct (tetraplet_eqb et st_) eqn:E; cbn [negb]; [| discriminate].
  intros _. apply tetraplet_eqb_eq. exact E.
Qed.

Lemma resolve_service_info_shape x c si :
  resolve_service_info x c = POk si ->
  c = service_cid (si_value si) (si_arg_hash si) (si_tetraplet si).
Proof.
  unfold resolve_service_info.
  destruct (negb (cid_mem c (cs_services (x_cids x)))); [discriminate |].
  destruct c as [| | | vc ahc tc | | |]; try discriminate.
  destruct (negb (cid_mem vc (cs_values (x_cids x)))); [discriminate |].
  destruct (negb (cid_mem tc (cs_tetraplets (x_cids x)))); [discriminate |].
  destruct vc; try discriminate. destruct tc; try discriminate.
  intros E. inversion E; subst. reflexivity.
Qed.

(* ------------------------------------------------------------------------------------------ *)
(* C17_call_result *)

Lemma resolve_triplet_spec x tr t :
  resolve_triplet x tr = POk t ->
  resolve_peer_id_to_string x (t_peer tr) = POk (tp_peer t) /\
  resolve_to_string x (t_service tr) = POk (tp_service t) /\
  resolve_to_string x (t_function tr) = POk (tp_function t) /\
  t = tet (call_origin (tp_peer t) (tp_service t) (tp_function t)) "".
Proof.
  unfold resolve_triplet.
  destruct (resolve_peer_id_to_string x (t_peer tr)) as [p | | |]; cbn [pbind]; try discriminate.
  destruct (resolve_to_string x (t_service tr)) as [s | | |]; cbn [pbind]; try discriminate.
  destruct (resolve_to_string x (t_function tr)) as [f | | |]; cbn [pbind]; try discriminate.
  intros E. inversion E; subst. cbn. repeat split; reflexivity.
Qed.

Lemma local_scalar_spec x result t pos ah sv y cr :
  populate_from_service_result x result t pos ah (OutScalar sv) = (XOk y, cr) ->
  exists x2, set_scalar_value (fst (track_service_result x result t ah)) (v_name sv)
                              (VAService result t pos (service_cid result ah t)) = POk x2 /\
             y = record_cid x2 (tp_peer t) (service_cid result ah t) /\
             cr = Some (Executed (VRScalar (service_cid result ah t))).
Proof.
  unfold populate_from_service_result, track_service_result. cbn [fst].
  match goal with |- context [set_scalar_value ?a ?b ?c] => destruct (set_scalar_value a b c) as [x2 | | |] eqn:E end;
    intros H; inversion H; subst.
  exists x2. split; [exact E | split; reflexivity].
Qed.

Lemma local_stream_spec x result t pos ah sv y cr :
  populate_from_service_result x result t pos ah (OutStream sv) = (XOk y, cr) ->
  exists x2, add_stream_value (fst (track_service_result x result t ah)) (v_name sv)
                              (VAService result t pos (service_cid result ah t)) Stream.GNew (v_pos sv) = POk x2 /\
             y = record_cid x2 (tp_peer t) (service_cid result ah t) /\
             cr = Some (Executed (VRStream (service_cid result ah t) generation_stub)).
Proof.
  unfold populate_from_service_result, track_service_result. cbn [fst].
  match goal with |- context [add_stream_value ?a ?b ?c ?d ?e] => destruct (add_stream_value a b c d e) as [x2 | | |] eqn:E end;
    intros H; inversion H; subst.
  exists x2. split; [exact E | split; reflexivity].
Qed.

Lemma data_scalar_spec x c ah t pos src sv y :
  populate_from_data x (VRScalar c) ah t pos src (OutScalar sv) = POk y ->
  exists result ah', c = service_cid result ah' t /\
                     set_scalar_value x (v_name sv) (VAService result t pos c) = POk y.
Proof.
  unfold populate_from_data.
  destruct (resolve_service_info x c) as [si | | |] eqn:Ei; cbn [pbind]; try discriminate.
  destruct (verify_call ah t (si_arg_hash si) (si_tetraplet si)) as [u | | |] eqn:Ev; cbn [pbind]; try discriminate.
  intros E. exists (si_value si), (si_arg_hash si). split; [| exact E].
  rewrite (verify_call_tetraplet _ _ _ _ _ Ev). apply (resolve_service_info_shape _ _ _ Ei).
Qed.

Lemma data_stream_spec x c g ah t pos src sv y :
  populate_from_data x (VRStream c g) ah t pos src (OutStream sv) = POk y ->
  exists result ah', c = service_cid result ah' t /\
                     add_stream_value x (v_name sv) (VAService result t pos c) (gen_of_source src g) (v_pos sv) = POk y.
Proof.
  unfold populate_from_data.
  destruct (resolve_service_info x c) as [si | | |] eqn:Ei; cbn [pbind]; try discriminate.
  destruct (verify_call ah t (si_arg_hash si) (si_tetraplet si)) as [u | | |] eqn:Ev; cbn [pbind]; try discriminate.
  intros E. exists (si_value si), (si_arg_hash si). split; [| exact E].
  rewrite (verify_call_tetraplet _ _ _ _ _ Ev). apply (resolve_service_info_shape _ _ _ Ei).
Qed.

Theorem C17_call_result_proof : C17_call_result_stmt.
Proof.
  repeat split.
  - apply (resolve_triplet_spec _ _ _ H).
  - apply (resolve_triplet_spec _ _ _ H).
  - apply (resolve_triplet_spec _ _ _ H).
  - apply (resolve_triplet_spec _ _ _ H).
  - intros. eapply local_scalar_spec; eassumption.
  - intros. eapply local_stream_spec; eassumption.
  - intros. eapply data_scalar_spec; eassumption.
  - intros. eapply data_stream_spec; eassumption.
Qed.

(* a stored scalar is read back *)
Lemma cells_get_put {T} (cs : list (string * list (cell T))) name l :
  cells_get T (cells_put T cs name l) name = Some l.
Proof.
  induction cs as [| [n v] r IH]; cbn [cells_put cells_get].
  - rewrite String.eqb_refl. reflexivity.
  - destruct (String.eqb n name) eqn:E; cbn [cells_get]; rewrite E; [reflexivity | exact IH].
Qed.

Lemma set_get_value (m : matrix vagg) name v m' b :
  matrix_ok m -> Scalars.set_value vagg m name v = inl (m', b) -> Scalars.get_value vagg m' name = inl (Some v).
Proof.
  unfold matrix_ok, Scalars.set_value, Scalars.get_value. intros Hok.
  destruct (cells_get vagg (m_cells vagg m) name) as [[| last rest] |].
  - intros E. inversion E; subst. cbn [m_cells m_allowed]. rewrite cells_get_put. cbn [c_depth c_value]. rewrite Hok. reflexivity.
  - destruct (negb (variable_could_be_set vagg m name)); [discriminate |].
    destruct (c_depth vagg last =? m_depth vagg m) eqn:Ed; intros E; inversion E; subst; cbn [m_cells m_allowed];
      rewrite cells_get_put; cbn [c_depth c_value].
    + apply N.eqb_eq in Ed. rewrite Ed, Hok. reflexivity.
    + rewrite Hok. reflexivity.
  - intros E. inversion E; subst. cbn [m_cells m_allowed]. rewrite cells_get_put. cbn [c_depth c_value]. rewrite Hok. reflexivity.
Qed.

Theorem C17_stored_is_read_proof : C17_stored_is_read_stmt.
Proof.
  intros x name v y Hok Hit. unfold set_scalar_value.
  destruct (Scalars.set_value vagg (x_scalars x) name v) as [[m b] | e] eqn:Es; [| discriminate].
  intros E. inversion E; subst.
  unfold resolve_scalar, scalars_get_value. cbn [x_scalars x_iterables set_scalars].
  rewrite (set_get_value _ _ _ _ _ Hok Es), Hit. reflexivity.
Qed.

(* ------------------------------------------------------------------------------------------ *)
(* C17_literal, C17_error *)

Theorem C17_literal_proof : C17_literal_stmt.
Proof.
  repeat split.
  - intros x v Hb. destruct v; try discriminate; eexists; reflexivity.
  - intros x a touch v Hb. destruct a; try discriminate; unfold apply_to_arg; intros E; inversion E; reflexivity.
Qed.

Theorem C17_error_proof : C17_error_stmt.
Proof.
  repeat split.
  intros x ie lens j ts p. unfold resolve_errors.
  destruct lens as [l |].
  - destruct (of_lres (select_by_lambda_from_scalar (lens_env x) (ie_error ie) l)); cbn [pbind]; try discriminate.
    intros E. inversion E; subst. destruct (ie_tetraplet ie); reflexivity.
  - cbn [pbind]. intros E. inversion E; subst. destruct (ie_tetraplet ie); reflexivity.
Qed.

(* ------------------------------------------------------------------------------------------ *)
(* C17_lens *)

Lemma accessor_to_string_render a : accessor_to_string a = render_accessor a.
Proof. destruct a; reflexivity. Qed.

Lemma append_assoc3 (a b c : string) : ((a ++ b) ++ c = a ++ (b ++ c))%string.
Proof. induction a as [| ch a IH]; cbn; [reflexivity | rewrite IH; reflexivity]. Qed.

Lemma app_nil_r_str (s : string) : (s ++ "")%string = s.
Proof. induction s as [| ch s IH]; cbn; [reflexivity | rewrite IH; reflexivity]. Qed.

Lemma fold_left_join (f : accessor -> string) rest : forall acc,
  fold_left (fun acc b => (acc ++ "." ++ f b)%string) rest acc =
  (acc ++ match rest with [] => "" | _ => "." ++ join_dot (map f rest) end)%string.
Proof.
  induction rest as [| b r IH]; intros acc; cbn [fold_left map].
  - symmetry. apply app_nil_r_str.
  - rewrite IH. rewrite append_assoc3. f_equal.
    destruct r as [| b' r']; cbn [map join_dot].
    + apply app_nil_r_str.
    + rewrite append_assoc3. reflexivity.
Qed.

Lemma lambda_to_string_render p : lambda_to_string (LValuePath p) = render_path p.
Proof.
  unfold lambda_to_string, render_path. f_equal.
  destruct p as [| a rest]; [reflexivity |].
  rewrite (fold_left_join render_accessor). cbn [map].
  rewrite (map_ext _ _ accessor_to_string_render), accessor_to_string_render.
  destruct rest as [| b r]; cbn [map join_dot].
  - symmetry. apply app_nil_r_str.
  - reflexivity.
Qed.

Lemma populate_value_path t path : populate_tetraplet_with_lambda t (LValuePath path) = lensed t (render_path path).
Proof. unfold populate_tetraplet_with_lambda. rewrite lambda_to_string_render. reflexivity. Qed.

Lemma resolve_scalar_l_spec x v j ts p :
  resolve_scalar_l x v = POk (j, ts, p) ->
  exists r j0 t0,
    scalars_get_value x (vl_name v) = POk r /\ scalar_ref_parts r = POk (j0, t0, p) /\
    of_lres (select_by_lambda_from_scalar (lens_env x) j0 (vl_lambda v)) = POk j /\
    match vl_lambda v with
    | LValuePath path => ts = [lensed t0 (render_path path)]
    | LFunctorLength => ts = [length_functor_tetraplet]
    end.
Proof.
  unfold resolve_scalar_l.
  destruct (scalars_get_value x (vl_name v)) as [r | | |]; cbn [pbind]; try discriminate.
  destruct (scalar_ref_parts r) as [[[j0 t0] p0] | | |] eqn:Ep; cbn [pbind]; try discriminate.
  destruct (of_lres (select_by_lambda_from_scalar (lens_env x) j0 (vl_lambda v))) as [sel | | |] eqn:Es; cbn [pbind]; try discriminate.
  intros E. inversion E; subst. exists r, j0, t0. repeat split; try assumption.
  destruct (vl_lambda v); [reflexivity | rewrite populate_value_path; reflexivity].
Qed.

Theorem C17_lens_proof : C17_lens_stmt.
Proof.
  repeat split.
  - apply lambda_to_string_render.
  - intros. eapply resolve_scalar_l_spec; eassumption.
Qed.

(* ------------------------------------------------------------------------------------------ *)
(* C17_iterator *)

Lemma peek_resolved_call v c len it :
  it_peek (ItResolvedCall v c len) = Some it ->
  exists arr, va_result v = JArr arr /\ nth_N arr c = Some (it_value it) /\
              it_tetraplet it = lensed (va_tetraplet v) (index_lens c) /\ it_prov it = va_provenance v.
Proof.
  unfold it_peek. destruct (va_result v) as [| | | | | arr |]; try discriminate.
  destruct (nth_N arr c) as [j |] eqn:En; [| discriminate].
  intros E. inversion E; subst. exists arr. repeat split. exact En.
Qed.

Lemma peek_lambda_result items t p c it :
  it_peek (ItLambdaResult items t p c) = Some it ->
  nth_N items c = Some (it_value it) /\ it_tetraplet it = lensed t (index_lens c) /\ it_prov it = p.
Proof.
  unfold it_peek. destruct (nth_N items c) as [j |] eqn:En; [| discriminate].
  intros E. inversion E; subst. repeat split.
Qed.

Lemma peek_elements vs c it :
  it_peek (ItCanon vs c) = Some it \/ it_peek (ItVec vs c) = Some it ->
  exists v, nth_N vs c = Some v /\ it_value it = va_result v /\ it_tetraplet it = va_tetraplet v /\ it_prov it = va_provenance v.
Proof.
  unfold it_peek. destruct (nth_N vs c) as [v |]; [| intros [E | E]; discriminate].
  intros [E | E]; inversion E; subst; exists v; repeat split.
Qed.

Lemma from_value_spec a name it :
  from_value a name = POk (FoldOver it) ->
  exists arr, va_result a = JArr arr /\ it = ItResolvedCall a 0 (len_N arr).
Proof.
  unfold from_value. destruct (va_result a) as [| | | | | arr |]; try discriminate.
  destruct arr as [| e r]; [discriminate |]. intros E. inversion E; subst. eexists; split; reflexivity.
Qed.

Lemma fold_scalar_spec x v it :
  create_fold_iterable x (FIScalar v) = POk (FoldOver it) ->
  exists a arr, va_result a = JArr arr /\ it = ItResolvedCall a 0 (len_N arr) /\
    (scalars_get_value x (v_name v) = POk (SRValue a) \/
     exists f i, scalars_get_value x (v_name v) = POk (SRIterable f) /\ it_peek (fs_iterable f) = Some i /\
                 a = item_into_vagg i).
Proof.
  unfold create_fold_iterable.
  destruct (scalars_get_value x (v_name v)) as [r | | |]; cbn [pbind]; try discriminate.
  destruct r as [a | f].
  - intros E. destruct (from_value_spec _ _ _ E) as (arr & H1 & H2). exists a, arr. repeat split; try assumption. left; reflexivity.
  - destruct (it_peek (fs_iterable f)) as [i |] eqn:Ei; [| discriminate].
    intros E. destruct (from_value_spec _ _ _ E) as (arr & H1 & H2). exists (item_into_vagg i), arr.
    repeat split; try assumption. right. exists f, i. repeat split. exact Ei.
Qed.

Lemma fold_scalar_l_spec x v it :
  create_fold_iterable x (FIScalarL v) = POk (FoldOver it) ->
  exists r j0 t0 p path arr,
    scalars_get_value x (vl_name v) = POk r /\ scalar_ref_parts r = POk (j0, t0, p) /\
    vl_lambda v = LValuePath path /\
    it = ItLambdaResult arr (lensed t0 (render_path path)) p 0.
Proof.
  unfold create_fold_iterable.
  destruct (scalars_get_value x (vl_name v)) as [r | | |]; cbn [pbind]; try discriminate.
  destruct (scalar_ref_parts r) as [[[j0 t0] p0] | | |] eqn:Ep; cbn [pbind]; try discriminate.
  destruct (of_lres (select_by_lambda_from_scalar (lens_env x) j0 (vl_lambda v))) as [sel | | |] eqn:Es; cbn [pbind]; try discriminate.
  unfold from_jvalue. destruct (vl_lambda v) as [| path] eqn:El.
  - (* .length yields a number: nothing to iterate *)
    unfold select_by_lambda_from_scalar, select_by_functor_from_scalar in Es.
    destruct j0; cbn in Es; try discriminate. inversion Es; subst. discriminate.
  - destruct sel as [| | | | | arr |]; try discriminate. destruct arr as [| e rest]; [discriminate |].
    intros E. inversion E; subst. exists r, j0, t0, p0, path, (e :: rest).
    split; [reflexivity | split; [exact Ep | split; [reflexivity |]]].
    rewrite <- lambda_to_string_render. reflexivity.
Qed.

Lemma fold_canon_spec x v it :
  create_fold_iterable x (FICanon v) = POk (FoldOver it) ->
  exists c, get_canon_stream x (v_name v) = POk c /\ it = ItCanon (cw_values c) 0.
Proof.
  unfold create_fold_iterable.
  destruct (get_canon_stream x (v_name v)) as [c | | |]; cbn [pbind]; try discriminate.
  destruct (cw_values c) as [| e r] eqn:Ec; [discriminate |].
  intros E. inversion E; subst. exists c. split; [reflexivity | rewrite Ec; reflexivity].
Qed.

Theorem C17_iterator_proof : C17_iterator_stmt.
Proof.
  repeat split.
  - intros. eapply peek_resolved_call; eassumption.
  - eapply peek_lambda_result; eassumption.
  - eapply peek_lambda_result; eassumption.
  - eapply peek_lambda_result; eassumption.
  - intros. eapply peek_elements; eassumption.
  - intros. eapply fold_scalar_spec; eassumption.
  - intros. eapply fold_scalar_l_spec; eassumption.
  - intros. eapply fold_canon_spec; eassumption.
  - intros i i'. unfold it_next. destruct (it_cursor i + 1 <? it_len i); intros E; inversion E; reflexivity.
  - intros i i'. unfold it_prev. destruct (1 <=? it_cursor i); intros E; inversion E; reflexivity.
  - intros f it E. unfold scalar_ref_parts. rewrite E. reflexivity.
Qed.

(* ------------------------------------------------------------------------------------------ *)
(* C17_canon *)

Lemma resolve_canon_spec x name j ts p :
  resolve_canon x name = POk (j, ts, p) ->
  exists c, get_canon_stream x name = POk c /\
            j = JArr (map va_result (cw_values c)) /\ ts = map va_tetraplet (cw_values c) /\
            length ts = length (cw_values c).
Proof.
  unfold resolve_canon. destruct (get_canon_stream x name) as [c | | |]; cbn [pbind]; try discriminate.
  intros E. inversion E; subst. exists c. repeat split. apply map_length.
Qed.

Lemma resolve_canon_l_spec x v j ts p :
  resolve_canon_l x v = POk (j, ts, p) ->
  exists c, get_canon_stream x (vl_name v) = POk c /\
    match vl_lambda v with
    | LValuePath path =>
        exists idx rest el, of_lres (split_to_idx (lens_env x) path) = POk (idx, rest) /\
                            nth_N (cw_values c) idx = Some el /\
                            ts = [va_tetraplet el] /\ p = va_provenance el
    | LFunctorLength => ts = [canon_length_tetraplet (current_peer x)]
    end.
Proof.
  unfold resolve_canon_l. destruct (get_canon_stream x (vl_name v)) as [c | | |]; cbn [pbind]; try discriminate.
  destruct (of_lres (select_by_lambda_from_stream (lens_env x) (map va_result (cw_values c)) (vl_lambda v))) as [sel | | |];
    cbn [pbind]; try discriminate.
  destruct (vl_lambda v) as [| path].
  - intros E. inversion E; subst. exists c. split; reflexivity.
  - destruct (of_lres (split_to_idx (lens_env x) path)) as [[idx rest] | | |]; cbn [pbind fst]; try discriminate.
    destruct (nth_N (cw_values c) idx) as [el |] eqn:En; [| discriminate].
    intros E. inversion E; subst. exists c. split; [reflexivity |]. exists idx, rest, el. repeat split. exact En.
Qed.

Lemma create_canon_spec x stream name peer y :
  create_canon_first_time (CKStream name) TStreams x stream peer = XOk y ->
  let values := match get_in TStreams x (v_name stream) (v_pos stream) with
                | Some s => Stream.stream_iter vagg s | None => [] end in
  exists x1 x2, set_canon_value x1 name {| cw_values := values; cw_tetraplet := canon_tetraplet peer;
                                            cw_cid := canon_result_cid peer values |} = POk x2 /\
                y = set_handler x2 (meet_canon_end cid (x_handler x2) (CanonExecuted (canon_result_cid peer values))).
Proof.
  unfold create_canon_first_time, canon_epilog, canon_producer, lift. cbv zeta.
  match goal with |- context [set_canon_value ?a ?b ?c] => destruct (set_canon_value a b c) as [x2 | | |] eqn:E end;
    try discriminate.
  intros H. inversion H; subst. eexists _, x2. split; [exact E | reflexivity].
Qed.

Lemma va_new_roundtrip v :
  va_new (va_result v) (va_tetraplet v) 0 (prov_of_opt (prov_to_opt (va_provenance v))) = va_set_pos v 0.
Proof. destruct v; reflexivity. Qed.

Lemma canon_value_by_cid_elem cs v w :
  canon_value_by_cid cs (canon_elem_cid v) = POk w -> w = va_set_pos v 0.
Proof.
  unfold canon_value_by_cid, canon_elem_cid.
  destruct (negb (cid_mem _ (cs_canon_elems cs))); [discriminate |].
  destruct (negb (cid_mem _ (cs_values cs))); [discriminate |].
  destruct (negb (cid_mem _ (cs_tetraplets cs))); [discriminate |].
  intros E. inversion E; subst. apply va_new_roundtrip.
Qed.

Lemma canon_values_by_cids_spec cs values : forall ws,
  canon_values_by_cids cs (map canon_elem_cid values) = POk ws ->
  ws = map (fun v => va_set_pos v 0) values.
Proof.
  induction values as [| v r IH]; intros ws; cbn [map canon_values_by_cids].
  - intros E. inversion E. reflexivity.
  - destruct (canon_value_by_cid cs (canon_elem_cid v)) as [w | | |] eqn:Ew; cbn [pbind]; try discriminate.
    destruct (canon_values_by_cids cs (map canon_elem_cid r)) as [ws' | | |]; cbn [pbind]; try discriminate.
    intros E. inversion E; subst. rewrite (canon_value_by_cid_elem _ _ _ Ew), (IH ws' eq_refl). reflexivity.
Qed.

Lemma va_set_pos_same v p :
  va_tetraplet (va_set_pos v p) = va_tetraplet v /\ va_result (va_set_pos v p) = va_result v /\
  va_provenance (va_set_pos v p) = va_provenance v.
Proof. destruct v; repeat split. Qed.

Theorem C17_canon_proof : C17_canon_stmt.
Proof.
  split; [intros; eapply resolve_canon_spec; eassumption |].
  split; [intros; eapply resolve_canon_l_spec; eassumption |].
  split; [intros; eapply create_canon_spec; eassumption |].
  split; [reflexivity |].
  intros cs values ws E. rewrite (canon_values_by_cids_spec _ _ _ E), !map_map.
  repeat split; apply map_ext; intros v; apply va_set_pos_same.
Qed.

(* ------------------------------------------------------------------------------------------ *)
(* C17_canon_map *)

Lemma va_with_result_same v j :
  va_tetraplet (va_with_result v j) = va_tetraplet v /\ va_provenance (va_with_result v j) = va_provenance v /\
  va_result (va_with_result v j) = j.
Proof. destruct v; repeat split. Qed.

Lemma resolve_canon_map_l_spec x v j ts p :
  resolve_canon_map_l x v = POk (j, ts, p) ->
  exists c, get_canon_map x (vl_name v) = POk c /\ p = ProvCanon (cmw_cid c) /\
    match vl_lambda v with
    | LFunctorLength => ts = [map_length_tetraplet (current_peer x)]
    | LValuePath [] => False
    | LValuePath (prefix :: body) =>
        exists k, of_lres (canon_map_key (lens_env x) prefix) = POk k /\
          match body, cm_group (cm_pairs (cmw_values c)) k with
          | _ :: _, _ :: _ =>
              exists idx rest el, of_lres (split_to_idx (lens_env x) body) = POk (idx, rest) /\
                                  nth_N (cm_group (cm_pairs (cmw_values c)) k) idx = Some el /\
                                  ts = [match rest with
                                        | [] => va_tetraplet el
                                        | _ => lensed (va_tetraplet el) ("." ++ join_dot (map accessor_to_string rest))
                                        end]
          | _, _ => ts = [with_lens (cmw_tetraplet c) (lambda_to_string (vl_lambda v))]
          end
    end.
Proof.
  unfold resolve_canon_map_l. destruct (get_canon_map x (vl_name v)) as [c | | |]; cbn [pbind]; try discriminate.
  destruct (of_lres (select_by_lambda_from_canon_map (lens_env x) (canon_map_lens_view c) (vl_lambda v))) as [sel | | |];
    cbn [pbind]; try discriminate.
  destruct (vl_lambda v) as [| [| prefix body]] eqn:El; try discriminate.
  - intros E. inversion E; subst. exists c. repeat split.
  - destruct (of_lres (canon_map_key (lens_env x) prefix)) as [k | | |]; cbn [pbind]; try discriminate.
    destruct body as [| b0 body'].
    + intros E. inversion E; subst. exists c. split; [reflexivity | split; [reflexivity |]]. exists k. split; [reflexivity | lazy beta iota; reflexivity].
    + destruct (cm_group (cm_pairs (cmw_values c)) k) as [| g0 g'] eqn:Eg.
      * intros E. inversion E; subst. exists c. split; [reflexivity | split; [reflexivity |]]. exists k. split; [reflexivity |].
        rewrite Eg. reflexivity.
      * destruct (of_lres (split_to_idx (lens_env x) (b0 :: body'))) as [[idx rest] | | |]; cbn [pbind fst snd]; try discriminate.
        destruct (nth_N (g0 :: g') idx) as [el |] eqn:En; try discriminate.
        destruct rest as [| r0 rest'].
        -- intros E. inversion E; subst. exists c. split; [reflexivity | split; [reflexivity |]]. exists k. split; [reflexivity |]. rewrite Eg.
           exists idx, [], el. repeat split. exact En.
        -- intros E. inversion E; subst. exists c. split; [reflexivity | split; [reflexivity |]]. exists k. split; [reflexivity |]. rewrite Eg.
           exists idx, (r0 :: rest'), el. repeat split. exact En.
Qed.

Theorem C17_canon_map_proof : C17_canon_map_stmt.
Proof.
  split; [| split; [apply va_with_result_same | split; [intros; eapply resolve_canon_map_l_spec; eassumption | split; reflexivity]]].
  intros x name j ts p. unfold resolve_canon_map.
  destruct (get_canon_map x name) as [c | | |]; cbn [pbind]; try discriminate.
  intros E. inversion E; subst. exists c. repeat split.
Qed.

(* ------------------------------------------------------------------------------------------ *)
(* C17_same_everywhere *)

Lemma service_cid_inj r1 a1 t1 r2 a2 t2 : service_cid r1 a1 t1 = service_cid r2 a2 t2 -> r1 = r2 /\ t1 = t2.
Proof. unfold service_cid. intros E. inversion E. split; reflexivity. Qed.

Theorem C17_same_everywhere_proof : C17_same_everywhere_stmt.
Proof.
  split; [| split; [| split; [| ]]].
  - intros x result t pos ah sv y cr x' c ah' t' pos' src sv' y' Hp Hcr Hd.
    destruct (local_scalar_spec _ _ _ _ _ _ _ _ Hp) as (x2 & _ & _ & Hc). rewrite Hc in Hcr. inversion Hcr; subst c.
    destruct (data_scalar_spec _ _ _ _ _ _ _ _ Hd) as (r' & a' & Hs & Hset).
    destruct (service_cid_inj _ _ _ _ _ _ Hs) as [Hr Ht]. subst. split; [reflexivity | exact Hset].
  - intros x result t pos ah sv y cr x' c g ah' t' pos' src sv' y' Hp Hcr Hd.
    destruct (local_stream_spec _ _ _ _ _ _ _ _ Hp) as (x2 & _ & _ & Hc). rewrite Hc in Hcr. inversion Hcr; subst c g.
    destruct (data_stream_spec _ _ _ _ _ _ _ _ _ Hd) as (r' & a' & Hs & Hset).
    destruct (service_cid_inj _ _ _ _ _ _ Hs) as [Hr Ht]. subst. split; [reflexivity | exact Hset].
  - intros eh et sh st_ E. apply (verify_call_tetraplet _ _ _ _ _ E).
  - intros v. rewrite va_new_roundtrip. apply va_set_pos_same.
Qed.

(* ------------------------------------------------------------------------------------------ *)
(* C17_source_tie *)

Theorem C17_source_tie_proof : C17_source_tie_stmt.
Proof.
  split; [vm_compute; reflexivity |].
  repeat split.
Qed.

(* ------------------------------------------------------------------------------------------ *)
(* C17_request: collect_args and one resolved call *)

Lemma collect_args_spec x args : forall av ats,
  collect_args x args = POk (av, ats) ->
  length av = length args /\ length ats = length args /\
  forall k a, nth_error args k = Some a ->
    exists j ts p, resolve_value x a = POk (j, ts, p) /\ nth_error av k = Some j /\ nth_error ats k = Some ts.
Proof.
  induction args as [| a rest IH]; intros av ats; cbn [collect_args].
  - intros E. inversion E; subst. repeat split. intros [| k] b Hk; discriminate.
  - destruct (resolve_value x a) as [[[j ts] p] | | |] eqn:Er; cbn [pbind]; try discriminate.
    destruct (collect_args x rest) as [[av' ats'] | | |]; cbn [pbind fst snd]; try discriminate.
    intros E. inversion E; subst. destruct (IH av' ats' eq_refl) as (L1 & L2 & Hn).
    cbn [length]. repeat split; try congruence.
    intros [| k] b Hk; cbn [nth_error] in *.
    + inversion Hk; subst. exists j, ts, p. repeat split. exact Er.
    + apply (Hn k b Hk).
Qed.

(* what handle_prev_state leaves of the requests and the request counter *)
Lemma hps_requests x met pos src t ah out r sd y :
  handle_prev_state x met pos src t ah out = (r, sd) -> outcome_ctx r = Some y ->
  x_requests y = x_requests x /\ x_lcid y = x_lcid x.
Proof.
  intros E Hy. destruct (handle_prev_state_spec _ _ _ _ _ _ _ _ _ _ E Hy)
    as [(b & _ & _ & F & _) | [(_ & F & _) | (_ & id & ans & _ & _ & _ & P2 & P3 & _)]].
  - destruct F as (F1 & F2 & _). split; assumption.
  - destruct F as (F1 & F2 & _). split; assumption.
  - split; assumption.
Qed.

Lemma rce_requests x t args out y :
  outcome_ctx (resolved_call_execute x t args out) = Some y ->
  x_requests y = x_requests x \/
  exists av ats, collect_args x args = POk (av, ats) /\
                 x_requests y = x_requests x ++ [(x_lcid x + 1, mk_request t av ats)].
Proof.
  unfold resolved_call_execute.
  destruct (collect_args x args) as [[av ats] | e | s | w] eqn:Ec; cbn [outcome_ctx]; try discriminate.
  - (* arguments resolved *)
    destruct (meet_call_start cid cid_eqb (x_handler x)) as [[mr h] | he | site]; cbn [with_handler outcome_ctx fst snd];
      try discriminate; [| intros Hy; inversion Hy; subst; left; reflexivity].
    set (x0 := set_handler x h).
    assert (Hcont : forall x1 sd, x_requests x1 = x_requests x -> x_lcid x1 = x_lcid x ->
      outcome_ctx
        match sd with
        | SD false _ => XOk (maybe_set_prev_state x1 sd)
        | SD true _ =>
            if negb (String.eqb (tp_peer t) (current_peer x1)) then
              XOk (call_end (make_incomplete (set_next_peers x1 (x_next_peers x1 ++ [tp_peer t])))
                            (RequestSentBy (SPeer (current_peer x1))))
            else
              if 4294967295 <=? x_lcid x1 then XCrash "next_call_request_id: u32 overflow" else
              let id := x_lcid x1 + 1 in
              let rq := {| rq_service := tp_service t; rq_function := tp_function t; rq_args := av; rq_tetraplets := ats |} in
              let x2 := set_calls x1 id (x_call_results x1) (x_requests x1 ++ [(id, rq)]) in
              XOk (call_end (make_incomplete x2) (RequestSentBy (SPeerCall (current_peer x2) id)))
        end = Some y ->
      x_requests y = x_requests x \/
      exists av0 ats0, POk (av, ats) = POk (av0, ats0) /\
                       x_requests y = x_requests x ++ [(x_lcid x + 1, mk_request t av0 ats0)]).
    { intros x1 [[|] prev] Hr Hl.
      - destruct (negb (String.eqb (tp_peer t) (current_peer x1))); cbn [outcome_ctx].
        + intros Hy; inversion Hy; subst. left. exact Hr.
        + destruct (4294967295 <=? x_lcid x1); cbn [outcome_ctx]; [discriminate |].
          intros Hy; inversion Hy; subst. right. exists av, ats. split; [reflexivity |].
          cbn. rewrite Hr, Hl. reflexivity.
      - cbn [outcome_ctx]. intros Hy; inversion Hy; subst. left.
        destruct prev; cbn [maybe_set_prev_state]; exact Hr. }
    destruct mr as [| met pos src].
    + apply (Hcont x0 (SD true None)); reflexivity.
    + destruct (handle_prev_state x0 met pos src t (Some (CArgs av)) out) as [r sd] eqn:E.
      destruct r as [x1 | e x1 | | |]; cbn [outcome_ctx]; try discriminate.
      * destruct (hps_requests _ _ _ _ _ _ _ _ _ _ E eq_refl) as [Hr Hl]. apply (Hcont x1 sd Hr Hl).
      * destruct (hps_requests _ _ _ _ _ _ _ _ _ _ E eq_refl) as [Hr Hl].
        intros Hy; inversion Hy; subst. left. exact Hr.
  - (* the arguments do not resolve *)
    destruct (is_joinable e); cbn [outcome_ctx]; [| intros Hy; inversion Hy; subst; left; reflexivity].
    destruct (meet_call_start cid cid_eqb (x_handler x)) as [[mr h] | he | site]; cbn [with_handler outcome_ctx fst snd];
      try discriminate; [| intros Hy; inversion Hy; subst; left; reflexivity].
    set (x0 := set_handler x h).
    destruct mr as [| met pos src].
    + destruct (negb (String.eqb (tp_peer t) (current_peer x0))); cbn [outcome_ctx]; intros Hy; inversion Hy; subst; left; reflexivity.
    + destruct (handle_prev_state x0 met pos src t None out) as [r sd] eqn:E.
      destruct r as [x1 | e1 x1 | | |]; cbn [outcome_ctx]; try discriminate.
      * destruct (hps_requests _ _ _ _ _ _ _ _ _ _ E eq_refl) as [Hr Hl].
        destruct sd as [should prev].
        assert (Hm : x_requests (maybe_set_prev_state x1 (SD should prev)) = x_requests x)
          by (destruct prev; cbn [maybe_set_prev_state]; exact Hr).
        destruct (negb should); cbn [outcome_ctx]; [intros Hy; inversion Hy; subst; left; exact Hm |].
        destruct (negb (String.eqb (tp_peer t) (current_peer x1))); cbn [outcome_ctx]; intros Hy; inversion Hy; subst; left;
          [exact Hr | exact Hm].
      * destruct (hps_requests _ _ _ _ _ _ _ _ _ _ E eq_refl) as [Hr Hl].
        intros Hy; inversion Hy; subst. left. exact Hr.
Qed.

(* ------------------------------------------------------------------------------------------ *)
(* C17_request: whole executions *)

Lemma c17_rel_refl x : c17_rel x x.
Proof. split; [reflexivity |]. exists []. split; [symmetry; apply app_nil_r | constructor]. Qed.

Lemma c17_rel_trans x y z : c17_rel x y -> c17_rel y z -> c17_rel x z.
Proof.
  intros [P1 (a1 & E1 & F1)] [P2 (a2 & E2 & F2)]. split; [congruence |].
  exists (a1 ++ a2). split; [rewrite E2, E1, app_assoc; reflexivity |].
  apply Forall_app. split; [exact F1 | rewrite <- P1; exact F2].
Qed.

Lemma c17_rel_of_frame x y : frame x y -> c17_rel x y.
Proof.
  intros (F1 & _ & _ & _ & F5). split; [exact F5 |]. exists []. split; [rewrite app_nil_r; exact F1 | constructor].
Qed.

Lemma c17_frame_invariant : frame_invariant c17_rel.
Proof. apply frame_invariant_of_frame; [apply c17_rel_trans | apply c17_rel_of_frame]. Qed.

Lemma c17_forward x p : String.eqb p (current_peer x) = false -> c17_rel x (set_next_peers x (x_next_peers x ++ [p])).
Proof. intros _. split; [reflexivity |]. exists []. split; [symmetry; apply app_nil_r | constructor]. Qed.

Lemma c17_resolved_call x t args out y :
  outcome_ctx (resolved_call_execute x t args out) = Some y -> c17_rel x y.
Proof.
  intros Hy. pose proof (resolved_call_execute_spec _ _ _ _ _ Hy) as (eff & (Hp & _) & _).
  split; [exact Hp |].
  destruct (rce_requests _ _ _ _ _ Hy) as [Hr | (av & ats & Hc & Hr)].
  - exists []. split; [rewrite app_nil_r; exact Hr | constructor].
  - exists [(x_lcid x + 1, mk_request t av ats)]. split; [exact Hr |].
    constructor; [| constructor]. exists x, t, args. cbn [snd mk_request rq_args rq_tetraplets].
    split; [reflexivity | split; [exact Hc | reflexivity]].
Qed.

Lemma c17_exec_call x text tr_ args out : res_sat c17_rel x (exec_call x text tr_ args out).
Proof.
  apply res_sat_outcome. intros y Hy.
  destruct (exec_call_spec _ _ _ _ _ _ Hy) as [[F _] | (t & y' & _ & Hy' & [F _])].
  - apply c17_rel_of_frame. exact F.
  - eapply c17_rel_trans; [apply (c17_resolved_call _ _ _ _ _ Hy') | apply c17_rel_of_frame; exact F].
Qed.

Lemma c17_exec hook : hook_preserves c17_rel hook ->
  forall fuel i x y, outcome_ctx (exec hook fuel i x) = Some y -> c17_rel x y.
Proof.
  intros Hh fuel i x y Hy.
  pose proof (exec_inv_call c17_rel c17_frame_invariant c17_exec_call hook Hh fuel i x) as H.
  exact (proj1 (res_sat_outcome _ _ _) H y Hy).
Qed.

Lemma c17_hook2 : hook_preserves c17_rel stream_instr.
Proof. apply (stream_instr_preserves_call c17_rel c17_frame_invariant c17_forward). Qed.

Lemma c17_run2 fuel i code d next reqs signed :
  run2 fuel i = OutNewData code d next reqs signed -> Forall (sourced (ri_params i)) reqs.
Proof.
  unfold run2, run.
  destruct (exec stream_instr fuel (ri_script i) (initial_ctx i)) as [x | e x | | |] eqn:Ex; try discriminate.
  - pose proof (c17_exec _ c17_hook2 fuel (ri_script i) (initial_ctx i) x) as H. rewrite Ex in H. specialize (H eq_refl).
    destruct (finish_streams x) as [x1 | u] eqn:Ef; [| discriminate].
    intros E. inversion E; subst. destruct (finish_streams_frame _ _ Ef) as (F1 & _).
    destruct H as [_ (added & Ha & Hf)]. cbn [initial_ctx x_requests x_params app] in Ha, Hf. rewrite F1, Ha. exact Hf.
  - destruct e as [c | u]; [| discriminate].
    pose proof (c17_exec _ c17_hook2 fuel (ri_script i) (initial_ctx i) x) as H. rewrite Ex in H. specialize (H eq_refl).
    destruct (finish_streams x) as [x1 | u] eqn:Ef; [| discriminate].
    intros E. inversion E; subst. destruct (finish_streams_frame _ _ Ef) as (F1 & _).
    destruct H as [_ (added & Ha & Hf)]. cbn [initial_ctx x_requests x_params app] in Ha, Hf. rewrite F1, Ha. exact Hf.
Qed.

Theorem C17_request_proof : C17_request_stmt.
Proof.
  split; [intros; eapply collect_args_spec; eassumption |].
  split; [intros; eapply rce_requests; eassumption |].
  split; [intros; eapply c17_exec; eassumption |].
  split; [intros; eapply (c17_exec _ c17_hook2); eassumption |].
  intros; eapply c17_run2; eassumption.
Qed.

(* ------------------------------------------------------------------------------------------ *)
(* the text statements that the model (and the code: corpus/C17) refutes *)

Definition rf_ctx0 : ctx :=
  initial_ctx {| ri_script := INull; ri_params := w_params "B"; ri_prev := empty_data; ri_cur := empty_data; ri_results := [] |}.
Definition rf_arr : vagg := VAService (JArr [JStr "a"]) (tet (call_origin "A" "s" "arr") "") 0 (COpaque "c").
Definition rf_obj : vagg := VAService (JObj [("f"%string, JStr "v")]) (tet (call_origin "A" "s" "obj") "") 0 (COpaque "c").
Definition rf_ctx_x : ctx := match set_scalar_value rf_ctx0 "x" rf_arr with POk y => y | _ => rf_ctx0 end.
Definition rf_ctx_c (v : vagg) : ctx :=
  match set_canon_value rf_ctx0 "#can" {| cw_values := [v]; cw_tetraplet := canon_tetraplet "A"; cw_cid := COpaque "k" |} with
  | POk y => y | _ => rf_ctx0 end.
Definition rf_len (name : string) : var_l := {| vl_name := name; vl_lambda := LFunctorLength; vl_pos := 0 |}.
Definition rf_path (name : string) (p : list accessor) : var_l := {| vl_name := name; vl_lambda := LValuePath p; vl_pos := 0 |}.

Theorem C17_refuted_length_scalar_proof : ~ C17_text_length_stmt.
Proof.
  intros H.
  assert (E : resolve_scalar_l rf_ctx_x (rf_len "x") = POk (JInt 1, [length_functor_tetraplet], ProvService (COpaque "c")))
    by (vm_compute; reflexivity).
  destruct (H _ _ _ _ _ E eq_refl) as (r & j0 & t0 & H1 & H2 & H3).
  vm_compute in H1. inversion H1; subst r. vm_compute in H2. inversion H2; subst. vm_compute in H3. discriminate.
Qed.

Theorem C17_refuted_length_canon_proof : ~ C17_text_canon_length_stmt.
Proof.
  intros H.
  assert (E : resolve_canon_l (rf_ctx_c rf_arr) (rf_len "#can") = POk (JInt 1, [canon_length_tetraplet "B"], ProvCanon (COpaque "k")))
    by (vm_compute; reflexivity).
  destruct (H _ _ _ _ _ E eq_refl) as (c & H1 & H2).
  vm_compute in H1. inversion H1; subst c. destruct H2 as [H2 | [H2 | H2]]; vm_compute in H2; discriminate.
Qed.

Definition rf_kv : vagg := VAService (JObj [("key"%string, JStr "k"); ("value"%string, JStr "v")]) (tet (call_origin "A" "s" "obj") "") 0 (COpaque "c").
Definition rf_ctx_m : ctx :=
  match set_canon_map_value rf_ctx0 "#%cm" {| cmw_values := [rf_kv]; cmw_tetraplet := canon_tetraplet "A"; cmw_cid := COpaque "k" |} with
  | POk y => y | _ => rf_ctx0 end.

Theorem C17_refuted_length_map_proof : ~ C17_text_map_length_stmt.
Proof.
  intros H.
  assert (E : resolve_canon_map_l rf_ctx_m (rf_len "#%cm") = POk (JInt 1, [map_length_tetraplet "B"], ProvCanon (COpaque "k")))
    by (vm_compute; reflexivity).
  destruct (H _ _ _ _ _ E eq_refl) as (c & lens & H1 & Hl & H2).
  vm_compute in H1. inversion H1; subst c.
  destruct Hl as [Hl | [Hl | [Hl | []]]]; subst lens; destruct H2 as [H2 | H2]; vm_compute in H2; discriminate.
Qed.

Theorem C17_refuted_canon_lens_proof : ~ C17_text_canon_lens_stmt.
Proof.
  intros H.
  assert (E : resolve_canon_l (rf_ctx_c rf_obj) (rf_path "#can" [ArrayAccess 0; FieldAccessByName "f"]) =
              POk (JStr "v", [tet (call_origin "A" "s" "obj") ""], ProvService (COpaque "c")))
    by (vm_compute; reflexivity).
  destruct (H _ _ _ _ _ _ E eq_refl) as (c & idx & rest & el & H1 & H2 & H3 & H4).
  vm_compute in H1. inversion H1; subst c. vm_compute in H2. inversion H2; subst idx rest.
  vm_compute in H3. inversion H3; subst el. destruct H4 as [H4 | H4]; vm_compute in H4; discriminate.
Qed.

Theorem C17_refuted_error_lens_proof : ~ C17_text_error_lens_stmt.
Proof.
  intros H.
  set (ie := {| ie_error := error_object 10000 "m" "i" (Some "A"%string);
                ie_tetraplet := Some (tet (call_origin "A" "s" "fail") ""); ie_prov := ProvLiteral; ie_orig := None |}).
  assert (E : resolve_errors rf_ctx0 ie (Some (LValuePath [FieldAccessByName "message"])) =
              POk (JStr "m", [tet (call_origin "A" "s" "fail") ""], ProvLiteral))
    by (vm_compute; reflexivity).
  specialize (H _ _ _ _ _ _ E). vm_compute in H. discriminate.
Qed.

Theorem C17_partial_proof : C17_partial.
Proof.
  unfold C17_partial.
  exact (conj C17_call_result_proof (conj C17_stored_is_read_proof (conj C17_literal_proof (conj C17_error_proof
        (conj C17_lens_proof (conj C17_iterator_proof (conj C17_canon_proof (conj C17_canon_map_proof
        (conj C17_request_proof C17_same_everywhere_proof))))))))).
Qed.

Theorem C17_full_refuted_proof : ~ C17_full.
Proof. intros (_ & H & _). exact (C17_refuted_length_scalar_proof H). Qed.
