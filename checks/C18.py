"""C18 -- xor catches exactly the catchable failures and reports them faithfully.

A case = one instruction F (failing catchably in one of ~45 ways, succeeding, waiting, or failing
uncatchably) placed in one context (top level, seq, new, match body, scalar fold body with one or two
iterations, par branch, either branch of an enclosing xor, after an earlier handled failure, stream
fold body, ...).  The harness driver `xor18` runs it on the REAL interpreter twice as a single-peer
history (Start, then every pending call result handed back until quiescence):

  caught    ... (xor F (call %init_peer_id% ("s18" "catch") [:error:.$.error_code :error:.$.message :error: %last_error%])) ...
  uncaught  ... F ...

and prints what the implementation did as a Coq term `c18case`; `c18_oracle` (model/XorCases.v, written
from the property text, nothing of the model in it) decides: twin failed catchably => at least one catch
request and every catch request shows the twin's ret_code and error_message, both as selected fields and
inside :error:; twin succeeded / waits => no catch request; twin failed uncatchably => no catch request and
the caught variant ends with an uncatchable code too.  The same scripts go through the history driver
`exec`, and every run is compared with the executor model (check_case18 = ExecCases.check_case after
replacing error messages by the model's opaque tokens)."""
import json

import vlib

PID = "C18"
MODEL_TARGETS = ["model/XorOracle.vo", "model/XorCases.vo"]
HARNESS_BINS = ["xor18", "exec"]
RULE = ("a case is one (instruction F, context) pair run caught and uncaught on the real execute_air as single-peer histories; "
        "distinct = distinct (F, context) pairs in which a catch branch ran or an uncatchable error met an xor (c18_nontrivial); "
        "quick: 24 fixed (F, context) pairs + every F kind at top level + a seeded sample of F x context, lock-step on the fixed pairs and "
        "every fifth case; thorough: every F kind x every context, lock-step on every second case")
PARTIAL = [
    "C18_faithful holds for swallow-free left branches (no par, no fold over a stream inside) started with error setting enabled; "
    "the unrestricted statements are REFUTED (C18_faithful_full_refuted, C18_faithful_any_entry_full_refuted): after a par branch or a "
    "stream-fold iteration failed catchably, :error: stays frozen, so a later catch branch sees the EARLIER failure's object "
    "(known finding stale-error-after-swallow, replayed on the real interpreter on every run)",
    "error messages are opaque tokens in the model (Exec.err_message): the theorems equate the MESSAGE FUNCTION applied to the same error "
    "(to_string of the same value, tied by C18_source_tie: c18_error_object_from / c18_run_outcome_from); equality of the real texts is "
    "what the oracle checks on the implementation",
    "par inside a left branch whose branches all succeed, and contexts reached after a swallowed failure, are covered by the lock-step and the oracle only",
]
ASSUMPTIONS = [
    "the uncaught twin of a par context whose sibling succeeds is the same instruction in the seq-linearised context (the par would swallow the failure)",
    "services are deterministic constants; every call of the generated scripts is addressed to the init peer except the ones that must wait",
]
HEADER = ("From Aqua Require Import Base Json Air Trace Handler Values Scalars Lens Exec RunExec ExecStreams ExecCases XorSpec XorCases.\n"
          "Open Scope N_scope.\nOpen Scope list_scope.\n")
HEADER_ORACLE = "From Aqua Require Import Base Json XorOracle.\nOpen Scope N_scope.\nOpen Scope list_scope.\n"
KNOWN_KEY = "stale-error-after-swallow"

CATCH = '(call %init_peer_id% ("s18" "catch") [:error:.$.error_code :error:.$.message :error: %last_error%])'
PEERS = ["A", "B"]
SERVICES = [
    ["s18", "catch", {"const": "caught"}],
    ["s18", "ok", {"const": "fine"}],
    ["s18", "obj", {"const": {"a": [1, 2], "s": "str", "n": 5, "e": {"error_code": 77, "message": "inner"}}}],
    ["s18", "arr1", {"const": [7]}],
    ["s18", "arr2", {"const": [7, 8]}],
    ["s18", "num", {"const": 5}],
    ["s18", "errobj", {"const": {"error_code": 42, "message": "m42"}}],
    ["s18", "errobj0", {"const": {"error_code": 0, "message": "zero"}}],
    ["s18", "errobj_nomsg", {"const": {"error_code": 3}}],
    ["s18", "err", {"err": [1, "boom"]}],
    ["s18", "err_obj", {"err": [7, {"why": "object", "n": 1}]}],
    ["s18", "err_neg", {"err": [-3, "neg"]}],
    ["s18", "notjson", {"raw": [0, "{not json"]}],
]

# variables a piece may need, defined by the prelude (one call each, at the init peer)
VARS = {
    "o": '(call %init_peer_id% ("s18" "obj") [] o)',
    "arr1": '(call %init_peer_id% ("s18" "arr1") [] arr1)',
    "arr2": '(call %init_peer_id% ("s18" "arr2") [] arr2)',
    "num": '(call %init_peer_id% ("s18" "num") [] num)',
    "eo": '(call %init_peer_id% ("s18" "errobj") [] eo)',
    "eo0": '(call %init_peer_id% ("s18" "errobj0") [] eo0)',
    "eon": '(call %init_peer_id% ("s18" "errobj_nomsg") [] eon)',
    "nv": '(ap 1 nv)',
}

CATCHABLE, OK, WAIT, UNCATCHABLE = 0, 1, 2, 3

# (kind, needs, F, intended class, wrap of the whole body or None, cur_script or None)
F_KINDS = [
    # service errors
    ("svc_err", [], '(call %init_peer_id% ("s18" "err") [])', CATCHABLE),
    ("svc_err_out", [], '(call %init_peer_id% ("s18" "err") [] r1)', CATCHABLE),
    ("svc_err_obj", [], '(call %init_peer_id% ("s18" "err_obj") [])', CATCHABLE),
    ("svc_err_neg", [], '(call %init_peer_id% ("s18" "err_neg") [])', CATCHABLE),
    ("svc_notjson", [], '(call %init_peer_id% ("s18" "notjson") [])', CATCHABLE),
    # fail
    ("fail_lit", [], '(fail 1337 "msg")', CATCHABLE),
    ("fail_lit_quote", [], '(fail 2 "a b c")', CATCHABLE),
    ("fail_scalar", ["eo"], '(fail eo)', CATCHABLE),
    ("fail_scalar_lens", ["o"], '(fail o.$.e)', CATCHABLE),
    ("fail_scalar_zero", ["eo0"], '(fail eo0)', CATCHABLE),
    ("fail_scalar_nomsg", ["eon"], '(fail eon)', CATCHABLE),
    ("fail_scalar_notobj", ["num"], '(fail num)', CATCHABLE),
    ("fail_last_error_none", [], '(fail %last_error%)', CATCHABLE),
    ("fail_last_error_prev", [], '(seq (xor (fail 5 "early") (null)) (fail %last_error%))', CATCHABLE),
    ("fail_last_error_prev_svc", [], '(seq (xor (call %init_peer_id% ("s18" "err") []) (null)) (fail %last_error%))', CATCHABLE),
    ("fail_error_none", [], '(fail :error:)', CATCHABLE),
    ("fail_error_rethrow", [], '(xor (fail 5 "early") (fail :error:))', CATCHABLE),
    ("fail_error_rethrow_match", [], '(xor (match 1 2 (null)) (fail :error:))', CATCHABLE),
    ("fail_error_rethrow_svc", [], '(xor (call %init_peer_id% ("s18" "err") []) (fail :error:))', CATCHABLE),
    ("fail_after_inner_catch", [], '(seq (xor (match 1 2 (null)) (null)) (fail 6 "after"))', CATCHABLE),
    ("inner_xor_right_fails", [], '(xor (match 1 2 (null)) (fail 7 "right"))', CATCHABLE),
    # match / mismatch
    ("match_lit", [], '(match 1 2 (null))', CATCHABLE),
    ("match_str", [], '(match "a" "b" (null))', CATCHABLE),
    ("mismatch_lit", [], '(mismatch 1 1 (null))', CATCHABLE),
    ("match_scalar", ["num"], '(match num 6 (null))', CATCHABLE),
    ("mismatch_scalar", ["num"], '(mismatch num 5 (null))', CATCHABLE),
    # lens errors
    ("lens_missing_arg", ["o"], '(call %init_peer_id% ("s18" "ok") [o.$.missing])', CATCHABLE),
    ("lens_oob_arg", ["o"], '(call %init_peer_id% ("s18" "ok") [o.$.a.[5]])', CATCHABLE),
    ("lens_wrongtype_idx", ["o"], '(call %init_peer_id% ("s18" "ok") [o.$.s.[0]])', CATCHABLE),
    ("lens_wrongtype_field", ["o"], '(call %init_peer_id% ("s18" "ok") [o.$.a.fld])', CATCHABLE),
    ("lens_scalar_accessor", ["o", "num"], '(call %init_peer_id% ("s18" "ok") [o.$.[num]])', CATCHABLE),
    ("lens_in_ap", ["o"], '(ap o.$.missing y1)', CATCHABLE),
    ("lens_in_match", ["o"], '(match o.$.missing 1 (null))', CATCHABLE),
    ("lens_in_fold", ["o"], '(fold o.$.missing it2 (null))', CATCHABLE),
    ("lens_in_fail", ["o"], '(fail o.$.missing)', CATCHABLE),
    ("lens_on_error", [], '(seq (xor (match 1 2 (null)) (null)) (ap :error:.$.peer_id y1))', CATCHABLE),
    ("length_nonarray", ["o"], '(ap o.length y1)', CATCHABLE),
    # fold over non-array
    ("fold_object", ["o"], '(fold o it2 (null))', CATCHABLE),
    ("fold_number", ["num"], '(fold num it2 (null))', CATCHABLE),
    ("fold_lens_string", ["o"], '(fold o.$.s it2 (null))', CATCHABLE),
    # triplet type errors
    ("triplet_peer", ["num"], '(call num ("s18" "ok") [])', CATCHABLE),
    ("triplet_service", ["num"], '(call %init_peer_id% (num "ok") [])', CATCHABLE),
    ("triplet_function", ["num"], '(call %init_peer_id% ("s18" num) [])', CATCHABLE),
    ("triplet_peer_lens", ["o"], '(call o.$.n ("s18" "ok") [])', CATCHABLE),
    # undefined / uninitialised variables where the interpreter does not wait
    ("undefined_in_fail", [], '(fail undefinedvar)', CATCHABLE),
    ("uninit_after_new", ["nv"], '(new nv (ap nv y1))', CATCHABLE),
    # success
    ("ok_null", [], '(null)', OK),
    ("ok_ap", [], '(ap 1 y1)', OK),
    ("ok_call", [], '(call %init_peer_id% ("s18" "ok") [])', OK),
    ("ok_match", [], '(match 1 1 (null))', OK),
    ("ok_inner_xor", [], '(xor (fail 4 "handled") (null))', OK),
    # still waiting
    ("wait_remote", [], '(call "@B" ("s18" "ok") [])', WAIT),
    ("wait_never", [], '(never)', WAIT),
    ("wait_join_call", [], '(call %init_peer_id% ("s18" "ok") [jv])', WAIT),
    ("wait_join_match", [], '(match jv 1 (null))', WAIT),
    ("wait_join_fold", [], '(fold jv it2 (null))', WAIT),
    ("wait_join_ap", [], '(ap jv y1)', WAIT),
    # (added after the seeded change C18-waiting-lens-fold-fails-catchably was missed) every operand form of every instruction
    # that joins on a variable: with a lens, as a triplet part, in a mismatch
    ("wait_join_fold_lens", [], '(fold jv.$.a it2 (null))', WAIT),
    ("wait_join_call_lens", [], '(call %init_peer_id% ("s18" "ok") [jv.$.a])', WAIT),
    ("wait_join_match_lens", [], '(match jv.$.a 1 (null))', WAIT),
    ("wait_join_mismatch", [], '(mismatch jv 1 (null))', WAIT),
    ("wait_join_ap_lens", [], '(ap jv.$.a y1)', WAIT),
    ("wait_join_triplet", [], '(call jv ("s18" "ok") [])', WAIT),
    # uncatchable
    ("unc_shadow", [], '(seq (ap 1 sh1) (ap 2 sh1))', UNCATCHABLE),
    ("unc_iter_shadow", ["arr1"], '(fold arr1 it3 (seq (call %init_peer_id% ("s18" "ok") [] it3) (next it3)))', UNCATCHABLE),
    ("unc_trace_mismatch", [], '(call %init_peer_id% ("s18" "ok") [])', UNCATCHABLE),
]
JOIN_WRAP = '(par (call "@B" ("s18" "ok") [] jv) %s)'
CUR_SCRIPTS = {"unc_trace_mismatch": '(par (null) (null))'}
TOP_ONLY = {"unc_trace_mismatch"}

FAIL_A = '(fail 1 "a")'
# (context, needs, caught wrap, twin wrap, stale twin or None)
CONTEXTS = [
    ("top", [], "%s", "%s", None),
    ("seq_after", [], "(seq (ap 1 c1) %s)", "(seq (ap 1 c1) %s)", None),
    ("seq_before", [], "(seq %s (ap 2 c2))", "(seq %s (ap 2 c2))", None),
    ("new_scalar", [], "(new c3 %s)", "(new c3 %s)", None),
    ("new_stream", [], "(new $c4 %s)", "(new $c4 %s)", None),
    ("match_body", [], "(match 1 1 %s)", "(match 1 1 %s)", None),
    ("mismatch_body", [], "(mismatch 1 2 %s)", "(mismatch 1 2 %s)", None),
    ("fold1", ["arr1"], "(fold arr1 ci (seq %s (next ci)))", "(fold arr1 ci (seq %s (next ci)))", None),
    ("fold2", ["arr2"], "(fold arr2 ci (seq %s (next ci)))", "(fold arr2 ci (seq %s (next ci)))", None),
    ("fold_after_next", ["arr2"], "(fold arr2 ci (seq (next ci) %s))", "(fold arr2 ci (seq (next ci) %s))", None),
    ("par_left_ok", [], "(par %s (ap 1 c5))", "(seq %s (ap 1 c5))", None),
    ("par_right_ok", [], "(par (ap 1 c5) %s)", "(seq (ap 1 c5) %s)", None),
    ("par_right_remote", [], '(par (call "@B" ("s18" "ok") []) %s)', "%s", None),
    ("par_in_fold", ["arr1"], "(fold arr1 ci (par %s (next ci)))", "(fold arr1 ci (seq %s (next ci)))", None),
    ("xor_right", [], '(xor (fail 9 "outer") %s)', '(xor (fail 9 "outer") %s)', None),
    ("xor_right_svc", [], '(xor (call %%init_peer_id%% ("s18" "err_neg") []) %s)', '(xor (call %%init_peer_id%% ("s18" "err_neg") []) %s)', None),
    ("xor_left", [], "(xor %s (ap 1 c6))", "%s", None),
    ("after_caught", [], '(seq (xor (fail 8 "earlier") (null)) %s)', '(seq (xor (fail 8 "earlier") (null)) %s)', None),
    ("after_caught_svc", [], '(seq (xor (call %%init_peer_id%% ("s18" "err") []) (null)) %s)', '(seq (xor (call %%init_peer_id%% ("s18" "err") []) (null)) %s)', None),
    ("after_caught_match", [], '(seq (xor (match 1 2 (null)) (ap 1 c7)) %s)', '(seq (xor (match 1 2 (null)) (ap 1 c7)) %s)', None),
    ("stream_fold_body", [], "(seq (ap 1 $cs) (fold $cs cj %s))", "%s", None),
    ("new_in_fold", ["arr1"], "(fold arr1 ci (new c8 (seq %s (next ci))))", "(fold arr1 ci (new c8 (seq %s (next ci))))", None),
    # an earlier failure was swallowed (by par or by a stream fold) and nothing caught an error since: documented deviation
    ("stale_after_par", [], "(seq (par " + FAIL_A + " (null)) %s)", "(seq (par " + FAIL_A + " (null)) %s)", FAIL_A),
    ("stale_par_sibling", [], "(par " + FAIL_A + " %s)", "(par " + FAIL_A + " %s)", FAIL_A),
    ("stale_par_sibling_seq", [], "(par " + FAIL_A + " (seq (ap 1 c9) %s))", "(par " + FAIL_A + " (seq (ap 1 c9) %s))", FAIL_A),
    ("stale_after_par_in_new", [], "(new c3 (seq (par (null) " + FAIL_A + ") %s))", "(new c3 (seq (par (null) " + FAIL_A + ") %s))", FAIL_A),
    ("stale_par_swallowing_fold", [], "(par (seq (ap 1 $sw) (fold $sw sj " + FAIL_A + ")) %s)", "%s", FAIL_A),
]
FOLD_CONTEXTS = {"fold1", "fold2", "fold_after_next", "par_in_fold", "new_in_fold", "stream_fold_body"}
# (kind, context) pairs in which the uncaught twin is NOT the same failure:
#  * (fail %last_error%) changes its own input: from the second iteration of a fold on it fails differently, and in the
#    one context whose twin is taken at top level %last_error% differs;
#  * shadowing a scalar is legal inside fold blocks, so the "uncatchable" instruction succeeds there
EXCLUDED = {("fail_last_error_none", "fold2"), ("fail_last_error_none", "fold_after_next"),
            ("fail_last_error_none", "stale_par_swallowing_fold")} | {("unc_shadow", c) for c in FOLD_CONTEXTS}


def with_prelude(needs, body):
    s = body
    for v in reversed(sorted(set(needs))):
        s = "(seq %s %s)" % (VARS[v], s)
    return s


def make_case(fk, ck):
    kind, fneeds, ftext, cls = fk
    cname, cneeds, cwrap, twrap, stale = ck
    caught_body = cwrap % ("(xor %s %s)" % (ftext, CATCH))
    twin_body = twrap % ftext
    if kind.startswith("wait_join"):
        caught_body = JOIN_WRAP % caught_body
        twin_body = JOIN_WRAP % twin_body
    needs = list(fneeds) + list(cneeds)
    expect = cls
    if cls == CATCHABLE and stale is not None:
        expect = 4
    case = {
        "peers": PEERS, "services": SERVICES, "kind": kind, "ctx": cname,
        "caught": with_prelude(needs, caught_body), "uncaught": with_prelude(needs, twin_body),
        "stale": stale if expect == 4 else None,
        "cur_script": CUR_SCRIPTS.get(kind), "expect": expect, "max_steps": 10,
    }
    return case


def combos():
    out = []
    for fk in F_KINDS:
        for ck in CONTEXTS:
            if fk[0] in TOP_ONLY and ck[0] != "top":
                continue
            if (fk[0], ck[0]) in EXCLUDED:
                continue
            out.append((fk, ck))
    return out


# pairs that are always run and always go through the lock-step: instructions that READ :error: / %last_error% where an
# earlier failure was handled (the descriptors must have been cleared / re-enabled), the documented deviation, one of
# each outcome class
FIXED_PAIRS = [
    ("fail_error_none", "after_caught"), ("fail_error_none", "after_caught_svc"), ("fail_error_none", "after_caught_match"),
    ("fail_error_none", "fold2"), ("fail_error_none", "xor_right"), ("fail_last_error_none", "after_caught"),
    ("fail_last_error_none", "after_caught_match"), ("fail_last_error_none", "par_right_ok"), ("lens_on_error", "after_caught"),
    ("fail_error_rethrow", "after_caught"), ("fail_error_rethrow_svc", "fold2"), ("match_lit", "after_caught_svc"),
    ("match_lit", "stale_after_par"), ("svc_err", "stale_par_sibling"), ("fail_lit", "stale_par_swallowing_fold"),
    ("fail_error_none", "stale_after_par"), ("svc_err", "par_left_ok"), ("svc_err", "fold2"), ("fail_scalar", "new_stream"),
    ("unc_shadow", "xor_right"), ("unc_iter_shadow", "after_caught"), ("wait_remote", "after_caught"), ("wait_join_call", "seq_after"),
    ("ok_call", "xor_right"),
]


def gen_cases(rng, tier, escalate=False):
    allc = combos()
    if tier == "thorough" or escalate:
        return [make_case(f, c) for f, c in allc]
    fk = {f[0]: f for f in F_KINDS}
    ck = {c[0]: c for c in CONTEXTS}
    top = [dict(make_case(fk[a], ck[b]), lockstep=True) for a, b in FIXED_PAIRS] + [make_case(f, CONTEXTS[0]) for f in F_KINDS]
    # every context at least with a few catchable kinds, then a seeded sample of the rest
    rest = [(f, c) for f, c in allc if c[0] != "top"]
    chosen = []
    for ck in CONTEXTS[1:]:
        pool = [f for f in F_KINDS if f[0] not in TOP_ONLY and (f[0], ck[0]) not in EXCLUDED]
        for f in rng.sample(pool, 5):
            chosen.append((f, ck))
    extra = rng.sample(rest, 60)
    seen, cases = set(FIXED_PAIRS), list(top)
    for f, c in chosen + extra:
        if (f[0], c[0]) in seen:
            continue
        seen.add((f[0], c[0]))
        cases.append(make_case(f, c))
    return cases


def exec_case(case, which):
    ops = [["s"]] + [["r", 0, 0]] * (case.get("max_steps", 10) - 1)
    return {"script": case[which], "peers": case["peers"], "init": 0, "services": case["services"], "ops": ops,
            "oracles": [], "seed": 1, "particle_id": "particle-18"}


def evaluate(cases, result, tier):
    if not cases:
        return
    dist = result["distribution"]
    keep = ("peers", "services", "caught", "uncaught", "stale", "cur_script", "expect", "max_steps")
    outs = vlib.harness_lines("xor18", [json.dumps({k: c.get(k) for k in keep}) for c in cases], timeout=1800)
    terms, owner = [], []
    for ci, o in enumerate(outs):
        c = cases[ci]
        if "error" in o:
            result["errors"].append("%s/%s: %s" % (c.get("kind"), c.get("ctx"), o["error"][:500]))
            continue
        terms.append(o["coq"][0])
        owner.append(ci)
        result["evaluations"] += 1
        for key in ("class/" + o["classes"][0].rsplit(":", 1)[0] if o["classes"][0].count(":") > 1 else "class/" + o["classes"][0],
                    "kind/" + str(c.get("kind")), "ctx/" + str(c.get("ctx"))):
            dist[key] = dist.get(key, 0) + 1
        inf = o["info"][0]
        dist["catch requests"] = dist.get("catch requests", 0) + inf["catch_requests"]
        dist["interpreter runs"] = dist.get("interpreter runs", 0) + inf["runs_caught"] + inf["runs_uncaught"]
        if inf.get("last_error_differs_from_error"):
            dist["catch saw %last_error% != :error:"] = dist.get("catch saw %last_error% != :error:", 0) + 1
        if len(result["samples"]) < 3 and inf["catch_requests"] and ci % 5 == 2:
            result["samples"].append({"case": {k: c.get(k) for k in ("kind", "ctx", "caught", "uncaught")}, "info": inf})
    if terms:
        fails, errs = vlib.coq_eval_cases("C18", HEADER_ORACLE, "c18case",
                                          {"oracle": "c18_oracle", "stale": "c18_stale_shape", "reached": "c18_class_reached",
                                           "nontrivial": "c18_nontrivial"}, terms, shard_size=400)
        result["errors"].extend(errs)
        not_stale = set(fails["stale"])
        trivial = set(fails["nontrivial"])
        for i, ci in enumerate(owner):
            if i not in trivial:
                result["distinct"].add(json.dumps([cases[ci].get("kind"), cases[ci].get("ctx"), cases[ci]["caught"]]))
        dist["intended class not reached"] = len(fails["reached"])
        for i in fails["reached"][:20]:
            ci = owner[i]
            dist.setdefault("not reached", []).append("%s/%s" % (cases[ci].get("kind"), cases[ci].get("ctx")))
        for i in fails["oracle"]:
            ci = owner[i]
            c = cases[ci]
            known = (i not in not_stale) and c.get("expect") == 4
            if known:
                dist["deviation/" + KNOWN_KEY] = dist.get("deviation/" + KNOWN_KEY, 0) + 1
            result["oracle_fail"].append({
                "case": c, "term": terms[i][:4000], "info": outs[ci]["info"][0], "key": KNOWN_KEY if known else None,
                "what": ("the catch branch saw the object of an EARLIER swallowed failure (documented deviation)" if known else
                         "c18_oracle is false: the catch branch did not run / ran when it must not / saw another code or message than the uncaught twin reports")})
    # ---- lock-step of the executor model on the same scripts --------------------------------------
    # quick tier: the fixed pairs + every fifth case; thorough: every second case; replays: all
    ecases, eowner = [], []
    for ci, c in enumerate(cases):
        if c.get("cur_script"):
            continue
        if len(cases) > 30 and ci % (2 if tier == "thorough" else 5) != 0 and not c.get("lockstep"):
            continue
        for which in ("caught", "uncaught"):
            ecases.append(exec_case(c, which))
            eowner.append((ci, which))
    if not ecases:
        return
    eouts = vlib.harness_lines("exec", [json.dumps(e) for e in ecases], timeout=1800)
    eterms, towner = [], []
    for ei, o in enumerate(eouts):
        if "error" in o:
            result["errors"].append("exec: " + o["error"][:400])
            continue
        hdr = "let script := %s in " % o["script_term"]
        for ti, t in enumerate(o["coq"]):
            eterms.append("(" + hdr + t + ")")
            towner.append((ei, ti))
    dist["lock-step runs"] = dist.get("lock-step runs", 0) + len(eterms)
    if not eterms:
        return
    checks = {"model": "check_case18"}
    if tier == "thorough":
        checks["supported"] = "is_supported18"
    fails, errs = vlib.coq_eval_cases("C18-lockstep", HEADER, "ecase", checks, eterms, shard_size=max(40, min(150, len(eterms) // 14 + 1)))
    result["errors"].extend(errs)
    if "supported" in fails:
        dist["lock-step runs not supported by the model"] = dist.get("lock-step runs not supported by the model", 0) + len(fails["supported"])
    for i in fails["model"]:
        ei, ti = towner[i]
        ci, which = eowner[ei]
        info = eouts[ei]["info"][ti] if ti < len(eouts[ei]["info"]) else {}
        result["mismatch"].append({"case": cases[ci], "which": which, "run": ti, "info": info, "script": cases[ci][which],
                                   "what": "the executor model (check_case18) disagrees with the implementation on this run"})
