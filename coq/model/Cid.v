(* Cid.v -- content ids of JSON values and their verification (property C25).

   Mirrors crates/air-lib/interpreter-cid/src/lib.rs (value_to_json_cid, raw_value_to_json_cid) and
   src/verify.rs (verify_value, verify_json_value, verify_raw_value) step by step.
   Outside the model, as Section variables:
   * the text <-> structure mapping of the `cid` crate (multibase, varints): [parse_cid] is
     `cid::Cid::from_str`, [print_cid] is `Cid::to_string`;
   * the hash functions SHA2-256 and BLAKE3-256 ([sha256], [blake3]);
   * the canonical bytes of a value, `serde_json::to_writer` ([bytes_of]).  For the value types the
     interpreter hashes (JValue, serde_json::Value, str, structs of strings) that writer cannot
     fail: the hasher's io::Write never fails, keys are strings, numbers are finite -- so the
     InvalidJson branch of the Rust code is unreachable and [bytes_of] is total.
   Definitions only. *)
From Aqua Require Import Base Json.
Open Scope list_scope.
Open Scope N_scope.

(* what `cid::Cid` exposes: version(), codec(), hash().code(), hash().digest() *)
Record parsed_cid := { cid_version : N; cid_codec : N; cid_hash_code : N; cid_digest : list N }.

(* multihash-codetable: Code::Sha2_256 = 0x12, Code::Blake3_256 = 0x1e (tied to the source by
   [cid_constants_agree]); JSON_CODEC comes from the translator as [json_codec] *)
Definition sha2_256_code : N := 18.
Definition blake3_256_code : N := 30.
Definition multihash_max_digest : N := 64.      (* Multihash<64> *)

Inductive hash_alg := HSha2_256 | HBlake3_256.

(* verify.rs: `let code: Code = raw_code.try_into().map_err(UnsupportedHashCode)?;
   match code { Code::Sha2_256 => .., Code::Blake3_256 => .., _ => return Err(UnsupportedHashCode(raw_code)) }`
   -- a code unknown to the table and a known but unsupported code give the same error *)
Definition supported_hash (code : N) : option hash_alg :=
  if code =? sha2_256_code then Some HSha2_256
  else if code =? blake3_256_code then Some HBlake3_256
  else None.

Inductive cid_error :=
| MalformedCid                    (* cid::Error from Cid::from_str *)
| UnsupportedCidCodec (c : N)
| UnsupportedHashCode (h : N)
| ValueMismatch.
Inductive verify_result := VerOk | VerErr (e : cid_error).

(* value_to_json_cid: `Code::Blake3_256.wrap(&hash).expect(..)` panics for an over-long digest *)
Inductive cid_calc := CidOk (c : string) | CidCrash.

Definition digest_eqb (a b : list N) : bool := list_eqb N.eqb a b.

Fixpoint lenN' (l : list N) : N := match l with [] => 0 | _ :: r => N.succ (lenN' r) end.

Section Cid.
  Variable parse_cid : string -> option parsed_cid.
  Variable print_cid : parsed_cid -> string.
  Variable sha256 : list N -> list N.
  Variable blake3 : list N -> list N.
  Variable bytes_of : json -> list N.

  Definition run_hash (a : hash_alg) (bs : list N) : list N :=
    match a with HSha2_256 => sha256 bs | HBlake3_256 => blake3 bs end.

  (* verify.rs: verify_raw_value *)
  Definition verify_raw_value (cid : string) (raw : list N) : verify_result :=
    match parse_cid cid with
    | None => VerErr MalformedCid                                   (* cid.try_into()? *)
    | Some real_cid =>
        let codec := cid_codec real_cid in
        if negb (codec =? json_codec) then VerErr (UnsupportedCidCodec codec)
        else
          let raw_code := cid_hash_code real_cid in
          match supported_hash raw_code with
          | None => VerErr (UnsupportedHashCode raw_code)
          | Some alg =>
              let expected_hash := run_hash alg raw in
              (* `expected_hash == mhash.digest()`: whole slices, so a truncated digest differs *)
              if digest_eqb expected_hash (cid_digest real_cid) then VerOk else VerErr ValueMismatch
          end
    end.

  (* verify.rs: verify_json_value; value_json_hash = hash of serde_json::to_writer(value) *)
  Definition verify_json_value (mhash_code : N) (mhash_digest : list N) (v : json) : verify_result :=
    match supported_hash mhash_code with
    | None => VerErr (UnsupportedHashCode mhash_code)
    | Some alg =>
        let expected_hash := run_hash alg (bytes_of v) in
        if digest_eqb expected_hash mhash_digest then VerOk else VerErr ValueMismatch
    end.

  (* verify.rs: verify_value *)
  Definition verify_value (cid : string) (v : json) : verify_result :=
    match parse_cid cid with
    | None => VerErr MalformedCid
    | Some real_cid =>
        let codec := cid_codec real_cid in
        if codec =? json_codec then verify_json_value (cid_hash_code real_cid) (cid_digest real_cid) v
        else VerErr (UnsupportedCidCodec codec)
    end.

  (* lib.rs: raw_value_to_json_cid: Cid::new_v1(JSON_CODEC, Code::Blake3_256.wrap(blake3(raw))) *)
  Definition raw_value_to_json_cid (raw : list N) : cid_calc :=
    let hash := blake3 raw in
    if lenN' hash <=? multihash_max_digest then
      CidOk (print_cid {| cid_version := 1; cid_codec := json_codec; cid_hash_code := blake3_256_code; cid_digest := hash |})
    else CidCrash.

  (* lib.rs: value_to_json_cid *)
  Definition value_to_json_cid (v : json) : cid_calc := raw_value_to_json_cid (bytes_of v).

  (* ---- statements ---- *)
  Definition C25_verify_stmt : Prop :=
    forall cid v,
      verify_value cid v = VerOk <->
      exists p, parse_cid cid = Some p /\ cid_codec p = json_codec /\
        ((cid_hash_code p = sha2_256_code /\ cid_digest p = sha256 (bytes_of v)) \/
         (cid_hash_code p = blake3_256_code /\ cid_digest p = blake3 (bytes_of v))).

  Definition C25_verify_raw_stmt : Prop :=
    forall cid raw,
      verify_raw_value cid raw = VerOk <->
      exists p, parse_cid cid = Some p /\ cid_codec p = json_codec /\
        ((cid_hash_code p = sha2_256_code /\ cid_digest p = sha256 raw) \/
         (cid_hash_code p = blake3_256_code /\ cid_digest p = blake3 raw)).
End Cid.

(* tie to the sources (tools/genx_cid.py) *)
Definition cid_constants_agree : bool :=
  list_eqb (pair_eqb String.eqb N.eqb) cid_verify_value_hashes [("Sha2_256", sha2_256_code); ("Blake3_256", blake3_256_code)]%string &&
  list_eqb (pair_eqb String.eqb N.eqb) cid_verify_raw_value_hashes [("Sha2_256", sha2_256_code); ("Blake3_256", blake3_256_code)]%string &&
  pair_eqb String.eqb N.eqb cid_id_hash ("Blake3_256", blake3_256_code)%string &&
  String.eqb cid_id_version "new_v1" &&
  cid_digest_compared_in_full && cid_verify_shape_is_standard &&
  (json_codec =? 512).
