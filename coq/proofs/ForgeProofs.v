(* ForgeProofs.v -- proofs of the verification half of C14 (model/Forge.v), on top of SigProofs.v. *)
From Coq Require Import Lia Permutation.
From Aqua Require Import Base RunTop Trace Values Sig SigProofs Forge.
Open Scope N_scope.
Open Scope list_scope.

(* ---------------- small facts ---------------- *)
Lemma list_eqb_string_eq a : forall b, list_eqb String.eqb a b = true -> a = b.
Proof.
  induction a as [|x a IH]; intros [|y b] H; cbn [list_eqb] in H; try discriminate; [reflexivity|].
  apply andb_true_iff in H as [H1 H2]. apply String.eqb_eq in H1. subst. f_equal. apply IH, H2.
Qed.

Lemma sig_eqb_eq a b : sig_eqb a b = true -> a = b.
Proof.
  destruct a as [p c s|n], b as [p' c' s'|m]; cbn [sig_eqb]; intros H; try discriminate.
  - apply andb_true_iff in H as [H H3]. apply andb_true_iff in H as [H1 H2].
    apply String.eqb_eq in H1. apply String.eqb_eq in H3. apply list_eqb_string_eq in H2. subst. reflexivity.
  - apply N.eqb_eq in H. subst. reflexivity.
Qed.

Lemma sig_verify_eq p l salt s : sig_verify p l salt s = true -> s = Sig p (sort_cids l) salt.
Proof. unfold sig_verify, pk_verify. apply sig_eqb_eq. Qed.

Lemma in_peer_cids p c tr : In c (peer_cids p tr) <-> In (p, c) tr.
Proof.
  unfold peer_cids. rewrite in_map_iff. split.
  - intros ([q c'] & <- & H). apply filter_In in H as [H1 H2]. cbn [fst snd] in *. apply String.eqb_eq in H2. subst. exact H1.
  - intros H. exists (p, c). split; [reflexivity|]. apply filter_In. split; [exact H|]. cbn [fst]. apply String.eqb_refl.
Qed.

Lemma in_sort c l : In c (sort_cids l) <-> In c l.
Proof. rewrite <- !count_pos_in, count_sort. reflexivity. Qed.

Lemma forallb_in {A} (f : A -> bool) l : forallb f l = true <-> forall x, In x l -> f x = true.
Proof. apply forallb_forall. Qed.

(* ---------------- inversion of an accepting verification step ---------------- *)
Section Step.
  Variable ok_value : string -> string -> bool.
  Variable ok_tetraplet : string -> tetraplet -> bool.
  Variable ok_elem : string -> canon_elem_agg -> bool.
  Variable ok_result : string -> canon_result_agg -> bool.
  Variable ok_service : string -> service_agg -> bool.
  Variable key_ok : string -> bool.

  Notation cid_info_verify := (cid_info_verify ok_value ok_tetraplet ok_elem ok_result ok_service).
  Notation store_honest := (store_honest ok_value ok_tetraplet ok_elem ok_result ok_service).
  Notation forge_verify := (forge_verify ok_value ok_tetraplet ok_elem ok_result ok_service key_ok).

  Lemma forge_ok_inv o prev cur salt st :
    forge_verify o prev cur salt = FOk st ->
    cid_info_verify (fd_ci cur) = true /\ dangling prev = false /\ dangling cur = false /\
    (exists vp, dv_new key_ok (o_new_prev o) (sig_view prev) = DOk vp) /\
    (exists vc, dv_new key_ok (o_new_cur o) (sig_view cur) = DOk vc) /\
    verification_step key_ok o true (sig_view prev) (sig_view cur) salt = ROk st.
  Proof.
    unfold Forge.forge_verify.
    destruct (cid_info_verify (fd_ci cur)); cbn [negb]; [|discriminate].
    destruct (dv_new key_ok (o_new_prev o) (sig_view prev)) as [vp|]; [|discriminate].
    destruct (dangling prev); [unfold dangling_outcome; destruct forge_dangling_id_is_error; discriminate|].
    destruct (dv_new key_ok (o_new_cur o) (sig_view cur)) as [vc|]; [|discriminate].
    destruct (dangling cur); [unfold dangling_outcome; destruct forge_dangling_id_is_error; discriminate|].
    destruct (verification_step key_ok o true (sig_view prev) (sig_view cur) salt) as [st'|e] eqn:E; [|discriminate].
    intros [= ->]. repeat split; try reflexivity; eauto.
  Qed.

  Lemma C14_signed : C14_signed_stmt ok_value ok_tetraplet ok_elem ok_result ok_service key_ok.
  Proof.
    intros o prev cur salt st Wp Wc H.
    destruct (forge_ok_inv _ _ _ _ _ H) as (_ & _ & _ & _ & (vc & Ec) & Hv).
    assert (wf_data (sig_view prev)) as Wp' by exact Wp.
    assert (wf_data (sig_view cur)) as Wc' by exact Wc.
    destruct (new_ok_inv key_ok _ _ _ Wc' Ec) as (Fc & _ & _).
    destruct (C15_keep_larger key_ok o true (sig_view prev) (sig_view cur) salt st Wp' Wc' Hv) as (_ & Hk).
    split.
    - intros p c Hin. apply (signed_of_nonempty (sig_view cur) p c Fc).
      unfold Mof. cbn [d_trace sig_view]. apply in_peer_cids, Hin.
    - intros p s Es. specialize (Hk p). unfold kept_for in Hk. cbn zeta in Hk.
      change (d_sigs (sig_view cur)) with (fd_sigs cur) in Hk. rewrite Es in Hk.
      apply sig_verify_eq.
      destruct (map_get p (d_sigs (sig_view prev))).
      + destruct Hk as (_ & _ & _ & Hs & _). exact Hs.
      + destruct Hk as (_ & Hs). exact Hs.
  Qed.

  Lemma C14_honest : C14_honest_stmt ok_value ok_tetraplet ok_elem ok_result ok_service key_ok.
  Proof.
    intros o prev cur salt st owned produced Wp Wc DY H p c Hown Hin.
    destruct (C14_signed o prev cur salt st Wp Wc H) as (Hex & Heq).
    destruct (Hex p c Hin) as (s & Es). pose proof (Heq p s Es) as ->.
    exists (sort_cids (cids_of cur p)). split; [|split; [|reflexivity]].
    - destruct (DY _ _ _ _ Es) as [Ho|Hp]; [congruence|exact Hp].
    - apply in_sort. unfold cids_of. apply in_peer_cids, Hin.
  Qed.

  (* ---------------- the stores ---------------- *)
  Lemma store_verify_spec {V} (ok : string -> V -> bool) m :
    store_verify ok m = true <-> forall k v, In (k, v) m -> ok k v = true.
  Proof.
    unfold store_verify. rewrite forallb_in. split.
    - intros H k v Hin. apply (H (k, v) Hin).
    - intros H [k v] Hin. apply H, Hin.
  Qed.

  Lemma C14_store_iff : C14_store_iff_stmt ok_value ok_tetraplet ok_elem ok_result ok_service.
  Proof.
    intros ci. unfold Forge.cid_info_verify, verify_canon_result_store, verify_service_result_store, Forge.store_honest.
    rewrite !andb_true_iff, !store_verify_spec, !forallb_in. split.
    - intros (((Hv & Ht) & (((He & Hr) & Hrr) & Her)) & (Hs & Hsr)).
      repeat split; try assumption.
      + specialize (Hsr (k, v) H). cbn [snd] in Hsr. apply andb_true_iff in Hsr. apply Hsr.
      + specialize (Hsr (k, v) H). cbn [snd] in Hsr. apply andb_true_iff in Hsr. apply Hsr.
      + specialize (Hrr (k, v) H). cbn [snd] in Hrr. apply andb_true_iff in Hrr. apply Hrr.
      + specialize (Hrr (k, v) H). cbn [snd] in Hrr. apply andb_true_iff in Hrr as [Hrr _].
        rewrite forallb_in in Hrr. exact Hrr.
      + specialize (Her (k, v) H). cbn [snd] in Her. apply andb_true_iff in Her as [Her _]. apply andb_true_iff in Her. apply Her.
      + specialize (Her (k, v) H). cbn [snd] in Her. apply andb_true_iff in Her as [Her _]. apply andb_true_iff in Her. apply Her.
      + specialize (Her (k, v) H). cbn [snd] in Her. apply andb_true_iff in Her as [_ Her].
        destruct (cg_prov v); [exact I|exact Her|exact Her].
    - intros (Hv & Ht & He & Hr & Hs & Hsr & Hrr & Her).
      repeat split; try assumption.
      + intros [k v] Hin. cbn [snd]. destruct (Hrr k v Hin) as (H1 & H2). apply andb_true_iff. split; [|exact H1].
        apply forallb_in. exact H2.
      + intros [k v] Hin. cbn [snd]. destruct (Her k v Hin) as (H1 & H2 & H3). rewrite H1, H2. cbn [andb].
        destruct (cg_prov v); [reflexivity|exact H3|exact H3].
      + intros [k v] Hin. cbn [snd]. destruct (Hsr k v Hin) as (H1 & H2). rewrite H1, H2. reflexivity.
  Qed.

  Lemma C14_store : C14_store_stmt ok_value ok_tetraplet ok_elem ok_result ok_service key_ok.
  Proof.
    intros o prev cur salt st H. apply C14_store_iff. apply (forge_ok_inv _ _ _ _ _ H).
  Qed.

  (* ---------------- verdicts ---------------- *)
  Lemma C14_verdicts : C14_verdicts_stmt ok_value ok_tetraplet ok_elem ok_result ok_service key_ok.
  Proof.
    intros o prev cur salt. unfold Forge.forge_verify.
    destruct (cid_info_verify (fd_ci cur)); cbn [negb]; [|left; reflexivity].
    destruct (dv_new key_ok (o_new_prev o) (sig_view prev)); [|right; reflexivity].
    destruct (dangling prev) eqn:Dp; [unfold dangling_outcome; destruct forge_dangling_id_is_error; [right; reflexivity|left; reflexivity]|].
    destruct (dv_new key_ok (o_new_cur o) (sig_view cur)); [|right; reflexivity].
    destruct (dangling cur) eqn:Dc; [unfold dangling_outcome; destruct forge_dangling_id_is_error; right; reflexivity|].
    unfold verification_step.
    destruct (dv_verification key_ok o (sig_view prev) (sig_view cur) salt); [|right; reflexivity].
    repeat split; reflexivity.
  Qed.

  (* ---------------- replay under another particle id ---------------- *)
  Lemma C14_replay : C14_replay_stmt ok_value ok_tetraplet ok_elem ok_result ok_service key_ok.
  Proof.
    intros o prev cur salt salt' st Wp Wc H Hne Hsalt.
    destruct (C14_signed o prev cur salt st Wp Wc H) as (_ & Heq).
    destruct (forge_ok_inv _ _ _ _ _ H) as (Hci & Dp & Dc & (vp & Ep) & (vc & Ec) & _).
    unfold Forge.forge_verify. rewrite Hci, Ep, Dp, Ec, Dc. cbn [negb].
    unfold verification_step, dv_verification. rewrite Ep, Ec.
    assert (wf_data (sig_view cur)) as Wc' by exact Wc.
    destruct (new_ok_inv key_ok _ _ _ Wc' Ec) as (_ & Nc & Gc).
    pose proof (dv_verify_spec (o_verify o) salt' vc Nc) as Hv.
    destruct (dv_verify (o_verify o) salt' vc); [|reflexivity].
    exfalso. destruct (fd_sigs cur) as [|[p s] r] eqn:Es; [congruence|].
    assert (map_get p ((p, s) :: r) = Some s) as Eg.
    { cbn [map_get]. rewrite String.eqb_refl. reflexivity. }
    pose proof (Heq p s Eg) as ->.
    specialize (Hv p (info_of (sig_view cur) p (Sig p (sort_cids (cids_of cur p)) salt))).
    rewrite Gc in Hv. change (d_sigs (sig_view cur)) with (fd_sigs cur) in Hv. rewrite Es, Eg in Hv.
    specialize (Hv eq_refl). cbn [pi_cids pi_sig info_of] in Hv.
    unfold pk_verify in Hv. apply sig_eqb_eq in Hv. injection Hv as Hs. congruence.
  Qed.

  (* ---------------- a multiset the owner never signed ---------------- *)
  Lemma C14_attribution : C14_attribution_stmt ok_value ok_tetraplet ok_elem ok_result ok_service key_ok.
  Proof.
    intros o prev cur salt owned produced p Wp Wc DY Hown (c & Hin) Hnot.
    pose proof (C14_verdicts o prev cur salt) as Hv.
    destruct (forge_verify o prev cur salt) as [st|e|] eqn:E; [|exact Hv|exact I].
    destruct (C14_honest o prev cur salt st owned produced Wp Wc DY E p c Hown Hin) as (l & Hp & _ & ->).
    exact (Hnot Hp).
  Qed.

  (* ---------------- an id determines its content ---------------- *)
  Lemma C14_binds : C14_binds_stmt ok_value ok_tetraplet ok_elem ok_result ok_service.
  Proof.
    intros (Cv & Ct & Cs & _ & _) ci ci' c x y H H' Ex Ey.
    apply C14_store_iff in H as (Hv & Ht & _ & _ & Hs & _). apply C14_store_iff in H' as (Hv' & Ht' & _ & _ & Hs' & _).
    unfold resolve_service in Ex, Ey.
    destruct (map_get c (ci_services ci)) as [sr|] eqn:E1; [|discriminate].
    destruct (map_get c (ci_services ci')) as [sr'|] eqn:E1'; [|discriminate].
    pose proof (Cs c sr sr' (Hs _ _ (map_get_in _ _ _ E1)) (Hs' _ _ (map_get_in _ _ _ E1'))) as <-.
    destruct (map_get (sg_value sr) (ci_values ci)) as [v|] eqn:E2; [|discriminate].
    destruct (map_get (sg_tetraplet sr) (ci_tetraplets ci)) as [t|] eqn:E3; [|discriminate].
    destruct (map_get (sg_value sr) (ci_values ci')) as [v'|] eqn:E2'; [|discriminate].
    destruct (map_get (sg_tetraplet sr) (ci_tetraplets ci')) as [t'|] eqn:E3'; [|discriminate].
    pose proof (Cv _ v v' (Hv _ _ (map_get_in _ _ _ E2)) (Hv' _ _ (map_get_in _ _ _ E2'))) as <-.
    pose proof (Ct _ t t' (Ht _ _ (map_get_in _ _ _ E3)) (Ht' _ _ (map_get_in _ _ _ E3'))) as <-.
    congruence.
  Qed.

  Lemma C14_tamper_store : C14_tamper_store_stmt ok_value ok_tetraplet ok_elem ok_result ok_service.
  Proof.
    intros (Cv & Ct & Cs & _ & _) key_ok' o prev cur cur' salt k H Hd.
    unfold Forge.forge_verify.
    destruct (Forge.cid_info_verify ok_value ok_tetraplet ok_elem ok_result ok_service (fd_ci cur')) eqn:E; [|reflexivity].
    exfalso.
    apply C14_store_iff in H as (Hv & Ht & _ & _ & Hs & _). apply C14_store_iff in E as (Hv' & Ht' & _ & _ & Hs' & _).
    destruct Hd as [(a & b & Ea & Eb & Hne)|[(a & b & Ea & Eb & Hne)|(a & b & Ea & Eb & Hne)]]; apply Hne.
    - exact (Cv k a b (Hv _ _ (map_get_in _ _ _ Ea)) (Hv' _ _ (map_get_in _ _ _ Eb))).
    - exact (Ct k a b (Ht _ _ (map_get_in _ _ _ Ea)) (Ht' _ _ (map_get_in _ _ _ Eb))).
    - exact (Cs k a b (Hs _ _ (map_get_in _ _ _ Ea)) (Hs' _ _ (map_get_in _ _ _ Eb))).
  Qed.

  (* ---------------- the kind of a state is invisible to the verification step ---------------- *)
  Lemma collect_map ci : forall tr tr',
    map (attribute_state ci) tr = map (attribute_state ci) tr' -> collect_peers_cids ci tr = collect_peers_cids ci tr'.
  Proof.
    induction tr as [|s tr IH]; intros [|s' tr'] H; cbn [map] in H; try discriminate; [reflexivity|].
    injection H as Hs Ht. cbn [collect_peers_cids]. rewrite Hs, (IH tr' Ht). reflexivity.
  Qed.

  Lemma C14_kind_blind : C14_kind_blind_stmt ok_value ok_tetraplet ok_elem ok_result ok_service key_ok.
  Proof.
    intros o prev cur cur' salt Hci Hs Hm.
    assert (collect_peers_cids (fd_ci cur') (fd_trace cur') = collect_peers_cids (fd_ci cur) (fd_trace cur)) as Hc.
    { rewrite Hci. apply collect_map, Hm. }
    assert (sig_view cur' = sig_view cur) as Hv by (unfold sig_view, attributed; rewrite Hc, Hs; reflexivity).
    assert (dangling cur' = dangling cur) as Hd by (unfold dangling; rewrite Hc; reflexivity).
    unfold Forge.forge_verify. rewrite Hci, Hv, Hd. reflexivity.
  Qed.
End Step.

(* ---------------- the gap: Executed(Unused) is attributed to nobody ---------------- *)
(* a toy hash relation that IS collision free: the id of a content is "#" followed by a rendering of it *)
Definition toy_value (k v : string) : bool := String.eqb k ("#" ++ v).
Definition toy_tetraplet (k : string) (t : tetraplet) : bool :=
  String.eqb k ("#" ++ tp_peer t ++ "|" ++ tp_service t ++ "|" ++ tp_function t ++ "|" ++ tp_lens t).
Definition toy_service (k : string) (a : service_agg) : bool :=
  String.eqb k ("#" ++ sg_value a ++ "|" ++ sg_arg_hash a ++ "|" ++ sg_tetraplet a).
Definition toy_elem (k : string) (a : canon_elem_agg) : bool := String.eqb k ("#" ++ cg_value a ++ "|" ++ cg_tetraplet a).
Definition toy_result (k : string) (a : canon_result_agg) : bool := String.eqb k ("#" ++ cr_tetraplet a).
Definition all_keys_ok (k : string) : bool := true.
Definition toy_verify := forge_verify toy_value toy_tetraplet toy_elem toy_result toy_service all_keys_ok id_orders.

(* the forged data: one Executed(Unused) state whose value the attacker invented; no signature at all *)
Definition forged_unused : fdata :=
  MkFData [SCall (Executed (VRUnused "#""forged"""))]
          (MkCidInfo [("#""forged""", """forged""")] [] [] [] []) []%string.

Lemma forged_unused_accepted :
  toy_verify empty_fdata forged_unused "particle" = FOk [] /\
  attributed forged_unused = [] /\ fd_sigs forged_unused = [] /\
  In (SCall (Executed (VRUnused "#""forged"""))) (fd_trace forged_unused).
Proof. vm_compute. repeat split. left. reflexivity. Qed.

Lemma C14_refuted_unused :
  ~ C14_every_result_signed_stmt toy_value toy_tetraplet toy_elem toy_result toy_service all_keys_ok.
Proof.
  intros H.
  assert (wf_fdata empty_fdata) as W0 by constructor.
  assert (wf_fdata forged_unused) as W1 by constructor.
  destruct forged_unused_accepted as (Hacc & Hatt & _ & Hin).
  specialize (H id_orders empty_fdata forged_unused "particle"%string [] W0 W1 Hacc _ Hin).
  cbn beta iota in H. destruct H as (p & c & Hpc & _). rewrite Hatt in Hpc. exact Hpc.
Qed.

(* B's call failed; M presents the failure as a success: same CID, same stores, B's own signature *)
Definition failed_honest : fdata :=
  let kv := "#{""message"":""boom"",""ret_code"":1}" in let kt := "#B|s|f|" in let ks := ("#" ++ kv ++ "|h|" ++ kt)%string in
  MkFData [SCall (Failed ks)]
          (MkCidInfo [(kv, "{""message"":""boom"",""ret_code"":1}")]
                     [(kt, {| tp_peer := "B"; tp_service := "s"; tp_function := "f"; tp_lens := "" |})] [] []
                     [(ks, MkSAgg kv "h" kt)])
          [("B", sign_cids "B" [ks] "particle")]%string.
Definition failed_as_executed : fdata :=
  MkFData (map (fun s => match s with SCall (Failed c) => SCall (Executed (VRScalar c)) | o => o end) (fd_trace failed_honest))
          (fd_ci failed_honest) (fd_sigs failed_honest).

Lemma failed_as_executed_accepted :
  (exists st, toy_verify empty_fdata failed_honest "particle" = FOk st) /\
  (exists st, toy_verify empty_fdata failed_as_executed "particle" = FOk st) /\
  fd_trace failed_honest <> fd_trace failed_as_executed.
Proof. vm_compute. split; [eexists; reflexivity|]. split; [eexists; reflexivity|]. discriminate. Qed.

Lemma C14_refuted_kind :
  ~ C14_kind_signed_stmt toy_value toy_tetraplet toy_elem toy_result toy_service all_keys_ok.
Proof.
  intros H. destruct failed_as_executed_accepted as ((st & E1) & (st' & E2) & _).
  assert (wf_fdata empty_fdata) as W0 by constructor.
  assert (wf_fdata failed_honest) as W1 by (repeat constructor; intros []).
  refine (H id_orders empty_fdata failed_honest failed_as_executed "particle"%string st [] [] _ W0 W1 E1 eq_refl eq_refl eq_refl eq_refl st' E2).
Qed.

(* ---------------- source tie ---------------- *)
Lemma forge_source_ok : forge_source_agrees = true.
Proof. vm_compute. reflexivity. Qed.
