#!/usr/bin/env python3
"""Development tool: measure the executor model against the implementation on generated histories.
usage: tools/dev_exec.py N [profile kw=val ...]   e.g. tools/dev_exec.py 40 streams=0 canon=0"""
import sys, os, json, random, collections
ROOT = os.path.dirname(os.path.dirname(os.path.abspath(__file__)))
sys.path.insert(0, os.path.join(ROOT, "lib"))
import vlib, airgen, exec_common

n = int(sys.argv[1])
kw = {}
seed = 1
for a in sys.argv[2:]:
    k, v = a.split("=")
    if k == "seed":
        seed = int(v); continue
    kw[k] = (v not in ("0", "False", "false")) if v in ("0", "1", "True", "False", "true", "false") else int(v)
rng = random.Random(seed)
prof = airgen.Profile(**kw)
cases = [exec_common.history_case(rng, prof) for _ in range(n)]
ok, out = vlib.build_harness(["exec"])
assert ok, out[-3000:]
ok, out = vlib.coq_make(["model/ExecCases.vo"])
assert ok, out[-3000:]
outs = vlib.harness_lines("exec", [json.dumps(c) for c in cases], timeout=1800)
terms, owner = [], []
for ci, o in enumerate(outs):
    if "error" in o:
        print("ERR", o["error"][:200]); continue
    for ti, t in enumerate(o["coq"]):
        terms.append("(let script := %s in %s)" % (o["script_term"], t)); owner.append((ci, ti))
print("terms", len(terms))
hdr = exec_common.HEADER
fails, errs = vlib.coq_eval_cases("devexec", hdr, "case_t", {"model": "check_case", "supported": "is_supported"}, terms, shard_size=40)
print("errors", errs[:3])
print("mismatch", len(fails["model"]), "unsupported", len(fails["supported"]), "of", len(terms))
shown = 0
for i in fails["model"][:int(os.environ.get("SHOW", "5"))]:
    ci, ti = owner[i]
    info = outs[ci]["info"][ti]
    print("---- case", ci, "term", ti, info)
    print(cases[ci]["script"])
    m = vlib.coq_print(hdr, "let c := %s in (diff_mask c, model_outcome c)" % terms[i])
    print(m[-3000:])
    if os.environ.get("DUMP"):
        open("/tmp/devexec_%d.v" % shown, "w").write(hdr + "Definition c := %s.\n" % terms[i])
        json.dump(dict(cases[ci], probe_steps=[info.get("step")]), open("/tmp/devexec_%d.json" % shown, "w"))
    shown += 1
