"""C23 -- the parser is total and accepts only well-scoped scripts."""
import json
import os
import re
import subprocess

import airgen
import vlib

PID = "C23"
MODEL_TARGETS = ["model/ValidatorCases.vo"]
HARNESS_BINS = ["validate"]
RULE = ("one case = one script text handed to the real air_parser::parse and to the same AIRParser call without the final filter; "
        "generators: well-scoped scripts (lib/airgen.py and a second generator covering maps, lenses, fail, new, nested folds), "
        "scripts with injected scoping errors (undefined variable, use before definition, next outside any fold / of another fold, "
        "duplicate iterator, new on an iterator, iterator used after its fold, definition only in an xor/par branch, canon used before canon, "
        "instruction after next, the validator's unvisited sites), renamed identifiers, and a malformed stream (deleted/duplicated/transposed "
        "parentheses, random bytes, truncation, odd unicode, huge numbers, deep nesting in a child process); "
        "distinct = distinct script texts in which the real lexer sees at least one variable token; "
        "distribution = verdict kinds, validator error kinds, syntax error kinds per generator")
PARTIAL = [
    "totality of the lexer and of the generated LR driver (9650 generated lines) is not a theorem: mutation fuzzing with catch_unwind only",
    "C23_no_error_nodes assumes that Error nodes are built by grammar actions only (the translator checks that no hand-written file constructs one) "
    "and that the fired alternatives are alternatives of the translated grammars",
    "C23_scoped_full is REFUTED (six witnesses in four classes: iterator used outside its fold; only the first unresolved use of a name is re-checked; sites no callback visits: fail argument, ap-map value, canon peer, lens of :error:): the proved C23_scoped_partial covers the variables read by call and ap instructions only "
    "(triplet, arguments, ap argument, map key, scalars inside their lenses) and for iterator names guarantees only that SOME fold on that name starts earlier; "
    "uses in match/mismatch values and fold iterables are guaranteed only when they are the first unresolved use of their name; "
    "fail arguments, ap-map values, canon peers and lenses of :error: are not checked by the validator at all",
    "C23_next_full is REFUTED: only the textually first next of each iterator name is guaranteed to be inside a fold on that name (C23_next_partial)",
    "the partial theorems assume wf_layout (positions nested as in a text), which is checked on every tree the real parser produced in the harness runs",
    "the source stream/map of canon is deliberately not counted as a use that needs a definition (the source documents never-written streams as empty)",
]
ASSUMPTIONS = [
    "instruction spans handed to the validator are rebuilt by the harness from the real lexer's tokens ('(' followed by an instruction keyword .. matching ')'); "
    "for fold/new they are compared with the spans stored in the tree on every case",
    "VariableValidator::finalize is pub(super): the kinds of the validator's errors are decoded from the labels of the report parse() returns, "
    "through the #[error(..)] templates of parser/errors.rs; variant names only",
    "MultiMap::iter() of multimap 0.9.1 yields the first value of each key (read in the vendored source); hash-map iteration order is not modelled, error kinds are compared as multisets",
]
TRUSTED_EXTRA = ["tools/genx_grammar.py: reading of air.lalrpop / va_lambda.lalrpop alternatives (builds an Error node / pushes to errors)"]

CLASS_KEYS = {
    0: None,  # panic: key decided from the panic site
    1: "error-node-in-accepted-tree",
    2: "accepted-tree-mismatch",
    3: "iterator-used-outside-fold",
    4: "next-outside-fold-not-first",
    5: "undefined-var-first-only-check",
    6: "unvisited-use-site",
    7: "ill-scoped-use-unclassified",
    8: "ill-scoped-next-unclassified",
}
HEADER = "From Aqua Require Import Base Air Validator ValidatorCases.\nOpen Scope N_scope.\n"

# ---------------------------------------------------------------------------------------------------
# generators


def literal_peers(script):
    return re.sub(r'"@([A-E])"', lambda m: '"peer%s"' % m.group(1), script)


class G2:
    """Second generator of well-scoped scripts: the constructs lib/airgen.py does not produce."""

    def __init__(self, rng):
        self.r = rng
        self.n = 0

    def fresh(self, p):
        self.n += 1
        return "%s%d" % (p, self.n)

    def call(self, args="", out=""):
        return '(call %s ("%s" "%s") [%s]%s)' % (self.r.choice(['"peerA"', '"peerB"', "%init_peer_id%"]), self.r.choice(["s", "srv"]),
                                                  self.r.choice(["f", "id", "arr"]), args, (" " + out) if out else "")

    def value(self, sc):
        r = self.r
        opts = ['"lit"', "1", "-7", "1.5", "true", "[]", "%init_peer_id%", "%timestamp%", "%ttl%", "%last_error%", ":error:", "%last_error%.$.message", ":error:.$.error_code"]
        if sc["scalars"]:
            x = r.choice(sc["scalars"])
            opts += [x, x, x + ".$.f", x + ".$.[0]", x + ".$.a.b!", x + ".length"]
            if len(sc["scalars"]) > 1:
                opts.append(x + ".$.[" + r.choice(sc["scalars"]) + "]")
        if sc["canons"]:
            c = r.choice(sc["canons"])
            opts += [c, c + ".$.[0]", c + ".length"]
        if sc["cmaps"]:
            c = r.choice(sc["cmaps"])
            opts += [c, c + ".$.k"]
        return r.choice(opts)

    def instr(self, sc, depth):
        """returns (text, names defined for what follows in a seq)"""
        r = self.r
        sc = {k: list(v) for k, v in sc.items()}
        kinds = ["call", "call_s", "ap", "ap_s", "null", "never", "fail"]
        if depth > 0:
            kinds += ["seq"] * 5 + ["par", "xor", "match", "mismatch", "new", "fold", "fold_stream", "apmap", "canon", "canon_map", "canon_map_scalar", "fold_map", "fold_last"]
        k = r.choice(kinds)
        if k == "call":
            v = self.fresh("w")
            return self.call(" ".join(self.value(sc) for _ in range(r.randrange(3))), v), {"scalars": [v]}
        if k == "call_s":
            s = r.choice(sc["streams"]) if sc["streams"] and r.random() < 0.5 else self.fresh("$t")
            return self.call(self.value(sc), s), {"streams": [s]}
        if k == "ap":
            v = self.fresh("w")
            return "(ap %s %s)" % (self.value(sc), v), {"scalars": [v]}
        if k == "ap_s":
            s = r.choice(sc["streams"]) if sc["streams"] and r.random() < 0.5 else self.fresh("$t")
            return "(ap %s %s)" % (self.value(sc), s), {"streams": [s]}
        if k == "apmap":
            m = r.choice(sc["maps"]) if sc["maps"] and r.random() < 0.5 else self.fresh("%m")
            key = r.choice(['"k"', "42"] + sc["scalars"][:2])
            return "(ap (%s %s) %s)" % (key, self.value(sc), m), {"maps": [m]}
        if k == "canon":
            s = r.choice(sc["streams"]) if sc["streams"] else self.fresh("$t")
            c = self.fresh("#k")
            return '(canon "peerA" %s %s)' % (s, c), {"canons": [c]}
        if k == "canon_map":
            m = r.choice(sc["maps"]) if sc["maps"] else self.fresh("%m")
            c = self.fresh("#%km")
            return '(canon %s %s %s)' % (r.choice(['"peerB"'] + sc["scalars"][:1]), m, c), {"cmaps": [c]}
        if k == "canon_map_scalar":
            m = r.choice(sc["maps"]) if sc["maps"] else self.fresh("%m")
            v = self.fresh("w")
            return '(canon "peerA" %s %s)' % (m, v), {"scalars": [v]}
        if k == "null":
            return "(null)", {}
        if k == "never":
            return "(never)", {}
        if k == "fail":
            opts = ['(fail 7 "msg")', "(fail %last_error%)", "(fail :error:)"]
            if sc["scalars"]:
                opts += ["(fail %s)" % r.choice(sc["scalars"]), "(fail %s.$.e)" % r.choice(sc["scalars"])]
            return r.choice(opts), {}
        if k == "seq":
            a, da = self.instr(sc, depth - 1)
            sc2 = {kk: sc[kk] + da.get(kk, []) for kk in sc}
            b, db = self.instr(sc2, depth - 1)
            return "(seq %s %s)" % (a, b), {kk: da.get(kk, []) + db.get(kk, []) for kk in sc}
        if k in ("par", "xor"):
            a, da = self.instr(sc, depth - 1)
            b, db = self.instr(sc, depth - 1)
            return "(%s %s %s)" % (k, a, b), {kk: da.get(kk, []) + db.get(kk, []) for kk in sc}
        if k in ("match", "mismatch"):
            b, db = self.instr(sc, depth - 1)
            return "(%s %s %s %s)" % (k, self.value(sc), self.value(sc), b), db
        if k == "new":
            kind = r.choice(["scalars", "streams", "maps", "canons"])
            v = self.fresh({"scalars": "w", "streams": "$t", "maps": "%m", "canons": "#k"}[kind])
            sc2 = dict(sc)
            sc2[kind] = sc[kind] + [v]
            b, db = self.instr(sc2, depth - 1)
            return "(new %s %s)" % (v, b), db
        if k in ("fold", "fold_last"):
            it = self.fresh("it")
            iterable = r.choice((sc["scalars"] + [x + ".$.l" for x in sc["scalars"][:1]] + sc["canons"] + sc["cmaps"]) or ["[]"])
            sc2 = dict(sc)
            sc2["scalars"] = sc["scalars"] + [it]
            b, _ = self.instr(sc2, depth - 1)
            body = r.choice(["(seq %s (next %s))", "(par %s (next %s))", "(seq (next %s) %s)", "(xor %s (next %s))"])
            body = body % ((b, it) if body.index("%s") < body.index("(next") else (it, b))
            if k == "fold_last":
                l, _ = self.instr(sc, depth - 1)
                return "(fold %s %s %s %s)" % (iterable, it, body, l), {}
            return "(fold %s %s %s)" % (iterable, it, body), {}
        if k in ("fold_stream", "fold_map"):
            pool = sc["streams"] if k == "fold_stream" else sc["maps"]
            if not pool:
                return "(null)", {}
            it = self.fresh("it")
            sc2 = dict(sc)
            sc2["scalars"] = sc["scalars"] + [it]
            b, _ = self.instr(sc2, depth - 1)
            body = r.choice(["(seq %s (next %s))", "(par %s (next %s))", "(xor %s (next %s))"]) % (b, it)
            if r.random() < 0.3:
                l, _ = self.instr(sc, depth - 1)
                return "(fold %s %s %s %s)" % (r.choice(pool), it, body, l), {}
            return "(fold %s %s %s)" % (r.choice(pool), it, body), {}
        return "(null)", {}

    def script(self, depth):
        t, _ = self.instr({"scalars": [], "streams": [], "maps": [], "canons": [], "cmaps": []}, depth)
        return t


def gen_valid(rng):
    if rng.random() < 0.5:
        prof = airgen.Profile(peers=rng.choice([2, 3, 4]), depth=rng.choice([1, 2, 3, 4, 5]), last_error=rng.random() < 0.3)
        return literal_peers(airgen.gen_script(rng, prof))
    return G2(rng).script(rng.choice([2, 3, 4, 5, 6]))


def reformat(rng, s):
    """whitespace / comment variation (positions move, structure does not)"""
    k = rng.randrange(4)
    if k == 0:
        return s
    if k == 1:
        return s.replace(" (", "\n (")
    if k == 2:
        return "; header comment (seq \n" + s.replace(") (", ")  ; c\n  (")
    return "  \t" + s.replace(" ", "  ") + "\n"


CALL = '(call "p" ("s" "f") [%s]%s)'


def ctx(rng, inner):
    """random surroundings for an injected fragment"""
    for _ in range(rng.randrange(4)):
        k = rng.randrange(7)
        other = rng.choice(["(null)", CALL % ("", " zz%d" % rng.randrange(9)), '(ap 1 $zs)', "(never)"])
        if k == 0:
            inner = "(seq %s %s)" % (other, inner)
        elif k == 1:
            inner = "(seq %s %s)" % (inner, other)
        elif k == 2:
            inner = "(par %s %s)" % (inner, other)
        elif k == 3:
            inner = "(xor %s %s)" % (other, inner)
        elif k == 4:
            inner = "(new $zn %s)" % inner
        elif k == 5:
            inner = '(match 1 1 %s)' % inner
        else:
            inner = "(seq %s %s)" % (gen_valid(rng), inner)
    return inner


def inject(rng):
    """(tag, script): one scoping error (or a shape the validator mishandles) in random surroundings"""
    x = "q%d" % rng.randrange(50)
    i = "i%d" % rng.randrange(50)
    j = "j%d" % rng.randrange(50)
    xs = "xs%d" % rng.randrange(50)
    defxs = CALL % ("", " " + xs)
    use = lambda v: rng.choice([CALL % (v, ""), CALL % ('"a" ' + v + " 1", " r1"), "(ap %s r2)" % v, "(ap %s.$.f $r3)" % v,
                               CALL % (v + ".$.[0]", ""), '(ap (%s "v") %%rm)' % v])
    kinds = {
        "undefined-variable": lambda: use(x),
        "undefined-in-triplet": lambda: rng.choice(['(call %s ("s" "f") [])' % x, '(call "p" (%s "f") [])' % x, '(call "p" ("s" %s.$.n) [])' % x]),
        "undefined-in-lens": lambda: "(seq %s %s)" % (CALL % ("", " y"), CALL % ("y.$.[%s]" % x, "")),
        "use-before-definition": lambda: "(seq %s %s)" % (use(x), CALL % ("", " " + x)),
        "self-definition": lambda: CALL % (x, " " + x),
        "next-outside-any-fold": lambda: rng.choice(["(next %s)" % i, "(seq %s (next %s))" % (defxs, i)]),
        "next-of-other-fold": lambda: "(seq %s (seq (fold %s %s (seq (null) (next %s))) (fold %s %s (seq (null) (next %s)))))" % (defxs, xs, i, i, xs, j, i),
        "next-after-fold-not-first": lambda: "(seq %s (seq (fold %s %s (seq (null) (next %s))) (next %s)))" % (defxs, xs, i, i, i),
        "next-before-fold": lambda: "(seq %s (seq (next %s) (fold %s %s (seq (null) (next %s)))))" % (defxs, i, xs, i, i),
        "duplicate-iterator-nested": lambda: "(seq %s (fold %s %s (seq (fold %s %s (seq (null) (next %s))) (next %s))))" % (defxs, xs, i, xs, i, i, i),
        "same-iterator-sibling-folds": lambda: "(seq %s (seq (fold %s %s (seq (null) (next %s))) (fold %s %s (seq %s (next %s)))))" % (defxs, xs, i, i, xs, i, use(i), i),
        "new-on-iterator": lambda: "(seq %s (fold %s %s (new %s (seq (null) (next %s)))))" % (defxs, xs, i, i, i),
        "new-on-iterator-outside": lambda: "(seq %s (seq (fold %s %s (seq (null) (next %s))) (new %s (null))))" % (defxs, xs, i, i, i),
        "iterator-after-fold": lambda: "(seq %s (seq (fold %s %s (seq (null) (next %s))) %s))" % (defxs, xs, i, i, use(i)),
        "iterator-before-fold": lambda: "(seq %s (seq %s (fold %s %s (seq (null) (next %s)))))" % (defxs, use(i), xs, i, i),
        "iterator-in-last-instruction": lambda: "(seq %s (fold %s %s (seq (null) (next %s)) %s))" % (defxs, xs, i, i, use(i)),
        "defined-in-xor-branch": lambda: "(seq (xor %s (null)) %s)" % (CALL % ("", " " + x), use(x)),
        "defined-in-par-branch": lambda: "(seq (par %s (null)) %s)" % (CALL % ("", " " + x), use(x)),
        "defined-in-other-par-branch": lambda: "(par %s %s)" % (CALL % ("", " " + x), use(x)),
        "defined-in-new-scope": lambda: "(seq (new %s (null)) %s)" % (x, use(x)),
        "canon-used-before-canon": lambda: "(seq (ap 1 $cs) (seq %s (canon \"p\" $cs #cc%s)))" % (use("#cc" + x), x),
        "canon-of-unwritten-stream": lambda: '(seq (canon "p" $never%s #cn) %s)' % (x, use("#cn")),
        "fold-over-unwritten-stream": lambda: "(fold $nv%s %s (seq (null) (next %s)))" % (x, i, i),
        "instruction-after-next": lambda: "(seq (ap 1 $as) (fold $as %s %s))" % (i, rng.choice(["(seq (next %s) (null))", "(par (next %s) (null))", "(seq (seq (next %s) (null)) (null))", "(seq (xor (next %s) (null)) (null))"]) % i),
        "instruction-after-next-scalar-fold": lambda: "(seq %s (fold %s %s (seq (next %s) (null))))" % (defxs, xs, i, i),
        "two-next": lambda: "(seq %s (fold %s %s (seq (next %s) (next %s))))" % (defxs, xs, i, i, i),
        "next-in-both-xor": lambda: "(seq (ap 1 $as) (fold $as %s (xor (next %s) (next %s))))" % (i, i, i),
        "fail-zero": lambda: '(fail 0 "zero")',
        "match-encloses-new": lambda: "(%s %s 1 (new %s %s))" % (rng.choice(["match", "mismatch"]), x, x, use(x)),
        "fold-iterable-encloses-new": lambda: "(fold %s %s (new %s (seq %s (next %s))))" % (x, i, x, use(x), i),
        "match-encloses-fold-on-name": lambda: "(seq %s (match %s 1 (fold %s %s (seq %s (next %s)))))" % (defxs, i, xs, i, use(i), i),
        "unvisited-fail": lambda: rng.choice(["(fail %s)" % x, "(fail %s.$.code)" % x, "(fail #fc%s.$.[0])" % x]),
        "unvisited-apmap-value": lambda: '(ap ("k" %s) %%um)' % x,
        "unvisited-canon-peer": lambda: rng.choice(['(seq (ap 1 $us) (canon %s $us #uc))', '(seq (ap ("k" 1) %%um) (canon %s %%um #%%ucm))', '(seq (ap ("k" 1) %%um) (canon %s.$.p %%um usc))']) % x,
        "unvisited-error-lens": lambda: CALL % (":error:.$.[%s]" % x, ""),
    }
    tag = rng.choice(sorted(kinds))
    return "inject/" + tag, reformat(rng, ctx(rng, kinds[tag]()))


IDENT = re.compile(r'(?<![\w"$#%.:])([#$%]{0,2}[a-z_][A-Za-z0-9_]*)(?![\w"])')
KEYWORDS = {"call", "canon", "ap", "seq", "par", "fail", "fold", "xor", "never", "new", "next", "null", "match", "mismatch", "true", "false"}


def rename_ident(rng, s):
    """rename one identifier occurrence to another identifier of the script or to a fresh one"""
    out, in_str, spans = [], False, []
    # identifier occurrences outside string literals
    pos = 0
    parts = s.split('"')
    for k, part in enumerate(parts):
        if k % 2 == 0:
            for m in IDENT.finditer(part):
                if m.group(1) not in KEYWORDS:
                    spans.append((pos + m.start(1), pos + m.end(1), m.group(1)))
        pos += len(part) + 1
    if not spans:
        return s
    a, b, name = rng.choice(spans)
    same_kind = [n for (_, _, n) in spans if n != name and n[0] == name[0]]
    new = rng.choice(same_kind) if same_kind and rng.random() < 0.6 else name + "_u"
    return s[:a] + new + s[b:]


UNICODE = ["é", "ß", "Ж", "字", "　", " ", "​", "𝔘", "ا", "́", "٣", "Ⅷ"]


def malform(rng, s):
    """(tag, text)"""
    k = rng.randrange(14)
    if not s:
        s = "(null)"
    p = rng.randrange(len(s))
    parens = [i for i, ch in enumerate(s) if ch in "()[]"]
    if k == 0 and parens:
        i = rng.choice(parens)
        return "malformed/deleted-paren", s[:i] + s[i + 1:]
    if k == 1 and parens:
        i = rng.choice(parens)
        return "malformed/duplicated-paren", s[:i] + s[i] + s[i:]
    if k == 2 and len(parens) > 1:
        i, j = sorted(rng.sample(parens, 2))
        l = list(s)
        l[i], l[j] = l[j], l[i]
        return "malformed/transposed-parens", "".join(l)
    if k == 3:
        return "malformed/truncated", s[:p]
    if k == 4:
        junk = "".join(chr(rng.choice([rng.randrange(1, 128), rng.randrange(0x80, 0x250), rng.randrange(0x2000, 0x2100)])) for _ in range(rng.randrange(1, 6)))
        return "malformed/random-chars", s[:p] + junk + s[p:]
    if k == 5:
        return "malformed/unicode-inserted", s[:p] + rng.choice(UNICODE) + s[p:]
    if k == 6:
        # non-ASCII inside a lens (the lambda lexer)
        u = rng.choice(UNICODE)
        lens = rng.choice([".$." + u, ".$.a" + u, ".$.[" + u + "]", ".$.a." + u + "!", ".$.[0]" + u, "." + u, ".$" + u])
        return "malformed/non-ascii-lens", "(seq %s (seq (call \"p\" (\"s\" \"f\") [] lv) (call \"p\" (\"s\" \"f\") [lv%s])))" % (s, lens)
    if k == 7:
        q = s.find('"', p)
        if q >= 0:
            return "malformed/deleted-quote", s[:q] + s[q + 1:]
        return "malformed/unclosed-quote", s + ' "open'
    if k == 8:
        n = rng.choice(["99999999999999999999", "-9223372036854775809", "9223372036854775807", "1e400", "0.1234567890123", "1.2.3", "-", "--1", "+5", "1_000", "0x10", ".5", "5.", "-.5e3"])
        return "malformed/odd-number", '(seq %s (call "p" ("s" "f") [%s]))' % (s, n)
    if k == 9:
        tok = rng.choice(["$", "#", "%", "#%", "#$", "$$s", "%%m", "#.x", "x.", "x.$", "x.$.", "x.$.[", "x.$.[]", "x.$.[1", "x.$.[-1]", "x.$.[99999999999]", "x.$.!", "x.$..a", "x..y", "x.length.$", ".length", "%last_error%.$.x", "%last_error%x", ":error:x", ":error:.$", "%unknown%", "x!y", "a(b)c", "a[b]c", "a)b"])
        return "malformed/odd-token", '(seq %s (call "p" ("s" "f") [%s]))' % (s, tok)
    if k == 10:
        i = rng.randrange(len(s))
        j = min(len(s), i + rng.randrange(1, 12))
        return "malformed/duplicated-chunk", s[:j] + s[i:j] + s[j:]
    if k == 11:
        kw = rng.choice(["seq", "par", "xor", "fold", "call", "ap", "canon", "new", "next", "match", "mismatch", "fail", "null", "never"])
        return "malformed/keyword-inserted", s[:p] + " " + kw + " " + s[p:]
    if k == 12:
        return "malformed/extra-tail", s + rng.choice([")", " (null)", " x", " (", ' "', ";c", "\n\n", " ]"])
    return "malformed/deleted-char", s[:p] + s[p + 1:]


def gen_cases(rng, tier, escalate=False):
    n = {"quick": 140, "thorough": 1500}[tier] * (4 if escalate else 1)
    cases = []
    for k in range(n):
        v = reformat(rng, gen_valid(rng))
        cases.append({"script": v, "tag": "valid"})
        cases.append(dict(zip(("tag", "script"), inject(rng))))
        cases.append({"script": rename_ident(rng, v), "tag": "renamed-identifier"})
        for _ in range(2):
            t, m = malform(rng, v if rng.random() < 0.8 else inject(rng)[1])
            cases.append({"script": m, "tag": t})
    cases.append({"script": "", "tag": "malformed/empty"})
    cases.append({"script": " \n\t", "tag": "malformed/empty"})
    for d in ([50, 200] if tier == "quick" else [50, 200, 400, 600]):
        cases.append({"script": "(seq (null) " * d + "(null)" + ")" * d, "tag": "deep/seq-right-%d" % d})
        cases.append({"script": "(seq " * d + "(null)" + " (null))" * d, "tag": "deep/seq-left-%d" % d})
    # very deep nesting goes to a child process of its own (a stack overflow must not kill the run)
    # (measured: parse survives 10^6 levels; dropping the tree overflows the 8 MB stack from about 4*10^5 levels)
    for d in ([2000] if tier == "quick" else [2000, 50000, 400000]):
        for shape in ("seq-right", "seq-left", "new"):
            cases.append({"probe": "deep", "shape": shape, "depth": d, "tag": "deep-probe/%s-%d" % (shape, d)})
    return cases


def deep_script(shape, d):
    if shape == "seq-right":
        return "(seq (null) " * d + "(null)" + ")" * d
    if shape == "seq-left":
        return "(seq " * d + "(null)" + " (null))" * d
    if shape == "xor-right":
        return "(xor (null) " * d + "(null)" + ")" * d
    return "(new $s " * d + "(null)" + ")" * d


def run_probe(case, result):
    """one text in child processes of its own (only the real parse; once leaking the tree, once dropping it);
    a crash is recorded in the distribution and logged, not registered as an oracle failure"""
    script = deep_script(case["shape"], case["depth"])
    exe = os.path.join(vlib.TARGET, "debug", "validate")
    for mode in ("parse-only", "parse-and-drop"):
        line = json.dumps({"script": script, "tag": case["tag"], "light": True, "forget": mode == "parse-only"})
        try:
            p = subprocess.run([exe], input=line + "\n", stdout=subprocess.PIPE, stderr=subprocess.PIPE, text=True, timeout=300)
            rc = p.returncode
            out = [l for l in p.stdout.split("\n") if l.strip()]
            err = p.stderr[-200:].strip().replace("\n", " | ")
        except subprocess.TimeoutExpired:
            rc, out, err = "timeout", [], ""
        if rc == 0 and len(out) == 1:
            info = json.loads(out[0])["info"][0]
            cls = "deep-probe/%s-%d/%s/%s" % (case["shape"], case["depth"], mode, info["verdict"])
            if info.get("panic"):
                result["oracle_fail"].append({"case": case, "key": "deep-nesting-panic", "what": "the parser panicked on a deeply nested text", "info": info})
        else:
            cls = "deep-probe/%s-%d/%s/child-died(rc=%s)" % (case["shape"], case["depth"], mode, rc)
            vlib.log("[C23] deep-nesting probe %s (%s): the child process running the real parser died, rc=%s %s" % (case["tag"], mode, rc, err))
        result["distribution"][cls] = result["distribution"].get(cls, 0) + 1
    result["evaluations"] += 1


def panic_key(script, info):
    msg = info.get("panic_message") or ""
    if "lambda_ast_lexer.rs" in msg and "char boundary" in msg and any(ord(ch) > 127 for ch in script):
        return "lambda-lexer-non-ascii-field-panic"
    return "parser-panic"


def evaluate(cases, result, tier):
    probes = [c for c in cases if c.get("probe")]
    cases = [c for c in cases if not c.get("probe")]
    for c in probes:
        run_probe(c, result)
    if not cases:
        return
    outs = vlib.harness_lines("validate", [json.dumps(c) for c in cases])
    terms, owner = [], []
    for ci, o in enumerate(outs):
        if "error" in o:
            result["errors"].append(o["error"])
            continue
        terms.append(o["coq"][0])
        owner.append(ci)
        for cl in o["classes"]:
            result["distribution"][cl] = result["distribution"].get(cl, 0) + 1
        result["evaluations"] += 1
        info = o["info"][0]
        if info.get("var_tokens", 0) > 0:
            result["distinct"].add(cases[ci]["script"])
        if info.get("span_problem"):
            result["errors"].append("instruction spans could not be rebuilt for: %r" % cases[ci]["script"][:300])
        if len(result["samples"]) < 3 and info.get("has_tree") and info.get("var_tokens", 0) > 2:
            result["samples"].append({"case": cases[ci], "verdict": info["verdict"], "verrors": info["verrors"], "term": o["coq"][0][:1500]})
    if not terms:
        return
    checks = {"model": "check_case", "oracle": "c23_oracle"}
    for k in CLASS_KEYS:
        checks["cls%d" % k] = "lacks %d" % k
    fails, errs = vlib.coq_eval_cases("validate", HEADER, "case_t", checks, terms)
    result["errors"].extend(errs)
    for i in fails["model"]:
        ci = owner[i]
        result["mismatch"].append({"case": dict(cases[ci]), "term": terms[i][:6000], "info": outs[ci]["info"][0],
                                   "what": "model/Validator.v (validate, wf_layout_b) disagrees with the real parser on this text"})
    classes_of = {}
    for k in CLASS_KEYS:
        for i in fails["cls%d" % k]:
            classes_of.setdefault(i, []).append(k)
    for i in fails["oracle"]:
        ci = owner[i]
        info = outs[ci]["info"][0]
        ks = classes_of.get(i, [])
        keys = []
        for k in ks:
            keys.append(panic_key(cases[ci]["script"], info) if k == 0 else CLASS_KEYS[k])
        if not keys:
            keys = ["oracle-false-unclassified"]
        for key in keys:
            result["oracle_fail"].append({"case": dict(cases[ci]), "key": key, "term": terms[i][:6000], "info": info,
                                          "what": "c23_oracle is false on what the real parser did: " + key})
    # a class reported without an oracle failure would be a bug of the case file
    for i in classes_of:
        if i not in fails["oracle"]:
            result["errors"].append("violation class without oracle failure at term %d" % i)
