//! handler: drives the real `air_trace_handler::TraceHandler` through its public API with op
//! sequences and prints cases of coq/model/HandlerCases.v (`hcase`).
//!
//! input line: {"rounds": [ {"prev": k|-1, "cur": k|-1, "mut_prev": [...], "mut_cur": [...], "ops": [...]} ... ]}
//! output line: {"coq": [hcase per round], "classes": [...], "info": [...]}

use air_interpreter_cid::CID;
use air_interpreter_data::*;
use air_trace_handler::merger::*;
use air_trace_handler::*;
use aquah::coqfmt as c;
use serde_json::Value as J;
use std::io::BufRead;
use std::rc::Rc;

fn n(j: &J) -> u64 {
    j.as_u64().unwrap_or(0)
}
fn st(j: &J) -> String {
    j.as_str().unwrap_or("").to_string()
}

fn call_result(j: &J) -> CallResult {
    match j[0].as_str().unwrap_or("") {
        "sent" => CallResult::RequestSentBy(Sender::PeerId(Rc::new(st(&j[1])))),
        "sent_id" => CallResult::RequestSentBy(Sender::PeerIdWithCallId { peer_id: Rc::new(st(&j[1])), call_id: n(&j[2]) as u32 }),
        "scalar" => CallResult::Executed(ValueRef::Scalar(CID::new(st(&j[1])))),
        "stream" => CallResult::Executed(ValueRef::Stream { cid: CID::new(st(&j[1])), generation: GenerationIdx::from(n(&j[2]) as u32 as usize) }),
        "unused" => CallResult::Executed(ValueRef::Unused(CID::new(st(&j[1])))),
        _ => CallResult::Failed(CID::new(st(&j[1]))),
    }
}

fn canon_result(j: &J) -> CanonResult {
    match j[0].as_str().unwrap_or("") {
        "csent" => CanonResult::RequestSentBy(Rc::new(st(&j[1]))),
        _ => CanonResult::Executed(CID::new(st(&j[1]))),
    }
}

fn lore(j: &J) -> FoldLore {
    j.as_array()
        .map(|a| {
            a.iter()
                .map(|e| FoldSubTraceLore {
                    value_pos: (n(&e[0]) as u32).into(),
                    subtraces_desc: e[1]
                        .as_array()
                        .map(|ds| ds.iter().map(|d| SubTraceDesc { begin_pos: (n(&d[0]) as u32).into(), subtrace_len: n(&d[1]) as u32 }).collect())
                        .unwrap_or_default(),
                })
                .collect()
        })
        .unwrap_or_default()
}

fn state(j: &J) -> ExecutedState {
    match j[0].as_str().unwrap_or("") {
        "st_call" => ExecutedState::Call(call_result(&j[1])),
        "st_ap" => ExecutedState::Ap(ApResult { res_generations: j[1].as_array().map(|a| a.iter().map(|g| GenerationIdx::from(n(g) as u32 as usize)).collect()).unwrap_or_default() }),
        "st_par" => ExecutedState::Par(ParResult { left_size: n(&j[1]) as u32, right_size: n(&j[2]) as u32 }),
        "st_canon" => ExecutedState::Canon(canon_result(&j[1])),
        _ => ExecutedState::Fold(FoldResult { lore: lore(&j[1]) }),
    }
}

// ---- printing as Coq terms ----
fn gen_u32(g: &GenerationIdx) -> u32 {
    let u: usize = (*g).into();
    u as u32
}
fn pos_u32(p: TracePos) -> u32 {
    let u: usize = p.into();
    u as u32
}

fn p_call(r: &CallResult) -> String {
    match r {
        CallResult::RequestSentBy(Sender::PeerId(p)) => format!("(RequestSentBy (SPeer {}))", c::s(p)),
        CallResult::RequestSentBy(Sender::PeerIdWithCallId { peer_id, call_id }) => format!("(RequestSentBy (SPeerCall {} {}))", c::s(peer_id), call_id),
        CallResult::Executed(ValueRef::Scalar(cid)) => format!("(Executed (VRScalar {}))", c::s(&cid.get_inner())),
        CallResult::Executed(ValueRef::Stream { cid, generation }) => format!("(Executed (VRStream {} {}))", c::s(&cid.get_inner()), gen_u32(generation)),
        CallResult::Executed(ValueRef::Unused(cid)) => format!("(Executed (VRUnused {}))", c::s(&cid.get_inner())),
        CallResult::Failed(cid) => format!("(Failed {})", c::s(&cid.get_inner())),
    }
}
fn p_canon(r: &CanonResult) -> String {
    match r {
        CanonResult::RequestSentBy(p) => format!("(CanonRequestSentBy {})", c::s(p)),
        CanonResult::Executed(cid) => format!("(CanonExecuted {})", c::s(&cid.get_inner())),
    }
}
fn p_lore(l: &FoldLore) -> String {
    c::list(l.iter().map(|e| {
        format!(
            "{{| fl_value_pos := {}; fl_descs := {} |}}",
            pos_u32(e.value_pos),
            c::list(e.subtraces_desc.iter().map(|d| format!("{{| sd_pos := {}; sd_len := {} |}}", pos_u32(d.begin_pos), d.subtrace_len)))
        )
    }))
}
fn p_state(s: &ExecutedState) -> String {
    match s {
        ExecutedState::Par(p) => format!("(SPar {} {})", p.left_size, p.right_size),
        ExecutedState::Call(r) => format!("(SCall {})", p_call(r)),
        ExecutedState::Ap(a) => format!("(SAp {})", c::list(a.res_generations.iter().map(|g| format!("{}", gen_u32(g))))),
        ExecutedState::Canon(r) => format!("(SCanon {})", p_canon(r)),
        ExecutedState::Fold(f) => format!("(SFold {})", p_lore(&f.lore)),
    }
}
fn p_trace(t: &[ExecutedState]) -> String {
    c::list(t.iter().map(p_state))
}

fn keeper_idx(e: &KeeperError) -> u32 {
    match e {
        KeeperError::SetSubtraceLenFailed { .. } => 0,
        KeeperError::SetSubtraceLenAndPosFailed { .. } => 1,
        KeeperError::NoElementAtPosition { .. } => 2,
        KeeperError::NoStreamState { .. } => 3,
    }
}
fn merge_idx(e: &MergeError) -> u32 {
    match e {
        MergeError::IncompatibleExecutedStates(..) => 4,
        MergeError::DifferentExecutedStateExpected(..) => 5,
        MergeError::KeeperError(k) => keeper_idx(k),
        MergeError::IncorrectApResult(ApResultError::InvalidDstGenerations(..)) => 6,
        MergeError::IncorrectCallResult(CallResultError::ValuesNotEqual { .. }) => 7,
        MergeError::IncorrectCallResult(CallResultError::IncompatibleCallResults { .. }) => 8,
        MergeError::IncorrectCanonResult(CanonResultError::IncompatibleState { .. }) => 9,
        MergeError::IncorrectFoldResult(FoldResultError::SubtraceLenOverflow { .. }) => 10,
        MergeError::IncorrectFoldResult(FoldResultError::SeveralRecordsWithSamePos(..)) => 11,
        MergeError::IncorrectFoldResult(FoldResultError::FoldIncorrectSubtracesCount(..)) => 12,
    }
}
fn fsm_idx(e: &StateFSMError) -> u32 {
    match e {
        StateFSMError::ParQueueIsEmpty => 13,
        StateFSMError::FoldFSMNotFound(..) => 14,
        StateFSMError::ParLenOverflow(..) => 15,
        StateFSMError::ParPosOverflow(..) => 16,
        StateFSMError::ParLenUnderflow(..) => 17,
        StateFSMError::FoldPosOverflow(..) => 18,
        StateFSMError::FoldLenUnderflow(..) => 19,
        StateFSMError::KeeperError(k) => keeper_idx(k),
    }
}
fn err_idx(e: &TraceHandlerError) -> u32 {
    match e {
        TraceHandlerError::KeeperError(k) => keeper_idx(k),
        TraceHandlerError::MergeError(m) => merge_idx(m),
        TraceHandlerError::StateFSMError(s) => fsm_idx(s),
    }
}

fn is_stream_state(s: &ExecutedState) -> bool {
    matches!(s, ExecutedState::Ap(_) | ExecutedState::Call(CallResult::Executed(ValueRef::Stream { .. })))
}
fn nth_stream_pos(t: &ExecutionTrace, k: u64) -> u32 {
    let ps: Vec<u32> = t.iter().enumerate().filter(|(_, s)| is_stream_state(s)).map(|(i, _)| i as u32).collect();
    if ps.is_empty() {
        k as u32
    } else {
        ps[(k % ps.len() as u64) as usize]
    }
}

// ---- ops ----
fn p_op(o: &J) -> String {
    let k = o[0].as_str().unwrap_or("");
    match k {
        "call_auto" => format!("(OpCallAuto {} {})", c::opt(if o[1].is_null() { None } else { Some(p_call(&call_result(&o[1]))) }), c::b(o[2].as_bool().unwrap_or(false))),
        "call_start" => "OpCallStart".into(),
        "call_end" => format!("(OpCallEnd {})", p_call(&call_result(&o[1]))),
        "ap_auto" => format!("(OpApAuto {})", n(&o[1]) as u32),
        "ap_start" => "OpApStart".into(),
        "ap_end" => format!("(OpApEnd {})", c::list(o[1].as_array().map(|a| a.iter().map(|g| format!("{}", n(g) as u32)).collect::<Vec<_>>()).unwrap_or_default())),
        "canon_auto" => format!("(OpCanonAuto {} {})", p_canon(&canon_result(&o[1])), c::b(o[2].as_bool().unwrap_or(false))),
        "canon_start" => "OpCanonStart".into(),
        "canon_end" => format!("(OpCanonEnd {})", p_canon(&canon_result(&o[1]))),
        "par_start" => "OpParStart".into(),
        "par_end" => format!("(OpParEnd {})", c::b(o[1].as_bool().unwrap_or(true))),
        "fold_start" => format!("(OpFoldStart {})", n(&o[1]) as u32),
        "iter_nth" => format!("(OpIterStartNth {} {})", n(&o[1]) as u32, n(&o[2])),
        "iter_pos" => format!("(OpIterStartPos {} {})", n(&o[1]) as u32, n(&o[2]) as u32),
        "iter_end" => format!("(OpIterEnd {})", n(&o[1]) as u32),
        "back" => format!("(OpBackIter {})", n(&o[1]) as u32),
        "gen_end" => format!("(OpGenEnd {})", n(&o[1]) as u32),
        "fold_end" => format!("(OpFoldEnd {})", n(&o[1]) as u32),
        "upd_gen" => format!("(OpUpdateGen {} {})", n(&o[1]) as u32, n(&o[2]) as u32),
        _ => "OpSizes".into(),
    }
}

enum StepOut {
    Obs(String),
    Stop(String, String),
}

fn exec_op(h: &mut TraceHandler, o: &J) -> StepOut {
    use StepOut::*;
    let k = o[0].as_str().unwrap_or("");
    macro_rules! tryh {
        ($e:expr) => {
            match $e {
                Ok(v) => v,
                Err(e) => return Stop(format!("(ObsErr {})", err_idx(&e)), format!("err{}", err_idx(&e))),
            }
        };
    }
    let is_prev = |s: &ValueSource| matches!(s, ValueSource::PreviousData);
    match k {
        "call_start" | "call_auto" => {
            let r = tryh!(h.meet_call_start());
            match r {
                MergerCallResult::NotMet => {
                    if k == "call_auto" && !o[1].is_null() {
                        h.meet_call_end(call_result(&o[1]));
                    }
                    Obs("ObsCallNotMet".into())
                }
                MergerCallResult::Met(m) => {
                    let obs = format!("(ObsCallMet {} {} {})", p_call(&m.result), pos_u32(m.trace_pos), c::b(is_prev(&m.source)));
                    if k == "call_auto" {
                        let up = o[2].as_bool().unwrap_or(false);
                        let sent = matches!(m.result, CallResult::RequestSentBy(_));
                        let push = if !o[1].is_null() && up && sent { call_result(&o[1]) } else { m.result.clone() };
                        h.meet_call_end(push);
                    }
                    Obs(obs)
                }
            }
        }
        "call_end" => {
            h.meet_call_end(call_result(&o[1]));
            Obs("ObsUnit".into())
        }
        "ap_start" | "ap_auto" => {
            let r = tryh!(h.meet_ap_start());
            match r {
                MergerApResult::NotMet => {
                    if k == "ap_auto" {
                        h.meet_ap_end(ApResult::new(GenerationIdx::from(n(&o[1]) as u32 as usize)));
                    }
                    Obs("ObsApNotMet".into())
                }
                MergerApResult::Met(m) => {
                    if k == "ap_auto" {
                        h.meet_ap_end(ApResult::new(m.generation));
                    }
                    Obs(format!("(ObsApMet {} {})", gen_u32(&m.generation), c::b(is_prev(&m.value_source))))
                }
            }
        }
        "ap_end" => {
            let gens = o[1].as_array().map(|a| a.iter().map(|g| GenerationIdx::from(n(g) as u32 as usize)).collect()).unwrap_or_default();
            h.meet_ap_end(ApResult { res_generations: gens });
            Obs("ObsUnit".into())
        }
        "canon_start" | "canon_auto" => {
            let r = tryh!(h.meet_canon_start());
            match r {
                MergerCanonResult::Empty => {
                    if k == "canon_auto" {
                        h.meet_canon_end(canon_result(&o[1]));
                    }
                    Obs("ObsCanonEmpty".into())
                }
                MergerCanonResult::CanonResult(cr) => {
                    if k == "canon_auto" {
                        let up = o[2].as_bool().unwrap_or(false);
                        let sent = matches!(cr, CanonResult::RequestSentBy(_));
                        h.meet_canon_end(if up && sent { canon_result(&o[1]) } else { cr.clone() });
                    }
                    Obs(format!("(ObsCanonMet {})", p_canon(&cr)))
                }
            }
        }
        "canon_end" => {
            h.meet_canon_end(canon_result(&o[1]));
            Obs("ObsUnit".into())
        }
        "par_start" => {
            tryh!(h.meet_par_start());
            Obs("ObsUnit".into())
        }
        "par_end" => {
            let sg = if o[1].as_bool().unwrap_or(true) { SubgraphType::Left } else { SubgraphType::Right };
            tryh!(h.meet_par_subgraph_end(sg));
            Obs("ObsUnit".into())
        }
        "fold_start" => {
            tryh!(h.meet_fold_start(n(&o[1]) as u32));
            Obs("ObsUnit".into())
        }
        "iter_nth" => {
            let p = nth_stream_pos(h.as_result_trace(), n(&o[2]));
            tryh!(h.meet_iteration_start(n(&o[1]) as u32, p.into()));
            Obs("ObsUnit".into())
        }
        "iter_pos" => {
            tryh!(h.meet_iteration_start(n(&o[1]) as u32, (n(&o[2]) as u32).into()));
            Obs("ObsUnit".into())
        }
        "iter_end" => {
            tryh!(h.meet_iteration_end(n(&o[1]) as u32));
            Obs("ObsUnit".into())
        }
        "back" => {
            tryh!(h.meet_back_iterator(n(&o[1]) as u32));
            Obs("ObsUnit".into())
        }
        "gen_end" => {
            tryh!(h.meet_generation_end(n(&o[1]) as u32));
            Obs("ObsUnit".into())
        }
        "fold_end" => {
            tryh!(h.meet_fold_end(n(&o[1]) as u32));
            Obs("ObsUnit".into())
        }
        "upd_gen" => match h.update_generation((n(&o[1]) as u32).into(), GenerationIdx::from(n(&o[2]) as u32 as usize)) {
            Ok(()) => Obs("ObsUnit".into()),
            Err(GenerationCompactificationError::TracePosPointsToNowhere(..)) => Obs("(ObsGenErr true)".into()),
            Err(_) => Obs("(ObsGenErr false)".into()),
        },
        _ => {
            let (p, cc) = h.subgraph_sizes();
            Obs(format!("(ObsSizes {} {})", p, cc))
        }
    }
}

fn mutate(t: &mut Vec<ExecutedState>, m: &J) {
    let k = m[0].as_str().unwrap_or("");
    if t.is_empty() && k != "push" {
        return;
    }
    match k {
        "par" => {
            let idxs: Vec<usize> = t.iter().enumerate().filter(|(_, s)| matches!(s, ExecutedState::Par(_))).map(|(i, _)| i).collect();
            if idxs.is_empty() { return; }
            let i = idxs[(n(&m[1]) as usize) % idxs.len()];
            t[i] = ExecutedState::Par(ParResult { left_size: n(&m[2]) as u32, right_size: n(&m[3]) as u32 });
        }
        "kind" => {
            let i = (n(&m[1]) as usize) % t.len();
            t[i] = state(&m[2]);
        }
        "push" => t.push(state(&m[1])),
        "trunc" => {
            let k2 = (n(&m[1]) as usize) % (t.len() + 1);
            t.truncate(k2);
        }
        "lore" | "lore_dup" | "lore_desc" => {
            let idxs: Vec<usize> = t.iter().enumerate().filter(|(_, s)| matches!(s, ExecutedState::Fold(_))).map(|(i, _)| i).collect();
            if idxs.is_empty() { return; }
            let i = idxs[(n(&m[1]) as usize) % idxs.len()];
            if let ExecutedState::Fold(f) = &mut t[i] {
                if f.lore.is_empty() { return; }
                if k == "lore_dup" {
                    let e = f.lore[0].clone();
                    f.lore.push(e);
                    return;
                }
                let j = (n(&m[2]) as usize) % f.lore.len();
                if k == "lore_desc" {
                    let want = n(&m[3]) as usize;
                    f.lore[j].subtraces_desc.resize(want, SubTraceDesc { begin_pos: 0.into(), subtrace_len: 0 });
                    return;
                }
                let v = n(&m[4]) as u32;
                let e = &mut f.lore[j];
                match m[3].as_str().unwrap_or("") {
                    "value_pos" => e.value_pos = v.into(),
                    "before_pos" => if !e.subtraces_desc.is_empty() { e.subtraces_desc[0].begin_pos = v.into() },
                    "before_len" => if !e.subtraces_desc.is_empty() { e.subtraces_desc[0].subtrace_len = v },
                    "after_pos" => if e.subtraces_desc.len() > 1 { e.subtraces_desc[1].begin_pos = v.into() },
                    _ => if e.subtraces_desc.len() > 1 { e.subtraces_desc[1].subtrace_len = v },
                }
            }
        }
        _ => {}
    }
}

fn main() {
    aquah::sim::quiet_panics();
    for line in std::io::stdin().lock().lines() {
        let line = match line { Ok(l) => l, Err(_) => break };
        if line.trim().is_empty() { continue; }
        let case: J = serde_json::from_str(&line).unwrap_or(J::Null);
        let mut results: Vec<Vec<ExecutedState>> = vec![];
        let mut terms = vec![];
        let mut classes = vec![];
        let mut infos = vec![];
        for round in case["rounds"].as_array().cloned().unwrap_or_default() {
            let get = |r: &J, results: &Vec<Vec<ExecutedState>>| -> Vec<ExecutedState> {
                match r.as_i64() {
                    Some(k) if k >= 0 && (k as usize) < results.len() => results[k as usize].clone(),
                    _ => vec![],
                }
            };
            let mut prev = get(&round["prev"], &results);
            let mut cur = get(&round["cur"], &results);
            for m in round["mut_prev"].as_array().cloned().unwrap_or_default() { mutate(&mut prev, &m); }
            for m in round["mut_cur"].as_array().cloned().unwrap_or_default() { mutate(&mut cur, &m); }
            let ops = round["ops"].as_array().cloned().unwrap_or_default();
            let (p2, c2) = (prev.clone(), cur.clone());
            let ops2 = ops.clone();
            let r = std::panic::catch_unwind(std::panic::AssertUnwindSafe(move || {
                let mut h = TraceHandler::from_trace(p2.into(), c2.into());
                let mut obs = vec![];
                let mut cls = "ok".to_string();
                let mut stopped = false;
                let mut done = 0usize;
                for o in &ops2 {
                    // a panic inside one op must still report the observations made so far
                    let step = std::panic::catch_unwind(std::panic::AssertUnwindSafe(|| exec_op(&mut h, o)));
                    match step {
                        Ok(StepOut::Obs(s)) => { obs.push(s); done += 1; }
                        Ok(StepOut::Stop(s, cl)) => { obs.push(s); cls = cl; stopped = true; break; }
                        Err(_) => { obs.push("ObsCrash".into()); cls = "crash".into(); stopped = true; break; }
                    }
                }
                let res: Option<Vec<ExecutedState>> = if stopped { None } else { Some(h.into_result_trace().to_vec()) };
                (obs, res, cls, done)
            }));
            let (obs, res, cls, done) = match r {
                Ok(x) => x,
                Err(_) => (vec!["ObsCrash".to_string()], None, "crash-outside-op".to_string(), 0),
            };
            let term = format!(
                "{{| hc_prev := {}; hc_cur := {}; hc_ops := {}; hc_obs := {}; hc_result := {} |}}",
                p_trace(&prev),
                p_trace(&cur),
                c::list(ops.iter().map(p_op)),
                c::list(obs.clone()),
                c::opt(res.as_ref().map(|t| p_trace(t)))
            );
            terms.push(term);
            classes.push(cls.clone());
            infos.push(serde_json::json!({"prev_len": prev.len(), "cur_len": cur.len(), "ops": ops.len(), "done": done, "class": cls,
                                          "result_len": res.as_ref().map(|t| t.len())}));
            results.push(res.unwrap_or_default());
        }
        println!("{}", serde_json::json!({"coq": terms, "classes": classes, "info": infos}));
    }
}
