(* props/C15.v -- a peer cannot present two incompatible versions of its own results.
   Only pinned statements, [exact], non-vacuity examples and Print Assumptions. *)
From Aqua Require Import Base RunTop RunTopProofs Sig SigProofs.
Open Scope N_scope.
Open Scope string_scope.

(* the whole property over the verifier, for every key-validity predicate, every pair of data,
   every salt and every choice of hash-map iteration orders *)
Theorem C15 : forall key_ok : string -> bool, C15_full key_ok.
Proof. exact C15_holds. Qed.

(* its parts, pinned one by one *)
Theorem C15_reject : forall key_ok : string -> bool, C15_reject_stmt key_ok.
Proof. exact SigProofs.C15_reject. Qed.

Theorem C15_keep_larger : forall key_ok : string -> bool, C15_keep_larger_stmt key_ok.
Proof. exact SigProofs.C15_keep_larger. Qed.

Theorem C15_only_equivocation : forall key_ok : string -> bool, C15_only_equivocation_stmt key_ok.
Proof. exact SigProofs.C15_only_equivocation. Qed.

Theorem C15_accept : forall key_ok : string -> bool, C15_accept_stmt key_ok.
Proof. exact SigProofs.C15_accept. Qed.

Theorem C15_order : forall key_ok : string -> bool, C15_order_stmt key_ok.
Proof. exact SigProofs.C15_order. Qed.

(* at the level of the run: preparation error DataSignatureCheckError, previous data returned *)
Theorem C15_reject_run : C15_reject_run_stmt.
Proof. exact SigProofs.C15_reject_run. Qed.

(* the multiset facts the verdict rests on, for all lists *)
Theorem C15_multiset_facts :
  (forall a b, msub a b -> lenN a <= lenN b) /\
  (forall a b, msub a b -> lenN a = lenN b -> msub b a) /\
  (forall a b, meq a b -> sort_cids a = sort_cids b) /\
  (forall a b, msubb a b = true <-> msub a b) /\
  (forall ord a b, is_multisubset ord (to_count_map a) (to_count_map b) = true <-> msub b a) /\
  (forall l c n, In (c, n) (to_count_map l) -> 0 < n).
Proof.
  exact (conj (fun a b => msub_len a b) (conj (fun a b => msub_len_eq a b) (conj sort_canonical
        (conj msubb_spec (conj is_multisubset_spec count_map_positive))))).
Qed.

(* every iteration order is an order argument and vice versa *)
Theorem C15_iteration_orders :
  (forall (V : Type) ord (m : amap V), Permutation.Permutation (iterate ord m) m) /\
  (forall (V : Type) (m m' : amap V), NoDup (keys m) -> Permutation.Permutation m m' -> exists ord, iterate ord m = m').
Proof. exact (conj (fun V ord m => iterate_perm ord m) (fun V m m' => iterate_reaches m m')). Qed.

(* the error enumeration, the swap condition, the two sorts and the order of the calls in
   verification_step::verify are the ones found in /repo's sources today *)
Theorem C15_source_tie : dv_err_table_agrees = true /\ prep_table_agrees = true.
Proof. exact (conj dv_err_table_ok RunTopProofs.prep_table_ok). Qed.

(* ---------------- non-vacuity ---------------- *)
Definition all_ok (k : string) : bool := true.
Definition sA (l : list string) : sig := sign_cids "A" l "particle".
Definition sB (l : list string) : sig := sign_cids "B" l "particle".

(* honest nested pair: A grew from {c1} to {c1, c2}; B unchanged; the larger set's signature is kept *)
Example C15_nested :
  let prev := MkData [("A", "c1"); ("B", "d1")] [("A", sA ["c1"]); ("B", sB ["d1"])] in
  let cur := MkData [("B", "d1"); ("A", "c2"); ("A", "c1")] [("B", sB ["d1"]); ("A", sA ["c2"; "c1"])] in
  verification_step all_ok id_orders true prev cur "particle" = ROk [("A", sA ["c1"; "c2"]); ("B", sB ["d1"])] /\
  sig_verify "A" ["c2"; "c1"] "particle" (sA ["c1"; "c2"]) = true.
Proof. vm_compute. split; reflexivity. Qed.

(* equivocation: A signed {c1, c2} on one history and {c1, c3} on another; equal sizes, different sets *)
Example C15_fork :
  let prev := MkData [("A", "c1"); ("A", "c2")] [("A", sA ["c1"; "c2"])] in
  let cur := MkData [("A", "c1"); ("A", "c3")] [("A", sA ["c1"; "c3"])] in
  dv_verification all_ok id_orders prev cur "particle" = DErr (MergeMismatch "A") /\
  verification_step all_ok id_orders true prev cur "particle" = RErr DataSignatureCheckError /\
  incomparableb (Mof prev "A") (Mof cur "A") = true.
Proof. vm_compute. repeat split. Qed.

(* multisets, not sets: {c, c} is not included in {c, d, e} although every element occurs there *)
Example C15_duplicates :
  let prev := MkData [("A", "c"); ("A", "c")] [("A", sA ["c"; "c"])] in
  let cur := MkData [("A", "c"); ("A", "d"); ("A", "e")] [("A", sA ["c"; "d"; "e"])] in
  let cur2 := MkData [("A", "c"); ("A", "d"); ("A", "c")] [("A", sA ["c"; "c"; "d"])] in
  dv_verification all_ok id_orders prev cur "particle" = DErr (MergeMismatch "A") /\
  dv_verification all_ok id_orders prev cur2 "particle" = DOk [("A", sA ["c"; "c"; "d"])].
Proof. vm_compute. split; reflexivity. Qed.

(* the iteration order changes which offender is named, never the verdict *)
Example C15_order_example :
  let prev := MkData [("A", "a1"); ("B", "b1")] [("A", sA ["a1"]); ("B", sB ["b1"])] in
  let cur := MkData [("A", "a2"); ("B", "b2")] [("A", sA ["a2"]); ("B", sB ["b2"])] in
  let o' := MkOrders [] [] [] ["B"] [] (fun _ => []) in
  dv_verification all_ok id_orders prev cur "particle" = DErr (MergeMismatch "A") /\
  dv_verification all_ok o' prev cur "particle" = DErr (MergeMismatch "B").
Proof. vm_compute. split; reflexivity. Qed.

(* the run-level statement has an instance: a world that reaches the verification stage *)
Example C15_run_nonvacuous :
  let prev := MkData [("A", "c1"); ("A", "c2")] [("A", sA ["c1"; "c2"])] in
  let cur := MkData [("A", "c1"); ("A", "c3")] [("A", sA ["c1"; "c3"])] in
  let w := {| w_air_len := 10; w_cur_len := 20; w_prev_empty := false; w_prev_env := ROk tt;
              w_cur_env := ROk min_as_version; w_prev_inner := ROk tt; w_cur_inner := ROk tt;
              w_verify := forget (verification_step all_ok id_orders true prev cur "particle");
              w_parse_air := ROk tt; w_call_results := ROk []; w_keypair := ROk tt; w_rest := 7%nat |} in
  execute_air nat unlimited w = Failed DataSignatureCheckError None no_flags /\
  prep_err_code DataSignatureCheckError = 9%Z.
Proof. vm_compute. split; reflexivity. Qed.

Print Assumptions C15.
Print Assumptions C15_reject.
Print Assumptions C15_keep_larger.
Print Assumptions C15_only_equivocation.
Print Assumptions C15_accept.
Print Assumptions C15_order.
Print Assumptions C15_reject_run.
Print Assumptions C15_multiset_facts.
Print Assumptions C15_iteration_orders.
Print Assumptions C15_source_tie.
