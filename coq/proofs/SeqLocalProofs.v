(* SeqLocalProofs.v -- the single-peer theorem of C16 for straight-line scripts (model/SeqLocal.v:
   C16_local_linear_stmt): the executor model iterated on one peer requests the calls of the sequential
   reading one by one.

   Plan.  [lin] is the reading of a straight-line script with a CREDIT: the first [k] calls are answered, the
   next one is requested under the id [id] and the evaluation is stuck there; it also says which states the run
   leaves in the trace.  [exec_lin]: one run of [exec] whose previous trace is what [lin (k-1)] produced (and
   whose call results answer its pending request) produces what [lin k] says.  [lin_reading]: [lin] with
   enough credit is the reading.  The rounds of [local_rounds] are then [lin 0], [lin 1], ... *)
From Coq Require Import Lia.
From Aqua Require Import Base Json Air Trace Handler Values Scalars Lens Exec RunExec ExecStreams SeqSem SeqFrag SeqLocal JsonFacts.
Open Scope N_scope.
Open Scope list_scope.

(* ------------------------------------------------------------------------------------------ *)
(* scalars at depth 0 *)

Definition cell0 (v : vagg) : list (cell vagg) := [{| c_depth := 0; c_value := Some v |}].

(* the matrix holds exactly the variables of the reading, each as one cell of depth 0 *)
Definition scal_rel (m : matrix vagg) (vs : vars_t) : Prop :=
  m_depth vagg m = 0 /\ m_allowed vagg m = [0] /\
  forall n,
    match assoc vs n with
    | Some (Some j) => exists v, cells_get vagg (m_cells vagg m) n = Some (cell0 v) /\ va_result v = j
    | Some None => False
    | None => cells_get vagg (m_cells vagg m) n = None
    end.

Lemma cells_get_put_same : forall cs n v, cells_get vagg (cells_put vagg cs n v) n = Some v.
Proof.
  induction cs as [|[m x] r IH]; intros n v; simpl.
  - rewrite String.eqb_refl. reflexivity.
  - destruct (String.eqb m n) eqn:E; simpl; rewrite ?E; auto.
Qed.

Lemma cells_get_put_other : forall cs n n' v, n <> n' -> cells_get vagg (cells_put vagg cs n v) n' = cells_get vagg cs n'.
Proof.
  induction cs as [|[m x] r IH]; intros n n' v Hne; simpl.
  - destruct (String.eqb n n') eqn:E; auto. apply String.eqb_eq in E. congruence.
  - destruct (String.eqb m n) eqn:E; simpl.
    + apply String.eqb_eq in E. subst m. destruct (String.eqb n n') eqn:E2; auto.
      apply String.eqb_eq in E2. congruence.
    + destruct (String.eqb m n'); auto.
Qed.

Lemma assoc_set_var_same : forall vs n j, assoc (set_var vs n j) n = Some (Some j).
Proof.
  induction vs as [|[m x] r IH]; intros n j; simpl.
  - rewrite String.eqb_refl. reflexivity.
  - destruct (String.eqb m n) eqn:E; simpl; rewrite ?E; auto.
Qed.

Lemma assoc_set_var_other : forall vs n n' j, n <> n' -> assoc (set_var vs n j) n' = assoc vs n'.
Proof.
  induction vs as [|[m x] r IH]; intros n n' j Hne; simpl.
  - destruct (String.eqb n n') eqn:E; auto. apply String.eqb_eq in E. congruence.
  - destruct (String.eqb m n) eqn:E; simpl.
    + apply String.eqb_eq in E. subst m. destruct (String.eqb n n') eqn:E2; auto.
      apply String.eqb_eq in E2. congruence.
    + destruct (String.eqb m n'); auto.
Qed.

Lemma scal_get_found : forall m vs n j,
    scal_rel m vs -> assoc vs n = Some (Some j) ->
    exists v, Scalars.get_value vagg m n = inl (Some v) /\ va_result v = j.
Proof.
  intros m vs n j (Hd & Ha & H) E. specialize (H n). rewrite E in H. destruct H as (v & Hc & Hv).
  exists v. split; auto. unfold Scalars.get_value. rewrite Hc. unfold cell0. cbn. rewrite Ha. reflexivity.
Qed.

Lemma scal_get_missing : forall m vs n,
    scal_rel m vs -> assoc vs n = None -> Scalars.get_value vagg m n = inr (SmVariableNotFound n).
Proof.
  intros m vs n (Hd & Ha & H) E. specialize (H n). rewrite E in H.
  unfold Scalars.get_value. rewrite H. reflexivity.
Qed.

Lemma scal_no_uninit : forall m vs n, scal_rel m vs -> assoc vs n <> Some None.
Proof. intros m vs n (_ & _ & H) E. specialize (H n). rewrite E in H. exact H. Qed.

(* binding a fresh name *)
Lemma scal_set_fresh : forall m vs n v,
    scal_rel m vs -> assoc vs n = None ->
    exists m', Scalars.set_value vagg m n v = inl (m', false) /\ scal_rel m' (set_var vs n (va_result v)).
Proof.
  intros m vs n v (Hd & Ha & H) E. pose proof (H n) as Hn. rewrite E in Hn.
  unfold Scalars.set_value. rewrite Hn. eexists. split; [reflexivity|].
  split; [exact Hd|]. split; [exact Ha|]. cbn [m_cells m_depth]. intros n'.
  destruct (String.eqb n n') eqn:En.
  - apply String.eqb_eq in En. subst n'. rewrite assoc_set_var_same. exists v. split; auto.
    rewrite cells_get_put_same. rewrite Hd. reflexivity.
  - assert (n <> n') by (intro; subst; rewrite String.eqb_refl in En; discriminate).
    rewrite assoc_set_var_other by assumption. rewrite cells_get_put_other by assumption. apply H.
Qed.

(* ------------------------------------------------------------------------------------------ *)
(* the trace handler on a trace of call states, with empty current data *)

(* the previous slider has [P] left to hand out, the current slider is empty, the result is [res] *)
Definition hrel (h : handler cid) (P res : list (state cid)) : Prop :=
  exists T q n2p n2c,
    h = {| h_keeper := {| k_prev := {| s_trace := T; s_pos := q; s_len := len_N T; s_seen := q |};
                          k_cur := slider_new cid [];
                          k_new_to_prev := n2p; k_new_to_cur := n2c; k_result := res |};
           h_pars := []; h_folds := [] |} /\
    q <= len_N T /\ skipn (N.to_nat q) T = P.

Lemma skipn_cons_nth : forall A (l : list A) n x r,
    skipn n l = x :: r -> nth_error l n = Some x /\ skipn (S n) l = r /\ (n < length l)%nat.
Proof.
  induction l as [|y l IH]; intros n x r H.
  - destruct n; simpl in H; discriminate.
  - destruct n; simpl in H.
    + inversion H; subst. simpl. repeat split; auto. lia.
    + destruct (IH _ _ _ H) as (H1 & H2 & H3). simpl. repeat split; auto. lia.
Qed.

Lemma skipn_nil_len : forall A (l : list A) n, skipn n l = [] -> (length l <= n)%nat.
Proof.
  induction l as [|y l IH]; intros n H; simpl; [lia|].
  destruct n; simpl in H; [discriminate|]. apply IH in H. lia.
Qed.

Lemma hrel_from : forall T, hrel (handler_from cid T []) T [].
Proof.
  intros T. exists T, 0, [], []. unfold handler_from, keeper_from, slider_new. cbn. repeat split; auto. lia.
Qed.

Definition pslider (T : list (state cid)) (q : N) : slider cid :=
  {| s_trace := T; s_pos := q; s_len := len_N T; s_seen := q |}.

Lemma next_state_cur_empty : next_state cid (slider_new cid []) = (None, slider_new cid []).
Proof. reflexivity. Qed.

Lemma next_state_prev_end : forall T, next_state cid (pslider T (len_N T)) = (None, pslider T (len_N T)).
Proof. intros T. unfold next_state, pslider. cbn. rewrite N.leb_refl. reflexivity. Qed.

Lemma next_state_prev_some : forall T q st,
    nth_error T (N.to_nat q) = Some st -> q < len_N T ->
    next_state cid (pslider T q) = (Some st, pslider T (q + 1)).
Proof.
  intros T q st Hn Hq. unfold next_state, pslider. cbn.
  assert (E1 : (len_N T <=? q) = false) by (apply N.leb_gt; exact Hq). rewrite E1. cbn.
  unfold Trace.nth_N. assert (E2 : (q <? N.of_nat (length T)) = true) by (apply N.ltb_lt; exact Hq).
  rewrite E2, Hn. reflexivity.
Qed.

Lemma meet_call_start_nil : forall h res,
    hrel h [] res -> meet_call_start cid cid_eqb h = Ok (CallNotMet cid, h).
Proof.
  intros h res (T & q & a & b & -> & Hq & Hs).
  apply skipn_nil_len in Hs.
  assert (Hq' : q = len_N T) by (unfold len_N in *; lia). subst q.
  unfold meet_call_start, try_merge_next_state_as_call, next_states. cbn [h_keeper k_prev k_cur].
  fold (pslider T (len_N T)). rewrite next_state_prev_end, next_state_cur_empty. reflexivity.
Qed.

Lemma meet_call_start_cons : forall h c P res,
    hrel h (SCall c :: P) res ->
    exists h', meet_call_start cid cid_eqb h = Ok (CallMet cid c (len_N res) (PreviousData), h') /\ hrel h' P res.
Proof.
  intros h c P res (T & q & a & b & -> & Hq & Hs).
  destruct (skipn_cons_nth _ _ _ _ _ Hs) as (Hn & Hr & Hlt).
  assert (Hq' : q < len_N T) by (unfold len_N; lia).
  unfold meet_call_start, try_merge_next_state_as_call, next_states. cbn [h_keeper k_prev k_cur].
  fold (pslider T q). rewrite (next_state_prev_some _ _ _ Hn Hq'), next_state_cur_empty.
  unfold prepare_call_result, prepare_positions_mapping, pslider. cbn.
  assert (E3 : (q + 1 =? 0) = false) by (apply N.eqb_neq; lia). rewrite E3. cbn.
  eexists. split; [reflexivity|].
  exists T, (q + 1). eexists. eexists. split; [reflexivity|]. split; [lia|].
  replace (N.to_nat (q + 1)) with (S (N.to_nat q)) by lia. exact Hr.
Qed.

Lemma meet_call_end_hrel : forall h c P res,
    hrel h P res -> hrel (meet_call_end cid h c) P (res ++ [SCall c]).
Proof.
  intros h c P res (T & q & a & b & -> & Hq & Hs).
  exists T, q, a, b. unfold meet_call_end, with_keeper, push_state, with_result. cbn. repeat split; auto.
Qed.

Lemma hrel_result : forall h P res, hrel h P res -> result_trace cid h = res.
Proof. intros h P res (T & q & a & b & -> & _). reflexivity. Qed.

(* ------------------------------------------------------------------------------------------ *)
(* content ids of the shapes a call produces *)

Lemma tetraplet_eqb_refl : forall t, tetraplet_eqb t t = true.
Proof. intros t. unfold tetraplet_eqb. rewrite !String.eqb_refl. reflexivity. Qed.

Lemma list_json_eqb_refl : forall l, list_eqb json_eqb l l = true.
Proof. induction l as [|x r IH]; simpl; auto. rewrite json_eqb_refl, IH. reflexivity. Qed.

Lemma cid_mem_track_same : forall c l, cid_eqb c c = true -> cid_mem c (cid_track c l) = true.
Proof.
  intros c l Hr. unfold cid_track. destruct (cid_mem c l) eqn:E; auto.
  unfold cid_mem. rewrite existsb_app. simpl. rewrite Hr. rewrite orb_true_r. reflexivity.
Qed.

Lemma cid_mem_track_mono : forall c d l, cid_mem c l = true -> cid_mem c (cid_track d l) = true.
Proof.
  intros c d l H. unfold cid_track. destruct (cid_mem d l); auto.
  unfold cid_mem in *. rewrite existsb_app, H. reflexivity.
Qed.

Lemma union_cids_nil : forall l, union_cids l [] = l.
Proof. reflexivity. Qed.

(* ------------------------------------------------------------------------------------------ *)
Section Local.
  Variable svc : string -> string -> string -> list json -> service_answer.
  Variable p : string.
  Variable ts ttl : N.

  Definition params : run_params := {| rp_init_peer := p; rp_current_peer := p; rp_timestamp := ts; rp_ttl := ttl |}.
  Definition tet (s f : string) : tetraplet := {| tp_peer := p; tp_service := s; tp_function := f; tp_lens := "" |}.
  Definition not_json_msg : string := "<msg:service result is not JSON>".
  Definition senv (vs : vars_t) : env := {| vars := vs; iters := [] |}.

  (* inl: the result of a successful call; inr: the CallServiceFailed value of a failed one *)
  Definition answered_value (a : service_answer) : json + json :=
    if negb (sa_ret_code a =? 0)%Z then inr (call_service_failed_value (sa_ret_code a) (sa_text a))
    else match sa_parsed a with
         | None => inr (call_service_failed_value 2147483647 not_json_msg)
         | Some r => inl r
         end.
  Definition answered_status (a : service_answer) : status :=
    if negb (sa_ret_code a =? 0)%Z then SeqSem.Failed (FService (sa_ret_code a))
    else match sa_parsed a with None => SeqSem.Failed FNotJson | Some _ => Done end.
  Definition svc_cid (j : json) (args : list json) (s f : string) : cid :=
    CService (CValue j) (CArgs args) (CTetraplet (tet s f)).
  (* the state an answered call leaves in the trace *)
  Definition done_state (s f : string) (args : list json) (out : call_output) (a : service_answer) : call_result cid :=
    match answered_value a with
    | inr fv => Trace.Failed (svc_cid fv args s f)
    | inl r => match out with
               | OutNone => Executed (VRUnused (CValue r))
               | _ => Executed (VRScalar (svc_cid r args s f))
               end
    end.

  (* the reading of a straight-line script with a credit of [k] answered calls *)
  Record lout := { l_states : list (state cid); l_req : option (N * call_ev); l_vars : vars_t; l_st : status; l_credit : nat }.
  Definition lleaf (vs : vars_t) (st : status) (k : nat) : lout :=
    {| l_states := []; l_req := None; l_vars := vs; l_st := st; l_credit := k |}.

  Definition lcall (k : nat) (id : N) (vs : vars_t) (s f : string) (args : list value) (out : call_output) : option lout :=
    match SeqSem.resolve_args p ts ttl (senv vs) args with
    | ROk js =>
        let c := {| c_peer := p; c_service := s; c_fn := f; c_args := js |} in
        match k with
        | O => Some {| l_states := [SCall (RequestSentBy (SPeerCall p id))]; l_req := Some (id, c); l_vars := vs;
                       l_st := Stuck; l_credit := 0 |}
        | S k' =>
            let a := svc p s f js in
            Some {| l_states := [SCall (done_state s f js out a)]; l_req := None;
                    l_vars := match answered_value a, out with
                              | inl r, OutScalar x => set_var vs (v_name x) r
                              | _, _ => vs
                              end;
                    l_st := answered_status a; l_credit := k' |}
        end
    | RStuck => Some (lleaf vs Stuck k)
    | _ => None
    end.

  Definition lthen (la : lout) (lb : option lout) : option lout :=
    match lb with
    | Some lb => Some {| l_states := l_states la ++ l_states lb; l_req := l_req lb; l_vars := l_vars lb;
                         l_st := l_st lb; l_credit := l_credit lb |}
    | None => None
    end.

  Fixpoint lin (fuel : nat) (k : nat) (id : N) (vs : vars_t) (i : instr) {struct fuel} : option lout :=
    match fuel with
    | O => None
    | S fuel' =>
      match i with
      | INull => Some (lleaf vs Done k)
      | INever => Some (lleaf vs Stuck k)
      | ICall _ t args out =>
          match t_service t, t_function t with
          | SLiteral s, SLiteral f => lcall k id vs s f args out
          | _, _ => None
          end
      | IAp _ a (ApScalar x) =>
          match SeqSem.resolve_ap p ts ttl (senv vs) a with
          | ROk j => Some (lleaf (set_var vs (v_name x) j) Done k)
          | RStuck => Some (lleaf vs Stuck k)
          | _ => None
          end
      | ISeq a b =>
          match lin fuel' k id vs a with
          | Some la => match l_st la with
                       | Done => lthen la (lin fuel' (l_credit la) id (l_vars la) b)
                       | _ => Some la
                       end
          | None => None
          end
      | IXor a b =>
          match lin fuel' k id vs a with
          | Some la => match l_st la with
                       | SeqSem.Failed _ => lthen la (lin fuel' (l_credit la) id (l_vars la) b)
                       | _ => Some la
                       end
          | None => None
          end
      | IMatch _ l r body | IMisMatch _ l r body =>
          let want := match i with IMatch _ _ _ _ => true | _ => false end in
          match SeqSem.resolve_value p ts ttl (senv vs) l with
          | ROk lv =>
              match SeqSem.resolve_value p ts ttl (senv vs) r with
              | ROk rv => if Bool.eqb (json_eqb lv rv) want then lin fuel' k id vs body
                          else Some (lleaf vs (SeqSem.Failed (if want then FMatch else FMismatch)) k)
              | RStuck => Some (lleaf vs Stuck k)
              | _ => None
              end
          | RStuck => Some (lleaf vs Stuck k)
          | _ => None
          end
      | IFail _ (FLiteral code _) => Some (lleaf vs (SeqSem.Failed (FUser code)) k)
      | _ => None
      end
    end.

  (* ---------------------------------------------------------------------------------------- *)
  (* resolution: the executor on a context that holds the reading's variables *)

  Definition Rres (x : ctx) (vs : vars_t) : Prop :=
    x_params x = params /\ scal_rel (x_scalars x) vs /\ x_iterables x = [].

  Lemma lookup_senv : forall vs n,
      lookup (senv vs) n = match assoc vs n with Some (Some j) => ROk j | Some None => RFail FUninit | None => RStuck end.
  Proof. intros vs n. unfold lookup, senv. cbn. reflexivity. Qed.

  Lemma scalars_get_value_found : forall x vs n j,
      Rres x vs -> assoc vs n = Some (Some j) ->
      exists v, scalars_get_value x n = POk (SRValue v) /\ va_result v = j.
  Proof.
    intros x vs n j (Hp & Hs & Hi) E. destruct (scal_get_found _ _ _ _ Hs E) as (v & Hg & Hv).
    exists v. split; auto. unfold scalars_get_value. rewrite Hg, Hi. reflexivity.
  Qed.

  Lemma scalars_get_value_missing : forall x vs n,
      Rres x vs -> assoc vs n = None -> scalars_get_value x n = PErr (ECatch (CVariableNotFound n)).
  Proof.
    intros x vs n (Hp & Hs & Hi) E. unfold scalars_get_value.
    rewrite (scal_get_missing _ _ _ Hs E), Hi. reflexivity.
  Qed.

  Lemma resolve_value_sim : forall x vs v,
      Rres x vs -> lin_value v = true ->
      match SeqSem.resolve_value p ts ttl (senv vs) v with
      | ROk j => exists tets pr, Exec.resolve_value x v = POk (j, tets, pr)
      | RStuck => exists n, Exec.resolve_value x v = PErr (ECatch (CVariableNotFound n))
      | _ => False
      end.
  Proof.
    intros x vs v R Hv. pose proof R as (Hp & Hs & Hi).
    destruct v; simpl in Hv; try discriminate; cbn [SeqSem.resolve_value Exec.resolve_value];
      unfold resolve_const, init_peer; rewrite ?Hp; cbn [rp_init_peer rp_timestamp rp_ttl params].
    - eexists. eexists. reflexivity.
    - eexists. eexists. reflexivity.
    - eexists. eexists. reflexivity.
    - eexists. eexists. reflexivity.
    - destruct n; eexists; eexists; reflexivity.
    - eexists. eexists. reflexivity.
    - eexists. eexists. reflexivity.
    - rewrite lookup_senv. unfold resolve_scalar.
      destruct (assoc vs (v_name v)) as [[j|]|] eqn:E.
      + destruct (scalars_get_value_found _ _ _ _ R E) as (a & Hg & Ha). rewrite Hg. cbn. rewrite Ha.
        eexists. eexists. reflexivity.
      + exfalso. exact (scal_no_uninit _ _ _ Hs E).
      + rewrite (scalars_get_value_missing _ _ _ R E). cbn. eexists. reflexivity.
  Qed.

  Lemma collect_args_sim : forall x vs args,
      Rres x vs -> forallb lin_value args = true ->
      match SeqSem.resolve_args p ts ttl (senv vs) args with
      | ROk js => exists tets, collect_args x args = POk (js, tets)
      | RStuck => exists n, collect_args x args = PErr (ECatch (CVariableNotFound n))
      | _ => False
      end.
  Proof.
    intros x vs args R. induction args as [|a r IH]; intros H.
    - simpl. eexists. reflexivity.
    - simpl in H. apply andb_prop in H. destruct H as [Ha Hr]. specialize (IH Hr).
      pose proof (resolve_value_sim x vs a R Ha) as Hv.
      cbn [SeqSem.resolve_args collect_args].
      destruct (SeqSem.resolve_value p ts ttl (senv vs) a) as [j| |w|o]; cbn [rbind]; try contradiction.
      + destruct Hv as (tets & pr & Hv). rewrite Hv. cbn [pbind].
        destruct (SeqSem.resolve_args p ts ttl (senv vs) r) as [js| |w|o]; cbn [rbind]; try contradiction.
        * destruct IH as (tt' & IH). rewrite IH. cbn. eexists. reflexivity.
        * destruct IH as (n & IH). rewrite IH. cbn. eexists. reflexivity.
      + destruct Hv as (n & Hv). rewrite Hv. cbn. eexists. reflexivity.
  Qed.

  (* ---------------------------------------------------------------------------------------- *)
  (* the invariant of a run *)

  Record view := {
    w_vars : vars_t;                       (* the reading's variables *)
    w_prev : list (state cid);             (* what the previous slider still holds *)
    w_res : list (state cid);              (* the result trace so far *)
    w_reqs : list (N * call_ev);           (* the requests so far *)
    w_lcid : N;
    w_rs : list (N * service_answer)       (* the call results not consumed yet *)
  }.

  (* the stores hold what a state refers to *)
  Definition covered (cs : cid_state) (st : state cid) : Prop :=
    match st with
    | SCall (Executed (VRScalar c)) | SCall (Trace.Failed c) =>
        exists j a t, c = CService (CValue j) (CArgs a) (CTetraplet t) /\
          cid_mem c (cs_services cs) = true /\ cid_mem (CValue j) (cs_values cs) = true /\
          cid_mem (CTetraplet t) (cs_tetraplets cs) = true
    | _ => True
    end.

  Definition Inv (x : ctx) (w : view) : Prop :=
    Rres x (w_vars w) /\
    x_next_peers x = [] /\
    hrel (x_handler x) (w_prev w) (w_res w) /\
    map (fun r => (fst r, call_of_request p r)) (x_requests x) = w_reqs w /\
    x_lcid x = w_lcid w /\ x_call_results x = w_rs w /\
    Forall (covered (x_cids x)) (w_prev w) /\ Forall (covered (x_cids x)) (w_res w) /\
    x_ext x = ext_new.                      (* no stream, stream map or canon map ever appears *)

  Definition local_peer (pa : peer_arg) : bool :=
    match pa with PInitPeerId => true | PLiteral q => String.eqb q p | _ => false end.

  Lemma resolve_triplet_local : forall x t s f,
      x_params x = params -> local_peer (t_peer t) = true -> t_service t = SLiteral s -> t_function t = SLiteral f ->
      resolve_triplet x t = POk (tet s f).
  Proof.
    intros x t s f Hp Hl Hs Hf. unfold resolve_triplet. rewrite Hs, Hf.
    destruct (t_peer t); simpl in Hl; try discriminate; cbn.
    - unfold init_peer. rewrite Hp. reflexivity.
    - apply String.eqb_eq in Hl. subst. reflexivity.
  Qed.

  Definition fresh_out (vs : vars_t) (out : call_output) : Prop :=
    match out with OutScalar v => assoc vs (v_name v) = None | OutNone => True | OutStream _ => False end.

  Lemma check_output_name_fresh : forall x vs out,
      Rres x vs -> fresh_out vs out -> check_output_name x out = POk tt.
  Proof.
    intros x vs out R H. destruct out; simpl in *; try contradiction; auto.
    rewrite (scalars_get_value_missing _ _ _ R H). reflexivity.
  Qed.

  Lemma current_peer_p : forall x, x_params x = params -> current_peer x = p.
  Proof. intros x H. unfold current_peer. rewrite H. reflexivity. Qed.

  (* stores only grow *)
  Definition stores_le (a b : cid_state) : Prop :=
    (forall c, cid_mem c (cs_services a) = true -> cid_mem c (cs_services b) = true) /\
    (forall c, cid_mem c (cs_values a) = true -> cid_mem c (cs_values b) = true) /\
    (forall c, cid_mem c (cs_tetraplets a) = true -> cid_mem c (cs_tetraplets b) = true).

  Lemma covered_mono : forall a b st, stores_le a b -> covered a st -> covered b st.
  Proof.
    intros a b st (H1 & H2 & H3) H. destruct st as [| c | | |]; auto. destruct c as [| v | c]; auto.
    - destruct v; auto. destruct H as (j & ar & t & -> & A & B & C). exists j, ar, t. repeat split; auto.
    - destruct H as (j & ar & t & -> & A & B & C). exists j, ar, t. repeat split; auto.
  Qed.

  Lemma Forall_covered_mono : forall a b l, stores_le a b -> Forall (covered a) l -> Forall (covered b) l.
  Proof. intros a b l H F. eapply Forall_impl; [|exact F]. intros st. apply covered_mono. exact H. Qed.

  (* the stores after a service result was tracked *)
  Definition tracked_cids (cs : cid_state) (j : json) (t : tetraplet) (ah : cid) : cid_state :=
    {| cs_values := cid_track (CValue j) (cs_values cs); cs_tetraplets := cid_track (CTetraplet t) (cs_tetraplets cs);
       cs_canon_elems := cs_canon_elems cs; cs_canon_results := cs_canon_results cs;
       cs_services := cid_track (CService (CValue j) ah (CTetraplet t)) (cs_services cs) |}.

  Lemma track_service_result_eq : forall x j t ah,
      track_service_result x j t ah =
      (set_cids x (tracked_cids (x_cids x) j t ah) (x_tracker x), CService (CValue j) ah (CTetraplet t)).
  Proof. reflexivity. Qed.

  Lemma tracked_le : forall cs j t ah, stores_le cs (tracked_cids cs j t ah).
  Proof. intros. repeat split; intros c H; unfold tracked_cids; cbn [cs_services cs_values cs_tetraplets]; apply cid_mem_track_mono; exact H. Qed.

  Lemma tracked_covers : forall cs j t a st,
      st = SCall (Executed (VRScalar (CService (CValue j) (CArgs a) (CTetraplet t)))) \/
      st = SCall (Trace.Failed (CService (CValue j) (CArgs a) (CTetraplet t))) \/
      (exists r, st = SCall (Executed (VRUnused r))) \/ (exists sd, st = SCall (RequestSentBy sd)) ->
      covered (tracked_cids cs j t (CArgs a)) st.
  Proof.
    intros cs j t a st H.
    assert (Hc : covered (tracked_cids cs j t (CArgs a)) (SCall (Trace.Failed (CService (CValue j) (CArgs a) (CTetraplet t))))).
    { exists j, a, t. split; [reflexivity|]. unfold tracked_cids. cbn [cs_services cs_values cs_tetraplets].
      repeat split; apply cid_mem_track_same; cbn [cid_eqb];
        rewrite ?json_eqb_refl, ?tetraplet_eqb_refl, ?list_json_eqb_refl; reflexivity. }
    destruct H as [-> | [-> | [(r & ->) | (sd & ->)]]]; cbn; auto.
  Qed.

  Lemma Rres_frame : forall x y vs,
      Rres x vs -> x_params y = x_params x -> x_scalars y = x_scalars x -> x_iterables y = x_iterables x -> Rres y vs.
  Proof. intros x y vs (A & B & C) H1 H2 H3. unfold Rres. rewrite H1, H2, H3. auto. Qed.

  Lemma Inv_intro : forall x w,
      Rres x (w_vars w) -> x_next_peers x = [] -> hrel (x_handler x) (w_prev w) (w_res w) ->
      map (fun r => (fst r, call_of_request p r)) (x_requests x) = w_reqs w ->
      x_lcid x = w_lcid w -> x_call_results x = w_rs w ->
      Forall (covered (x_cids x)) (w_prev w) -> Forall (covered (x_cids x)) (w_res w) ->
      x_ext x = ext_new -> Inv x w.
  Proof. intros. unfold Inv. auto 12. Qed.

  (* contexts that differ only in what the invariant does not look at (error descriptors, completeness, tracker) *)
  Definition same_core (x y : ctx) : Prop :=
    x_params y = x_params x /\ x_scalars y = x_scalars x /\ x_iterables y = x_iterables x /\
    x_next_peers y = x_next_peers x /\ x_handler y = x_handler x /\ x_requests y = x_requests x /\
    x_lcid y = x_lcid x /\ x_call_results y = x_call_results x /\ x_cids y = x_cids x /\ x_ext y = x_ext x.

  Lemma Inv_core : forall x y w, same_core x y -> Inv x w -> Inv y w.
  Proof.
    intros x y w (A & B & C & D & E & F & G & H & I & J) (R & I1 & I2 & I3 & I4 & I5 & I6 & I7 & I8).
    apply Inv_intro; rewrite ?D, ?E, ?F, ?G, ?H, ?I, ?J; auto. eapply Rres_frame; eauto.
  Qed.

  Lemma ctx_set_errors_core : forall x e i t b, same_core x (ctx_set_errors x e i t b).
  Proof.
    intros. unfold ctx_set_errors.
    destruct (x_last_error_can_set x && affects_last_error e); cbn;
      match goal with |- context [if ?c then _ else _] => destruct c end; cbn; repeat split.
  Qed.

  Lemma ctx_set_errors_complete : forall x e i t b, x_complete (ctx_set_errors x e i t b) = x_complete x.
  Proof.
    intros. unfold ctx_set_errors.
    destruct (x_last_error_can_set x && affects_last_error e); cbn;
      match goal with |- context [if ?c then _ else _] => destruct c end; cbn; reflexivity.
  Qed.

  Lemma record_cid_p : forall x c, x_params x = params -> record_cid x p c = set_cids x (x_cids x) (x_tracker x ++ [c]).
  Proof. intros x c H. unfold record_cid. rewrite current_peer_p by exact H. rewrite String.eqb_refl. reflexivity. Qed.

  (* ---------------------------------------------------------------------------------------- *)
  (* one call instruction *)

  Lemma exec_call_stuck : forall x w text t s f args out,
      Inv x w -> local_peer (t_peer t) = true -> t_service t = SLiteral s -> t_function t = SLiteral f ->
      forallb lin_value args = true -> fresh_out (w_vars w) out ->
      SeqSem.resolve_args p ts ttl (senv (w_vars w)) args = RStuck ->
      w_prev w = [] ->
      exists x', exec_call x text t args out = XOk x' /\ Inv x' w /\ x_complete x' = false.
  Proof.
    intros x w text t s f args out HI Hl Hs Hf Ha Ho Hr Hp.
    pose proof HI as (R & Hnp & Hh & Hrq & Hlc & Hrs & Hc1 & Hc2 & Hext). pose proof R as (Hpar & _ & _).
    unfold exec_call. rewrite (resolve_triplet_local _ _ _ _ Hpar Hl Hs Hf). cbn [pbind].
    rewrite (check_output_name_fresh _ _ _ R Ho). cbn [pbind].
    unfold resolved_call_execute.
    pose proof (collect_args_sim x _ args R Ha) as Hca. rewrite Hr in Hca. destruct Hca as (n & Hca).
    rewrite Hca. cbn [is_joinable].
    rewrite Hp in Hh. rewrite (meet_call_start_nil _ _ Hh). cbn [with_handler fst snd].
    cbn [tet tp_peer]. rewrite current_peer_p by (cbn; exact Hpar). rewrite String.eqb_refl. cbn [negb is_joinable].
    eexists. split; [reflexivity|]. split; [|reflexivity].
    repeat split; cbn; try assumption; try apply R. rewrite Hp. exact Hh.
  Qed.

  Definition pending (id : N) : state cid := SCall (RequestSentBy (SPeerCall p id)).

  Lemma exec_call_fresh : forall x w text t s f args out js,
      Inv x w -> local_peer (t_peer t) = true -> t_service t = SLiteral s -> t_function t = SLiteral f ->
      forallb lin_value args = true -> fresh_out (w_vars w) out ->
      SeqSem.resolve_args p ts ttl (senv (w_vars w)) args = ROk js ->
      w_prev w = [] -> w_lcid w < 4294967295 ->
      exists x', exec_call x text t args out = XOk x' /\
                 Inv x' {| w_vars := w_vars w; w_prev := []; w_res := w_res w ++ [pending (w_lcid w + 1)];
                           w_reqs := w_reqs w ++ [(w_lcid w + 1, {| c_peer := p; c_service := s; c_fn := f; c_args := js |})];
                           w_lcid := w_lcid w + 1; w_rs := w_rs w |} /\
                 x_complete x' = false.
  Proof.
    intros x w text t s f args out js HI Hl Hs Hf Ha Ho Hr Hp Hlt.
    pose proof HI as (R & Hnp & Hh & Hrq & Hlc & Hrs & Hc1 & Hc2 & Hext). pose proof R as (Hpar & Hsc & Hit).
    unfold exec_call. rewrite (resolve_triplet_local _ _ _ _ Hpar Hl Hs Hf). cbn [pbind].
    rewrite (check_output_name_fresh _ _ _ R Ho). cbn [pbind].
    unfold resolved_call_execute.
    pose proof (collect_args_sim x _ args R Ha) as Hca. rewrite Hr in Hca. destruct Hca as (tets & Hca).
    rewrite Hca.
    rewrite Hp in Hh. rewrite (meet_call_start_nil _ _ Hh). cbn [with_handler fst snd].
    cbn [tet tp_peer tp_service tp_function]. rewrite current_peer_p by (cbn; exact Hpar). rewrite String.eqb_refl. cbn [negb].
    cbn [x_lcid set_handler]. rewrite Hlc.
    assert (E : (4294967295 <=? w_lcid w) = false) by (apply N.leb_gt; exact Hlt). rewrite E.
    eexists. split; [reflexivity|]. split; [|reflexivity].
    apply Inv_intro; cbn; try exact Hext.
    - eapply Rres_frame; [exact R | reflexivity..].
    - exact Hnp.
    - rewrite current_peer_p by (cbn; exact Hpar). apply meet_call_end_hrel. exact Hh.
    - rewrite map_app, Hrq. cbn. reflexivity.
    - reflexivity.
    - exact Hrs.
    - constructor.
    - apply Forall_app. split; [exact Hc2|]. constructor; [exact I|constructor].
  Qed.

  Definition bind_out (vs : vars_t) (out : call_output) (a : service_answer) : vars_t :=
    match answered_value a, out with inl r, OutScalar x => set_var vs (v_name x) r | _, _ => vs end.

  Definition call_outcome (a : service_answer) (r : xres) (x' : ctx) : Prop :=
    match answered_value a with
    | inl _ => r = XOk x'
    | inr _ => exists c, r = XErr (ECatch c) x'
    end.

  Definition after_call (w : view) (P' : list (state cid)) (s f : string) (js : list json) (out : call_output)
             (a : service_answer) (rs : list (N * service_answer)) : view :=
    {| w_vars := bind_out (w_vars w) out a; w_prev := P'; w_res := w_res w ++ [SCall (done_state s f js out a)];
       w_reqs := w_reqs w; w_lcid := w_lcid w; w_rs := rs |}.

  Lemma results_take_one : forall id a, results_take [(id, a)] id = (Some a, []).
  Proof. intros. cbn. rewrite N.eqb_refl. reflexivity. Qed.

  Lemma exec_call_answer : forall x w text t s f args out js a P',
      Inv x w -> local_peer (t_peer t) = true -> t_service t = SLiteral s -> t_function t = SLiteral f ->
      forallb lin_value args = true -> fresh_out (w_vars w) out ->
      SeqSem.resolve_args p ts ttl (senv (w_vars w)) args = ROk js ->
      w_prev w = pending (w_lcid w) :: P' -> w_rs w = [(w_lcid w, a)] ->
      exists x', call_outcome a (exec_call x text t args out) x' /\
                 Inv x' (after_call w P' s f js out a []) /\
                 (forall r, answered_value a = inl r -> x_complete x' = x_complete x).
  Proof.
    intros x w text t s f args out js a P' HI Hl Hs Hf Ha Ho Hr Hp Hrs'.
    pose proof HI as (R & Hnp & Hh & Hrq & Hlc & Hrs & Hc1 & Hc2 & Hext). pose proof R as (Hpar & Hsc & Hit).
    assert (HcP : Forall (covered (x_cids x)) P') by (rewrite Hp in Hc1; inversion Hc1; assumption).
    unfold exec_call. rewrite (resolve_triplet_local _ _ _ _ Hpar Hl Hs Hf). cbn [pbind].
    rewrite (check_output_name_fresh _ _ _ R Ho). cbn [pbind].
    unfold resolved_call_execute.
    pose proof (collect_args_sim x _ args R Ha) as Hca. rewrite Hr in Hca. destruct Hca as (tets & Hca).
    rewrite Hca.
    rewrite Hp in Hh. unfold pending in Hh. destruct (meet_call_start_cons _ _ _ _ Hh) as (h' & Hm & Hh').
    rewrite Hm. cbn [with_handler fst snd].
    unfold handle_prev_state.
    rewrite current_peer_p by (cbn; exact Hpar). rewrite String.eqb_refl.
    cbn [x_call_results set_handler]. rewrite Hrs, Hrs', results_take_one.
    unfold update_state_with_service_result, call_outcome, answered_value, call_service_success.
    destruct (negb (sa_ret_code a =? 0)%Z) eqn:Ecode.
    - (* the service failed *)
      rewrite track_service_result_eq. cbn [is_joinable tet tp_peer].
      rewrite record_cid_p by (cbn; exact Hpar).
      eexists. split; [eexists; reflexivity|]. split; [|intros r E; discriminate].
      eapply Inv_core; [apply ctx_set_errors_core|].
      unfold after_call, bind_out, done_state, answered_value. rewrite Ecode.
      apply Inv_intro; cbn; try exact Hext.
      + eapply Rres_frame; [exact R | reflexivity..].
      + exact Hnp.
      + apply meet_call_end_hrel. exact Hh'.
      + exact Hrq.
      + exact Hlc.
      + reflexivity.
      + eapply Forall_covered_mono; [apply tracked_le|]. exact HcP.
      + apply Forall_app. split.
        * eapply Forall_covered_mono; [apply tracked_le|]. exact Hc2.
        * constructor; [|constructor]. apply tracked_covers. right. left. reflexivity.
    - destruct (sa_parsed a) as [result|] eqn:Epar.
      + (* success *)
        unfold populate_from_service_result.
        destruct out as [v | v |]; [| contradiction |].
        * (* into a scalar *)
          rewrite track_service_result_eq. unfold set_scalar_value. cbn [x_scalars set_cids set_calls set_handler].
          simpl in Ho.
          destruct (scal_set_fresh _ _ (v_name v) (VAService result (tet s f) (trace_pos_of (set_calls (set_handler x h') (x_lcid (set_handler x h')) [] (x_requests (set_handler x h')))) (CService (CValue result) (CArgs js) (CTetraplet (tet s f)))) Hsc Ho) as (m' & Hset & Hrel').
          rewrite Hset. cbn [tet tp_peer]. rewrite record_cid_p by (cbn; exact Hpar).
          cbn [maybe_set_prev_state].
          eexists. split; [reflexivity|]. split; [|intros r E; reflexivity].
          unfold after_call, bind_out, done_state, answered_value. rewrite Ecode, Epar.
          apply Inv_intro; cbn; try exact Hext.
          -- unfold Rres; cbn. split; [exact Hpar|split; [exact Hrel'|exact Hit]].
          -- exact Hnp.
          -- apply meet_call_end_hrel. exact Hh'.
          -- exact Hrq.
          -- exact Hlc.
          -- reflexivity.
          -- eapply Forall_covered_mono; [apply tracked_le|]. exact HcP.
          -- apply Forall_app. split.
             ++ eapply Forall_covered_mono; [apply tracked_le|]. exact Hc2.
             ++ constructor; [|constructor]. apply tracked_covers. left. reflexivity.
        * (* no output *)
          cbn [maybe_set_prev_state].
          eexists. split; [reflexivity|]. split; [|intros r E; reflexivity].
          unfold after_call, bind_out, done_state, answered_value. rewrite Ecode, Epar.
          apply Inv_intro; cbn; try exact Hext.
          -- eapply Rres_frame; [exact R | reflexivity..].
          -- exact Hnp.
          -- apply meet_call_end_hrel. exact Hh'.
          -- exact Hrq.
          -- exact Hlc.
          -- reflexivity.
          -- exact HcP.
          -- apply Forall_app. split; [exact Hc2|]. constructor; [exact I|constructor].
      + (* the result is not JSON *)
        rewrite track_service_result_eq. cbn [is_joinable tet tp_peer].
        rewrite record_cid_p by (cbn; exact Hpar).
        eexists. split; [eexists; reflexivity|]. split; [|intros r E; discriminate].
        eapply Inv_core; [apply ctx_set_errors_core|].
        unfold after_call, bind_out, done_state, answered_value. rewrite Ecode, Epar.
        apply Inv_intro; cbn; try exact Hext.
        * eapply Rres_frame; [exact R | reflexivity..].
        * exact Hnp.
        * apply meet_call_end_hrel. exact Hh'.
        * exact Hrq.
        * exact Hlc.
        * reflexivity.
        * eapply Forall_covered_mono; [apply tracked_le|]. exact HcP.
        * apply Forall_app. split.
          -- eapply Forall_covered_mono; [apply tracked_le|]. exact Hc2.
          -- constructor; [|constructor]. apply tracked_covers. right. left. reflexivity.
  Qed.

  Lemma resolve_service_info_covered : forall x j a t,
      covered (x_cids x) (SCall (Trace.Failed (CService (CValue j) (CArgs a) (CTetraplet t)))) ->
      resolve_service_info x (CService (CValue j) (CArgs a) (CTetraplet t)) =
      POk {| si_value := j; si_tetraplet := t; si_arg_hash := CArgs a |}.
  Proof.
    intros x j a t (j' & a' & t' & E & A & B & C). inversion E; subst j' a' t'.
    unfold resolve_service_info. rewrite A, B, C. reflexivity.
  Qed.

  Lemma verify_call_same : forall a t, verify_call (CArgs a) t (CArgs a) t = POk tt.
  Proof. intros. unfold verify_call. cbn [cid_eqb]. rewrite list_json_eqb_refl, tetraplet_eqb_refl. reflexivity. Qed.

  Lemma exec_call_replay : forall x w text t s f args out js a P',
      Inv x w -> local_peer (t_peer t) = true -> t_service t = SLiteral s -> t_function t = SLiteral f ->
      forallb lin_value args = true -> fresh_out (w_vars w) out ->
      SeqSem.resolve_args p ts ttl (senv (w_vars w)) args = ROk js ->
      (-2147483648 <= sa_ret_code a <= 2147483647)%Z ->
      w_prev w = SCall (done_state s f js out a) :: P' ->
      exists x', call_outcome a (exec_call x text t args out) x' /\
                 Inv x' (after_call w P' s f js out a (w_rs w)) /\
                 (forall r, answered_value a = inl r -> x_complete x' = x_complete x).
  Proof.
    intros x w text t s f args out js a P' HI Hl Hs Hf Ha Ho Hr Hi32 Hp.
    pose proof HI as (R & Hnp & Hh & Hrq & Hlc & Hrs & Hc1 & Hc2 & Hext). pose proof R as (Hpar & Hsc & Hit).
    rewrite Hp in Hc1. inversion Hc1 as [|? ? Hcov HcP]; subst.
    unfold exec_call. rewrite (resolve_triplet_local _ _ _ _ Hpar Hl Hs Hf). cbn [pbind].
    rewrite (check_output_name_fresh _ _ _ R Ho). cbn [pbind].
    unfold resolved_call_execute.
    pose proof (collect_args_sim x _ args R Ha) as Hca. rewrite Hr in Hca. destruct Hca as (tets & Hca).
    rewrite Hca.
    rewrite Hp in Hh. destruct (meet_call_start_cons _ _ _ _ Hh) as (h' & Hm & Hh').
    rewrite Hm. cbn [with_handler fst snd].
    unfold call_outcome, after_call, bind_out. unfold done_state in *.
    destruct (answered_value a) as [r | fv] eqn:Eav.
    - destruct out as [v | v |]; [| contradiction |].
      + (* a scalar is set again *)
        unfold handle_prev_state, populate_from_data, svc_cid in *.
        rewrite resolve_service_info_covered by exact Hcov.
        cbn [pbind si_arg_hash si_tetraplet si_value]. rewrite verify_call_same. cbn [pbind].
        unfold set_scalar_value. cbn [x_scalars set_handler]. simpl in Ho.
        destruct (scal_set_fresh _ _ (v_name v) (VAService r (tet s f) (len_N (w_res w)) (CService (CValue r) (CArgs js) (CTetraplet (tet s f)))) Hsc Ho) as (m' & Hset & Hrel').
        rewrite Hset. cbn [tet tp_peer]. rewrite record_cid_p by (cbn; exact Hpar).
        cbn [maybe_set_prev_state].
        eexists. split; [reflexivity|]. split; [|intros r0 E; reflexivity].
        apply Inv_intro; cbn; try exact Hext.
        * unfold Rres; cbn. split; [exact Hpar|split; [exact Hrel'|exact Hit]].
        * exact Hnp.
        * apply meet_call_end_hrel. exact Hh'.
        * exact Hrq.
        * exact Hlc.
        * exact Hrs.
        * exact HcP.
        * apply Forall_app. split; [exact Hc2|]. constructor; [exact Hcov|constructor].
      + (* nothing to set *)
        unfold handle_prev_state, populate_from_data.
        cbn [maybe_set_prev_state].
        eexists. split; [reflexivity|]. split; [|intros r0 E; reflexivity].
        apply Inv_intro; cbn; try exact Hext.
        * eapply Rres_frame; [exact R | reflexivity..].
        * exact Hnp.
        * apply meet_call_end_hrel. exact Hh'.
        * exact Hrq.
        * exact Hlc.
        * exact Hrs.
        * exact HcP.
        * apply Forall_app. split; [exact Hc2|]. constructor; [exact I|constructor].
    - (* the failure is replayed *)
      assert (Hfv : exists c m, fv = call_service_failed_value c m /\ (-2147483648 <= c <= 2147483647)%Z).
      { unfold answered_value in Eav. destruct (negb (sa_ret_code a =? 0)%Z).
        - inversion Eav. eexists. eexists. split; [reflexivity|exact Hi32].
        - destruct (sa_parsed a); inversion Eav. eexists. eexists. split; [reflexivity|lia]. }
      destruct Hfv as (c & m & -> & Hc).
      unfold handle_prev_state, svc_cid in *.
      rewrite resolve_service_info_covered by exact Hcov.
      cbn [si_arg_hash si_tetraplet si_value]. rewrite verify_call_same.
      unfold call_service_failed_value. cbn [obj_get String.eqb Ascii.eqb Bool.eqb].
      assert (Er : ((-2147483648 <=? c) && (c <=? 2147483647))%Z = true).
      { apply andb_true_intro. split; apply Z.leb_le; lia. }
      rewrite Er. cbn [tet tp_peer]. rewrite record_cid_p by (cbn; exact Hpar).
      cbn [is_joinable].
      eexists. split; [eexists; reflexivity|]. split; [|intros r0 E; discriminate].
      eapply Inv_core; [apply ctx_set_errors_core|].
      apply Inv_intro; cbn; try exact Hext.
      + eapply Rres_frame; [exact R | reflexivity..].
      + exact Hnp.
      + apply meet_call_end_hrel. exact Hh'.
      + exact Hrq.
      + exact Hlc.
      + exact Hrs.
      + exact HcP.
      + apply Forall_app. split; [exact Hc2|]. constructor; [exact Hcov|constructor].
  Qed.

  (* ---------------------------------------------------------------------------------------- *)
  (* facts about [lin] *)

  Definition bump (l : lout) : lout :=
    {| l_states := l_states l; l_req := l_req l; l_vars := l_vars l; l_st := l_st l; l_credit := S (l_credit l) |}.

  (* a request is the end of the evaluation: stuck, no credit left *)
  Lemma lin_req_stuck : forall f k id vs i l r,
      lin f k id vs i = Some l -> l_req l = Some r -> l_st l = Stuck /\ l_credit l = O.
  Proof.
    induction f as [|f IH]; intros k id vs i l r H Hr; [discriminate|].
    destruct i; simpl in H; try discriminate.
    - (* call *)
      destruct (t_service t); try discriminate. destruct (t_function t); try discriminate.
      unfold lcall in H. destruct (resolve_args p ts ttl (senv vs) args); try discriminate.
      + destruct k; inversion H; subst; simpl in *; auto; discriminate.
      + inversion H; subst; simpl in Hr; discriminate.
    - (* ap *)
      destruct r0; try discriminate. destruct (resolve_ap p ts ttl (senv vs) a); try discriminate;
        inversion H; subst; simpl in Hr; discriminate.
    - (* seq *)
      destruct (lin f k id vs i1) as [la|] eqn:Ea; try discriminate.
      destruct (l_st la) eqn:Es; try (inversion H; subst; eapply IH; eauto; fail).
      unfold lthen in H. destruct (lin f (l_credit la) id (l_vars la) i2) as [lb|] eqn:Eb; try discriminate.
      inversion H; subst; simpl in *. eapply IH; eauto.
    - (* xor *)
      destruct (lin f k id vs i1) as [la|] eqn:Ea; try discriminate.
      destruct (l_st la) eqn:Es; try (inversion H; subst; eapply IH; eauto; fail).
      unfold lthen in H. destruct (lin f (l_credit la) id (l_vars la) i2) as [lb|] eqn:Eb; try discriminate.
      inversion H; subst; simpl in *. eapply IH; eauto.
    - (* match *)
      destruct (resolve_value p ts ttl (senv vs) l0); try discriminate;
        [|inversion H; subst; simpl in Hr; discriminate].
      destruct (resolve_value p ts ttl (senv vs) r0); try discriminate;
        [|inversion H; subst; simpl in Hr; discriminate].
      destruct (Bool.eqb (json_eqb a a0) true); [eapply IH; eauto | inversion H; subst; simpl in Hr; discriminate].
    - (* mismatch *)
      destruct (resolve_value p ts ttl (senv vs) l0); try discriminate;
        [|inversion H; subst; simpl in Hr; discriminate].
      destruct (resolve_value p ts ttl (senv vs) r0); try discriminate;
        [|inversion H; subst; simpl in Hr; discriminate].
      destruct (Bool.eqb (json_eqb a a0) false); [eapply IH; eauto | inversion H; subst; simpl in Hr; discriminate].
    - destruct f0; try discriminate. inversion H; subst; simpl in Hr; discriminate.
    - inversion H; subst; simpl in Hr; discriminate.
    - inversion H; subst; simpl in Hr; discriminate.
  Qed.

  (* without a request the evaluation does not depend on the id, and one more credit is one more left *)
  Lemma lin_more : forall f k id id' vs i l,
      lin f k id vs i = Some l -> l_req l = None -> lin f (S k) id' vs i = Some (bump l).
  Proof.
    induction f as [|f IH]; intros k id id' vs i l H Hr; [discriminate|].
    destruct i; simpl in H |- *; try discriminate.
    - (* call *)
      destruct (t_service t); try discriminate. destruct (t_function t); try discriminate.
      unfold lcall in *. destruct (resolve_args p ts ttl (senv vs) args); try discriminate.
      + destruct k; inversion H; subst; simpl in *; [discriminate | reflexivity].
      + inversion H; subst. reflexivity.
    - (* ap *)
      destruct r; try discriminate. destruct (resolve_ap p ts ttl (senv vs) a); try discriminate;
        inversion H; subst; reflexivity.
    - (* seq *)
      destruct (lin f k id vs i1) as [la|] eqn:Ea; try discriminate.
      destruct (l_st la) eqn:Es.
      + unfold lthen in H. destruct (lin f (l_credit la) id (l_vars la) i2) as [lb|] eqn:Eb; try discriminate.
        inversion H; subst; simpl in Hr.
        assert (Hra : l_req la = None).
        { destruct (l_req la) eqn:E; auto. destruct (lin_req_stuck _ _ _ _ _ _ _ Ea E) as [X _]. congruence. }
        rewrite (IH _ _ id' _ _ _ Ea Hra). simpl. rewrite Es.
        rewrite (IH _ _ id' _ _ _ Eb Hr). reflexivity.
      + inversion H; subst. rewrite (IH _ _ id' _ _ _ Ea Hr). simpl. rewrite Es. reflexivity.
      + inversion H; subst. rewrite (IH _ _ id' _ _ _ Ea Hr). simpl. rewrite Es. reflexivity.
      + inversion H; subst. rewrite (IH _ _ id' _ _ _ Ea Hr). simpl. rewrite Es. reflexivity.
    - (* xor *)
      destruct (lin f k id vs i1) as [la|] eqn:Ea; try discriminate.
      destruct (l_st la) eqn:Es.
      + inversion H; subst. rewrite (IH _ _ id' _ _ _ Ea Hr). simpl. rewrite Es. reflexivity.
      + inversion H; subst. rewrite (IH _ _ id' _ _ _ Ea Hr). simpl. rewrite Es. reflexivity.
      + inversion H; subst. rewrite (IH _ _ id' _ _ _ Ea Hr). simpl. rewrite Es. reflexivity.
      + unfold lthen in H. destruct (lin f (l_credit la) id (l_vars la) i2) as [lb|] eqn:Eb; try discriminate.
        inversion H; subst; simpl in Hr.
        assert (Hra : l_req la = None).
        { destruct (l_req la) eqn:E; auto. destruct (lin_req_stuck _ _ _ _ _ _ _ Ea E) as [X _]. congruence. }
        rewrite (IH _ _ id' _ _ _ Ea Hra). simpl. rewrite Es.
        rewrite (IH _ _ id' _ _ _ Eb Hr). reflexivity.
    - (* match *)
      destruct (resolve_value p ts ttl (senv vs) l0); try discriminate; [|inversion H; subst; reflexivity].
      destruct (resolve_value p ts ttl (senv vs) r); try discriminate; [|inversion H; subst; reflexivity].
      destruct (Bool.eqb (json_eqb a a0) true); [eapply IH; eauto | inversion H; subst; reflexivity].
    - (* mismatch *)
      destruct (resolve_value p ts ttl (senv vs) l0); try discriminate; [|inversion H; subst; reflexivity].
      destruct (resolve_value p ts ttl (senv vs) r); try discriminate; [|inversion H; subst; reflexivity].
      destruct (Bool.eqb (json_eqb a a0) false); [eapply IH; eauto | inversion H; subst; reflexivity].
    - destruct f0; try discriminate. inversion H; subst; reflexivity.
    - inversion H; subst; reflexivity.
    - inversion H; subst; reflexivity.
  Qed.

  (* with no credit there is none left *)
  Lemma lin_credit_zero : forall f id vs i l, lin f O id vs i = Some l -> l_credit l = O.
  Proof.
    induction f as [|f IH]; intros id vs i l H; [discriminate|].
    destruct i; simpl in H; try discriminate.
    - destruct (t_service t); try discriminate. destruct (t_function t); try discriminate.
      unfold lcall in H. destruct (resolve_args p ts ttl (senv vs) args); try discriminate; inversion H; reflexivity.
    - destruct r; try discriminate. destruct (resolve_ap p ts ttl (senv vs) a); try discriminate; inversion H; reflexivity.
    - destruct (lin f O id vs i1) as [la|] eqn:Ea; try discriminate. pose proof (IH _ _ _ _ Ea) as Ca.
      destruct (l_st la); try (inversion H; subst; exact Ca).
      unfold lthen in H. rewrite Ca in H. destruct (lin f O id (l_vars la) i2) as [lb|] eqn:Eb; try discriminate.
      inversion H; subst; simpl. eapply IH; eauto.
    - destruct (lin f O id vs i1) as [la|] eqn:Ea; try discriminate. pose proof (IH _ _ _ _ Ea) as Ca.
      destruct (l_st la); try (inversion H; subst; exact Ca).
      unfold lthen in H. rewrite Ca in H. destruct (lin f O id (l_vars la) i2) as [lb|] eqn:Eb; try discriminate.
      inversion H; subst; simpl. eapply IH; eauto.
    - destruct (resolve_value p ts ttl (senv vs) l0); try discriminate; [|inversion H; reflexivity].
      destruct (resolve_value p ts ttl (senv vs) r); try discriminate; [|inversion H; reflexivity].
      destruct (Bool.eqb (json_eqb a a0) true); [eapply IH; eauto | inversion H; reflexivity].
    - destruct (resolve_value p ts ttl (senv vs) l0); try discriminate; [|inversion H; reflexivity].
      destruct (resolve_value p ts ttl (senv vs) r); try discriminate; [|inversion H; reflexivity].
      destruct (Bool.eqb (json_eqb a a0) false); [eapply IH; eauto | inversion H; reflexivity].
    - destruct f0; try discriminate. inversion H; reflexivity.
    - inversion H; reflexivity.
    - inversion H; reflexivity.
  Qed.

  (* if the evaluation with k ends on a request, the one with k+1 spends its last credit there *)
  Lemma lin_after_req : forall f k id id' vs i l r l',
      lin f k id vs i = Some l -> l_req l = Some r -> lin f (S k) id' vs i = Some l' -> l_credit l' = O.
  Proof.
    induction f as [|f IH]; intros k id id' vs i l r l' H Hr H'; [discriminate|].
    destruct i; simpl in H, H'; try discriminate.
    - destruct (t_service t); try discriminate. destruct (t_function t); try discriminate.
      unfold lcall in *. destruct (resolve_args p ts ttl (senv vs) args); try discriminate.
      + destruct k; inversion H; subst; simpl in Hr; try discriminate. inversion H'; reflexivity.
      + inversion H; subst; simpl in Hr; discriminate.
    - destruct r0; try discriminate. destruct (resolve_ap p ts ttl (senv vs) a); try discriminate;
        inversion H; subst; simpl in Hr; discriminate.
    - destruct (lin f k id vs i1) as [la|] eqn:Ea; try discriminate.
      destruct (lin f (S k) id' vs i1) as [la'|] eqn:Ea'; try discriminate.
      destruct (l_req la) as [ra|] eqn:Era.
      + (* the request is in the first part *)
        pose proof (IH _ _ _ _ _ _ _ _ Ea Era Ea') as C.
        destruct (l_st la'); try (inversion H'; subst; exact C).
        unfold lthen in H'. rewrite C in H'.
        destruct (lin f O id' (l_vars la') i2) as [lb'|] eqn:Eb'; try discriminate.
        inversion H'; subst; simpl. eapply lin_credit_zero; eauto.
      + (* the first part is the same, with one more credit *)
        rewrite (lin_more _ _ _ id' _ _ _ Ea Era) in Ea'. inversion Ea'; subst la'. simpl in H'.
        destruct (l_st la) eqn:Es; try (inversion H; subst; congruence).
        unfold lthen in H, H'.
        destruct (lin f (l_credit la) id (l_vars la) i2) as [lb|] eqn:Eb; try discriminate.
        destruct (lin f (S (l_credit la)) id' (l_vars la) i2) as [lb'|] eqn:Eb'; try discriminate.
        injection H as <-. injection H' as <-. simpl in *. exact (IH _ _ _ _ _ _ _ _ Eb Hr Eb').
    - destruct (lin f k id vs i1) as [la|] eqn:Ea; try discriminate.
      destruct (lin f (S k) id' vs i1) as [la'|] eqn:Ea'; try discriminate.
      destruct (l_req la) as [ra|] eqn:Era.
      + pose proof (IH _ _ _ _ _ _ _ _ Ea Era Ea') as C.
        destruct (l_st la'); try (inversion H'; subst; exact C).
        unfold lthen in H'. rewrite C in H'.
        destruct (lin f O id' (l_vars la') i2) as [lb'|] eqn:Eb'; try discriminate.
        inversion H'; subst; simpl. eapply lin_credit_zero; eauto.
      + rewrite (lin_more _ _ _ id' _ _ _ Ea Era) in Ea'. inversion Ea'; subst la'. simpl in H'.
        destruct (l_st la) eqn:Es; try (inversion H; subst; congruence).
        unfold lthen in H, H'.
        destruct (lin f (l_credit la) id (l_vars la) i2) as [lb|] eqn:Eb; try discriminate.
        destruct (lin f (S (l_credit la)) id' (l_vars la) i2) as [lb'|] eqn:Eb'; try discriminate.
        injection H as <-. injection H' as <-. simpl in *. exact (IH _ _ _ _ _ _ _ _ Eb Hr Eb').
    - destruct (resolve_value p ts ttl (senv vs) l0); try discriminate; [|inversion H; subst; simpl in Hr; discriminate].
      destruct (resolve_value p ts ttl (senv vs) r0); try discriminate; [|inversion H; subst; simpl in Hr; discriminate].
      destruct (Bool.eqb (json_eqb a a0) true); [exact (IH _ _ _ _ _ _ _ _ H Hr H') | inversion H; subst; simpl in Hr; discriminate].
    - destruct (resolve_value p ts ttl (senv vs) l0); try discriminate; [|inversion H; subst; simpl in Hr; discriminate].
      destruct (resolve_value p ts ttl (senv vs) r0); try discriminate; [|inversion H; subst; simpl in Hr; discriminate].
      destruct (Bool.eqb (json_eqb a a0) false); [exact (IH _ _ _ _ _ _ _ _ H Hr H') | inversion H; subst; simpl in Hr; discriminate].
    - destruct f0; try discriminate. inversion H; subst; simpl in Hr; discriminate.
    - inversion H; subst; simpl in Hr; discriminate.
    - inversion H; subst; simpl in Hr; discriminate.
  Qed.

  (* ---------------------------------------------------------------------------------------- *)
  (* names *)

  Definition bound_in (vs : vars_t) (B : list string) : Prop := forall n, assoc vs n <> None -> smem n B = true.

  Lemma smem_cons : forall n m B, smem n (m :: B) = String.eqb n m || smem n B.
  Proof. reflexivity. Qed.

  Lemma names_ok_mono : forall i B B',
      linear p i = true -> names_ok B i = Some B' -> forall n, smem n B = true -> smem n B' = true.
  Proof.
    induction i; intros B B' L H n Hn; simpl in L; try discriminate; simpl in H; try (inversion H; subst; exact Hn).
    - destruct out; try (inversion H; subst; exact Hn).
      destruct (smem (v_name v) B); inversion H; subst. rewrite smem_cons, Hn. apply orb_true_r.
    - destruct r; try discriminate.
      destruct (smem (v_name v) B); inversion H; subst. rewrite smem_cons, Hn. apply orb_true_r.
    - apply andb_prop in L. destruct L as [L1 L2].
      destruct (names_ok B i1) as [B1|] eqn:E1; try discriminate. eauto.
    - apply andb_prop in L. destruct L as [L1 L2].
      destruct (names_ok B i1) as [B1|] eqn:E1; try discriminate. eauto.
    - apply andb_prop in L. destruct L as [_ L2]. eauto.
    - apply andb_prop in L. destruct L as [_ L2]. eauto.
  Qed.

  (* ---------------------------------------------------------------------------------------- *)
  (* one run of the executor against [lin] *)

  Variable hook : (instr -> ctx -> xres) -> instr -> ctx -> option xres.      (* never consulted on straight-line scripts *)
  Hypothesis codes_i32 : ret_codes_i32 svc.

  Definition svc_of (c : call_ev) : service_answer := svc p (c_service c) (c_fn c) (c_args c).

  (* what the previous run left for the instruction [i]: with k = 0 this point was not reached; otherwise the
     previous run came here with one credit less, its states are what the previous slider holds first, and the
     answer to its request, if it made one here, is among the call results *)
  Definition prev_ok (f k : nat) (w : view) (i : instr) (Prest : list (state cid)) : Prop :=
    match k with
    | O => w_prev w = [] /\ Prest = []
    | S k' => exists lp, lin f k' (w_lcid w) (w_vars w) i = Some lp /\
                w_prev w = l_states lp ++ Prest /\
                (l_st lp = Stuck -> Prest = []) /\
                (forall id c, l_req lp = Some (id, c) -> w_rs w = [(id, svc_of c)])
    end.
  Definition rs_after (f k : nat) (w : view) (i : instr) : list (N * service_answer) :=
    match k with
    | O => w_rs w
    | S k' => match lin f k' (w_lcid w) (w_vars w) i with
              | Some lp => match l_req lp with Some _ => [] | None => w_rs w end
              | None => w_rs w
              end
    end.
  Definition after (w : view) (ln : lout) (Prest : list (state cid)) (rs : list (N * service_answer)) : view :=
    {| w_vars := l_vars ln; w_prev := Prest; w_res := w_res w ++ l_states ln;
       w_reqs := w_reqs w ++ match l_req ln with Some r => [r] | None => [] end;
       w_lcid := match l_req ln with Some _ => w_lcid w + 1 | None => w_lcid w end;
       w_rs := rs |}.
  Definition outcome_of (st : status) (r : xres) (x' : ctx) : Prop :=
    match st with SeqSem.Failed _ => exists c, r = XErr (ECatch c) x' | _ => r = XOk x' end.

  Definition exec_lin_stmt (f : nat) : Prop :=
    forall i x w k Prest B B' ln,
      linear p i = true -> Inv x w -> w_lcid w < 4294967295 ->
      prev_ok f k w i Prest ->
      bound_in (w_vars w) B -> names_ok B i = Some B' ->
      lin f k (w_lcid w + 1) (w_vars w) i = Some ln ->
      exists x', outcome_of (l_st ln) (exec hook f i x) x' /\
                 Inv x' (after w ln Prest (rs_after f k w i)) /\
                 bound_in (l_vars ln) B' /\
                 (l_st ln = Stuck -> x_complete x' = false) /\
                 (l_st ln = Done -> x_complete x = true -> x_complete x' = true).

  (* leaves: the view does not change *)
  Lemma view_eta : forall w, {| w_vars := w_vars w; w_prev := w_prev w; w_res := w_res w; w_reqs := w_reqs w;
                                w_lcid := w_lcid w; w_rs := w_rs w |} = w.
  Proof. destruct w; reflexivity. Qed.

  Lemma after_leaf : forall f k w i Prest st,
      prev_ok f k w i Prest ->
      (forall k' id, lin f k' id (w_vars w) i = Some (lleaf (w_vars w) st k')) ->
      after w (lleaf (w_vars w) st k) Prest (rs_after f k w i) = w.
  Proof.
    intros f k w i Prest st Hp Hl. unfold after, rs_after. cbn [lleaf l_vars l_states l_req].
    rewrite !app_nil_r. destruct k as [|k'].
    - destruct Hp as [Hp ->]. rewrite <- Hp. apply view_eta.
    - destruct Hp as (lp & E & Hpv & _ & _). rewrite (Hl k' (w_lcid w)) in E. inversion E; subst lp.
      rewrite (Hl k' (w_lcid w)). cbn [lleaf l_req]. cbn [lleaf l_states] in Hpv. simpl in Hpv. rewrite <- Hpv.
      apply view_eta.
  Qed.

  Lemma call_outcome_of : forall a r x', call_outcome a r x' -> outcome_of (answered_status a) r x'.
  Proof.
    intros a r x'. unfold call_outcome, outcome_of, answered_value, answered_status.
    destruct (negb (sa_ret_code a =? 0)%Z); auto. destruct (sa_parsed a); auto.
  Qed.

  Lemma answered_done : forall a, answered_status a = Done -> exists r, answered_value a = inl r.
  Proof.
    intros a. unfold answered_value, answered_status.
    destruct (negb (sa_ret_code a =? 0)%Z); try discriminate. destruct (sa_parsed a); try discriminate. eauto.
  Qed.

  Lemma answered_not_stuck : forall a, answered_status a <> Stuck.
  Proof.
    intros a. unfold answered_status.
    destruct (negb (sa_ret_code a =? 0)%Z); try discriminate. destruct (sa_parsed a); discriminate.
  Qed.

  Lemma bound_in_set_var : forall vs B n j, bound_in vs B -> bound_in (set_var vs n j) (n :: B).
  Proof.
    intros vs B n j Hb m Hm. rewrite smem_cons. destruct (String.eqb m n) eqn:E; [reflexivity|]. simpl.
    apply Hb. assert (n <> m) by (intro; subst; rewrite String.eqb_refl in E; discriminate).
    rewrite assoc_set_var_other in Hm by assumption. exact Hm.
  Qed.

  Lemma bound_in_weaken : forall vs B n, bound_in vs B -> bound_in vs (n :: B).
  Proof. intros vs B n Hb m Hm. rewrite smem_cons, (Hb m Hm). apply orb_true_r. Qed.

  Lemma lin_no_atend : forall f k id vs i l, lin f k id vs i = Some l -> l_st l <> AtEnd.
  Proof.
    induction f as [|f IH]; intros k id vs i l H; [discriminate|].
    destruct i; simpl in H; try discriminate.
    - destruct (t_service t); try discriminate. destruct (t_function t); try discriminate.
      unfold lcall in H. destruct (resolve_args p ts ttl (senv vs) args); try discriminate.
      + destruct k; inversion H; subst; simpl; try discriminate.
        unfold answered_status. destruct (negb (sa_ret_code (svc p s s0 a) =? 0)%Z); try discriminate.
        destruct (sa_parsed (svc p s s0 a)); discriminate.
      + inversion H; subst; simpl; discriminate.
    - destruct r; try discriminate. destruct (resolve_ap p ts ttl (senv vs) a); try discriminate;
        inversion H; subst; simpl; discriminate.
    - destruct (lin f k id vs i1) as [la|] eqn:Ea; try discriminate. pose proof (IH _ _ _ _ _ Ea) as Na.
      destruct (l_st la) eqn:Es; try (inversion H; subst; rewrite Es; discriminate); try congruence.
      unfold lthen in H. destruct (lin f (l_credit la) id (l_vars la) i2) as [lb|] eqn:Eb; try discriminate.
      inversion H; subst; simpl. eapply IH; eauto.
    - destruct (lin f k id vs i1) as [la|] eqn:Ea; try discriminate. pose proof (IH _ _ _ _ _ Ea) as Na.
      destruct (l_st la) eqn:Es; try (inversion H; subst; rewrite Es; discriminate); try congruence.
      unfold lthen in H. destruct (lin f (l_credit la) id (l_vars la) i2) as [lb|] eqn:Eb; try discriminate.
      inversion H; subst; simpl. eapply IH; eauto.
    - destruct (resolve_value p ts ttl (senv vs) l0); try discriminate; [|inversion H; subst; simpl; discriminate].
      destruct (resolve_value p ts ttl (senv vs) r); try discriminate; [|inversion H; subst; simpl; discriminate].
      destruct (Bool.eqb (json_eqb a a0) true); [eapply IH; eauto | inversion H; subst; simpl; discriminate].
    - destruct (resolve_value p ts ttl (senv vs) l0); try discriminate; [|inversion H; subst; simpl; discriminate].
      destruct (resolve_value p ts ttl (senv vs) r); try discriminate; [|inversion H; subst; simpl; discriminate].
      destruct (Bool.eqb (json_eqb a a0) false); [eapply IH; eauto | inversion H; subst; simpl; discriminate].
    - destruct f0; try discriminate. inversion H; subst; simpl; discriminate.
    - inversion H; subst; simpl; discriminate.
    - inversion H; subst; simpl; discriminate.
  Qed.

  (* two instructions in a row: the second runs iff the status of the first satisfies [cont] (seq: Done; xor: Failed) *)
  Definition lthen' (la lb : lout) : lout :=
    {| l_states := l_states la ++ l_states lb; l_req := l_req lb; l_vars := l_vars lb; l_st := l_st lb; l_credit := l_credit lb |}.
  Definition two (cont : status -> bool) (f k : nat) (id : N) (vs : vars_t) (a b : instr) : option lout :=
    match lin f k id vs a with
    | Some la => if cont (l_st la) then
                   match lin f (l_credit la) id (l_vars la) b with Some lb => Some (lthen' la lb) | None => None end
                 else Some la
    | None => None
    end.
  Definition is_failed (s : status) : bool := match s with SeqSem.Failed _ => true | _ => false end.

  Lemma lin_seq_two : forall f k id vs a b, lin (S f) k id vs (ISeq a b) = two is_done f k id vs a b.
  Proof. intros. simpl. unfold two, lthen. destruct (lin f k id vs a) as [la|]; auto. destruct (l_st la); reflexivity. Qed.
  Lemma lin_xor_two : forall f k id vs a b, lin (S f) k id vs (IXor a b) = two is_failed f k id vs a b.
  Proof. intros. simpl. unfold two, lthen. destruct (lin f k id vs a) as [la|]; auto. destruct (l_st la); reflexivity. Qed.

  Lemma after_after : forall w la Pa rsa lb P rs,
      l_req la = None -> after (after w la Pa rsa) lb P rs = after w (lthen' la lb) P rs.
  Proof.
    intros. unfold after, lthen'. cbn. rewrite H. cbn. rewrite app_nil_r, app_assoc. reflexivity.
  Qed.

  Definition prev_two (cont : status -> bool) (f k : nat) (w : view) (a b : instr) (Prest : list (state cid)) : Prop :=
    match k with
    | O => w_prev w = [] /\ Prest = []
    | S k' => exists lp, two cont f k' (w_lcid w) (w_vars w) a b = Some lp /\
                w_prev w = l_states lp ++ Prest /\
                (l_st lp = Stuck -> Prest = []) /\
                (forall id c, l_req lp = Some (id, c) -> w_rs w = [(id, svc_of c)])
    end.
  Definition rs_two (cont : status -> bool) (f k : nat) (w : view) (a b : instr) : list (N * service_answer) :=
    match k with
    | O => w_rs w
    | S k' => match two cont f k' (w_lcid w) (w_vars w) a b with
              | Some lp => match l_req lp with Some _ => [] | None => w_rs w end
              | None => w_rs w
              end
    end.

  Lemma two_step : forall cont f k w a b Prest ln,
      cont Stuck = false ->
      prev_two cont f k w a b Prest ->
      two cont f k (w_lcid w + 1) (w_vars w) a b = Some ln ->
      exists lna Pa,
        lin f k (w_lcid w + 1) (w_vars w) a = Some lna /\ prev_ok f k w a Pa /\
        if cont (l_st lna) then
          exists lnb, lin f (l_credit lna) (w_lcid w + 1) (l_vars lna) b = Some lnb /\ ln = lthen' lna lnb /\
                      l_req lna = None /\
                      prev_ok f (l_credit lna) (after w lna Pa (rs_after f k w a)) b Prest /\
                      after (after w lna Pa (rs_after f k w a)) lnb Prest
                            (rs_after f (l_credit lna) (after w lna Pa (rs_after f k w a)) b) =
                      after w ln Prest (rs_two cont f k w a b)
        else ln = lna /\ Pa = Prest /\ rs_after f k w a = rs_two cont f k w a b.
  Proof.
    intros cont f k w a b Prest ln Hcs Hp Hl.
    assert (P1 : forall k0 id0 vs0 l0, lin f k0 id0 vs0 a = Some l0 -> cont (l_st l0) = true -> l_req l0 = None).
    { intros k0 id0 vs0 l0 E C. destruct (l_req l0) eqn:Er; auto.
      destruct (lin_req_stuck _ _ _ _ _ _ _ E Er) as [X _]. rewrite X, Hcs in C. discriminate. }
    unfold two in Hl. destruct (lin f k (w_lcid w + 1) (w_vars w) a) as [lna|] eqn:Ena; try discriminate.
    destruct k as [|k'].
    - (* this point was not reached before *)
      destruct Hp as [Hpv ->]. exists lna, []. split; [reflexivity|]. split; [split; auto|].
      destruct (cont (l_st lna)) eqn:Ec.
      + destruct (lin f (l_credit lna) (w_lcid w + 1) (l_vars lna) b) as [lnb|] eqn:Enb; try discriminate.
        inversion Hl; subst ln. exists lnb. split; [reflexivity|]. split; [reflexivity|].
        pose proof (P1 _ _ _ _ Ena Ec) as Hr. split; [exact Hr|].
        rewrite (lin_credit_zero _ _ _ _ _ Ena). split; [split; reflexivity|].
        rewrite after_after by exact Hr. reflexivity.
      + inversion Hl; subst ln. auto.
    - destruct Hp as (lp & Elp & Hpv & Hst & Hrq). unfold two in Elp.
      destruct (lin f k' (w_lcid w) (w_vars w) a) as [lpa|] eqn:Epa; try discriminate.
      destruct (cont (l_st lpa)) eqn:Ecp.
      + (* the previous run went on to the second instruction *)
        destruct (lin f (l_credit lpa) (w_lcid w) (l_vars lpa) b) as [lpb|] eqn:Epb; try discriminate.
        inversion Elp; subst lp. cbn [lthen' l_states l_st l_req] in *.
        pose proof (P1 _ _ _ _ Epa Ecp) as Hrpa.
        rewrite (lin_more _ _ _ (w_lcid w + 1) _ _ _ Epa Hrpa) in Ena. inversion Ena; subst lna.
        exists (bump lpa), (l_states lpb ++ Prest). split; [reflexivity|]. split.
        { exists lpa. split; [exact Epa|]. split; [rewrite app_assoc; exact Hpv|]. split.
          - intros X. rewrite X, Hcs in Ecp. discriminate.
          - intros id c X. rewrite X in Hrpa. discriminate. }
        cbn [bump l_st l_credit l_vars] in *. rewrite Ecp in *.
        destruct (lin f (S (l_credit lpa)) (w_lcid w + 1) (l_vars lpa) b) as [lnb|] eqn:Enb; try discriminate.
        inversion Hl; subst ln. exists lnb. split; [reflexivity|]. split; [reflexivity|]. split; [exact Hrpa|].
        assert (Hrsa : rs_after f (S k') w a = w_rs w).
        { unfold rs_after. rewrite Epa, Hrpa. reflexivity. }
        split.
        { unfold prev_ok. cbn [after w_lcid w_vars w_prev w_rs bump l_req l_vars]. rewrite Hrpa.
          exists lpb. split; [exact Epb|]. split; [reflexivity|]. split; [exact Hst|].
          intros id c X. rewrite Hrsa. exact (Hrq id c X). }
        rewrite after_after by exact Hrpa. f_equal.
        rewrite Hrsa. unfold rs_after, rs_two, two. cbn [after w_lcid w_vars w_rs bump l_req l_vars]. rewrite Hrpa, Epb, Epa, Ecp, Epb.
        reflexivity.
      + (* the previous run stopped in the first instruction *)
        inversion Elp; subst lp.
        exists lna, Prest. split; [reflexivity|]. split.
        { exists lpa. auto. }
        assert (Hrs2 : rs_after f (S k') w a = rs_two cont f (S k') w a b).
        { unfold rs_after, rs_two, two. rewrite Epa, Ecp. reflexivity. }
        destruct (l_req lpa) as [r|] eqn:Erpa.
        * (* ... on a request: its answer is consumed now, then everything is new *)
          destruct (lin_req_stuck _ _ _ _ _ _ _ Epa Erpa) as [Xst _].
          pose proof (Hst Xst) as HP. subst Prest.
          pose proof (lin_after_req _ _ _ (w_lcid w + 1) _ _ _ _ _ Epa Erpa Ena) as Hc0.
          destruct (cont (l_st lna)) eqn:Ec.
          -- rewrite Hc0 in *.
             destruct (lin f O (w_lcid w + 1) (l_vars lna) b) as [lnb|] eqn:Enb; try discriminate.
             inversion Hl; subst ln. exists lnb. split; [reflexivity|]. split; [reflexivity|].
             pose proof (P1 _ _ _ _ Ena Ec) as Hr. split; [exact Hr|]. split; [split; reflexivity|].
             rewrite after_after by exact Hr. f_equal. cbn [rs_after after w_rs]. exact Hrs2.
          -- inversion Hl; subst ln. auto.
        * (* ... without a request: nothing changes with one more credit *)
          rewrite (lin_more _ _ _ (w_lcid w + 1) _ _ _ Epa Erpa) in Ena. inversion Ena; subst lna.
          cbn [bump l_st] in *. rewrite Ecp in *. inversion Hl; subst ln. auto.
  Qed.

  Lemma apply_to_arg_sim : forall x vs a,
      Rres x vs -> lin_ap a = true ->
      match SeqSem.resolve_ap p ts ttl (senv vs) a with
      | ROk j => exists val, apply_to_arg x a false = POk val /\ va_result val = j
      | RStuck => exists n, apply_to_arg x a false = PErr (ECatch (CVariableNotFound n))
      | _ => False
      end.
  Proof.
    intros x vs a R Ha. pose proof R as (Hp & Hs & Hi).
    destruct a; simpl in Ha; try discriminate; cbn [SeqSem.resolve_ap apply_to_arg];
      unfold init_peer; rewrite ?Hp; cbn [rp_init_peer rp_timestamp rp_ttl params].
    - eexists. split; reflexivity.
    - eexists. split; reflexivity.
    - eexists. split; reflexivity.
    - eexists. split; reflexivity.
    - destruct n; eexists; split; reflexivity.
    - eexists. split; reflexivity.
    - eexists. split; reflexivity.
    - rewrite lookup_senv. destruct (assoc vs (v_name v)) as [[j|]|] eqn:E.
      + destruct (scalars_get_value_found _ _ _ _ R E) as (val & Hg & Hv). rewrite Hg. cbn. eexists. split; [reflexivity|exact Hv].
      + exfalso. exact (scal_no_uninit _ _ _ Hs E).
      + rewrite (scalars_get_value_missing _ _ _ R E). cbn. eexists. reflexivity.
  Qed.

  Lemma after_ap : forall f k w i Prest vs',
      prev_ok f k w i Prest ->
      (forall k' id, lin f k' id (w_vars w) i = Some (lleaf vs' Done k')) ->
      after w (lleaf vs' Done k) Prest (rs_after f k w i) =
      {| w_vars := vs'; w_prev := w_prev w; w_res := w_res w; w_reqs := w_reqs w; w_lcid := w_lcid w; w_rs := w_rs w |}.
  Proof.
    intros f k w i Prest vs' Hp Hl. unfold after, rs_after. cbn [lleaf l_vars l_states l_req].
    rewrite !app_nil_r. destruct k as [|k'].
    - destruct Hp as [Hp ->]. rewrite <- Hp. reflexivity.
    - destruct Hp as (lp & E & Hpv & _ & _). rewrite (Hl k' (w_lcid w)) in E. inversion E; subst lp.
      rewrite (Hl k' (w_lcid w)). cbn [lleaf l_req]. cbn [lleaf l_states] in Hpv. simpl in Hpv. rewrite <- Hpv.
      reflexivity.
  Qed.

  Lemma exec_lin : forall f, exec_lin_stmt f.
  Proof.
    induction f as [|f IH]; intros i x w k Prest B B' ln L HI Hlt Hp Hb Hn Hl; [discriminate|].
    destruct i; simpl in L; try discriminate.
    - (* call *)
      apply andb_prop in L. destruct L as [L123 Lo]. apply andb_prop in L123. destruct L123 as [L12 La].
      apply andb_prop in L12. destruct L12 as [Lp Lsf].
      destruct (t_service t) as [s| | | |] eqn:Es; try discriminate.
      destruct (t_function t) as [fn| | | |] eqn:Ef; try discriminate.
      assert (Lp' : local_peer (t_peer t) = true) by exact Lp.
      pose proof HI as (R & _).
      (* the output name is fresh *)
      assert (Ho : fresh_out (w_vars w) out /\ bound_in (bind_out (w_vars w) out (svc p s fn [])) B' /\
                   (forall a, bound_in (bind_out (w_vars w) out a) B') /\ bound_in (w_vars w) B').
      { simpl in Hn. destruct out as [v|v|]; try discriminate.
        - destruct (smem (v_name v) B) eqn:Em; inversion Hn; subst B'.
          assert (Hf : assoc (w_vars w) (v_name v) = None).
          { destruct (assoc (w_vars w) (v_name v)) eqn:E; auto.
            assert (X : smem (v_name v) B = true) by (apply Hb; congruence). congruence. }
          assert (Hall : forall a, bound_in (bind_out (w_vars w) (OutScalar v) a) (v_name v :: B)).
          { intros a. unfold bind_out. destruct (answered_value a); [apply bound_in_set_var | apply bound_in_weaken]; exact Hb. }
          split; [exact Hf|]. split; [apply Hall|]. split; [exact Hall | apply bound_in_weaken; exact Hb].
        - inversion Hn; subst B'. split; [exact I|].
          assert (Hall : forall a, bound_in (bind_out (w_vars w) OutNone a) B).
          { intros a. unfold bind_out. destruct (answered_value a); exact Hb. }
          split; [apply Hall|]. split; [exact Hall | exact Hb]. }
      destruct Ho as (Ho & _ & Hball & HbB').
      simpl in Hl. rewrite Es, Ef in Hl. unfold lcall in Hl.
      assert (Hlin : forall k' id, lin (S f) k' id (w_vars w) (ICall text t args out) = lcall k' id (w_vars w) s fn args out).
      { intros. simpl. rewrite Es, Ef. reflexivity. }
      simpl exec.
      destruct (SeqSem.resolve_args p ts ttl (senv (w_vars w)) args) as [js| | |] eqn:Er; try discriminate.
      + (* the arguments are there *)
        destruct k as [|k'].
        * (* nothing from the previous run: the call is requested *)
          destruct Hp as [Hpv ->]. inversion Hl; subst ln.
          destruct (exec_call_fresh x w text t s fn args out js HI Lp' Es Ef La Ho Er Hpv Hlt) as (x' & He & HI' & Hc).
          exists x'. cbn [outcome_of l_st]. split; [exact He|]. split; [exact HI'|].
          split; [exact HbB'|]. split; [intros _; exact Hc | discriminate].
        * unfold prev_ok in Hp. rewrite Hlin in Hp. unfold lcall in Hp. rewrite Er in Hp.
          destruct Hp as (lp & Elp & Hpv & Hst & Hrq). inversion Hl; subst ln. clear Hl.
          unfold rs_after. rewrite Hlin. unfold lcall. rewrite Er.
          destruct k' as [|k''].
          -- (* the previous run requested this call: the answer is among the results *)
             inversion Elp; subst lp. cbn [l_states l_st l_req] in *.
             rewrite (Hst eq_refl) in *. cbn [app] in Hpv.
             pose proof (Hrq _ _ eq_refl) as Hrs. unfold svc_of in Hrs. cbn [c_service c_fn c_args] in Hrs.
             destruct (exec_call_answer x w text t s fn args out js _ [] HI Lp' Es Ef La Ho Er Hpv Hrs) as (x' & He & HI' & Hc).
             exists x'. cbn [l_st]. split; [apply call_outcome_of; exact He|].
             split; [unfold after; cbn [l_states l_req l_vars]; rewrite app_nil_r; exact HI'|].
             split; [apply Hball|]. split.
             ++ intros X. exfalso. exact (answered_not_stuck _ X).
             ++ intros X Hx. destruct (answered_done _ X) as (r & Hr). rewrite (Hc _ Hr). exact Hx.
          -- (* the previous run had the result already: it is replayed *)
             inversion Elp; subst lp. cbn [l_states l_st l_req] in *. cbn [app] in Hpv.
             destruct (exec_call_replay x w text t s fn args out js _ Prest HI Lp' Es Ef La Ho Er (codes_i32 _ _ _ _) Hpv) as (x' & He & HI' & Hc).
             exists x'. cbn [l_st]. split; [apply call_outcome_of; exact He|].
             split; [unfold after; cbn [l_states l_req l_vars]; rewrite app_nil_r; exact HI'|].
             split; [apply Hball|]. split.
             ++ intros X. exfalso. exact (answered_not_stuck _ X).
             ++ intros X Hx. destruct (answered_done _ X) as (r & Hr). rewrite (Hc _ Hr). exact Hx.
      + (* an argument is not there yet *)
        inversion Hl; subst ln.
        assert (Hpv : w_prev w = []).
        { destruct k as [|k']; [exact (proj1 Hp)|].
          unfold prev_ok in Hp. rewrite Hlin in Hp. unfold lcall in Hp. rewrite Er in Hp.
          destruct Hp as (lp & Elp & Hpv & Hst & _). inversion Elp; subst lp. cbn [lleaf l_states l_st] in *.
          rewrite (Hst eq_refl) in Hpv. exact Hpv. }
        destruct (exec_call_stuck x w text t s fn args out HI Lp' Es Ef La Ho Er Hpv) as (x' & He & HI' & Hc).
        exists x'. cbn [lleaf l_st outcome_of l_vars]. split; [exact He|]. split.
        * rewrite (after_leaf (S f) k w (ICall text t args out) Prest Stuck Hp)
            by (intros; rewrite Hlin; unfold lcall; rewrite Er; reflexivity).
          exact HI'.
        * split; [exact HbB'|]. split; [intros _; exact Hc | discriminate].
    - (* ap *)
      destruct r as [v|v]; try discriminate.
      pose proof HI as (R & Hnp & Hh & Hrq & Hlc & Hrs & Hc1 & Hc2 & Hext). pose proof R as (Hpar & Hsc & Hit).
      pose proof (apply_to_arg_sim x _ a R L) as Sa.
      simpl in Hn. destruct (smem (v_name v) B) eqn:Em; inversion Hn; subst B'.
      assert (Hf : assoc (w_vars w) (v_name v) = None).
      { destruct (assoc (w_vars w) (v_name v)) eqn:E; auto.
        assert (X : smem (v_name v) B = true) by (apply Hb; congruence). congruence. }
      simpl in Hl. simpl exec. unfold exec_ap.
      destruct (SeqSem.resolve_ap p ts ttl (senv (w_vars w)) a) as [j| | |] eqn:Ea; try contradiction.
      + (* the value is there: the scalar is set *)
        destruct Sa as (val & Sa & Hval). rewrite Sa. unfold set_scalar_value.
        destruct (scal_set_fresh _ _ (v_name v) val Hsc Hf) as (m' & Hset & Hrel'). rewrite Hset. cbn [lift wrap_errors].
        inversion Hl; subst ln. cbn [lleaf l_st outcome_of l_vars].
        eexists. split; [reflexivity|]. split.
        * rewrite (after_ap (S f) k w (IAp text a (ApScalar v)) Prest _ Hp) by (intros; simpl; rewrite Ea; reflexivity).
          apply Inv_intro; cbn; try exact Hext; try assumption.
          unfold Rres; cbn. rewrite Hval in Hrel'. split; [exact Hpar|split; [exact Hrel'|exact Hit]].
        * split; [apply bound_in_set_var; exact Hb|]. split; [discriminate|]. intros _ Hx. exact Hx.
      + (* the value is not there yet *)
        destruct Sa as (n & Sa). rewrite Sa. cbn [is_joinable wrap_errors].
        inversion Hl; subst ln. cbn [lleaf l_st outcome_of l_vars].
        exists (make_incomplete x). split; [reflexivity|]. split.
        * rewrite (after_leaf (S f) k w (IAp text a (ApScalar v)) Prest Stuck Hp) by (intros; simpl; rewrite Ea; reflexivity).
          eapply Inv_core; [|exact HI]. repeat split.
        * split; [apply bound_in_weaken; exact Hb|]. split; [reflexivity | discriminate].
    - (* seq *)
      apply andb_prop in L. destruct L as [La Lb].
      simpl in Hn. destruct (names_ok B i1) as [B1|] eqn:En1; try discriminate.
      rewrite lin_seq_two in Hl.
      assert (Hp2 : prev_two is_done f k w i1 i2 Prest).
      { destruct k; [exact Hp|]. unfold prev_ok in Hp. rewrite lin_seq_two in Hp. exact Hp. }
      assert (Hrs2 : rs_after (S f) k w (ISeq i1 i2) = rs_two is_done f k w i1 i2).
      { destruct k; [reflexivity|]. unfold rs_after. rewrite lin_seq_two. reflexivity. }
      destruct (two_step is_done f k w i1 i2 Prest ln eq_refl Hp2 Hl) as (lna & Pa & Ena & Hpa & Hrest).
      assert (HI0 : Inv (flush_complete x) w) by (eapply Inv_core; [|exact HI]; repeat split).
      destruct (IH i1 (flush_complete x) w k Pa B B1 lna La HI0 Hlt Hpa Hb En1 Ena) as (x1 & Ho1 & HI1 & Hb1 & C1 & C2).
      pose proof (lin_no_atend _ _ _ _ _ _ Ena) as Nat.
      rewrite Hrs2. simpl exec. unfold outcome_of in Ho1.
      destruct (l_st lna) eqn:Est; cbn [is_done] in Hrest; try congruence.
      + (* the first part is complete: the second runs *)
        destruct Hrest as (lnb & Enb & -> & Hr & Hpb & Haft).
        rewrite Ho1. rewrite (C2 eq_refl eq_refl).
        assert (Hlc : w_lcid (after w lna Pa (rs_after f k w i1)) = w_lcid w) by (unfold after; cbn; rewrite Hr; reflexivity).
        assert (Hlt' : w_lcid (after w lna Pa (rs_after f k w i1)) < 4294967295) by (rewrite Hlc; exact Hlt).
        assert (Enb' : lin f (l_credit lna) (w_lcid (after w lna Pa (rs_after f k w i1)) + 1)
                           (w_vars (after w lna Pa (rs_after f k w i1))) i2 = Some lnb) by (rewrite Hlc; exact Enb).
        destruct (IH i2 x1 _ (l_credit lna) Prest B1 B' lnb Lb HI1 Hlt' Hpb Hb1 Hn Enb') as (x2 & Ho2 & HI2 & Hb2 & D1 & D2).
        rewrite Haft in HI2. cbn [lthen' l_st l_vars]. unfold outcome_of in *.
        destruct (l_st lnb) eqn:Estb.
        * rewrite Ho2. exists x2. split; [reflexivity|]. split; [exact HI2|]. split; [exact Hb2|]. split; [discriminate|].
          intros _ _. apply D2; [reflexivity | apply C2; reflexivity].
        * rewrite Ho2. exists x2. split; [reflexivity|]. split; [exact HI2|]. split; [exact Hb2|]. split; discriminate.
        * rewrite Ho2. exists x2. split; [reflexivity|]. split; [exact HI2|]. split; [exact Hb2|]. split; [intros _; apply D1; reflexivity | discriminate].
        * destruct Ho2 as (c & Ho2). rewrite Ho2. cbn [wrap_errors].
          eexists. split; [eexists; reflexivity|]. split.
          -- eapply Inv_core; [apply ctx_set_errors_core|exact HI2].
          -- split; [exact Hb2|]. split; discriminate.
      + (* the first part is stuck *)
        destruct Hrest as (-> & -> & Hrs'). rewrite Est. rewrite Ho1. rewrite (C1 eq_refl). cbn [wrap_errors].
        exists x1. split; [reflexivity|]. split; [rewrite <- Hrs'; exact HI1|].
        split; [intros m Hm; eapply names_ok_mono; eauto|]. split; [intros _; apply C1; reflexivity | discriminate].
      + (* the first part failed *)
        destruct Hrest as (-> & -> & Hrs'). rewrite Est. destruct Ho1 as (c & Ho1). rewrite Ho1. cbn [wrap_errors].
        eexists. split; [eexists; reflexivity|]. split.
        * eapply Inv_core; [apply ctx_set_errors_core|]. rewrite <- Hrs'. exact HI1.
        * split; [intros m Hm; eapply names_ok_mono; eauto|]. split; discriminate.
    - (* xor *)
      apply andb_prop in L. destruct L as [La Lb].
      simpl in Hn. destruct (names_ok B i1) as [B1|] eqn:En1; try discriminate.
      rewrite lin_xor_two in Hl.
      assert (Hp2 : prev_two is_failed f k w i1 i2 Prest).
      { destruct k; [exact Hp|]. unfold prev_ok in Hp. rewrite lin_xor_two in Hp. exact Hp. }
      assert (Hrs2 : rs_after (S f) k w (IXor i1 i2) = rs_two is_failed f k w i1 i2).
      { destruct k; [reflexivity|]. unfold rs_after. rewrite lin_xor_two. reflexivity. }
      destruct (two_step is_failed f k w i1 i2 Prest ln eq_refl Hp2 Hl) as (lna & Pa & Ena & Hpa & Hrest).
      assert (HI0 : Inv (flush_complete x) w) by (eapply Inv_core; [|exact HI]; repeat split).
      destruct (IH i1 (flush_complete x) w k Pa B B1 lna La HI0 Hlt Hpa Hb En1 Ena) as (x1 & Ho1 & HI1 & Hb1 & C1 & C2).
      pose proof (lin_no_atend _ _ _ _ _ _ Ena) as Nat.
      rewrite Hrs2. simpl exec. unfold outcome_of in Ho1.
      destruct (l_st lna) eqn:Est; cbn [is_failed] in Hrest; try congruence.
      + (* the left branch is complete *)
        destruct Hrest as (-> & -> & Hrs'). rewrite Est. rewrite Ho1. cbn [wrap_errors].
        exists x1. split; [reflexivity|]. split; [rewrite <- Hrs'; exact HI1|].
        split; [intros m Hm; eapply names_ok_mono; eauto|]. split; [discriminate | intros _ _; apply C2; reflexivity].
      + (* the left branch waits *)
        destruct Hrest as (-> & -> & Hrs'). rewrite Est. rewrite Ho1. cbn [wrap_errors].
        exists x1. split; [reflexivity|]. split; [rewrite <- Hrs'; exact HI1|].
        split; [intros m Hm; eapply names_ok_mono; eauto|]. split; [intros _; apply C1; reflexivity | discriminate].
      + (* the left branch failed: the right one runs *)
        destruct Hrest as (lnb & Enb & -> & Hr & Hpb & Haft).
        destruct Ho1 as (c & Ho1). rewrite Ho1. cbn [is_catchable].
        assert (Hlc : w_lcid (after w lna Pa (rs_after f k w i1)) = w_lcid w) by (unfold after; cbn; rewrite Hr; reflexivity).
        assert (Hlt' : w_lcid (after w lna Pa (rs_after f k w i1)) < 4294967295) by (rewrite Hlc; exact Hlt).
        assert (Enb' : lin f (l_credit lna) (w_lcid (after w lna Pa (rs_after f k w i1)) + 1)
                           (w_vars (after w lna Pa (rs_after f k w i1))) i2 = Some lnb) by (rewrite Hlc; exact Enb).
        match goal with |- context [exec hook f i2 ?y] => set (x4 := y) end.
        assert (HI4 : Inv x4 (after w lna Pa (rs_after f k w i1))) by (eapply Inv_core; [|exact HI1]; repeat split).
        assert (Hc4 : x_complete x4 = true) by reflexivity.
        destruct (IH i2 x4 _ (l_credit lna) Prest B1 B' lnb Lb HI4 Hlt' Hpb Hb1 Hn Enb') as (x2 & Ho2 & HI2 & Hb2 & D1 & D2).
        rewrite Haft in HI2. cbn [lthen' l_st l_vars]. unfold outcome_of in *.
        assert (Hclear : forall y, same_core y (if x_error_can_set y then set_error y no_error true else y) /\
                                  x_complete (if x_error_can_set y then set_error y no_error true else y) = x_complete y).
        { intros y. destruct (x_error_can_set y); split; repeat split. }
        destruct (l_st lnb) eqn:Estb.
        * rewrite Ho2. cbn [wrap_errors]. eexists. split; [reflexivity|]. split.
          -- eapply Inv_core; [|eapply Inv_core; [apply (proj1 (Hclear x2))|exact HI2]]. repeat split.
          -- split; [exact Hb2|]. split; [discriminate|]. intros _ _. cbn. rewrite (proj2 (Hclear x2)). apply D2; auto.
        * rewrite Ho2. cbn [wrap_errors]. eexists. split; [reflexivity|]. split.
          -- eapply Inv_core; [|eapply Inv_core; [apply (proj1 (Hclear x2))|exact HI2]]. repeat split.
          -- split; [exact Hb2|]. split; discriminate.
        * rewrite Ho2. cbn [wrap_errors]. eexists. split; [reflexivity|]. split.
          -- eapply Inv_core; [|eapply Inv_core; [apply (proj1 (Hclear x2))|exact HI2]]. repeat split.
          -- split; [exact Hb2|]. split; [|discriminate]. intros _. cbn. rewrite (proj2 (Hclear x2)). apply D1; reflexivity.
        * destruct Ho2 as (c2 & Ho2). rewrite Ho2. cbn [wrap_errors].
          eexists. split; [eexists; reflexivity|]. split.
          -- eapply Inv_core; [apply ctx_set_errors_core|]. eapply Inv_core; [apply (proj1 (Hclear x2))|exact HI2].
          -- split; [exact Hb2|]. split; discriminate.
    - (* IMatch *)
      apply andb_prop in L. destruct L as [L12 Lb]. apply andb_prop in L12. destruct L12 as [Ll Lr].
      pose proof HI as (R & _).
      pose proof (resolve_value_sim x _ l R Ll) as Sl. pose proof (resolve_value_sim x _ r R Lr) as Sr.
      simpl in Hn. simpl in Hl. simpl exec.
      destruct (SeqSem.resolve_value p ts ttl (senv (w_vars w)) l) as [lv| | |] eqn:El; try contradiction.
      2: { (* the left operand is not there yet *)
        destruct Sl as (n & Sl). rewrite Sl. cbn [pbind is_joinable wrap_errors].
        inversion Hl; subst ln. cbn [lleaf l_st outcome_of l_vars].
        exists (make_incomplete x). split; [reflexivity|]. split.
        - rewrite (after_leaf (S f) k w (IMatch text l r i) Prest Stuck Hp) by (intros; simpl; rewrite El; reflexivity).
          eapply Inv_core; [|exact HI]. repeat split.
        - split; [intros m Hm; eapply names_ok_mono; eauto|]. split; [reflexivity | discriminate]. }
      destruct Sl as (tl & pl & Sl). rewrite Sl. cbn [pbind].
      destruct (SeqSem.resolve_value p ts ttl (senv (w_vars w)) r) as [rv| | |] eqn:Er; try contradiction.
      2: { destruct Sr as (n & Sr). rewrite Sr. cbn [pbind is_joinable wrap_errors].
        inversion Hl; subst ln. cbn [lleaf l_st outcome_of l_vars].
        exists (make_incomplete x). split; [reflexivity|]. split.
        - rewrite (after_leaf (S f) k w (IMatch text l r i) Prest Stuck Hp) by (intros; simpl; rewrite El, Er; reflexivity).
          eapply Inv_core; [|exact HI]. repeat split.
        - split; [intros m Hm; eapply names_ok_mono; eauto|]. split; [reflexivity | discriminate]. }
      destruct Sr as (tr & pr & Sr). rewrite Sr. cbn [pbind fst]. unfold json_values_equal.
      destruct (Bool.eqb (json_eqb lv rv) true) eqn:Eq.
      + (* the body runs *)
        assert (Hlin : forall k' id, lin (S f) k' id (w_vars w) (IMatch text l r i) = lin f k' id (w_vars w) i).
        { intros. simpl. rewrite El, Er, Eq. reflexivity. }
        assert (Hp' : prev_ok f k w i Prest).
        { destruct k; [exact Hp|]. unfold prev_ok in Hp |- *. rewrite Hlin in Hp. exact Hp. }
        assert (Hrs : rs_after (S f) k w (IMatch text l r i) = rs_after f k w i).
        { destruct k; [reflexivity|]. unfold rs_after. rewrite Hlin. reflexivity. }
        destruct (IH i x w k Prest B B' ln Lb HI Hlt Hp' Hb Hn Hl) as (x' & Ho & HI' & Hb' & C1 & C2).
        rewrite Hrs. unfold outcome_of in *. destruct (l_st ln) eqn:Est.
        * rewrite Ho. exists x'. split; [reflexivity|]. split; [exact HI'|]. split; [exact Hb'|]. split; assumption.
        * rewrite Ho. exists x'. split; [reflexivity|]. split; [exact HI'|]. split; [exact Hb'|]. split; assumption.
        * rewrite Ho. exists x'. split; [reflexivity|]. split; [exact HI'|]. split; [exact Hb'|]. split; assumption.
        * destruct Ho as (c & Ho). rewrite Ho. cbn [wrap_errors].
          eexists. split; [eexists; reflexivity|]. split.
          -- eapply Inv_core; [apply ctx_set_errors_core|exact HI'].
          -- split; [exact Hb'|]. split; discriminate.
      + (* the values differ: a failure *)
        inversion Hl; subst ln. cbn [lleaf l_st outcome_of l_vars wrap_errors].
        eexists. split; [eexists; reflexivity|]. split.
        * rewrite (after_leaf (S f) k w (IMatch text l r i) Prest (SeqSem.Failed FMatch) Hp) by (intros; simpl; rewrite El, Er, Eq; reflexivity).
          eapply Inv_core; [apply ctx_set_errors_core|exact HI].
        * split; [intros m Hm; eapply names_ok_mono; eauto|]. split; discriminate.
    - (* IMisMatch *)
      apply andb_prop in L. destruct L as [L12 Lb]. apply andb_prop in L12. destruct L12 as [Ll Lr].
      pose proof HI as (R & _).
      pose proof (resolve_value_sim x _ l R Ll) as Sl. pose proof (resolve_value_sim x _ r R Lr) as Sr.
      simpl in Hn. simpl in Hl. simpl exec.
      destruct (SeqSem.resolve_value p ts ttl (senv (w_vars w)) l) as [lv| | |] eqn:El; try contradiction.
      2: { (* the left operand is not there yet *)
        destruct Sl as (n & Sl). rewrite Sl. cbn [pbind is_joinable wrap_errors].
        inversion Hl; subst ln. cbn [lleaf l_st outcome_of l_vars].
        exists (make_incomplete x). split; [reflexivity|]. split.
        - rewrite (after_leaf (S f) k w (IMisMatch text l r i) Prest Stuck Hp) by (intros; simpl; rewrite El; reflexivity).
          eapply Inv_core; [|exact HI]. repeat split.
        - split; [intros m Hm; eapply names_ok_mono; eauto|]. split; [reflexivity | discriminate]. }
      destruct Sl as (tl & pl & Sl). rewrite Sl. cbn [pbind].
      destruct (SeqSem.resolve_value p ts ttl (senv (w_vars w)) r) as [rv| | |] eqn:Er; try contradiction.
      2: { destruct Sr as (n & Sr). rewrite Sr. cbn [pbind is_joinable wrap_errors].
        inversion Hl; subst ln. cbn [lleaf l_st outcome_of l_vars].
        exists (make_incomplete x). split; [reflexivity|]. split.
        - rewrite (after_leaf (S f) k w (IMisMatch text l r i) Prest Stuck Hp) by (intros; simpl; rewrite El, Er; reflexivity).
          eapply Inv_core; [|exact HI]. repeat split.
        - split; [intros m Hm; eapply names_ok_mono; eauto|]. split; [reflexivity | discriminate]. }
      destruct Sr as (tr & pr & Sr). rewrite Sr. cbn [pbind fst]. unfold json_values_equal.
      destruct (Bool.eqb (json_eqb lv rv) false) eqn:Eq.
      + (* the body runs *)
        assert (Hlin : forall k' id, lin (S f) k' id (w_vars w) (IMisMatch text l r i) = lin f k' id (w_vars w) i).
        { intros. simpl. rewrite El, Er, Eq. reflexivity. }
        assert (Hp' : prev_ok f k w i Prest).
        { destruct k; [exact Hp|]. unfold prev_ok in Hp |- *. rewrite Hlin in Hp. exact Hp. }
        assert (Hrs : rs_after (S f) k w (IMisMatch text l r i) = rs_after f k w i).
        { destruct k; [reflexivity|]. unfold rs_after. rewrite Hlin. reflexivity. }
        destruct (IH i x w k Prest B B' ln Lb HI Hlt Hp' Hb Hn Hl) as (x' & Ho & HI' & Hb' & C1 & C2).
        rewrite Hrs. unfold outcome_of in *. destruct (l_st ln) eqn:Est.
        * rewrite Ho. exists x'. split; [reflexivity|]. split; [exact HI'|]. split; [exact Hb'|]. split; assumption.
        * rewrite Ho. exists x'. split; [reflexivity|]. split; [exact HI'|]. split; [exact Hb'|]. split; assumption.
        * rewrite Ho. exists x'. split; [reflexivity|]. split; [exact HI'|]. split; [exact Hb'|]. split; assumption.
        * destruct Ho as (c & Ho). rewrite Ho. cbn [wrap_errors].
          eexists. split; [eexists; reflexivity|]. split.
          -- eapply Inv_core; [apply ctx_set_errors_core|exact HI'].
          -- split; [exact Hb'|]. split; discriminate.
      + (* the values differ: a failure *)
        inversion Hl; subst ln. cbn [lleaf l_st outcome_of l_vars wrap_errors].
        eexists. split; [eexists; reflexivity|]. split.
        * rewrite (after_leaf (S f) k w (IMisMatch text l r i) Prest (SeqSem.Failed FMismatch) Hp) by (intros; simpl; rewrite El, Er, Eq; reflexivity).
          eapply Inv_core; [apply ctx_set_errors_core|exact HI].
        * split; [intros m Hm; eapply names_ok_mono; eauto|]. split; discriminate.
    - (* fail *)
      destruct f0; try discriminate.
      simpl in Hl. inversion Hl; subst ln. simpl in Hn. inversion Hn; subst B'.
      cbn [lleaf l_st outcome_of l_vars]. simpl exec. unfold exec_fail, fail_with_error_object, wrap_errors.
      eexists. split; [eexists; reflexivity|]. split.
      + rewrite (after_leaf (S f) k w (IFail text (FLiteral ret_code msg)) Prest (SeqSem.Failed (FUser ret_code)) Hp) by (intros; reflexivity).
        eapply Inv_core; [apply ctx_set_errors_core|]. eapply Inv_core; [|exact HI]. repeat split.
      + split; [exact Hb|]. split; discriminate.
    - (* never *)
      simpl in Hl. inversion Hl; subst ln. simpl in Hn. inversion Hn; subst B'.
      exists (make_incomplete x). cbn [lleaf l_st outcome_of l_vars].
      split; [reflexivity|]. split.
      + rewrite (after_leaf (S f) k w INever Prest Stuck Hp) by (intros; reflexivity).
        eapply Inv_core; [|exact HI]. repeat split.
      + split; [exact Hb|]. split; [reflexivity | discriminate].
    - (* null *)
      simpl in Hl. inversion Hl; subst ln. simpl in Hn. inversion Hn; subst B'.
      exists x. cbn [lleaf l_st outcome_of l_vars].
      split; [reflexivity|]. split.
      + rewrite (after_leaf (S f) k w INull Prest Done Hp) by (intros; reflexivity). exact HI.
      + split; [exact Hb|]. split; [discriminate | auto].
  Qed.

  (* ---------------------------------------------------------------------------------------- *)
  (* [lin] against the reading *)

  Notation sread := (seq_eval (svc_answer svc) everything_known p ts ttl).

  Definition lin_matches (f : nat) (vs : vars_t) (i : instr) (cs : list call_ev) (e : env) (st : status) : Prop :=
    forall k id, exists l, lin f k id vs i = Some l /\
      ((length cs <= k)%nat -> l_req l = None /\ l_vars l = vars e /\ l_st l = st /\ l_credit l = (k - length cs)%nat) /\
      ((k < length cs)%nat -> exists c, nth_error cs k = Some c /\ l_req l = Some (id, c) /\ l_states l <> []).

  Lemma senv_eta : forall e, iters e = [] -> e = senv (vars e).
  Proof. intros [v i] H. simpl in H. subst. reflexivity. Qed.

  Lemma resolve_peer_local : forall vs pa, local_peer pa = true -> SeqSem.resolve_peer p (senv vs) pa = ROk p.
  Proof.
    intros vs pa H. destruct pa; simpl in *; try discriminate; auto. apply String.eqb_eq in H. subst. reflexivity.
  Qed.

  Definition no_uninit (vs : vars_t) : Prop := forall n, assoc vs n <> Some None.

  Lemma no_uninit_set_var : forall vs n j, no_uninit vs -> no_uninit (set_var vs n j).
  Proof.
    intros vs n j H m. destruct (String.eqb n m) eqn:E.
    - apply String.eqb_eq in E. subst. rewrite assoc_set_var_same. discriminate.
    - rewrite assoc_set_var_other; [apply H|]. intro; subst. rewrite String.eqb_refl in E. discriminate.
  Qed.

  Lemma resolve_value_lin : forall vs v, no_uninit vs -> lin_value v = true ->
      match SeqSem.resolve_value p ts ttl (senv vs) v with ROk _ | RStuck => True | _ => False end.
  Proof.
    intros vs v Hn Hv. destruct v; simpl in Hv; try discriminate; simpl; auto.
    rewrite lookup_senv. destruct (assoc vs (v_name v)) as [[j|]|] eqn:E; auto. exact (Hn _ E).
  Qed.

  Lemma resolve_args_lin : forall vs args, no_uninit vs -> forallb lin_value args = true ->
      match SeqSem.resolve_args p ts ttl (senv vs) args with ROk _ | RStuck => True | _ => False end.
  Proof.
    intros vs args Hn. induction args as [|a r IH]; intros H; simpl; auto.
    simpl in H. apply andb_prop in H. destruct H as [Ha Hr].
    pose proof (resolve_value_lin vs a Hn Ha) as Hv.
    destruct (SeqSem.resolve_value p ts ttl (senv vs) a); simpl; auto.
    specialize (IH Hr). destruct (SeqSem.resolve_args p ts ttl (senv vs) r); simpl; auto.
  Qed.

  Lemma resolve_ap_lin : forall vs a, no_uninit vs -> lin_ap a = true ->
      match SeqSem.resolve_ap p ts ttl (senv vs) a with ROk _ | RStuck => True | _ => False end.
  Proof.
    intros vs a Hn Ha. destruct a; simpl in Ha; try discriminate; simpl; auto.
    rewrite lookup_senv. destruct (assoc vs (v_name v)) as [[j|]|] eqn:E; auto. exact (Hn _ E).
  Qed.

  Definition two_matches_stmt (cont : status -> bool) (f : nat) (vs : vars_t) (a b : instr)
             (cs : list call_ev) (e : env) (st : status) : Prop :=
    forall k id, exists l, two cont f k id vs a b = Some l /\
      ((length cs <= k)%nat -> l_req l = None /\ l_vars l = vars e /\ l_st l = st /\ l_credit l = (k - length cs)%nat) /\
      ((k < length cs)%nat -> exists c, nth_error cs k = Some c /\ l_req l = Some (id, c) /\ l_states l <> []).

  Lemma two_matches_stop : forall cont f vs a b csa ea sta,
      cont Stuck = false -> cont sta = false ->
      lin_matches f vs a csa ea sta -> two_matches_stmt cont f vs a b csa ea sta.
  Proof.
    intros cont f vs a b csa ea sta Hcs Hc Ma k id. destruct (Ma k id) as (la & Ela & Hge & Hlt).
    unfold two. rewrite Ela.
    destruct (Nat.le_gt_cases (length csa) k) as [Hk|Hk].
    - destruct (Hge Hk) as (A & B & C & D). rewrite C, Hc. exists la. auto.
    - destruct (Hlt Hk) as (c & N1 & N2 & N3). destruct (lin_req_stuck _ _ _ _ _ _ _ Ela N2) as [X _].
      rewrite X, Hcs. exists la. auto.
  Qed.

  Lemma two_matches_go : forall cont f vs a b csa ea sta csb eb stb,
      cont Stuck = false -> cont sta = true ->
      lin_matches f vs a csa ea sta -> lin_matches f (vars ea) b csb eb stb ->
      two_matches_stmt cont f vs a b (csa ++ csb) eb stb.
  Proof.
    intros cont f vs a b csa ea sta csb eb stb Hcs Hc Ma Mb k id. destruct (Ma k id) as (la & Ela & Hge & Hlt).
    unfold two. rewrite Ela. rewrite app_length.
    destruct (Nat.le_gt_cases (length csa) k) as [Hk|Hk].
    - destruct (Hge Hk) as (A & B & C & D). rewrite C, Hc, B, D.
      destruct (Mb (k - length csa)%nat id) as (lb & Elb & Hgeb & Hltb). rewrite Elb.
      exists (lthen' la lb). split; [reflexivity|]. cbn [lthen' l_req l_vars l_st l_credit l_states]. split.
      + intros Hkk. assert (Hk2 : (length csb <= k - length csa)%nat) by lia.
        destruct (Hgeb Hk2) as (A' & B' & C' & D'). repeat split; auto. rewrite D'. lia.
      + intros Hkk. assert (Hk2 : (k - length csa < length csb)%nat) by lia.
        destruct (Hltb Hk2) as (c & N1 & N2 & N3). exists c. split; [|split; [exact N2|]].
        * rewrite nth_error_app2 by exact Hk. exact N1.
        * intros X. apply app_eq_nil in X. destruct X as [_ X]. exact (N3 X).
    - destruct (Hlt Hk) as (c & N1 & N2 & N3). destruct (lin_req_stuck _ _ _ _ _ _ _ Ela N2) as [X _].
      rewrite X, Hcs. exists la. split; [reflexivity|]. split; [intros; lia|].
      intros _. exists c. split; [|auto]. rewrite nth_error_app1 by exact Hk. exact N1.
  Qed.

  Lemma lin_reading : forall f i vs cs e st,
      linear p i = true -> no_uninit vs -> sread f (senv vs) i = Out cs e st ->
      iters e = [] /\ no_uninit (vars e) /\ st <> AtEnd /\ lin_matches f vs i cs e st.
  Proof.
    induction f as [|f IH]; intros i vs cs e st L Hnu H; [discriminate|].
    destruct i; simpl in L; try discriminate; simpl in H.
    - (* call *)
      apply andb_prop in L. destruct L as [L123 Lo]. apply andb_prop in L123. destruct L123 as [L12 La].
      apply andb_prop in L12. destruct L12 as [Lp Lsf].
      destruct (t_service t) as [s| | | |] eqn:Es; try discriminate.
      destruct (t_function t) as [fn| | | |] eqn:Ef; try discriminate.
      rewrite (resolve_peer_local vs _ Lp) in H. cbn [early resolve_str] in H.
      unfold lin_matches. simpl lin. rewrite Es, Ef. unfold lcall.
      pose proof (resolve_args_lin vs args Hnu La) as Hra.
      destruct (SeqSem.resolve_args p ts ttl (senv vs) args) as [js| | |] eqn:Er; cbn [early] in H; try discriminate; try contradiction.
      + cbn [everything_known negb] in H. unfold svc_answer, to_answer in H. cbn [an_code an_value] in H.
        unfold answered_status, answered_value, bind_out.
        destruct (negb (sa_ret_code (svc p s fn js) =? 0)%Z) eqn:Ec.
        * inversion H; subst. split; [reflexivity|]. split; [try exact Hnu; try (apply no_uninit_set_var; exact Hnu)|]. split; [discriminate|]. intros k id. destruct k.
          -- eexists. split; [reflexivity|]. split; [simpl; lia|]. intros _. eexists. repeat split; discriminate.
          -- eexists. split; [reflexivity|]. split; [|simpl; lia]. intros _. simpl. rewrite Nat.sub_0_r. auto.
        * destruct (sa_parsed (svc p s fn js)) as [r|] eqn:Epar.
          -- destruct out as [v|v|]; try discriminate; inversion H; subst; (split; [reflexivity|]); (split; [try exact Hnu; try (apply no_uninit_set_var; exact Hnu)|]); (split; [discriminate|]);
               intros k id; destruct k; (eexists; split; [reflexivity|]); simpl;
               (split; [intros X; try lia; rewrite ?Nat.sub_0_r; auto | intros X; try lia; eexists; repeat split; discriminate]).
          -- inversion H; subst. split; [reflexivity|]. split; [try exact Hnu; try (apply no_uninit_set_var; exact Hnu)|]. split; [discriminate|]. intros k id. destruct k.
             ++ eexists. split; [reflexivity|]. split; [simpl; lia|]. intros _. eexists. repeat split; discriminate.
             ++ eexists. split; [reflexivity|]. split; [|simpl; lia]. intros _. simpl. rewrite Nat.sub_0_r. auto.
      + inversion H; subst. split; [reflexivity|]. split; [try exact Hnu; try (apply no_uninit_set_var; exact Hnu)|]. split; [discriminate|]. intros k id.
        eexists. split; [reflexivity|]. split; [|simpl; lia]. intros _. simpl. rewrite Nat.sub_0_r. auto.
    - (* ap *)
      destruct r as [v|v]; try discriminate.
      pose proof (resolve_ap_lin vs a Hnu L) as Va.
      unfold lin_matches. simpl lin.
      destruct (SeqSem.resolve_ap p ts ttl (senv vs) a) as [j| | |] eqn:Ea; try contradiction; cbn [early] in H.
      + inversion H; subst. split; [reflexivity|]. split; [apply no_uninit_set_var; exact Hnu|]. split; [discriminate|].
        intros k id. eexists. split; [reflexivity|]. split; [|simpl; lia]. intros _. simpl. rewrite Nat.sub_0_r. auto.
      + inversion H; subst. split; [reflexivity|]. split; [exact Hnu|]. split; [discriminate|].
        intros k id. eexists. split; [reflexivity|]. split; [|simpl; lia]. intros _. simpl. rewrite Nat.sub_0_r. auto.
    - (* seq *)
      apply andb_prop in L. destruct L as [La Lb].
      destruct (sread f (senv vs) i1) as [csa ea sta| |] eqn:Ea; cbn [andthen] in H; try discriminate.
      destruct (IH _ _ _ _ _ La Hnu Ea) as (Hia & Hnua & Nata & Ma).
      assert (Hstop : is_done sta = false -> cs = csa /\ e = ea /\ st = sta).
      { intros X. destruct sta; cbn [is_done] in X; try discriminate; try congruence; inversion H; auto. }
      destruct (is_done sta) eqn:Ec.
      + assert (Hgo : exists csb eb stb, sread f (senv (vars ea)) i2 = Out csb eb stb /\ cs = csa ++ csb /\ e = eb /\ st = normalize stb).
        { rewrite (senv_eta ea Hia) in H.
          destruct sta; cbn [is_done] in Ec; try discriminate;
            (destruct (sread f (senv (vars ea)) i2) as [csb eb stb| |]; cbn [more] in H; try discriminate;
             inversion H; subst; eauto 10). }
        destruct Hgo as (csb & eb & stb & Eb & -> & -> & ->).
        destruct (IH _ _ _ _ _ Lb Hnua Eb) as (Hib & Hnub & Natb & Mb).
        assert (Hn' : normalize stb = stb) by (destruct stb; auto; congruence). rewrite Hn'.
        split; [exact Hib|]. split; [exact Hnub|]. split; [exact Natb|].
        intros k id. rewrite lin_seq_two. exact (two_matches_go is_done f vs i1 i2 _ _ _ _ _ _ eq_refl Ec Ma Mb k id).
      + destruct (Hstop eq_refl) as (-> & -> & ->).
        split; [exact Hia|]. split; [exact Hnua|]. split; [exact Nata|].
        intros k id. rewrite lin_seq_two. exact (two_matches_stop is_done f vs i1 i2 _ _ _ eq_refl Ec Ma k id).
    - (* xor *)
      apply andb_prop in L. destruct L as [La Lb].
      destruct (sread f (senv vs) i1) as [csa ea sta| |] eqn:Ea; cbn [andthen] in H; try discriminate.
      destruct (IH _ _ _ _ _ La Hnu Ea) as (Hia & Hnua & Nata & Ma).
      assert (Hstop : is_failed sta = false -> cs = csa /\ e = ea /\ st = sta).
      { intros X. destruct sta; cbn [is_failed] in X; try discriminate; try congruence; inversion H; auto. }
      destruct (is_failed sta) eqn:Ec.
      + assert (Hgo : exists csb eb stb, sread f (senv (vars ea)) i2 = Out csb eb stb /\ cs = csa ++ csb /\ e = eb /\ st = normalize stb).
        { rewrite (senv_eta ea Hia) in H.
          destruct sta; cbn [is_failed] in Ec; try discriminate;
            (destruct (sread f (senv (vars ea)) i2) as [csb eb stb| |]; cbn [more] in H; try discriminate;
             inversion H; subst; eauto 10). }
        destruct Hgo as (csb & eb & stb & Eb & -> & -> & ->).
        destruct (IH _ _ _ _ _ Lb Hnua Eb) as (Hib & Hnub & Natb & Mb).
        assert (Hn' : normalize stb = stb) by (destruct stb; auto; congruence). rewrite Hn'.
        split; [exact Hib|]. split; [exact Hnub|]. split; [exact Natb|].
        intros k id. rewrite lin_xor_two. exact (two_matches_go is_failed f vs i1 i2 _ _ _ _ _ _ eq_refl Ec Ma Mb k id).
      + destruct (Hstop eq_refl) as (-> & -> & ->).
        split; [exact Hia|]. split; [exact Hnua|]. split; [exact Nata|].
        intros k id. rewrite lin_xor_two. exact (two_matches_stop is_failed f vs i1 i2 _ _ _ eq_refl Ec Ma k id).
    - (* IMatch *)
      apply andb_prop in L. destruct L as [L12 Lb]. apply andb_prop in L12. destruct L12 as [Ll Lr].
      pose proof (resolve_value_lin vs l Hnu Ll) as Vl. pose proof (resolve_value_lin vs r Hnu Lr) as Vr.
      unfold lin_matches. simpl lin.
      destruct (SeqSem.resolve_value p ts ttl (senv vs) l) as [lv| | |] eqn:El; try contradiction; cbn [early] in H.
      2: { inversion H; subst. split; [reflexivity|]. split; [exact Hnu|]. split; [discriminate|].
           intros k id. eexists. split; [reflexivity|]. split; [|simpl; lia]. intros _. simpl. rewrite Nat.sub_0_r. auto. }
      destruct (SeqSem.resolve_value p ts ttl (senv vs) r) as [rv| | |] eqn:Er; try contradiction; cbn [early] in H.
      2: { inversion H; subst. split; [reflexivity|]. split; [exact Hnu|]. split; [discriminate|].
           intros k id. eexists. split; [reflexivity|]. split; [|simpl; lia]. intros _. simpl. rewrite Nat.sub_0_r. auto. }
      destruct (Bool.eqb (json_eqb lv rv) true) eqn:Eq.
      + destruct (sread f (senv vs) i) as [csb eb stb| |] eqn:Eb; cbn [more] in H; try discriminate.
        inversion H; subst. destruct (IH _ _ _ _ _ Lb Hnu Eb) as (Hib & Hnub & Natb & Mb).
        assert (Hn' : normalize stb = stb) by (destruct stb; auto; congruence). rewrite Hn'.
        split; [exact Hib|]. split; [exact Hnub|]. split; [exact Natb|]. exact Mb.
      + inversion H; subst. split; [reflexivity|]. split; [exact Hnu|]. split; [discriminate|].
        intros k id. eexists. split; [reflexivity|]. split; [|simpl; lia]. intros _. simpl. rewrite Nat.sub_0_r. auto.
    - (* IMisMatch *)
      apply andb_prop in L. destruct L as [L12 Lb]. apply andb_prop in L12. destruct L12 as [Ll Lr].
      pose proof (resolve_value_lin vs l Hnu Ll) as Vl. pose proof (resolve_value_lin vs r Hnu Lr) as Vr.
      unfold lin_matches. simpl lin.
      destruct (SeqSem.resolve_value p ts ttl (senv vs) l) as [lv| | |] eqn:El; try contradiction; cbn [early] in H.
      2: { inversion H; subst. split; [reflexivity|]. split; [exact Hnu|]. split; [discriminate|].
           intros k id. eexists. split; [reflexivity|]. split; [|simpl; lia]. intros _. simpl. rewrite Nat.sub_0_r. auto. }
      destruct (SeqSem.resolve_value p ts ttl (senv vs) r) as [rv| | |] eqn:Er; try contradiction; cbn [early] in H.
      2: { inversion H; subst. split; [reflexivity|]. split; [exact Hnu|]. split; [discriminate|].
           intros k id. eexists. split; [reflexivity|]. split; [|simpl; lia]. intros _. simpl. rewrite Nat.sub_0_r. auto. }
      destruct (Bool.eqb (json_eqb lv rv) false) eqn:Eq.
      + destruct (sread f (senv vs) i) as [csb eb stb| |] eqn:Eb; cbn [more] in H; try discriminate.
        inversion H; subst. destruct (IH _ _ _ _ _ Lb Hnu Eb) as (Hib & Hnub & Natb & Mb).
        assert (Hn' : normalize stb = stb) by (destruct stb; auto; congruence). rewrite Hn'.
        split; [exact Hib|]. split; [exact Hnub|]. split; [exact Natb|]. exact Mb.
      + inversion H; subst. split; [reflexivity|]. split; [exact Hnu|]. split; [discriminate|].
        intros k id. eexists. split; [reflexivity|]. split; [|simpl; lia]. intros _. simpl. rewrite Nat.sub_0_r. auto.
    - (* fail *)
      destruct f0; try discriminate. inversion H; subst. split; [reflexivity|]. split; [try exact Hnu; try (apply no_uninit_set_var; exact Hnu)|]. split; [discriminate|].
      intros k id. eexists. split; [reflexivity|]. split; [|simpl; lia]. intros _. simpl. rewrite Nat.sub_0_r. auto.
    - (* never *)
      inversion H; subst. split; [reflexivity|]. split; [try exact Hnu; try (apply no_uninit_set_var; exact Hnu)|]. split; [discriminate|].
      intros k id. eexists. split; [reflexivity|]. split; [|simpl; lia]. intros _. simpl. rewrite Nat.sub_0_r. auto.
    - (* null *)
      inversion H; subst. split; [reflexivity|]. split; [try exact Hnu; try (apply no_uninit_set_var; exact Hnu)|]. split; [discriminate|].
      intros k id. eexists. split; [reflexivity|]. split; [|simpl; lia]. intros _. simpl. rewrite Nat.sub_0_r. auto.
  Qed.
End Local.

(* ------------------------------------------------------------------------------------------ *)
(* the rounds *)
Section Rounds.
  Variable svc : string -> string -> string -> list json -> service_answer.
  Variable p : string.
  Variable ts ttl : N.
  Hypothesis codes_i32 : ret_codes_i32 svc.
  (* the executor: any stream hook (never consulted), any end-of-run step that leaves a context without streams alone *)
  Variable hook : (instr -> ctx -> xres) -> instr -> ctx -> option xres.
  Variable finish : ctx -> ctx + uncatchable.
  Hypothesis finish_ok : forall x, x_ext x = ext_new ->
      exists y, finish x = inl y /\ data_of_ctx y = data_of_ctx x /\ x_next_peers y = x_next_peers x /\
                x_requests y = x_requests x.

  Notation lin := (lin svc p ts ttl).
  Notation covered := covered.

  (* what a peer holds between two rounds: after n rounds, n calls are answered or about to be *)
  Definition round_ok (f : nat) (s : instr) (n : nat) (d : idata) (rs : list (N * service_answer)) : Prop :=
    d_lcid d = N.of_nat n /\
    Forall (covered (d_cids d)) (d_trace d) /\
    match n with
    | O => d_trace d = [] /\ rs = []
    | S n' => exists lp c, lin f n' (N.of_nat n) [] s = Some lp /\ d_trace d = l_states lp /\
                           l_req lp = Some (N.of_nat n, c) /\ rs = [(N.of_nat n, svc_of svc p c)]
    end.

  Lemma merge_cids_empty : forall c, merge_cid_states c empty_cids = c.
  Proof. destruct c; reflexivity. Qed.

  Lemma scal_rel_new : scal_rel matrix_new [].
  Proof. unfold scal_rel. cbn. repeat split. Qed.

  Lemma round_step : forall f s n d rs B' ln,
      linear p s = true -> names_ok [] s = Some B' -> N.of_nat n < 4294967295 ->
      round_ok f s n d rs ->
      lin f n (N.of_nat n + 1) [] s = Some ln ->
      exists code d' reqs signed,
        run hook finish f {| ri_script := s; ri_params := params p ts ttl; ri_prev := d; ri_cur := empty_data; ri_results := rs |}
        = OutNewData code d' [] reqs signed /\
        d_trace d' = l_states ln /\
        d_lcid d' = (match l_req ln with Some _ => N.of_nat n + 1 | None => N.of_nat n end) /\
        Forall (covered (d_cids d')) (d_trace d') /\
        map (fun r => (fst r, call_of_request p r)) reqs = match l_req ln with Some r => [r] | None => [] end.
  Proof.
    intros f s n d rs B' ln L Hn Hlt (Hlc & Hcov & Hprev) Hl.
    set (inp := {| ri_script := s; ri_params := params p ts ttl; ri_prev := d; ri_cur := empty_data; ri_results := rs |}).
    set (w0 := {| w_vars := []; w_prev := d_trace d; w_res := []; w_reqs := []; w_lcid := N.of_nat n; w_rs := rs |}).
    assert (HI : Inv p ts ttl (initial_ctx inp) w0).
    { apply Inv_intro; cbn; try exact Hext.
      - split; [reflexivity|split; [apply scal_rel_new|reflexivity]].
      - reflexivity.
      - apply hrel_from.
      - reflexivity.
      - exact Hlc.
      - reflexivity.
      - rewrite merge_cids_empty. exact Hcov.
      - constructor.
      - reflexivity. }
    assert (Hp : prev_ok svc p ts ttl f n w0 s []).
    { destruct n as [|n']; cbn [prev_ok w0 w_prev w_lcid w_vars w_rs].
      - destruct Hprev as [-> _]. auto.
      - destruct Hprev as (lp & c & Elp & Htr & Hrq & Hrs). exists lp. split; [exact Elp|]. split; [rewrite app_nil_r; exact Htr|].
        split; [reflexivity|]. intros id c' X. rewrite Hrq in X. injection X as <- <-. exact Hrs. }
    assert (Hb : bound_in [] []) by (intros m Hm; simpl in Hm; congruence).
    destruct (exec_lin svc p ts ttl hook codes_i32 f s (initial_ctx inp) w0 n [] [] B' ln L HI Hlt Hp Hb Hn Hl)
      as (x' & Ho & HI' & _ & _ & _).
    destruct HI' as (R' & Hnp & Hh & Hrq & Hlc' & Hrs' & _ & Hc2 & Hext').
    pose proof (hrel_result _ _ _ Hh) as Htr. cbn [after w_res w0 app] in Htr, Hc2.
    destruct (finish_ok x' Hext') as (y & Ef & Hd & Hnpy & Hrqy).
    assert (Hout : forall code, exists d' reqs signed,
               match finish x' with
               | inl x1 => OutNewData code (data_of_ctx x1) (dedup (x_next_peers x1) []) (x_requests x1) (x_tracker x1)
               | inr u => OutPrevData (uncatchable_code u)
               end = OutNewData code d' [] reqs signed /\ d_trace d' = l_states ln /\
               d_lcid d' = (match l_req ln with Some _ => N.of_nat n + 1 | None => N.of_nat n end) /\
               Forall (covered (d_cids d')) (d_trace d') /\
               map (fun r => (fst r, call_of_request p r)) reqs = match l_req ln with Some r => [r] | None => [] end).
    { intros code. exists (data_of_ctx x'), (x_requests x'), (x_tracker y). rewrite Ef, Hd, Hnpy, Hrqy, Hnp. cbn [dedup].
      split; [reflexivity|]. unfold data_of_ctx. cbn [d_trace d_lcid d_cids]. rewrite Htr.
      split; [reflexivity|]. split; [exact Hlc'|]. split; [exact Hc2|]. exact Hrq. }
    unfold run. fold inp. change (ri_script inp) with s. unfold outcome_of in Ho.
    destruct (l_st ln).
    - rewrite Ho. destruct (Hout (match x_call_results x' with [] => 0%Z | _ => farewell_error_code end)) as (d' & reqs & sg & E & X).
      eexists. exists d', reqs, sg. split; [exact E | exact X].
    - rewrite Ho. destruct (Hout (match x_call_results x' with [] => 0%Z | _ => farewell_error_code end)) as (d' & reqs & sg & E & X).
      eexists. exists d', reqs, sg. split; [exact E | exact X].
    - rewrite Ho. destruct (Hout (match x_call_results x' with [] => 0%Z | _ => farewell_error_code end)) as (d' & reqs & sg & E & X).
      eexists. exists d', reqs, sg. split; [exact E | exact X].
    - destruct Ho as (c & Ho). rewrite Ho. destruct (Hout (catchable_code c)) as (d' & reqs & sg & E & X).
      eexists. exists d', reqs, sg. split; [exact E | exact X].
  Qed.

  Lemma skipn_nth : forall A (l : list A) n x, nth_error l n = Some x -> skipn n l = x :: skipn (S n) l.
  Proof.
    induction l as [|y l IH]; intros n x H; destruct n; simpl in *; try discriminate.
    - inversion H; reflexivity.
    - apply IH. exact H.
  Qed.

  Lemma rounds_from : forall f s cs e st B',
      linear p s = true -> names_ok [] s = Some B' ->
      seq_eval (svc_answer svc) everything_known p ts ttl f empty_env s = Out cs e st ->
      N.of_nat (length cs) < 4294967295 ->
      forall m n d rs, (n + m = length cs)%nat -> round_ok f s n d rs ->
        local_rounds_with svc ts ttl (run hook finish) (S m) f p s d rs = Some (map (fun c => [c]) (skipn n cs)).
  Proof.
    intros f s cs e st B' L Hn Hread Hlen.
    assert (Hnu : no_uninit []) by (intros m; simpl; discriminate).
    destruct (lin_reading svc p ts ttl f s [] cs e st L Hnu Hread) as (_ & _ & _ & M).
    induction m as [|m IH]; intros n d rs Hnm Hr.
    - (* every call is answered: the run requests nothing *)
      destruct (M n (N.of_nat n + 1)) as (l & El & Hge & _).
      destruct (Hge ltac:(lia)) as (Hreq & _).
      destruct (round_step f s n d rs B' l L Hn ltac:(lia) Hr El) as (code & d' & reqs & sg & Erun & _ & _ & _ & Hrq).
      cbn [local_rounds_with]. fold (params p ts ttl). rewrite Erun. rewrite Hreq in Hrq.
      destruct reqs; [|discriminate]. replace n with (length cs) by lia. rewrite skipn_all. reflexivity.
    - destruct (M n (N.of_nat n + 1)) as (l & El & _ & Hlt).
      destruct (Hlt ltac:(lia)) as (c & Hnth & Hreq & _).
      destruct (round_step f s n d rs B' l L Hn ltac:(lia) Hr El) as (code & d' & reqs & sg & Erun & Htr & Hlc & Hcov & Hrq).
      rewrite Hreq in Hrq, Hlc.
      destruct reqs as [|[id rq] [|r2 reqs]]; try discriminate. cbn [map fst] in Hrq. injection Hrq as Hid Hc.
      change (local_rounds_with svc ts ttl (run hook finish) (S (S m)) f p s d rs) with
        (match run hook finish f {| ri_script := s; ri_params := params p ts ttl; ri_prev := d; ri_cur := empty_data; ri_results := rs |} with
         | OutNewData _ d0 next reqs0 _ =>
             match next, reqs0 with
             | [], [] => Some []
             | [], _ => option_map (cons (map (call_of_request p) reqs0))
                                   (local_rounds_with svc ts ttl (run hook finish) (S m) f p s d0 (map (answer_request svc p) reqs0))
             | _, _ => None
             end
         | _ => None
         end).
      rewrite Erun. cbn [map].
      assert (Hr' : round_ok f s (S n) d' [answer_request svc p (id, rq)]).
      { assert (E1 : N.of_nat (S n) = N.of_nat n + 1) by lia.
        split; [rewrite Hlc; lia|]. split; [exact Hcov|].
        exists l, c. rewrite E1. split; [exact El|]. split; [exact Htr|]. split; [exact Hreq|].
        unfold answer_request, svc_of. cbn [fst snd]. rewrite <- Hc, Hid. reflexivity. }
      rewrite (IH (S n) d' _ ltac:(lia) Hr'). cbn [option_map].
      rewrite (skipn_nth _ _ _ _ Hnth). cbn [map]. rewrite Hc. reflexivity.
  Qed.

  Theorem C16_local_linear_proof : forall (s : instr) (fs : nat) (cs : list call_ev) (e : env) (st : status),
      linear p s = true -> names_ok [] s <> None ->
      seq_eval (svc_answer svc) everything_known p ts ttl fs empty_env s = Out cs e st ->
      N.of_nat (length cs) < 4294967295 ->
      local_rounds_with svc ts ttl (run hook finish) (S (length cs)) fs p s empty_data [] = Some (map (fun c => [c]) cs).
  Proof.
    intros s fs cs e st L Hn Hread Hlen.
    destruct (names_ok [] s) as [B'|] eqn:En; [|congruence].
    apply (rounds_from fs s cs e st B' L En Hread Hlen (length cs) O empty_data []); [lia|].
    split; [reflexivity|]. split; [constructor|]. split; reflexivity.
  Qed.
End Rounds.

Lemma no_finish_ok : forall x, x_ext x = ext_new ->
    exists y, no_finish x = inl y /\ data_of_ctx y = data_of_ctx x /\ x_next_peers y = x_next_peers x /\
              x_requests y = x_requests x.
Proof. intros x _. exists x. repeat split. Qed.

Lemma finish_streams_ok : forall x, x_ext x = ext_new ->
    exists y, finish_streams x = inl y /\ data_of_ctx y = data_of_ctx x /\ x_next_peers y = x_next_peers x /\
              x_requests y = x_requests x.
Proof.
  intros x H. unfold finish_streams, compactify_table, table_of. rewrite H. cbn. rewrite H. cbn.
  eexists. split; [reflexivity|]. repeat split.
Qed.

Theorem C16_local_linear : forall svc ts ttl, C16_local_linear_stmt svc ts ttl.
Proof.
  intros svc ts ttl p s fs cs e st Hc L Hn Hread Hlen.
  exists (S (length cs)), fs. split.
  - exact (C16_local_linear_proof svc p ts ttl Hc no_streams no_finish no_finish_ok s fs cs e st L Hn Hread Hlen).
  - exact (C16_local_linear_proof svc p ts ttl Hc stream_instr finish_streams finish_streams_ok s fs cs e st L Hn Hread Hlen).
Qed.
