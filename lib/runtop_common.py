"""Shared evaluation for the checks that go through `aquah runtop` and model/RunTop.v."""
import json
import vlib

HEADER = "From Aqua Require Import Base RunTop RunTopCases.\nOpen Scope N_scope.\n"
TYPE = "case_t"


def evaluate(cases, result, oracle_fn, key_of=None):
    """cases: list of runtop case dicts. Runs the harness, evaluates model + oracle in Coq."""
    if not cases:
        return
    outs = vlib.harness_lines("runtop", [json.dumps(c) for c in cases])
    terms, owner = [], []
    for ci, o in enumerate(outs):
        if "error" in o:
            result["errors"].append(o["error"])
            continue
        for ti, t in enumerate(o["coq"]):
            terms.append(t)
            owner.append((ci, ti))
        for cl in o["classes"]:
            result["distribution"][cl] = result["distribution"].get(cl, 0) + 1
            result["evaluations"] += 1
        # distinct non-trivial: (mutation, class) pairs together with the sizes that produced them
        for inf in o["info"]:
            ii = inf.get("info", inf)
            result["distinct"].add(json.dumps([inf.get("mutation"), inf.get("version"), ii.get("air_len"), ii.get("cur_len"),
                                               ii.get("result_sizes"), ii.get("unlimited_code"), inf.get("code")], sort_keys=True))
        if len(result["samples"]) < 3 and o["coq"]:
            result["samples"].append({"case": cases[ci], "first_term": o["coq"][0][:1200]})
    if not terms:
        return
    fails, errs = vlib.coq_eval_cases("runtop", HEADER, TYPE, {"model": "check_case", "oracle": oracle_fn}, terms)
    result["errors"].extend(errs)
    for i in fails["model"]:
        ci, ti = owner[i]
        result["mismatch"].append({"case": dict(cases[ci]), "term_index": ti, "term": terms[i][:4000],
                                   "what": "model/RunTop.v execute_air disagrees with the implementation on this world"})
    for i in fails["oracle"]:
        ci, ti = owner[i]
        info = outs[ci]["info"][ti] if ti < len(outs[ci]["info"]) else {}
        result["oracle_fail"].append({"case": dict(cases[ci]), "term_index": ti, "term": terms[i][:4000],
                                      "info": info, "key": key_of(info) if key_of else None,
                                      "what": "the property oracle %s is false on the implementation's observation" % oracle_fn})
