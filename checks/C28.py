"""C28 -- the beautifier faithfully renders the script structure."""
import hashlib
import json
import re

import airgen
import vlib

PID = "C28"
MODEL_TARGETS = ["model/BeautifyCases.vo"]
HARNESS_BINS = ["beautify"]
RULE = ("scripts accepted by the real parser: lib/airgen.py profiles (depth 2..8, par / xor chains, folds with last "
        "instruction, new, match/mismatch, canon, ap, lenses), a closed-fragment combinator covering every instruction "
        "form (stream maps, canon maps, all fail / ap / new / fold forms, never, null, hopon patterns and near misses, "
        "literals that look like keywords) and a hand-written corpus; each script is beautified by the real "
        "air_beautifier::Beautifier with indent steps 1, 2, 4, 8 and the hopon switch off/on; a case is one "
        "(script, step, hopon) triple; distinct = distinct script texts with at least one compound "
        "(par / xor / match / mismatch / fold / new) instruction")
PARTIAL = [
    "the renderings of instructions (the AST's Display, field `text` of Air.v) are opaque strings; the theorems need "
    "the hypothesis texts_ok (no newline inside a rendering, no leading blank, not literally par: try: | catch: last:); "
    "without it the literal property is refuted (theorem C28_literal_newline_refuted: a string literal containing a "
    "newline is printed verbatim and its tail is read as lines of the listing)",
    "the Display of the operands of a call is modelled in Coq (Beautify.v section 1) and validated against the real "
    "Display on every case; Rust's `{}` of f64 is computed from serde_json's text of the number",
    "I/O errors of the writer are not modelled (the writer is a Vec); the usize overflow of the indentation is modelled "
    "(BCrash) but not exercised on the implementation (it needs 2^64 bytes of blanks first)",
]
ASSUMPTIONS = [
    "operand renderings contain no newline, do not begin with a blank and are not block keywords (texts_ok; evaluated on every case, all generated cases satisfy it)",
    "f64 Display = the shortest digits serde_json prints, written positionally (floats in scripts have at most 11 characters)",
]

HEADER = "From Aqua Require Import Base Air Beautify BeautifyCases.\nOpen Scope N_scope.\n"
TYPE = "case_t"
STEPS = [1, 2, 4, 8]

# ---- hand-written corpus: every instruction form, every operand form --------------------------------------
CORPUS = [
    '(null)',
    '(never)',
    '(call "peerA" ("srv" "fn") [])',
    '(call "peerA" ("srv" "fn") [] out)',
    '(call "peerA" ("srv" "fn") [] $stream)',
    '(call %init_peer_id% ("srv" "fn") [%init_peer_id% %ttl% %timestamp% %last_error% %last_error%.$.message :error: '
    ':error:.$.error_code "lit" "" 1 -1 +7 0 1.5 -0.25 1.0 100.0 0.0000001 0.000015 12345.6789 -0.0 true false []] x)',
    '(seq (call "peerA" ("s" "idx") [] idx) (seq (call "peerA" ("s" "obj") [] obj) (call obj.$.peer (obj.$.srv obj.$.fn.[0]) '
    '[obj obj.$.a obj.$.a.[1] obj.$.a.[1].b obj.$.length obj.$.[idx] obj.$.a.[idx].c] $res)))',
    '(seq (call "peerA" ("s" "idx") [] idx) (seq (call "peerA" ("s" "obj") [] obj) (call "peerB" ("s" "f") [obj.$.[idx] obj.$.a.[idx]])))',
    '(seq (ap 1 $str) (seq (canon "peerA" $str #canon) (call #canon.$.[0] (#canon.$.[1] #canon.$.[2].name) [#canon #canon.$.[0] #canon.$.length] y)))',
    '(seq (ap ("key" 1) %map) (seq (canon "peerA" %map #%cmap) (call #%cmap.$.key.[0] ("s" #%cmap.$.key.[0]) [#%cmap #%cmap.$.key] y)))',
    # ap: every argument form, to scalar and to stream
    '(seq (ap %init_peer_id% a1) (seq (ap %timestamp% a2) (seq (ap %ttl% a3) (seq (ap :error: a4) (seq (ap :error:.$.message a5) '
    '(seq (ap %last_error% a6) (seq (ap %last_error%.$.error_code a7) (seq (ap "literal" a8) (seq (ap 42 a9) (seq (ap -1.25 a10) '
    '(seq (ap true a11) (seq (ap [] a12) (seq (ap a1 a13) (ap a8.$.x $s))))))))))))))',
    '(seq (ap 1 $str) (seq (canon "peerA" $str #canon) (seq (ap #canon a1) (seq (ap #canon.$.[0] a2) (seq (ap #canon.$.length $s2) (ap a2.$.field.[3] $s2))))))',
    # stream maps: ap with every key form, canon map, canon map to scalar, folds over maps
    '(seq (ap ("k" "v") %map) (seq (ap (1 2) %map) (seq (ap (-3 true) %map) (seq (call "peerA" ("s" "f") [] key) '
    '(seq (ap (key []) %map) (seq (ap (key.$.name %init_peer_id%) %map) (seq (ap 1 $st) (seq (canon "peerA" $st #can) '
    '(ap (#can.$.[0] #can) %map)))))))))',
    '(seq (ap ("k" 1) %map) (seq (canon "peerA" %map #%cmap) (seq (canon "peerB" %map scalar) (seq (ap scalar x) (ap #%cmap.$.k y)))))',
    '(seq (ap ("k" 1) %map) (fold %map kv (seq (ap kv.$.key $keys) (next kv))))',
    '(seq (ap ("k" 1) %map) (fold %map kv (par (ap kv.$.value $vals) (next kv)) (null)))',
    '(seq (ap ("k" 1) %map) (seq (canon "peerA" %map #%cmap) (fold #%cmap it (seq (ap it $s) (next it)))))',
    '(seq (ap ("k" 1) %map) (seq (canon "peerA" %map #%cmap) (fold #%cmap.$.k it (seq (ap it $s) (next it)) (call "peerA" ("s" "done") []))))',
    # folds over scalars, lambdas, canon streams, the empty array, streams; with and without last instruction
    '(seq (call "peerA" ("s" "arr") [] arr) (fold arr i (seq (call i ("s" "f") [i] $out) (next i))))',
    '(seq (call "peerA" ("s" "arr") [] arr) (fold arr.$.items i (par (call i ("s" "f") [i]) (next i)) (seq (null) (never))))',
    '(fold [] i (seq (null) (next i)))',
    '(fold [] i (null) (null))',
    '(seq (ap 1 $str) (seq (canon "peerA" $str #canon) (fold #canon i (seq (next i) (ap i $rev)))))',
    '(seq (ap 1 $str) (fold $str i (seq (ap i $str2) (next i))))',
    '(seq (ap 1 $str) (fold $str i (par (seq (ap i $str2) (null)) (next i)) (seq (canon "peerA" $str2 #res) (null))))',
    '(seq (ap 1 $str) (fold $str i (xor (par (null) (next i)) (never)) (xor (null) (fail :error:))))',
    # nested folds with last instructions at several depths
    '(seq (call "peerA" ("s" "arr") [] arr) (fold arr i (seq (fold arr j (seq (fold arr k (seq (null) (next k)) (call "p" ("s" "k") [])) '
    '(next j)) (call "p" ("s" "j") [])) (next i)) (call "p" ("s" "i") [])))',
    # fail: every form
    '(xor (fail 1 "message") (fail %last_error%))',
    '(xor (fail -5 "") (fail :error:))',
    '(xor (fail 1337 "par:") (seq (fail 2 "last:") (fail 9 "text ending with colon:")))',
    '(seq (call "peerA" ("s" "err") [] e) (xor (fail e) (fail e.$.inner)))',
    '(seq (ap 1 $str) (seq (canon "peerA" $str #canon) (fail #canon.$.[0])))',
    # match / mismatch: every operand form
    '(match 1 1 (mismatch "a" "b" (match true false (mismatch [] [] (match 1.5 -2 (null))))))',
    '(seq (call "peerA" ("s" "f") [] x) (match x %init_peer_id% (mismatch x.$.a %timestamp% (match %ttl% x.$.b.[0] (null)))))',
    '(xor (match :error: %last_error% (null)) (mismatch :error:.$.message %last_error%.$.message (null)))',
    '(seq (ap 1 $str) (seq (canon "peerA" $str #canon) (match #canon #canon.$.[0] (mismatch #canon.$.length 1 (null)))))',
    '(seq (ap ("k" 1) %map) (seq (canon "peerA" %map #%cmap) (match #%cmap #%cmap.$.k (null))))',
    # new: every argument form; hopon pattern and its near misses
    '(new scalar (seq (call "peerA" ("s" "f") [] scalar) (call "peerB" ("s" "g") [scalar])))',
    '(new $stream (new %map (new #canon (new #%cmap (null)))))',
    '(new $s (new #c1 (canon "peerA" $s #c1)))',
    '(new $s (new #c1 (canon %init_peer_id% $s #c1)))',
    '(seq (call "peerA" ("s" "relay") [] relay) (new $s (new #c1 (canon relay $s #c1))))',
    '(seq (call "peerA" ("s" "relay") [] relay) (new $s (new #c1 (canon relay.$.id.[0] $s #c1))))',
    '(seq (ap 1 $q) (seq (canon "peerA" $q #c1) (new $s (new #c1 (canon #c1.$.[0] $s #c1)))))',      # canon shadows the peer id
    '(seq (ap 1 $q) (seq (canon "peerA" $q #other) (new $s (new #c1 (canon #other.$.[0] $s #c1)))))',
    '(seq (ap ("k" 1) %q) (seq (canon "peerA" %q #%other) (new $s (new #c1 (canon #%other.$.k.[0] $s #c1)))))',
    '(seq (ap 1 $other) (new $s (new #c1 (canon "peerA" $other #c1))))',                                # another stream
    '(new $s (new #c1 (canon "peerA" $s #c2)))',                                                        # another canon name
    '(new #c1 (new $s (canon "peerA" $s #c1)))',                                                        # arguments swapped
    '(new $s (new #c1 (seq (canon "peerA" $s #c1) (null))))',                                           # not a bare canon
    '(new $s (new $t (canon "peerA" $s #c1)))',
    '(new %m (new #%c1 (canon "peerA" %m #%c1)))',
    '(new $s (new #c1 (new $s2 (new #c2 (canon "peerA" $s2 #c2)))))',
    '(seq (new $s (new #c1 (canon "peerA" $s #c1))) (par (new $s (new #c1 (canon "peerB" $s #c1))) (xor (new $s (new #c1 (canon "peerC" $s #c1))) (null))))',
    # par / xor chains, left and right nested, mixed with seq
    '(par (par (par (null) (never)) (null)) (par (null) (par (never) (null))))',
    '(xor (xor (xor (null) (never)) (null)) (xor (null) (xor (never) (null))))',
    '(par (xor (seq (null) (null)) (seq (seq (null) (never)) (null))) (seq (par (null) (null)) (xor (null) (null))))',
    '(seq (seq (seq (null) (null)) (seq (null) (null))) (seq (null) (seq (null) (seq (null) (null)))))',
    '(xor (par (seq (call "peerA" ("s" "f") [] a) (call "peerB" ("s" "g") [a] $b)) (call "peerC" ("s" "h") [])) (seq (call "peerA" ("s" "err") [%last_error%]) (fail %last_error%)))',
    # literals that look like the listing's own syntax (no newline inside)
    '(call "par:" ("try:" "catch:") ["|" "last:" "par:" "x <- call y" "  leading blanks" "trailing colon:" "tab\there"])',
    '(seq (ap "|" $s) (seq (ap "last:" $s) (seq (ap "catch:" $s) (ap "par:" $s))))',
    '(match "|" "last:" (mismatch "par:" "try:" (null)))',
    '(call "peerA" ("сервис" "функция") ["ünïcödé ∀ 漢字" "emoji 🙂"] результат)',
    '(call "peerA" ("s" "f") ["; not a comment" "(seq (null) (null))" "[1 2 3]" "a\\nb"])',
    # comments and odd whitespace in the source text
    '(seq ; a comment\n  (null)\n\t(par   (null) ; another\n (never)))',
    # names with dashes / underscores / digits
    '(seq (call "peerA" ("s" "f") [] -relay-) (seq (call -relay- ("s" "f") [-relay-.$.a_b-c] $str-eam_1) (canon -relay- $str-eam_1 #canon-stream_2)))',
]

# ---- closed fragments for the combinator ({n} = unique number) -------------------------------------------
FRAGS = [
    '(null)', '(never)',
    '(call "peerA" ("srv" "fn{n}") [] v{n})',
    '(call "peerB" ("srv" "fn") ["arg {n}" {n} -{n} {n}.5 true []] $s{n})',
    '(call %init_peer_id% ("srv" "fn") [%init_peer_id% %ttl% %timestamp% %last_error% :error:])',
    '(seq (call "peerA" ("s" "obj") [] o{n}) (call o{n}.$.peer ("s" o{n}.$.fn) [o{n}.$.a.[0] o{n}.$.b.length o{n}.$.[{n}]] r{n}))',
    '(seq (ap {n} $s{n}) (canon "peerB" $s{n} #can{n}))',
    '(seq (ap "v{n}" $s{n}) (seq (canon "peerB" $s{n} #can{n}) (fold #can{n} it{n} (seq (ap it{n} $out{n}) (next it{n})) (null))))',
    '(seq (ap ("k{n}" {n}) %m{n}) (seq (ap ({n} "v") %m{n}) (seq (canon "peerA" %m{n} #%cm{n}) (canon "peerA" %m{n} sc{n}))))',
    '(seq (ap ("k" 1) %m{n}) (fold %m{n} kv{n} (seq (ap kv{n}.$.key $keys{n}) (next kv{n}))))',
    '(seq (ap ("k" 1) %m{n}) (seq (canon "peerA" %m{n} #%cm{n}) (fold #%cm{n} it{n} (par (ap it{n} $vs{n}) (next it{n})) (never))))',
    '(xor (fail {n} "msg {n}") (fail %last_error%))',
    '(xor (null) (fail :error:))',
    '(seq (call "peerA" ("s" "err") [] e{n}) (xor (fail e{n}) (fail e{n}.$.inner)))',
    '(seq (ap %timestamp% t{n}) (ap t{n} $ts{n}))',
    '(seq (ap :error:.$.message em{n}) (ap %last_error%.$.error_code $codes{n}))',
    '(new $h{n} (new #hc{n} (canon "peer{n}" $h{n} #hc{n})))',
    '(new $h{n} (new #hc{n} (canon %init_peer_id% $h{n} #hc{n})))',
    '(seq (call "peerA" ("s" "relay") [] relay{n}) (new $h{n} (new #hc{n} (canon relay{n} $h{n} #hc{n}))))',
    '(seq (ap 1 $q{n}) (seq (canon "peerA" $q{n} #hc{n}) (new $h{n} (new #hc{n} (canon #hc{n}.$.[0] $h{n} #hc{n})))))',
    '(new $h{n} (new #hc{n} (canon "peerA" $h{n} #other{n})))',
    '(call "par:" ("try:" "catch:") ["|" "last:" "fold x y:"] v{n})',
    '(seq (call "peerA" ("s" "arr") [] arr{n}) (fold arr{n} i{n} (seq (call i{n} ("s" "f") [i{n}] $out{n}) (next i{n}))))',
    '(seq (call "peerA" ("s" "arr") [] arr{n}) (fold arr{n}.$.xs i{n} (par (next i{n}) (null)) (call "peerA" ("s" "last") [arr{n}])))',
    '(fold [] i{n} (seq (null) (next i{n})))',
    '(match {n} {n} (null))',
    '(mismatch "a{n}" %init_peer_id% (never))',
]
WRAP_VALUES = ['"a"', '"b c"', '1', '-2', '0.5', 'true', 'false', '[]', '%init_peer_id%', '%ttl%', '%timestamp%', ':error:', '%last_error%.$.message']


class Combo:
    def __init__(self, rng):
        self.r = rng
        self.n = 0

    def fresh(self):
        self.n += 1
        return str(self.n)

    def float_lit(self):
        # the lexer takes [+-]digits.digits of at most 11 characters
        r = self.r
        sign = r.choice(["", "", "-", "+"])
        ip = "".join(r.choice("0123456789") for _ in range(r.choice([1, 1, 2, 3, 5, 8])))
        if r.random() < 0.3:
            ip = "0" * r.choice([1, 2]) + ip[:3] if r.random() < 0.5 else "0"
        fp = "".join(r.choice("0123456789") for _ in range(r.choice([0, 1, 2, 3, 6, 9])))
        if r.random() < 0.25:
            fp = "0" * r.choice([1, 3, 5, 7]) + fp[:2]
        return (sign + ip + "." + fp)[:11]

    def frag(self):
        if self.r.random() < 0.08:
            return '(call "peerA" ("s" "floats") [%s])' % " ".join(self.float_lit() for _ in range(self.r.choice([1, 3, 6])))
        return self.r.choice(FRAGS).replace("{n}", self.fresh())

    def go(self, d, weights):
        r = self.r
        if d <= 0 or r.random() < 0.12:
            return self.frag()
        kinds = ["seq", "par", "xor", "new", "match", "fold_scalar", "fold_stream", "fold_map"]
        k = r.choices(kinds, weights)[0]
        n = self.fresh()
        if k in ("seq", "par", "xor"):
            return "(%s %s %s)" % (k, self.go(d - 1, weights), self.go(d - 1, weights))
        if k == "new":
            arg = r.choice(["v%s", "$s%s", "%%m%s", "#c%s", "#%%cm%s"]) % n
            return "(new %s %s)" % (arg, self.go(d - 1, weights))
        if k == "match":
            return "(%s %s %s %s)" % (r.choice(["match", "mismatch"]), r.choice(WRAP_VALUES), r.choice(WRAP_VALUES), self.go(d - 1, weights))
        body = self.go(d - 1, weights)
        last = ""
        if r.random() < 0.5:
            last = " " + self.go(min(d - 1, r.choice([0, 0, 1, 2])), weights)
        # ("(seq (next i) body)" is refused by the validator for stream folds: only in the corpus)
        nx = r.choice(["(seq %s (next i%s))", "(par %s (next i%s))", "(xor %s (next i%s))", "%s"])
        if nx == "%s":
            b = body
        else:
            b = nx % (body, n)
        if k == "fold_scalar":
            return '(seq (call "peerA" ("s" "arr") [] arr%s) (fold arr%s i%s %s%s))' % (n, n, n, b, last)
        if k == "fold_stream":
            return '(seq (ap %s $fs%s) (fold $fs%s i%s %s%s))' % (n, n, n, n, b, last)
        return '(seq (ap ("k" %s) %%fm%s) (fold %%fm%s i%s %s%s))' % (n, n, n, n, b, last)


COMBO_WEIGHTS = {
    "mixed": [5, 3, 3, 2, 2, 2, 1, 1],
    "par_chain": [2, 10, 1, 1, 1, 1, 0, 0],
    "xor_chain": [2, 1, 10, 1, 1, 1, 0, 0],
    "folds": [3, 1, 1, 1, 1, 5, 4, 3],
    "blocks": [1, 2, 2, 5, 5, 3, 1, 1],
    "seq_heavy": [12, 1, 1, 1, 1, 1, 1, 1],
}


def airgen_script(rng):
    d = rng.choice([2, 3, 3, 4, 4, 5, 6, 7, 8])
    style = rng.choice(["plain", "par", "xor", "folds", "fragment", "lasterr"])
    kw = dict(peers=rng.choice([2, 3, 5]), depth=d)
    if style == "par":
        kw.update(par_weight=12, xor_weight=1)
    elif style == "xor":
        kw.update(par_weight=1, xor_weight=12)
    elif style == "fragment":
        kw.update(fragment=True)
    elif style == "lasterr":
        kw.update(last_error=True)
    s = airgen.gen_script(rng, airgen.Profile(**kw))
    return re.sub(r"@([A-E])", r"peer\1", s), "airgen/" + style


def gen_cases(rng, tier, escalate=False):
    n = {"quick": 320, "thorough": 3600}[tier] * (2 if escalate else 1)
    cases = []
    # the corpus under every step and both settings of the switch
    for s in CORPUS:
        for step in STEPS:
            for hop in (False, True):
                cases.append({"script": s, "step": step, "hopon": hop, "origin": "corpus"})
    for k in range(n):
        if k % 2 == 0:
            s, origin = airgen_script(rng)
        else:
            style = rng.choice(sorted(COMBO_WEIGHTS))
            d = rng.choice([1, 2, 3, 3, 4, 4, 5, 6])
            if style in ("par_chain", "xor_chain", "seq_heavy"):
                d = rng.choice([3, 4, 5, 6, 7])
            s, origin = Combo(rng).go(d, COMBO_WEIGHTS[style]), "combo/" + style
        if len(s) > 40000:
            continue
        step = rng.choice(STEPS)
        hop = rng.random() < 0.5
        cases.append({"script": s, "step": step, "hopon": hop, "origin": origin})
        if rng.random() < 0.25:
            cases.append({"script": s, "step": rng.choice([x for x in STEPS if x != step]), "hopon": not hop, "origin": origin})
    return cases


# the script of the refutation theorem (a literal with a newline): evaluated on the implementation on every run
PROBE = {"script": '(seq (call "p" ("s" "f") ["a\npar:\n    null\n|\n    null"]) (null))', "step": 4, "hopon": False, "origin": "probe"}
PROBE_KEY = "literal-newline"


def _bump(d, k, n=1):
    d[k] = d.get(k, 0) + n


def _bucket(n, edges):
    for e in edges:
        if n <= e:
            return "<=%d" % e
    return ">%d" % edges[-1]


def _run(cases, result, probe=False):
    outs = vlib.harness_lines("beautify", [json.dumps({"script": c["script"], "step": c["step"], "hopon": c["hopon"]}) for c in cases])
    terms, owner = [], []
    dist = result["distribution"]
    for ci, o in enumerate(outs):
        if "error" in o:
            result["errors"].append({"case": cases[ci], "error": o["error"]})
            continue
        for cl in o.get("classes", []):
            if not probe:
                _bump(dist, "outcome:" + cl)
        if not o["coq"]:
            if not probe:
                _bump(dist, "origin-rejected:" + cases[ci].get("origin", "?"))
            continue
        inf = o["info"][0]
        terms.append(o["coq"][0])
        owner.append(ci)
        if probe:
            continue
        result["evaluations"] += 1
        for kind, cnt in inf["hist"].items():
            _bump(dist, "instr:" + kind, cnt)
        _bump(dist, "step:%d" % inf["step"])
        _bump(dist, "hopon:%s" % ("on" if inf["hopon"] else "off"))
        _bump(dist, "depth:" + _bucket(inf["depth"], [0, 1, 2, 4, 8, 16]))
        _bump(dist, "lines:" + _bucket(inf["lines"], [1, 5, 20, 80, 320]))
        _bump(dist, "folds-with-last", inf["last"])
        _bump(dist, "origin:" + cases[ci].get("origin", "?"))
        if inf["compound"] >= 1:
            result["distinct"].add(hashlib.sha256(cases[ci]["script"].encode()).hexdigest()[:20])
        if len(result["samples"]) < 3 and inf["compound"] >= 3 and inf["lines"] <= 40:
            result["samples"].append({"case": cases[ci], "info": inf, "term": o["coq"][0][-900:]})
    if not terms:
        return [], {}, owner
    fails, errs = vlib.coq_eval_cases("beautify" + ("_probe" if probe else ""), HEADER, TYPE,
                                      {"model": "check_case", "oracle": "c28_oracle", "hyp": "hyp_case", "display": "display_case"},
                                      terms, shard_size=60)
    result["errors"].extend(errs)
    return terms, fails, owner


def evaluate(cases, result, tier):
    if not cases:
        return
    terms, fails, owner = _run(cases, result)
    if fails:
        hyp_false = set(fails["hyp"])
        for i in fails["model"]:
            c = cases[owner[i]]
            diff = vlib.coq_print(HEADER, "mismatch_lines (%s)" % terms[i])[-600:] if len(terms[i]) < 200000 else ""
            result["mismatch"].append({"case": {k: c[k] for k in ("script", "step", "hopon")}, "term": terms[i][:4000], "differing_lines": diff,
                                       "what": "model/Beautify.v beautify_ast writes a different text than air_beautifier::Beautifier"})
        for i in fails["display"]:
            c = cases[owner[i]]
            result["mismatch"].append({"case": {k: c[k] for k in ("script", "step", "hopon")}, "term": terms[i][:4000],
                                       "what": "the Coq model of the Display of call operands disagrees with the real AST's Display (field text)"})
        for i in fails["oracle"]:
            c = cases[owner[i]]
            result["oracle_fail"].append({"case": {k: c[k] for k in ("script", "step", "hopon")}, "term": terms[i][:4000],
                                          "hypothesis_texts_ok": i not in hyp_false, "key": None,
                                          "what": "c28_oracle is false on the implementation's text: the independent reader does not get the "
                                                  "flattening of the parsed script back, or a line is not at step * depth"})
        if hyp_false:
            result["distribution"]["hypothesis-texts_ok-false"] = len(hyp_false)
    # the refutation witness on the real beautifier (not part of the generated cases: it violates the stated hypothesis)
    if len(cases) > 1:
        pres = {"evaluations": 0, "distinct": set(), "samples": [], "distribution": {}, "mismatch": [], "oracle_fail": [], "errors": []}
        pterms, pfails, _ = _run([PROBE], pres, probe=True)
        result["errors"].extend(pres["errors"])
        if pterms:
            reproduced = 0 in pfails.get("oracle", [])
            model_agrees = 0 not in pfails.get("model", [])
            result["distribution"]["probe:literal-newline:" + ("misread-by-the-reader" if reproduced else "read-correctly")] = 1
            result["distribution"]["probe:literal-newline:model-" + ("agrees" if model_agrees else "DISAGREES")] = 1
            known = {k["key"] for k in vlib.known_findings(PID)}
            if reproduced and PROBE_KEY in known:
                result["oracle_fail"].append({"case": {k: PROBE[k] for k in ("script", "step", "hopon")}, "key": PROBE_KEY,
                                              "what": "a string literal containing a newline is printed verbatim; the reader sees extra lines"})
