//! tetra17: honest histories of the REAL interpreter on several peers, observed at the call requests the
//! hosts receive (CallRequestParams: service, function, arguments, tetraplets), for property C17.
//!
//! input : {"script","peers","init","services","ops","drain": bool, "particle_id"?, "scripts_by_peer"?: {name: script}}
//!         (scripts_by_peer: a peer that runs ANOTHER script than the rest -- data whose recorded tetraplets do not
//!          belong to the receiving peer's call instructions)
//! output: {"peer_ids": {name: id}, "requests": [{"step","peer","id","service","function","args","tetraplets"}],
//!          "runs": n, "codes": {code: count}, "panics": n, "quiescent": bool}
//!
//! Nothing is interpreted here: the expected tetraplets are computed by lib/tetra17.py from the script
//! text alone and compared there with what this driver saw.

use aquah::sim::*;
use serde_json::json;
use serde_json::Value as J;
use std::collections::BTreeMap;
use std::io::BufRead;

fn run_case(case: &J) -> J {
    let peers: Vec<String> = case["peers"].as_array().map(|a| a.iter().filter_map(|x| x.as_str().map(String::from)).collect()).unwrap_or_default();
    if peers.is_empty() {
        return json!({"error": "no peers"});
    }
    let script = Net::instantiate(case["script"].as_str().unwrap_or("(null)"), &peers);
    let services_json = Net::instantiate(&case["services"].to_string(), &peers);
    let services = Services::from_json(&serde_json::from_str(&services_json).unwrap_or(J::Null));
    let init = (case["init"].as_u64().unwrap_or(0) as usize) % peers.len();
    if let Err(e) = air_parser::parse(&script) {
        return json!({"error": format!("script does not parse: {}", e.chars().take(300).collect::<String>())});
    }
    let mut ops = ops_from_json(&case["ops"]);
    if case["drain"].as_bool().unwrap_or(true) {
        for _ in 0..80 {
            for p in 0..peers.len() {
                ops.push(Op::Return(p, 0));
            }
            ops.push(Op::Deliver(0, false));
        }
    }
    let mut net = Net::new(&script, &peers, init, services, case["particle_id"].as_str().unwrap_or("particle-17"));
    let mut own: BTreeMap<usize, String> = BTreeMap::new();
    if let Some(m) = case["scripts_by_peer"].as_object() {
        for (name, sc) in m {
            if let (Some(i), Some(text)) = (peers.iter().position(|p| p == name), sc.as_str()) {
                let inst = Net::instantiate(text, &peers);
                if let Err(e) = air_parser::parse(&inst) {
                    return json!({"error": format!("script of peer {} does not parse: {}", name, e.chars().take(300).collect::<String>())});
                }
                own.insert(i, inst);
            }
        }
    }
    let mut requests = vec![];
    let mut codes: BTreeMap<String, u64> = BTreeMap::new();
    let mut panics = 0u64;
    let mut messages = vec![];
    for op in ops.iter() {
        if !own.is_empty() {
            // the peer the next operation runs on (as in sim::Net::exec)
            let target = match op {
                Op::Start => Some(net.init_peer),
                Op::Idle(p) | Op::Return(p, _) => Some(*p % net.hosts.len()),
                Op::Deliver(k, _) => if net.inflight.is_empty() { None } else { Some(net.inflight[*k % net.inflight.len()].to) },
                Op::Redeliver(k) => if net.delivered.is_empty() { None } else { Some(net.delivered[*k % net.delivered.len()].to) },
            };
            if let Some(t) = target {
                net.air = own.get(&t).cloned().unwrap_or_else(|| script.clone());
            }
        }
        let rec = match net.exec(op) {
            Some(r) => r,
            None => continue,
        };
        if rec.out.panic.is_some() {
            panics += 1;
            continue;
        }
        *codes.entry(rec.out.code.to_string()).or_insert(0) += 1;
        if rec.out.code != 0 && messages.len() < 4 {
            messages.push(json!([rec.step, peers[rec.peer], rec.out.code, rec.out.msg.chars().take(200).collect::<String>()]));
        }
        if let Some(reqs) = &rec.out.requests {
            for (id, r) in reqs {
                requests.push(json!({"step": rec.step, "peer": peers[rec.peer], "id": id, "service": r.service,
                                     "function": r.function, "args": r.args, "tetraplets": r.tetraplets}));
            }
        }
    }
    let quiescent = net.inflight.is_empty() && net.hosts.iter().all(|h| h.pending.is_empty());
    let ids: BTreeMap<String, String> = net.hosts.iter().map(|h| (h.peer.name.clone(), h.peer.id.clone())).collect();
    json!({"peer_ids": ids, "requests": requests, "runs": net.step, "codes": codes, "panics": panics,
           "quiescent": quiescent, "messages": messages})
}

fn main() {
    quiet_panics();
    for line in std::io::stdin().lock().lines() {
        let line = match line {
            Ok(l) => l,
            Err(_) => break,
        };
        if line.trim().is_empty() {
            continue;
        }
        let case: J = serde_json::from_str(&line).unwrap_or(J::Null);
        println!("{}", run_case(&case));
    }
}
