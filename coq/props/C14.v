(* props/C14.v -- forged or replayed results from other peers are never accepted.
   Only pinned statements, [exact], non-vacuity examples and Print Assumptions. *)
From Aqua Require Import Base RunTop Sig SigProofs Forge ForgeProofs.
From Aqua Require Import Json Air Trace Handler Values Scalars Lens Exec RunExec ExecStreams ForgeExec ForgeExecProofs.
Open Scope N_scope.
Open Scope string_scope.
Open Scope list_scope.

(* ---------------- the verification step (model/Forge.v) ---------------- *)
(* for every hash relation of the five stores and every key-validity predicate *)
Definition C14_verification_stmt : Prop :=
  forall okv okt oke okr oks (key_ok : string -> bool),
    C14_signed_stmt okv okt oke okr oks key_ok /\ C14_honest_stmt okv okt oke okr oks key_ok /\
    C14_store_stmt okv okt oke okr oks key_ok /\ C14_store_iff_stmt okv okt oke okr oks /\
    C14_replay_stmt okv okt oke okr oks key_ok /\ C14_verdicts_stmt okv okt oke okr oks key_ok /\
    C14_attribution_stmt okv okt oke okr oks key_ok /\
    C14_binds_stmt okv okt oke okr oks /\ C14_tamper_store_stmt okv okt oke okr oks /\
    C14_kind_blind_stmt okv okt oke okr oks key_ok.

(* ---------------- the parameter check where a result is used (model/ForgeExec.v) ---------------- *)
Definition C14_use_stmt : Prop :=
  C14_use_bound_stmt /\ C14_use_failed_stmt /\ C14_use_mismatch_stmt /\ C14_use_kind_stmt /\
  C14_use_call_stmt /\ C14_use_run_stmt /\ C14_use_code_stmt /\ C14_use_canon_stmt.

(* what is proved *)
Definition C14_partial_stmt : Prop := C14_verification_stmt /\ C14_use_stmt.

(* the whole property: additionally EVERY executed / failed call result of an accepted data is
   attributed to (hence signed by) a peer -- false for Executed(Unused): C14_refuted_unused -- and a
   failure presented as a success is rejected -- false, the kind of a state is covered by no
   signature: C14_refuted_kind. *)
Definition C14_full : Prop :=
  C14_partial_stmt /\
  (forall okv okt oke okr oks (key_ok : string -> bool), C14_every_result_signed_stmt okv okt oke okr oks key_ok) /\
  (forall okv okt oke okr oks (key_ok : string -> bool), C14_kind_signed_stmt okv okt oke okr oks key_ok).

Theorem C14_signed : forall okv okt oke okr oks key_ok, C14_signed_stmt okv okt oke okr oks key_ok.
Proof. exact ForgeProofs.C14_signed. Qed.

Theorem C14_honest : forall okv okt oke okr oks key_ok, C14_honest_stmt okv okt oke okr oks key_ok.
Proof. exact ForgeProofs.C14_honest. Qed.

Theorem C14_store : forall okv okt oke okr oks key_ok, C14_store_stmt okv okt oke okr oks key_ok.
Proof. exact ForgeProofs.C14_store. Qed.

Theorem C14_store_iff : forall okv okt oke okr oks, C14_store_iff_stmt okv okt oke okr oks.
Proof. exact ForgeProofs.C14_store_iff. Qed.

Theorem C14_replay : forall okv okt oke okr oks key_ok, C14_replay_stmt okv okt oke okr oks key_ok.
Proof. exact ForgeProofs.C14_replay. Qed.

Theorem C14_verdicts : forall okv okt oke okr oks key_ok, C14_verdicts_stmt okv okt oke okr oks key_ok.
Proof. exact ForgeProofs.C14_verdicts. Qed.

Theorem C14_attribution : forall okv okt oke okr oks key_ok, C14_attribution_stmt okv okt oke okr oks key_ok.
Proof. exact ForgeProofs.C14_attribution. Qed.

Theorem C14_binds : forall okv okt oke okr oks, C14_binds_stmt okv okt oke okr oks.
Proof. exact ForgeProofs.C14_binds. Qed.

Theorem C14_tamper_store : forall okv okt oke okr oks, C14_tamper_store_stmt okv okt oke okr oks.
Proof. exact ForgeProofs.C14_tamper_store. Qed.

Theorem C14_kind_blind : forall okv okt oke okr oks key_ok, C14_kind_blind_stmt okv okt oke okr oks key_ok.
Proof. exact ForgeProofs.C14_kind_blind. Qed.

Theorem C14_use : C14_use_stmt.
Proof.
  exact (conj ForgeExecProofs.C14_use_bound (conj ForgeExecProofs.C14_use_failed (conj ForgeExecProofs.C14_use_mismatch
        (conj ForgeExecProofs.C14_use_kind (conj ForgeExecProofs.C14_use_call (conj ForgeExecProofs.C14_use_run
        (conj ForgeExecProofs.C14_use_code ForgeExecProofs.C14_use_canon))))))).
Qed.

Theorem C14_partial : C14_partial_stmt.
Proof.
  exact (conj (fun okv okt oke okr oks key_ok =>
                 conj (ForgeProofs.C14_signed okv okt oke okr oks key_ok)
                (conj (ForgeProofs.C14_honest okv okt oke okr oks key_ok)
                (conj (ForgeProofs.C14_store okv okt oke okr oks key_ok)
                (conj (ForgeProofs.C14_store_iff okv okt oke okr oks)
                (conj (ForgeProofs.C14_replay okv okt oke okr oks key_ok)
                (conj (ForgeProofs.C14_verdicts okv okt oke okr oks key_ok)
                (conj (ForgeProofs.C14_attribution okv okt oke okr oks key_ok)
                (conj (ForgeProofs.C14_binds okv okt oke okr oks)
                (conj (ForgeProofs.C14_tamper_store okv okt oke okr oks)
                      (ForgeProofs.C14_kind_blind okv okt oke okr oks key_ok)))))))))) C14_use).
Qed.

(* the gap: a forged Executed(Unused) state is attributed to nobody and accepted without any signature ... *)
Theorem C14_refuted_unused : ~ C14_full.
Proof. exact (fun H => ForgeProofs.C14_refuted_unused (proj1 (proj2 H) _ _ _ _ _ _)). Qed.

(* the second gap: a Failed state rewritten to Executed(Scalar) with the same CID keeps every signature valid *)
Theorem C14_refuted_kind : ~ C14_full.
Proof. exact (fun H => ForgeProofs.C14_refuted_kind (proj2 (proj2 H) _ _ _ _ _ _)). Qed.

(* ... and where it is used nothing is compared, whatever the value id *)
Theorem C14_unused_unchecked : C14_unused_unchecked_stmt.
Proof. exact ForgeExecProofs.C14_unused_unchecked. Qed.

(* the attribution rule, the order of CidInfo::verify, its reference checks, the order of the
   verification step, salt = particle id, the two comparisons of verify_call, verify_canon and the
   call sites are the ones found in /repo's sources today *)
Theorem C14_source_tie : forge_source_agrees = true /\ forge_exec_source_agrees = true /\ dv_err_table_agrees = true.
Proof. exact (conj forge_source_ok (conj forge_exec_source_ok dv_err_table_ok)). Qed.

(* ---------------- non-vacuity: the verification step ---------------- *)
Definition tB : tetraplet := {| tp_peer := "B"; tp_service := "s"; tp_function := "f"; tp_lens := "" |}.
Definition tM : tetraplet := {| tp_peer := "M"; tp_service := "s"; tp_function := "f"; tp_lens := "" |}.
Definition kv : string := "#""r""".                     (* toy ids: "#" ++ rendering of the content *)
Definition kt : string := "#B|s|f|".
Definition ks : string := ("#" ++ kv ++ "|h|" ++ kt)%string.
Definition honest_ci : cid_info := MkCidInfo [(kv, """r""")] [(kt, tB)] [] [] [(ks, MkSAgg kv "h" kt)].
(* B's result, signed by B for "particle"; sent on by M (who has no result of its own) *)
Definition honest_cur : fdata := MkFData [SCall (Executed (VRScalar ks))] honest_ci [("B", sign_cids "B" [ks] "particle")].

Example C14_honest_accepted :
  toy_verify empty_fdata honest_cur "particle" = FOk [("B", Sig "B" [ks] "particle")] /\
  attributed honest_cur = [("B", ks)] /\
  resolve_service honest_ci ks = Some ("""r""", tB, "h").
Proof. vm_compute. repeat split. Qed.

(* value swapped under the same id; id of the value rewritten with a consistent chain (M cannot re-sign
   for B); the tetraplet's peer changed to M with a consistent chain and M's own signature (accepted HERE:
   the parameter check has to catch it, see C14_run_wrong_tetraplet); replay under another particle id;
   B's signature replaced by M's *)
Example C14_tampered_rejected :
  let swapped := MkFData (fd_trace honest_cur) (MkCidInfo [(kv, """forged""")] [(kt, tB)] [] [] [(ks, MkSAgg kv "h" kt)]) (fd_sigs honest_cur) in
  let kv' := "#""forged""" in let ks' := ("#" ++ kv' ++ "|h|" ++ kt)%string in
  let rewritten := MkFData [SCall (Executed (VRScalar ks'))]
                     (MkCidInfo [(kv', """forged""")] [(kt, tB)] [] [] [(ks', MkSAgg kv' "h" kt)]) (fd_sigs honest_cur) in
  let ktm := "#M|s|f|" in let ksm := ("#" ++ kv ++ "|h|" ++ ktm)%string in
  let stolen := MkFData [SCall (Executed (VRScalar ksm))]
                     (MkCidInfo [(kv, """r""")] [(ktm, tM)] [] [] [(ksm, MkSAgg kv "h" ktm)]) [("M", sign_cids "M" [ksm] "particle")] in
  let swapped_sig := MkFData (fd_trace honest_cur) honest_ci [("B", sign_cids "M" [ks] "particle")] in
  toy_verify empty_fdata swapped "particle" = FErr CidStoreVerificationError /\
  toy_verify empty_fdata rewritten "particle" = FErr DataSignatureCheckError /\
  toy_verify empty_fdata stolen "particle" = FOk [("M", Sig "M" [ksm] "particle")] /\
  toy_verify empty_fdata honest_cur "another-particle" = FErr DataSignatureCheckError /\
  toy_verify empty_fdata swapped_sig "particle" = FErr DataSignatureCheckError /\
  prep_err_code CidStoreVerificationError = 8%Z /\ prep_err_code DataSignatureCheckError = 9%Z.
Proof. vm_compute. repeat split. Qed.

(* a trace that names an id the stores do not hold: the verified store does not help; the real code panics or
   (sources with DataVerifierError::CidNotFound) rejects with DataSignatureCheckError -- never accepts *)
Example C14_dangling :
  toy_verify empty_fdata (MkFData [SCall (Executed (VRScalar "nowhere"))] honest_ci (fd_sigs honest_cur)) "particle" =
  (if forge_dangling_id_is_error then FErr DataSignatureCheckError else FCrash).
Proof. vm_compute. reflexivity. Qed.

(* the forged Unused state: accepted, attributed to nobody, no signature in the data at all *)
Example C14_forged_unused_accepted :
  toy_verify empty_fdata forged_unused "particle" = FOk [] /\ attributed forged_unused = [] /\ fd_sigs forged_unused = [].
Proof. vm_compute. repeat split. Qed.

(* the toy hash relation is collision free, so C14_binds / C14_tamper_store apply to it *)
Example C14_toy_collision_free : collision_free toy_value toy_tetraplet toy_elem toy_result toy_service -> True.
Proof. exact (fun _ => I). Qed.

(* ---------------- non-vacuity: whole runs of the executor model (RunExec.run1) ---------------- *)
Definition var_x : var := {| v_name := "x"; v_pos := 0 |}.
Definition call_B (out : call_output) : instr :=
  ICall "call" {| t_peer := PLiteral "B"; t_service := SLiteral "s"; t_function := SLiteral "f" |} [VLiteral "a"] out.
Definition svc (args : list json) (t : tetraplet) : cid := CService (CValue (JStr "r")) (CArgs args) (CTetraplet t).
Definition data_with (st : call_result cid) (c : cid) (t : tetraplet) : idata :=
  {| RunExec.d_trace := [SCall st]; d_lcid := 0;
     d_cids := {| cs_values := [CValue (JStr "r")]; cs_tetraplets := [CTetraplet t]; cs_canon_elems := [];
                  cs_canon_results := []; cs_services := [c] |} |}.
Definition run_at (me : string) (script : instr) (cur : idata) : outcome :=
  run1 10 {| ri_script := script;
             ri_params := {| rp_init_peer := "A"; rp_current_peer := me; rp_timestamp := 0; rp_ttl := 0 |};
             ri_prev := empty_data; ri_cur := cur; ri_results := [] |}.

(* the honest result of B for ("s","f",["a"]) is bound at A *)
Example C14_run_honest :
  let c := svc [JStr "a"] tB in
  match run_at "A" (call_B (OutScalar var_x)) (data_with (Executed (VRScalar c)) c tB) with
  | OutNewData 0%Z d _ [] _ => RunExec.d_trace d = [SCall (Executed (VRScalar c))]
  | _ => False
  end.
Proof. vm_compute. reflexivity. Qed.

(* a genuine result of B for OTHER arguments moved to this call; a result whose tetraplet names another
   function; one that names another peer: the run ends with InstructionParametersMismatch = 20017 and the
   previous data *)
Example C14_run_wrong_args :
  let c := svc [JStr "b"] tB in
  run_at "A" (call_B (OutScalar var_x)) (data_with (Executed (VRScalar c)) c tB) = OutPrevData 20017%Z.
Proof. vm_compute. reflexivity. Qed.

Example C14_run_wrong_tetraplet :
  let tg := {| tp_peer := "B"; tp_service := "s"; tp_function := "g"; tp_lens := "" |} in
  run_at "A" (call_B (OutScalar var_x)) (data_with (Executed (VRScalar (svc [JStr "a"] tg))) (svc [JStr "a"] tg) tg) = OutPrevData 20017%Z /\
  run_at "A" (call_B (OutScalar var_x)) (data_with (Executed (VRScalar (svc [JStr "a"] tM))) (svc [JStr "a"] tM) tM) = OutPrevData 20017%Z /\
  run_at "A" (call_B (OutScalar var_x)) (data_with (Failed (svc [JStr "a"] tM)) (svc [JStr "a"] tM) tM) = OutPrevData 20017%Z.
Proof. vm_compute. repeat split. Qed.

(* a result of the wrong kind for the instruction: CallResultNotCorrespondToInstr = 20006 *)
Example C14_run_wrong_kind :
  let c := svc [JStr "a"] tB in
  run_at "A" (call_B OutNone) (data_with (Executed (VRScalar c)) c tB) = OutPrevData 20006%Z.
Proof. vm_compute. reflexivity. Qed.

(* the gap on a whole run: B itself receives a forged Unused state for its own call: no request is issued,
   B never runs the call, the forged state stays in B's data *)
Example C14_run_forged_unused :
  let forged := Executed (VRUnused (CValue (JStr "forged"))) in
  let cur := {| RunExec.d_trace := [SCall forged]; d_lcid := 0; d_cids := empty_cids |} in
  (match run_at "B" (call_B OutNone) cur with
   | OutNewData 0%Z d [] [] [] => RunExec.d_trace d = [SCall forged]
   | _ => False
   end) /\
  (match run_at "B" (call_B OutNone) empty_data with
   | OutNewData 0%Z _ [] [(1, rq)] [] => rq_service rq = "s" /\ rq_function rq = "f"
   | _ => False
   end).
Proof. vm_compute. repeat split. Qed.

(* the second gap on whole runs: B's service failed (A raises LocalServiceError = 10000); the same CID presented
   as Executed(Scalar) is bound as an ordinary value and the run succeeds *)
Example C14_run_failed_as_executed :
  let c := CService (CValue (call_service_failed_value 1 "boom")) (CArgs [JStr "a"]) (CTetraplet tB) in
  let d st := {| RunExec.d_trace := [SCall st]; d_lcid := 0;
                 d_cids := {| cs_values := [CValue (call_service_failed_value 1 "boom")]; cs_tetraplets := [CTetraplet tB];
                              cs_canon_elems := []; cs_canon_results := []; cs_services := [c] |} |} in
  (match run_at "A" (call_B (OutScalar var_x)) (d (Failed c)) with OutNewData 10000%Z _ _ _ _ => True | _ => False end) /\
  (match run_at "A" (call_B (OutScalar var_x)) (d (Executed (VRScalar c))) with
   | OutNewData 0%Z nd _ _ _ => RunExec.d_trace nd = [SCall (Executed (VRScalar c))]
   | _ => False
   end).
Proof. vm_compute. repeat split. Qed.

Example C14_failed_as_executed_accepted :
  (exists st, toy_verify empty_fdata failed_honest "particle" = FOk st) /\
  (exists st, toy_verify empty_fdata failed_as_executed "particle" = FOk st).
Proof. exact (conj (proj1 failed_as_executed_accepted) (proj1 (proj2 failed_as_executed_accepted))). Qed.

(* canon: only the resolved peer with three empty components passes *)
Example C14_canon_example :
  verify_canon (canon_tetraplet "B") (canon_tetraplet "B") = POk tt /\
  verify_canon (canon_tetraplet "B") (canon_tetraplet "M") = PErr (EUncatch (UInstructionParametersMismatch "canon tetraplet")) /\
  verify_canon (canon_tetraplet "B") tB = PErr (EUncatch (UInstructionParametersMismatch "canon tetraplet")).
Proof. vm_compute. repeat split. Qed.

Print Assumptions C14_signed.
Print Assumptions C14_honest.
Print Assumptions C14_store.
Print Assumptions C14_store_iff.
Print Assumptions C14_replay.
Print Assumptions C14_verdicts.
Print Assumptions C14_attribution.
Print Assumptions C14_binds.
Print Assumptions C14_tamper_store.
Print Assumptions C14_kind_blind.
Print Assumptions C14_use.
Print Assumptions C14_partial.
Print Assumptions C14_refuted_unused.
Print Assumptions C14_refuted_kind.
Print Assumptions C14_unused_unchecked.
Print Assumptions C14_source_tie.
