"""Translator piece for C14 (forged / replayed results): the decisive source lines model/Forge.v and
model/ForgeExec.v rely on, re-read from /repo on every run.

    forge_get_cid_table                         per variant of CallResult / ValueRef: does get_cid return a CID?
    forge_attribution_arms                      arms of collect_peers_cids_from_trace that push a CID (the rest is `_ => {}`)
    forge_attribution_peer_from_stored_tetraplet
                                                both arms take the peer from the STORED tetraplet (store lookups of the
                                                state's CID, then `tetraplet.peer_pk`), never from an instruction
    forge_dangling_id_is_error                  an id the stores do not hold: false = `.expect(..)` (panic), true =
                                                DataVerifierError::CidNotFound (=> DataSignatureCheckError)
    forge_cid_info_verify_order                 the calls of CidInfo::verify, in order
    forge_cid_info_store_checks                 which store is hash-verified by which helper
    forge_cid_info_references                   every check_reference of cid_info.rs: owner:store<-field
    forge_salt_is_particle_id                   runner.rs: salt = params.particle_id, passed to verify(prev, current, &salt)
    forge_signature_covers_salt                 PublicKey::verify and sign_cids serialise SaltedData::new(value, salt)
    forge_verify_call_checks                    verify_call: (param name, compared pair) in source order
    forge_verify_canon_checks                   verify_canon: the same
    forge_verify_call_sites                     functions that call verify_call, with the number of calls
    forge_canon_expected_tetraplet              handle_canon_executed: SecurityTetraplet::new(peer_id, "", "", "")

model/Forge.v proves [forge_source_agrees = true] and model/ForgeExec.v [forge_exec_source_agrees = true] by
computation (props/C14.v: C14_source_tie): a change of any of these lines breaks the obligation of C14."""
import re

from gen_model import TranslationError, coq_list, coq_str, read, strip_comments
from genx_sig import fn_body

IMPLS = "crates/air-lib/interpreter-data/src/executed_state/impls.rs"
VERIF = "crates/air-lib/interpreter-data/src/interpreter_data/verification.rs"
CIDINFO = "crates/air-lib/interpreter-data/src/cid_info.rs"
RUNNER = "air/src/runner.rs"
SIGLIB = "crates/air-lib/interpreter-signatures/src/lib.rs"
TRACKERS = "crates/air-lib/interpreter-signatures/src/trackers.rs"
VERIFIER = "air/src/execution_step/instructions/call/verifier.rs"
CANON = "air/src/execution_step/instructions/canon_utils/mod.rs"
PREV = "air/src/execution_step/instructions/call/prev_result_handler.rs"
SETTER = "air/src/execution_step/instructions/call/call_result_setter.rs"


def flat(s):
    return re.sub(r"\s+", " ", s)


def b(x):
    return "true" if x else "false"


def impl_fn(src, ty, name, rel):
    """body of `fn name` inside `impl ty {`"""
    m = re.search(r"\bimpl\s+" + re.escape(ty) + r"\s*\{", src)
    if not m:
        raise TranslationError("impl %s not found in %s" % (ty, rel))
    depth, j = 1, m.end()
    while j < len(src) and depth > 0:
        depth += {"{": 1, "}": -1}.get(src[j], 0)
        j += 1
    return fn_body(src[m.end():j], name, rel + " (impl %s)" % ty)


def match_arms(body, prefix, rel):
    """arms `Prefix::Variant(..) => expr,` / `Prefix::Variant { .. } => expr,` of a flat match body"""
    arms = re.findall(re.escape(prefix) + r"::(\w+)\s*(?:\([^)]*\)|\{[^}]*\})?\s*=>\s*([^,]+),", body)
    if not arms:
        raise TranslationError("no match arms on %s in %s" % (prefix, rel))
    return arms


def generate():
    out = []
    w = out.append
    w("(* ---- tools/genx_forge.py (C14) ---- *)")

    # ---- get_cid ----
    isrc = strip_comments(read(IMPLS))
    call_arms = match_arms(flat(impl_fn(isrc, "CallResult", "get_cid", IMPLS)), "CallResult", IMPLS)
    vr_arms = match_arms(flat(impl_fn(isrc, "ValueRef", "get_cid", IMPLS)), "ValueRef", IMPLS)
    table = []
    for var, expr in call_arms:
        expr = expr.strip()
        if expr == "None":
            table.append(("CallResult::" + var, False))
        elif expr.startswith("Some(") or expr == "executed.get_cid()":
            table.append(("CallResult::" + var, True))
        else:
            raise TranslationError("CallResult::get_cid: arm %s => %s not recognised" % (var, expr))
    for var, expr in vr_arms:
        expr = expr.strip()
        if expr == "None":
            table.append(("ValueRef::" + var, False))
        elif expr.startswith("Some("):
            table.append(("ValueRef::" + var, True))
        else:
            raise TranslationError("ValueRef::get_cid: arm %s => %s not recognised" % (var, expr))
    w("Definition forge_get_cid_table : list (string * bool) := %s." %
      coq_list(["(%s, %s)" % (coq_str(n), b(v)) for n, v in table]))

    # ---- collect_peers_cids_from_trace ----
    vsrc = strip_comments(read(VERIF))
    body = flat(fn_body(vsrc, "collect_peers_cids_from_trace", VERIF))
    arms = []
    # the arms of `match elt { ... }` in source order
    for m in re.finditer(r"ExecutedState::(\w+)\(([^)]*(?:\([^)]*\))?[^)]*)\) => \{", body):
        name = m.group(1)
        inner = m.group(2)
        mm = re.match(r"\s*(\w+)::(\w+)\(", inner)
        arms.append((m.start(), name + ("::" + mm.group(2) if mm else "")))
    if not re.search(r"_ => \{\s*\}", body):
        raise TranslationError("collect_peers_cids_from_trace: the catch-all arm `_ => {}` is gone")
    pushes = [m.start() for m in re.finditer(r"try_push_cid\(grouped_cids, peer_pk, cid\)\?", body)]
    if len(pushes) != len(arms) or not arms:
        raise TranslationError("collect_peers_cids_from_trace: %d arms, %d try_push_cid calls" % (len(arms), len(pushes)))
    w("Definition forge_attribution_arms : list string := %s." % coq_list([coq_str(n) for _, n in arms]))
    # the four store lookups: `.expect(..)` (a panic on an id the stores do not hold) or `.ok_or_else(|| cid_not_found(..))?`
    # (DataVerifierError::CidNotFound => DataSignatureCheckError); all four must have the same form
    look = r"(\.expect\(\w+\)|\.ok_or_else\(\|\| cid_not_found\([^)]*\)\)\?)"
    call_ok = re.search(
        r"ExecutedState::Call\(ref call\) => \{ let cid = call\.get_cid\(\); if let Some\(cid\) = cid \{ "
        r"let service_result = cid_info \.service_result_store \.get\(cid\) " + look + r"; "
        r"let tetraplet = cid_info \.tetraplet_store \.get\(&service_result\.tetraplet_cid\) " + look + r"; "
        r"let peer_pk = tetraplet\.peer_pk\.as_str\(\); try_push_cid\(grouped_cids, peer_pk, cid\)\?; \} \}", body)
    canon_ok = re.search(
        r"ExecutedState::Canon\(CanonResult::Executed\(ref cid\)\) => \{ "
        r"let canon_result = cid_info \.canon_result_store \.get\(cid\) " + look + r"; "
        r"let tetraplet = cid_info \.tetraplet_store \.get\(&canon_result\.tetraplet\) " + look + r"; "
        r"let peer_pk = tetraplet\.peer_pk\.as_str\(\); try_push_cid\(grouped_cids, peer_pk, cid\)\?; \}", body)
    w("Definition forge_attribution_peer_from_stored_tetraplet : bool := %s." % b(call_ok and canon_ok))
    forms = set()
    for mm in (call_ok, canon_ok):
        if mm:
            forms.update("expect" if g.startswith(".expect") else "error" for g in mm.groups())
    if len(forms) != 1:
        raise TranslationError("collect_peers_cids_from_trace: store lookups are not uniformly expect / cid_not_found: %s" % sorted(forms))
    if "error" in forms:
        cb = flat(fn_body(vsrc, "cid_not_found", VERIF))
        if "DataVerifierError::CidNotFound" not in cb:
            raise TranslationError("cid_not_found does not build DataVerifierError::CidNotFound")
    w("Definition forge_dangling_id_is_error : bool := %s." % b("error" in forms))

    # ---- CidInfo::verify ----
    csrc = strip_comments(read(CIDINFO))
    vb = flat(impl_fn(csrc, "CidInfo", "verify", CIDINFO))
    order = re.findall(r"self\.(verify_\w+)\(\)\?;", vb)
    if not order:
        raise TranslationError("CidInfo::verify: no helper calls found")
    w("Definition forge_cid_info_verify_order : list string := %s." % coq_list([coq_str(x) for x in order]))
    checks, refs = [], []
    owners = {"verify_value_store": "value", "verify_tetraplet_store": "tetraplet",
              "verify_service_result_store": "service", "verify_canon_result_store": "canon"}
    for helper in ["verify_value_store", "verify_tetraplet_store", "verify_service_result_store", "verify_canon_result_store"]:
        hb = flat(impl_fn(csrc, "CidInfo", helper, CIDINFO))
        for m in re.finditer(r"self\.(\w+_store)\.(verify_raw_value|verify)\(\)", hb):
            checks.append("%s.%s" % (m.group(1), m.group(2)))
        # the loop each check_reference sits in names the owner of the reference
        loops = [(m.start(), m.group(1)) for m in re.finditer(r"for \((\w+), \w+\) in self\.\w+\.iter\(\)", hb)]
        for m in re.finditer(r"self\s*\.(\w+_store)\s*\.check_reference\((\w+), &?(?:\w+\.)?(\w+)\)", hb):
            own = [n for p, n in loops if p < m.start()]
            owner = {"serv_cid": "service", "canon_cid": "canon_result", "element_cid": "canon_element"}.get(own[-1] if own else "", "?")
            refs.append("%s:%s<-%s" % (owner, m.group(1), m.group(3)))
    w("Definition forge_cid_info_store_checks : list string := %s." % coq_list([coq_str(x) for x in checks]))
    w("Definition forge_cid_info_references : list string := %s." % coq_list([coq_str(x) for x in refs]))

    # ---- salt ----
    rsrc = flat(strip_comments(read(RUNNER)))
    salt_ok = bool(re.search(r"let salt = params\.particle_id\.clone\(\);", rsrc) and
                   re.search(r"verify\(&prev_data, &current_data, &salt\)", rsrc))
    w("Definition forge_salt_is_particle_id : bool := %s." % b(salt_ok))
    ssrc = strip_comments(read(SIGLIB))
    pv = flat(impl_fn(ssrc, "PublicKey", "verify", SIGLIB))
    tsrc = strip_comments(read(TRACKERS))
    sc = flat(fn_body(tsrc, "sign_cids", TRACKERS))
    cov = bool(re.search(r"let serialized_value = SaltedData::new\(&value, salt\)\.serialize\(\); Ok\(pk\.verify\(&serialized_value, &signature\)\?\)", pv)
               and re.search(r"SaltedData::new\(&cids, salt\)\.serialize\(\); keypair\.sign\(&serialized_cids\)", sc))
    w("Definition forge_signature_covers_salt : bool := %s." % b(cov))

    # ---- verify_call / verify_canon ----
    def checks_of(rel, fn):
        fb = flat(fn_body(strip_comments(read(rel)), fn, rel))
        res = []
        for m in re.finditer(r"if (\w+) != (\w+) \{ return Err\(UncatchableError::InstructionParametersMismatch \{ param: \"([^\"]+)\"", fb):
            res.append((m.group(3), m.group(1), m.group(2)))
        n_if = len(re.findall(r"\bif\b", fb))
        if not res or n_if != len(res) or not fb.rstrip(" }").endswith("Ok(())"):
            raise TranslationError("%s: shape not recognised (%d comparisons, %d ifs)" % (fn, len(res), n_if))
        return res
    for cname, rel, fn in [("forge_verify_call_checks", VERIFIER, "verify_call"), ("forge_verify_canon_checks", CANON, "verify_canon")]:
        cs = checks_of(rel, fn)
        w("Definition %s : list (string * (string * string)) := %s." %
          (cname, coq_list(["(%s, (%s, %s))" % (coq_str(p), coq_str(a), coq_str(c)) for p, a, c in cs])))
    sites = []
    for rel in [PREV, SETTER]:
        src = strip_comments(read(rel))
        for m in re.finditer(r"\bfn\s+(\w+)", src):
            try:
                fb = fn_body(src[m.start():], m.group(1), rel)
            except TranslationError:
                continue
            n = len(re.findall(r"verify_call\(", fb))
            if n:
                sites.append((m.group(1), n))
    w("Definition forge_verify_call_sites : list (string * N) := %s." % coq_list(["(%s, %d%%N)" % (coq_str(f), n) for f, n in sites]))
    hb = flat(fn_body(strip_comments(read(CANON)), "handle_canon_executed", CANON))
    exp = re.search(r'let expected_tetraplet = SecurityTetraplet::new\(peer_id, "", "", ""\);', hb)
    pos_v = hb.find("verify_canon(&expected_tetraplet, &tetraplet)?;")
    pos_use = hb.find("CanonStream::new(")
    w("Definition forge_canon_expected_tetraplet : bool := %s." % b(exp and 0 <= pos_v < pos_use))
    w("")
    return out
