(* CrashCases.v -- C01 ("never crashes or runs out of memory on adversarial input"): case types,
   property oracles and the crash-site view of the trace-handler model.

   Two kinds of cases:
   * [ccase]: the process-level observation of one adversarial case run by harness/src/bin/crash01.rs
     in a child process with RLIMIT_AS and a timeout (returned / panicked / died / timed out, peak
     resident memory, input size).  [c01_oracle] is the property itself on that observation.
   * [HandlerCases.hcase]: trace-level tampering driven through the real TraceHandler
     (harness/src/bin/handler.rs).  [HandlerCases.check_case] is the correspondence (the model crashes
     exactly when the real handler panics); [c01_handler_oracle] is the property on the
     implementation's observation; [model_crash_site] names the site the model blames.

   [apply_op] is [HandlerCases.step] without the observation: the function the C01 handler theorems
   quantify over (CrashProofs.apply_op_step ties the two).
   Definitions only. *)
From Aqua Require Import Base Trace Handler HandlerCases.
Open Scope N_scope.
Open Scope list_scope.

(* ---------------------------------------------------------------------------------------------- *)
(* process-level observation *)

Inductive cobs :=
| CReturned (code : Z)        (* an InterpreterOutcome / Result came back (any code) *)
| CPanicked (msg : string)    (* a Rust panic was caught by catch_unwind *)
| CDied (signal : N)          (* the child process died (abort on allocation failure, stack overflow) *)
| CTimeout.                   (* no answer within the time limit *)

Record ccase := {
  cc_class : string;          (* input class (tamper kind / entry point), for the distribution only *)
  cc_input_bytes : N;         (* script + previous data + current data + call results of the largest run *)
  cc_obs : cobs;
  cc_hwm_kb : N;              (* VmHWM of the child after the case *)
  cc_grew_kb : N }.           (* by how much the case raised it (a child that grew by more than 64 MB is replaced) *)

(* "memory out of proportion to the input size": DESIGN 6 C01 X: 64 MB + 40 * input *)
Definition mem_base_bytes : N := 64 * 1024 * 1024.
Definition mem_factor : N := 40.
Definition c01_mem_ok (c : ccase) : bool :=
  cc_grew_kb c * 1024 <=? mem_base_bytes + mem_factor * cc_input_bytes c.

Definition c01_oracle (c : ccase) : bool :=
  match cc_obs c with
  | CReturned _ => c01_mem_ok c
  | _ => false
  end.

Definition case_t := ccase.
(* nothing of the model is compared for these cases *)
Definition check_case (c : case_t) : bool := true.

(* ---------------------------------------------------------------------------------------------- *)
(* trace-handler level *)

Definition is_crash_obs (o : hobs) : bool := match o with ObsCrash => true | _ => false end.

(* the property on what the REAL handler did *)
Definition c01_handler_oracle (c : hcase) : bool := negb (existsb is_crash_obs (hc_obs c)).

(* [HandlerCases.step] without observations *)
Definition call_push (d : option (call_result string)) (up : bool) (r : merger_call_result string) (h : hhandler) : hhandler :=
  match r with
  | CallNotMet _ => match d with Some c => meet_call_end string h c | None => h end
  | CallMet _ m _ _ => meet_call_end string h (match d with Some c => if up && is_sent m then c else m | None => m end)
  end.

Definition apply_op (h : hhandler) (o : hop) : res hhandler :=
  match o with
  | OpCallStart => do rh <- meet_call_start string String.eqb h; Ok (snd rh)
  | OpCallAuto d up => do rh <- meet_call_start string String.eqb h; Ok (call_push d up (fst rh) (snd rh))
  | OpCallEnd c => Ok (meet_call_end string h c)
  | OpApStart => do rh <- meet_ap_start string h; Ok (snd rh)
  | OpApAuto d =>
      do rh <- meet_ap_start string h;
      Ok (match fst rh with
          | ApNotMet => meet_ap_end string (snd rh) [d]
          | ApMet g _ => meet_ap_end string (snd rh) [g]
          end)
  | OpApEnd g => Ok (meet_ap_end string h g)
  | OpCanonStart => do rh <- meet_canon_start string String.eqb h; Ok (snd rh)
  | OpCanonAuto d up =>
      do rh <- meet_canon_start string String.eqb h;
      Ok (match fst rh with
          | CanonEmpty _ => meet_canon_end string (snd rh) d
          | CanonMet _ r => meet_canon_end string (snd rh) (if up && is_canon_sent r then d else r)
          end)
  | OpCanonEnd c => Ok (meet_canon_end string h c)
  | OpParStart => meet_par_start string h
  | OpParEnd l => meet_par_subgraph_end string h (if l then SLeft else SRight)
  | OpFoldStart id => meet_fold_start string h id
  | OpIterStartNth id k => meet_iteration_start string h id (nth_stream_pos (result_trace string h) k)
  | OpIterStartPos id p => meet_iteration_start string h id p
  | OpIterEnd id => meet_iteration_end string h id
  | OpBackIter id => meet_back_iterator string h id
  | OpGenEnd id => meet_generation_end string h id
  | OpFoldEnd id => meet_fold_end string h id
  | OpUpdateGen p g =>
      match update_generation string h p g with
      | inl h' => Ok h'
      | inr _ => Ok h
      end
  | OpSizes => Ok h
  end.

(* the first panic of an op sequence (the interpreter stops at the first error as well) *)
Fixpoint run_site (h : hhandler) (ops : list hop) : option site :=
  match ops with
  | [] => None
  | o :: rest =>
      match apply_op h o with
      | Ok h' => run_site h' rest
      | Err _ => None
      | Crash s => Some s
      end
  end.

Definition model_crash_site (c : hcase) : option site :=
  run_site (handler_from string (hc_prev c) (hc_cur c)) (hc_ops c).

Definition site_index (s : site) : N :=
  match s with
  | SitePosPlusLen => 0 | SiteRemainder => 1 | SitePosMinusOne => 2 | SiteApGenerationIndex => 3
  | SiteCtorQueueCurrent => 4 | SiteTrackerLen => 5 | SiteParBuilderTrack => 6 | SiteInserterIndex => 7
  | SiteTraverseBack => 8 | SiteResultLen => 9
  end.
Definition site_eqb (a b : site) : bool := site_index a =? site_index b.
Fixpoint site_mem (s : site) (l : list site) : bool :=
  match l with [] => false | x :: r => site_eqb s x || site_mem s r end.

(* sites that only a caller violating the TraceHandler protocol can reach (CrashProofs:
   C01_handler_no_crash_except): the generator of checks/C01.py keeps to the protocol, so the
   model blaming one of them on a protocol-following driver is reported like any other crash *)
Definition api_misuse_sites : list site := [SiteCtorQueueCurrent; SiteTrackerLen].

(* "the model does not blame site s": used by the plugin to attach the key of a known finding *)
Definition model_not_at (s : site) (c : hcase) : bool :=
  match model_crash_site c with Some s' => negb (site_eqb s s') | None => true end.

(* ---------------------------------------------------------------------------------------------- *)
(* the u32 bound of decoded data: every position / length / generation field of a trace read from
   bytes is a u32 *)
Definition u32 (n : N) : Prop := n <= u32_max.
