#!/usr/bin/env python3
"""Rewrites the table of seeded changes in DESIGN.md (between the markers) from seeded/*/meta.json."""
import json, os, glob, re
rows = []
for d in sorted(glob.glob('/verif/seeded/*/')):
    f = os.path.join(d, 'meta.json')
    if not os.path.exists(f):
        continue
    m = json.load(open(f))
    ev = m.get('evaluated', {})
    rows.append("| `%s` | %s | %s | %s | %s |" % (
        os.path.basename(d.rstrip('/')), m.get('property'), (m.get('title') or '').replace('|', '/'),
        (m.get('needs_to_manifest') or '').replace('|', '/').replace('\n', ' ')[:260],
        ("**caught**: " if ev.get('detected') else "**MISSED**: ") + (ev.get('verdict_line') or '').replace('|', '/')[:230] +
        ((" — " + ev['notes'][:300]) if ev.get('notes') else "")))
table = "<!-- seeded-table-begin -->\n| seeded id | property | change | needs to manifest | result of `./check` |\n|---|---|---|---|---|\n" + "\n".join(rows) + "\n<!-- seeded-table-end -->"
p = '/verif/DESIGN.md'
s = open(p).read()
if 'SEEDED_TABLE_PLACEHOLDER' in s:
    s = s.replace('SEEDED_TABLE_PLACEHOLDER', table)
else:
    s = re.sub(r"<!-- seeded-table-begin -->.*?<!-- seeded-table-end -->", lambda _: table, s, flags=re.S)
open(p, 'w').write(s)
print(len(rows), "rows")
