//! `cid`: the real side of C25 (model/Cid.v, model/CidCases.v).
//! One JSON case per input line -> one JSON line {"coq": [case_t terms], "classes": [...], "info": [...]}.
//!
//! case kinds
//!   {"kind":"verify","text":"<json text of the value>","other":"<json text of another value>","mutations":[..]}
//!   {"kind":"ids","texts":["<json text>", ..]}           spellings of ONE value
//!   {"kind":"order","members":[["key","<json text>"]..],"orders":[[i0,i1,..]..]}
//! The implementation: air_interpreter_cid::{value_to_json_cid, raw_value_to_json_cid, verify_value,
//! verify_raw_value, CID}.  The model's outside world: `cid::Cid::from_str` (what the id text means),
//! sha2::Sha256 and blake3 (upstream crate, not the fork the interpreter hashes with) for the
//! reference digests of the value's canonical bytes (serde_json::to_vec).

use air_interpreter_cid::{raw_value_to_json_cid, value_to_json_cid, verify_raw_value, verify_value, CidVerificationError, CID};
use air_interpreter_value::JValue;
use aquah::coqfmt as c;
use aquah::sim::{hex, quiet_panics};
use cid::multibase::Base;
use cid::multihash::Multihash;
use cid::Cid;
use serde_json::Value as J;
use sha2::Digest;
use std::io::BufRead;
use std::str::FromStr;

const JSON_CODEC: u64 = 0x0200;
const SHA2_256: u64 = 0x12;
const BLAKE3_256: u64 = 0x1e;

fn hx(b: &[u8]) -> String {
    format!("(unhex \"{}\")", hex(b))
}

/// serde_json::Value as a term of model/Json.v's [json] (objects in the map's own order)
fn cj(v: &J) -> String {
    match v {
        J::Null => "JNull".into(),
        J::Bool(b) => format!("(JBool {})", c::b(*b)),
        J::Number(n) => {
            if let Some(u) = n.as_u64() {
                format!("(JInt {})", c::z(u as i128))
            } else if let Some(i) = n.as_i64() {
                format!("(JInt {})", c::z(i as i128))
            } else {
                format!("(JFloat {})", c::s(&n.to_string()))
            }
        }
        J::String(s) => format!("(JStr {})", c::s(s)),
        J::Array(a) => format!("(JArr {})", c::list(a.iter().map(cj))),
        J::Object(o) => format!("(JObj {})", c::list(o.iter().map(|(k, v)| format!("({}, {})", c::s(k), cj(v))))),
    }
}

fn parsed_term(text: &str) -> (String, Option<Cid>) {
    let t = text.to_string();
    match std::panic::catch_unwind(move || Cid::from_str(&t).ok()) {
        Ok(Some(cd)) => {
            let ver: u64 = cd.version().into();
            (
                format!(
                    "(Some {{| cid_version := {}; cid_codec := {}; cid_hash_code := {}; cid_digest := {} |}})",
                    ver,
                    cd.codec(),
                    cd.hash().code(),
                    hx(cd.hash().digest())
                ),
                Some(cd),
            )
        }
        _ => ("None".into(), None),
    }
}

fn obs_term(r: Result<Result<(), CidVerificationError>, Box<dyn std::any::Any + Send>>) -> (String, String) {
    match r {
        Ok(Ok(())) => ("RvOk".into(), "ok".into()),
        Ok(Err(CidVerificationError::ValueMismatch { .. })) => ("RvMismatch".into(), "value_mismatch".into()),
        Ok(Err(CidVerificationError::InvalidJson(_))) => ("RvInvalidJson".into(), "invalid_json".into()),
        Ok(Err(CidVerificationError::MalformedCid(_))) => ("RvMalformed".into(), "malformed".into()),
        Ok(Err(CidVerificationError::UnsupportedCidCodec(cd))) => (format!("(RvCodec {})", cd), "unsupported_codec".into()),
        Ok(Err(CidVerificationError::UnsupportedHashCode(h))) => (format!("(RvHashCode {})", h), "unsupported_hash".into()),
        Err(_) => ("RvPanic".into(), "PANIC".into()),
    }
}

fn sha256(b: &[u8]) -> Vec<u8> {
    sha2::Sha256::digest(b).to_vec()
}
fn sha512(b: &[u8]) -> Vec<u8> {
    sha2::Sha512::digest(b).to_vec()
}
fn blake3_256(b: &[u8]) -> Vec<u8> {
    blake3::hash(b).as_bytes().to_vec()
}

fn mk(codec: u64, code: u64, digest: &[u8]) -> Option<Cid> {
    let mh = Multihash::<64>::wrap(code, digest).ok()?;
    Some(Cid::new_v1(codec, mh))
}

struct Out {
    terms: Vec<String>,
    classes: Vec<String>,
    infos: Vec<J>,
}

/// id texts derived from the value's real ids, by name
fn mutated_ids(m: &J, own: &str, bytes: &[u8], other_bytes: &[u8], seed: u64) -> Vec<(String, String)> {
    let sha = sha256(bytes);
    let bl = blake3_256(bytes);
    let name = m.as_str().unwrap_or("").to_string();
    let arg = |k: usize| -> Option<u64> { name.split(':').nth(k).and_then(|x| x.parse::<u64>().ok()) };
    let alg_is_sha = name.contains("/sha");
    let (code, dg) = if alg_is_sha { (SHA2_256, sha.clone()) } else { (BLAKE3_256, bl.clone()) };
    let mut out = vec![];
    let mut push = |n: &str, cd: Option<Cid>| {
        if let Some(cd) = cd {
            out.push((n.to_string(), cd.to_string()))
        }
    };
    let head = name.split('/').next().unwrap_or("").split(':').next().unwrap_or("").to_string();
    match head.as_str() {
        "plain" => push(&name, mk(JSON_CODEC, code, &dg)),
        "codec" => push(&name, mk(arg(1).unwrap_or(0x55), code, &dg)),
        "hash" => push(&name, mk(JSON_CODEC, arg(1).unwrap_or(0x13), &dg)),
        "sha512" => push(&name, mk(JSON_CODEC, 0x13, &sha512(bytes))),
        "identity" => push(&name, mk(JSON_CODEC, 0x00, &bytes[..bytes.len().min(64)])),
        "truncate" => {
            let k = (arg(1).unwrap_or(16) as usize).min(dg.len());
            push(&name, mk(JSON_CODEC, code, &dg[..k]))
        }
        "extend" => {
            let mut d = dg.clone();
            for i in 0..(arg(1).unwrap_or(1) as usize).min(32) {
                d.push((seed as u8).wrapping_add(i as u8));
            }
            push(&name, mk(JSON_CODEC, code, &d))
        }
        "flip" => {
            let mut d = dg.clone();
            let i = (arg(1).unwrap_or(0) as usize) % d.len();
            d[i] ^= 1 << (arg(2).unwrap_or(0) % 8);
            push(&name, mk(JSON_CODEC, code, &d))
        }
        "swapalg" => {
            // the right digest under the other algorithm's code
            let (c2, d2) = if alg_is_sha { (SHA2_256, bl.clone()) } else { (BLAKE3_256, sha.clone()) };
            push(&name, mk(JSON_CODEC, c2, &d2))
        }
        "other_value" => {
            let d2 = if alg_is_sha { sha256(other_bytes) } else { blake3_256(other_bytes) };
            push(&name, mk(JSON_CODEC, code, &d2))
        }
        "base" => {
            let base = match name.split(':').nth(1).unwrap_or("").split('/').next().unwrap_or("") {
                "base58btc" => Base::Base58Btc,
                "base32upper" => Base::Base32Upper,
                "base64" => Base::Base64,
                "base64url" => Base::Base64Url,
                "base16" => Base::Base16Lower,
                "base16upper" => Base::Base16Upper,
                "base36" => Base::Base36Lower,
                "base2" => Base::Base2,
                "base32hex" => Base::Base32HexLower,
                "base32z" => Base::Base32Z,
                "base10" => Base::Base10,
                _ => Base::Base32Lower,
            };
            if let Some(cd) = mk(JSON_CODEC, code, &dg) {
                if let Ok(t) = cd.to_string_of_base(base) {
                    out.push((name.clone(), t))
                }
            }
        }
        "v0" => {
            // CIDv0 exists only for dag-pb + sha2-256
            if let Ok(mh) = Multihash::<64>::wrap(SHA2_256, &sha) {
                if let Ok(cd) = Cid::new_v0(mh) {
                    out.push((name.clone(), cd.to_string()))
                }
            }
        }
        "text" => out.push((name.clone(), name.splitn(2, ':').nth(1).unwrap_or("").to_string())),
        "own_edit" => {
            // the real id text with one character replaced / removed / appended / case changed
            let mut chars: Vec<char> = own.chars().collect();
            let i = (arg(2).unwrap_or(seed) as usize) % chars.len().max(1);
            match name.split(':').nth(1).unwrap_or("") {
                "replace" => chars[i] = if chars[i] == 'a' { 'b' } else { 'a' },
                "remove" => {
                    chars.remove(i);
                }
                "append" => chars.push('a'),
                "upper" => chars = own.to_uppercase().chars().collect(),
                "upper_body" => chars = own.chars().enumerate().map(|(k, ch)| if k == 0 { ch } else { ch.to_ascii_uppercase() }).collect(),
                "prefix" => chars[0] = 'z',
                "space" => chars.push(' '),
                _ => {}
            }
            out.push((name.clone(), chars.into_iter().collect()))
        }
        _ => {}
    }
    out
}

fn do_verify(case: &J, out: &mut Out) {
    let text = case["text"].as_str().unwrap_or("null");
    let value: J = match serde_json::from_str(text) {
        Ok(v) => v,
        Err(_) => return,
    };
    let other: J = serde_json::from_str(case["other"].as_str().unwrap_or("0")).unwrap_or(J::Null);
    let bytes = serde_json::to_vec(&value).expect("Value serializes");
    let other_bytes = serde_json::to_vec(&other).expect("Value serializes");
    let sha = sha256(&bytes);
    let bl = blake3_256(&bytes);
    let seed = case["seed"].as_u64().unwrap_or(1);
    let jv = JValue::from(value.clone());

    // the implementation's own id of the value
    let own = match std::panic::catch_unwind(|| value_to_json_cid(&value).map(|c| c.get_inner().to_string())) {
        Ok(Ok(t)) => t,
        _ => {
            out.terms.push("(COwn \"\" None [] RvPanic)".into());
            out.classes.push("own/FAILED".into());
            out.infos.push(serde_json::json!({"kind": "own", "text": text}));
            return;
        }
    };
    {
        let (pt, _) = parsed_term(&own);
        let cidv: CID<J> = CID::new(own.clone());
        let v2 = value.clone();
        let (o, cls) = obs_term(std::panic::catch_unwind(move || verify_value(&cidv, &v2)));
        out.terms.push(format!("(COwn {} {} {} {})", c::s(&own), pt, hx(&bl), o));
        out.classes.push(format!("own/{}", cls));
        out.infos.push(serde_json::json!({"kind": "own", "text": text, "cid": own}));
    }
    // the same value through the interpreter's own value type, and through its canonical text
    {
        let a = value_to_json_cid(&jv).map(|c| c.get_inner().to_string()).unwrap_or_default();
        let b = raw_value_to_json_cid::<J>(&bytes).get_inner().to_string();
        let cc = raw_value_to_json_cid::<J>(jv.to_string().as_bytes()).get_inner().to_string();
        out.terms.push(format!("(CIds {})", c::list(vec![c::s(&own), c::s(&a), c::s(&b), c::s(&cc)])));
        out.classes.push("ids/value_jvalue_raw".into());
        out.infos.push(serde_json::json!({"kind": "ids_built", "text": text}));
    }
    for m in case["mutations"].as_array().cloned().unwrap_or_default().iter() {
        for (name, idtext) in mutated_ids(m, &own, &bytes, &other_bytes, seed) {
            let (pt, parsed) = parsed_term(&idtext);
            let kind = name.split(':').next().unwrap_or("").split('/').next().unwrap_or("").to_string();
            // three entry points: verify_value on serde_json::Value, on JValue, verify_raw_value on the bytes
            let cid1: CID<J> = CID::new(idtext.clone());
            let v1 = value.clone();
            let (o1, c1) = obs_term(std::panic::catch_unwind(move || verify_value(&cid1, &v1)));
            let cid2: CID<JValue> = CID::new(idtext.clone());
            let (o2, c2) = {
                let text2 = text.to_string();
                obs_term(std::panic::catch_unwind(move || {
                    let jv2: JValue = JValue::from(serde_json::from_str::<J>(&text2).unwrap_or(J::Null));
                    verify_value(&cid2, &jv2)
                }))
            };
            let cid3: CID<J> = CID::new(idtext.clone());
            let b3 = bytes.clone();
            let (o3, c3) = obs_term(std::panic::catch_unwind(move || verify_raw_value(&cid3, &b3)));
            for (raw, o, cl, api) in [(false, o1, c1, "value"), (false, o2, c2, "jvalue"), (true, o3, c3, "raw")] {
                out.terms.push(format!("(CVerify {} {} {} {} {} {})", c::b(raw), c::s(&idtext), pt, hx(&sha), hx(&bl), o));
                out.classes.push(format!("verify/{}/{}/{}", kind, api, cl));
                out.infos.push(serde_json::json!({"kind": "verify", "mutation": name, "api": api, "cid": idtext, "text": text,
                    "parsed": parsed.map(|p| serde_json::json!({"version": u64::from(p.version()), "codec": p.codec(), "hash": p.hash().code(), "digest_len": p.hash().digest().len()}))}));
            }
        }
    }
}

/// the same JSON value: same shape, same members, numbers of the same kind with the same bits
/// (0.0 and -0.0 are different values although `==` on serde_json::Value / JValue says equal)
fn same_value(a: &J, b: &J) -> bool {
    match (a, b) {
        (J::Number(x), J::Number(y)) => {
            if let (Some(p), Some(q)) = (x.as_u64(), y.as_u64()) {
                p == q
            } else if let (Some(p), Some(q)) = (x.as_i64(), y.as_i64()) {
                p == q
            } else if x.is_f64() && y.is_f64() {
                x.as_f64().map(f64::to_bits) == y.as_f64().map(f64::to_bits)
            } else {
                false
            }
        }
        (J::Array(x), J::Array(y)) => x.len() == y.len() && x.iter().zip(y.iter()).all(|(p, q)| same_value(p, q)),
        (J::Object(x), J::Object(y)) => x.len() == y.len() && x.iter().all(|(k, v)| y.get(k).map(|w| same_value(v, w)).unwrap_or(false)),
        (J::Null, J::Null) => true,
        (J::Bool(x), J::Bool(y)) => x == y,
        (J::String(x), J::String(y)) => x == y,
        _ => false,
    }
}

fn do_ids(case: &J, out: &mut Out) {
    let texts: Vec<String> = case["texts"].as_array().map(|a| a.iter().filter_map(|x| x.as_str().map(String::from)).collect()).unwrap_or_default();
    let vals: Vec<J> = texts.iter().filter_map(|t| serde_json::from_str(t).ok()).collect();
    if vals.len() != texts.len() || vals.is_empty() {
        out.terms.push("(CIds [])".into());
        out.classes.push("ids/unparsable_spelling".into());
        out.infos.push(serde_json::json!({"kind": "ids", "texts": texts}));
        return;
    }
    // only spellings of one and the same value are compared (1 and 1.0 are different values)
    if !vals.iter().all(|v| same_value(v, &vals[0])) {
        let ids: Vec<String> = vals.iter().map(|v| value_to_json_cid(v).map(|c| c.get_inner().to_string()).unwrap_or_default()).collect();
        let all_distinct = ids.iter().all(|i| ids.iter().filter(|j| *j == i).count() == 1);
        out.terms.push("(CIds [])".into());
        let eq_by_rust = vals.iter().all(|v| *v == vals[0]);
        out.classes.push(format!(
            "ids/different_values/{}{}",
            if all_distinct { "ids_differ" } else { "some_ids_equal" },
            if eq_by_rust { "/EQUAL_UNDER_PARTIALEQ(signed zero)" } else { "" }
        ));
        out.infos.push(serde_json::json!({"kind": "ids_different_values", "texts": texts, "ids": ids}));
        return;
    }
    let mut ids = vec![];
    for v in &vals {
        ids.push(value_to_json_cid(v).map(|c| c.get_inner().to_string()).unwrap_or_default());
        ids.push(value_to_json_cid(&JValue::from(v.clone())).map(|c| c.get_inner().to_string()).unwrap_or_default());
    }
    // also the interpreter's own parser on the spelling
    // (only when it reads the same value: how JValue parses is property C26's business)
    let reference = JValue::from(vals[0].clone());
    let mut parse_differs = false;
    for t in &texts {
        match serde_json::from_str::<JValue>(t) {
            Ok(jv) if jv == reference => ids.push(value_to_json_cid(&jv).map(|c| c.get_inner().to_string()).unwrap_or_default()),
            _ => parse_differs = true,
        }
    }
    out.terms.push(format!("(CIds {})", c::list(ids.iter().map(|i| c::s(i)))));
    out.classes.push(format!("ids/spellings/{}{}", texts.len(), if parse_differs { "/JVALUE_PARSE_DIFFERS" } else { "" }));
    out.infos.push(serde_json::json!({"kind": "ids", "texts": texts}));
}

/// keys of the outermost object of a JSON text, in the order they are written
fn top_level_keys(text: &str) -> Vec<String> {
    let b = text.as_bytes();
    let mut keys = vec![];
    let mut depth = 0i32;
    let mut i = 0usize;
    let mut expect_key = false;
    while i < b.len() {
        match b[i] {
            b'{' => {
                depth += 1;
                if depth == 1 {
                    expect_key = true;
                }
                i += 1;
            }
            b'[' => {
                depth += 1;
                i += 1;
            }
            b'}' | b']' => {
                depth -= 1;
                i += 1;
            }
            b',' => {
                if depth == 1 {
                    expect_key = true;
                }
                i += 1;
            }
            b'"' => {
                let start = i;
                i += 1;
                while i < b.len() && b[i] != b'"' {
                    if b[i] == b'\\' {
                        i += 1;
                    }
                    i += 1;
                }
                i += 1;
                if depth == 1 && expect_key {
                    if let Ok(k) = serde_json::from_str::<String>(&text[start..i]) {
                        keys.push(k);
                    }
                    expect_key = false;
                }
            }
            _ => i += 1,
        }
    }
    keys
}

fn do_order(case: &J, out: &mut Out) {
    let members: Vec<(String, J)> = case["members"]
        .as_array()
        .map(|a| a.iter().filter_map(|e| Some((e[0].as_str()?.to_string(), serde_json::from_str::<J>(e[1].as_str()?).ok()?))).collect())
        .unwrap_or_default();
    let orders: Vec<Vec<usize>> = case["orders"]
        .as_array()
        .map(|a| a.iter().map(|o| o.as_array().map(|x| x.iter().map(|i| i.as_u64().unwrap_or(0) as usize % members.len().max(1)).collect()).unwrap_or_default()).collect())
        .unwrap_or_default();
    if members.is_empty() {
        return;
    }
    let mut ids = vec![];
    let mut order_terms = vec![];
    let mut real_keys: Vec<String> = vec![];
    for (k, ord) in orders.iter().enumerate() {
        // serde_json::Map and the interpreter's JValue, members inserted one by one in this order
        let mut m = serde_json::Map::new();
        for &i in ord {
            m.insert(members[i].0.clone(), members[i].1.clone());
        }
        let obj = J::Object(m);
        let jv = JValue::object_from_pairs(ord.iter().map(|&i| (members[i].0.as_str(), JValue::from(members[i].1.clone()))));
        ids.push(value_to_json_cid(&obj).map(|c| c.get_inner().to_string()).unwrap_or_default());
        ids.push(value_to_json_cid(&jv).map(|c| c.get_inner().to_string()).unwrap_or_default());
        if k == 0 {
            // member order as serialized: scan the text itself
            let text = serde_json::to_string(&jv).unwrap_or_default();
            real_keys = top_level_keys(&text);
        }
        order_terms.push(c::list(ord.iter().map(|&i| format!("({}, {})", c::s(&members[i].0), cj(&members[i].1)))));
    }
    out.terms.push(format!("(COrder {} {} {})", c::list(order_terms), c::list(real_keys.iter().map(|k| c::s(k))), c::list(ids.iter().map(|i| c::s(i)))));
    out.classes.push(format!("order/members{}/orders{}", members.len().min(8), orders.len().min(8)));
    out.infos.push(serde_json::json!({"kind": "order", "members": members.len(), "orders": orders.len()}));
}

fn main() {
    quiet_panics();
    let stdin = std::io::stdin();
    for line in stdin.lock().lines() {
        let line = match line {
            Ok(l) => l,
            Err(_) => break,
        };
        if line.trim().is_empty() {
            continue;
        }
        let case: J = match serde_json::from_str(&line) {
            Ok(cs) => cs,
            Err(e) => {
                println!("{}", serde_json::json!({"error": format!("bad case: {e}")}));
                continue;
            }
        };
        let mut out = Out { terms: vec![], classes: vec![], infos: vec![] };
        match case["kind"].as_str().unwrap_or("") {
            "verify" => do_verify(&case, &mut out),
            "ids" => do_ids(&case, &mut out),
            "order" => do_order(&case, &mut out),
            k => {
                println!("{}", serde_json::json!({"error": format!("unknown case kind {k:?}")}));
                continue;
            }
        }
        println!("{}", serde_json::json!({"coq": out.terms, "classes": out.classes, "info": out.infos}));
    }
}
