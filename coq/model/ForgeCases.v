(* ForgeCases.v -- executable comparison functions used by the generated case files of C14:
   the model's verdict of the verification step vs. what the real air::execute_air did on a
   tampered current data ([check_case]), and the verification half of the property evaluated on
   the implementation's observation alone ([c14_oracle]).  The history half of the oracle (what
   the victim's new data contains) is evaluated by the driver harness/src/bin/forge14.rs. *)
From Aqua Require Import Base RunTop Trace Values Sig Forge.
Open Scope N_scope.
Open Scope list_scope.

(* what air::execute_air did at the victim on (its previous data, the tampered current data) *)
Record fobs := MkFObs {
  fo_panic : bool;                   (* the run panicked *)
  fo_code : Z;                       (* ret_code *)
  fo_same : bool                     (* the returned data == the previous data, byte for byte *)
}.

Record case_t := MkFCase {
  fc_salt : string;                  (* the particle id the run verifies under *)
  fc_attacker : string;              (* the sender: the only key the tamperer may sign with *)
  fc_bad : list (N * string);        (* (store number, key) of the entries of the current data that fail an independent
                                        hash check: 0 values, 1 tetraplets, 2 canon elements, 3 canon results, 4 service results *)
  fc_prev : fdata;
  fc_cur : fdata;
  fc_obs : fobs
}.

(* the harness prints a key that PublicKey::validate refuses as "BAD:<base58>" *)
Definition case_key_ok (k : string) : bool := negb (String.prefix "BAD:" k).

Definition is_bad (c : case_t) (idx : N) (k : string) : bool :=
  existsb (fun e => (fst e =? idx) && String.eqb (snd e) k) (fc_bad c).

(* the hash relation of the case: an entry is honest unless the independent check refused it *)
Definition model_verdict (c : case_t) : fres :=
  forge_verify (fun k _ => negb (is_bad c 0 k)) (fun k _ => negb (is_bad c 1 k)) (fun k _ => negb (is_bad c 2 k))
               (fun k _ => negb (is_bad c 3 k)) (fun k _ => negb (is_bad c 4 k))
               case_key_ok id_orders (fc_prev c) (fc_cur c) (fc_salt c).

Definition code_cid : Z := prep_err_code CidStoreVerificationError.
Definition code_sig : Z := prep_err_code DataSignatureCheckError.

(* correspondence: model verdict = implementation verdict *)
Definition check_case (c : case_t) : bool :=
  let o := fc_obs c in
  match model_verdict c with
  | FErr e => negb (fo_panic o) && (fo_code o =? prep_err_code e)%Z && fo_same o
  | FCrash => fo_panic o
  | FOk _ => negb (fo_panic o) && negb (fo_code o =? code_cid)%Z && negb (fo_code o =? code_sig)%Z
  end.

(* 0 agree; 1 model rejects with a store error; 2 with a signature error; 3 model crashes; 4 model accepts *)
Definition verdict_class (c : case_t) : N :=
  match model_verdict c with
  | FErr CidStoreVerificationError => 1 | FErr _ => 2 | FCrash => 3 | FOk _ => 4
  end.

(* ---------------- the property, on the implementation's observation only ---------------- *)
Fixpoint dedup_str (l : list string) : list string :=
  match l with
  | [] => []
  | x :: r => if existsb (String.eqb x) r then dedup_str r else x :: dedup_str r
  end.

(* the run got past the preparation stage *)
Definition past_preparation (o : fobs) : bool :=
  negb (fo_panic o) && negb ((0 <? fo_code o)%Z && (fo_code o <? 10000)%Z).

(* "never accepts a result attributed to another peer unless that peer signed it for this particle" +
   "altered values / tetraplets / argument hashes / content ids are rejected before execution":
   if the run got past preparation, every store entry of the current data hashes to its id, every id
   the trace names resolves, and for every peer other than the sender the real signature found in
   the data IS that peer's signature over exactly the ids the trace attributes to it, for this particle *)
Definition c14_oracle (c : case_t) : bool :=
  if past_preparation (fc_obs c) then
    match fc_bad c with [] => true | _ => false end &&
    negb (dangling (fc_cur c)) &&
    forallb (fun p => String.eqb p (fc_attacker c) ||
                      match map_get p (fd_sigs (fc_cur c)) with
                      | Some s => sig_eqb s (Sig p (sort_cids (cids_of (fc_cur c) p)) (fc_salt c))
                      | None => false
                      end)
            (dedup_str (map fst (attributed (fc_cur c))))
  else true.
