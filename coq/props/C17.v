(* props/C17.v -- security tetraplets describe where each argument came from.
   Only pinned statements, [exact], non-vacuity examples and Print Assumptions.
   The statements ([..._stmt]) and the specification vocabulary (origin, tet, lensed, render_path, index_lens)
   are in model/TetraSpec.v.

   What is proved, for every context / script / run of the executor model:
     call results are stored with the tetraplet of THEIR call instruction (locally and when loaded from data:
     verify_call), literals and built-ins come with the init peer's literal tetraplet, `x.$.path` comes with
     exactly one tetraplet = origin of x + x's lens + the rendered path, fold iterators carry ".$.[i]" (lens
     results: concatenated; canon streams and streams: each element's own tetraplet), a canon stream argument
     comes with one tetraplet per element, every request carries exactly what collect_args computed, and the
     tetraplet of a value is the same on the peer that produced it and on a peer that loaded it.
   What the model (and the code: corpus/C17, known findings) REFUTES of the property text: `.length` (scalars,
   canon streams, canon stream maps), a lens into a canon stream, a lens on %last_error% / :error:.  C17_full is the text with these
   included; it is refuted; C17_partial is everything else. *)
From Aqua Require Import Base Json Air Trace Handler Values Scalars Lens Exec RunExec ExecStreams CallSpec TetraSpec TetraProofs.
Open Scope N_scope.
Open Scope list_scope.

Theorem C17_call_result : C17_call_result_stmt.
Proof. exact C17_call_result_proof. Qed.

Theorem C17_stored_is_read : C17_stored_is_read_stmt.
Proof. exact C17_stored_is_read_proof. Qed.

Theorem C17_literal : C17_literal_stmt.
Proof. exact C17_literal_proof. Qed.

Theorem C17_error : C17_error_stmt.
Proof. exact C17_error_proof. Qed.

Theorem C17_lens : C17_lens_stmt.
Proof. exact C17_lens_proof. Qed.

Theorem C17_iterator : C17_iterator_stmt.
Proof. exact C17_iterator_proof. Qed.

Theorem C17_canon : C17_canon_stmt.
Proof. exact C17_canon_proof. Qed.

Theorem C17_canon_map : C17_canon_map_stmt.
Proof. exact C17_canon_map_proof. Qed.

Theorem C17_request : C17_request_stmt.
Proof. exact C17_request_proof. Qed.

Theorem C17_same_everywhere : C17_same_everywhere_stmt.
Proof. exact C17_same_everywhere_proof. Qed.

Theorem C17_source_tie : C17_source_tie_stmt.
Proof. exact C17_source_tie_proof. Qed.

(* the conjunction of the ten statements above (without the source tie) *)
Theorem C17_partial_holds : C17_partial.
Proof. exact C17_partial_proof. Qed.

(* the property text for the four deviating argument kinds, each refuted by a concrete context *)
Theorem C17_refuted_length_scalar : ~ C17_text_length_stmt.
Proof. exact C17_refuted_length_scalar_proof. Qed.

Theorem C17_refuted_length_canon : ~ C17_text_canon_length_stmt.
Proof. exact C17_refuted_length_canon_proof. Qed.

Theorem C17_refuted_length_map : ~ C17_text_map_length_stmt.
Proof. exact C17_refuted_length_map_proof. Qed.

Theorem C17_refuted_canon_lens : ~ C17_text_canon_lens_stmt.
Proof. exact C17_refuted_canon_lens_proof. Qed.

Theorem C17_refuted_error_lens : ~ C17_text_error_lens_stmt.
Proof. exact C17_refuted_error_lens_proof. Qed.

Theorem C17_full_refuted : ~ C17_full.
Proof. exact C17_full_refuted_proof. Qed.

(* ---- non-vacuity and witnesses: whole runs of the model (run2), a peer answering its own requests ---- *)
Definition A_arr : origin := call_origin "A" "s" "arr".
Definition A_obj : origin := call_origin "A" "s" "obj".
Definition A_fail : origin := call_origin "A" "s" "fail".

(* x.length names nobody, although x (the sibling arguments) was produced by (A, s, arr)
   (known finding length-functor-tetraplet; corpus/C17/length-scalar.json) *)
Example C17_ex_length_scalar :
  tetraplets_to "use" (requests_of w_length_scalar (w_params "A") w_svc) =
  [[[length_functor_tetraplet]; [tet A_arr ".$.[1]"]; [tet A_arr ""]]].
Proof. vm_compute. reflexivity. Qed.

(* #can.length: (executing peer, ".length", "", ""); #can: one tetraplet per element; #can.$.[0] and
   #can.$.[0].l.[1]: the element's tetraplet, the lens is not recorded
   (known findings length-functor-tetraplet, canon-element-lens-dropped; corpus/C17/canon.json) *)
Example C17_ex_canon :
  tetraplets_to "use" (requests_of w_canon (w_params "A") w_svc) =
  [[[canon_length_tetraplet "A"]; [tet A_obj ""]; [tet A_obj ""]; [tet A_obj ""]]].
Proof. vm_compute. reflexivity. Qed.

(* a canon stream map: #%cm.length names the EXECUTING peer with the lens "length" (known finding
   length-functor-tetraplet; corpus/C17/map.json); the map as a whole: one tetraplet per value, the value's own;
   #%cm.$.k.[0]: the element's tetraplet; #%cm.$.k.[0].l.[1]: the element's lens followed by ".l.[1]"; the key group
   #%cm.$.k: the map's tetraplet (canon peer, "", "") with the lens text *)
Example C17_ex_map :
  tetraplets_to "use" (requests_of w_map (w_params "A") w_svc) =
  [[[map_length_tetraplet "A"]; [tet A_obj ""]; [tet A_obj ""]; [tet A_obj ".l.[1]"]; [tet (literal_origin "A") ".$.k"]]].
Proof. vm_compute. reflexivity. Qed.

(* %last_error%, %last_error%.$.message, :error:.$.error_code after a failed call: the failing call's tetraplet,
   no lens (known finding error-object-lens-dropped; corpus/C17/error-lens.json) *)
Example C17_ex_error :
  tetraplets_to "use" (requests_of w_error (w_params "A") w_svc) = [[[tet A_fail ""]; [tet A_fail ""]; [tet A_fail ""]]].
Proof. vm_compute. reflexivity. Qed.

(* a fold over the lens result x.$.l: the iterator carries ".$.l" followed by ".$.[i]"; literals and built-ins carry
   the init peer's literal tetraplet *)
Example C17_ex_fold :
  tetraplets_to "use" (requests_of w_fold (w_params "A") w_svc) =
    [[[tet A_obj ".$.l.$.[0]"]; [tet A_obj ".$.l"]]; [[tet A_obj ".$.l.$.[1]"]; [tet A_obj ".$.l"]]] /\
  tetraplets_to "lit" (requests_of w_fold (w_params "A") w_svc) =
    [[[tet (literal_origin "A") ""]; [tet (literal_origin "A") ""]; [tet (literal_origin "A") ""]; [tet (literal_origin "A") ""]]].
Proof. vm_compute. split; reflexivity. Qed.

(* a value produced on A, loaded from data on B: iterator, ap copy of a lens result and the value itself name A *)
Example C17_ex_two_peers :
  tetraplets_to "use" (requests_of_second w_two_peers (w_params "A") (w_params "B") w_svc) =
  [[[tet A_arr ".$.[0]"]; [tet A_arr ".$.[1]"]; [tet A_arr ""]];
   [[tet A_arr ".$.[1]"]; [tet A_arr ".$.[1]"]; [tet A_arr ""]];
   [[tet A_arr ".$.[2]"]; [tet A_arr ".$.[1]"]; [tet A_arr ""]]].
Proof. vm_compute. reflexivity. Qed.

(* the relation of C17_request is not trivial: it fails for a request that no call instruction could have issued
   (two arguments, one tetraplet list) *)
Example C17_ex_rel_nontrivial :
  let x := initial_ctx {| ri_script := INull; ri_params := w_params "A"; ri_prev := empty_data; ri_cur := empty_data; ri_results := [] |} in
  c17_rel x x /\
  ~ c17_rel x (set_calls x 1 [] [(1, {| rq_service := "s"; rq_function := "f"; rq_args := [JNull; JNull]; rq_tetraplets := [[]] |})]).
Proof.
  split; [apply c17_rel_refl |].
  intros [_ (added & Ha & Hf)]. cbn in Ha. subst added. inversion Hf as [| p l Hs _]; subst.
  destruct Hs as (x' & t & args & _ & Hc & _). cbn [snd rq_args rq_tetraplets] in Hc.
  destruct (collect_args_spec _ _ _ _ Hc) as (L1 & L2 & _). cbn in L1, L2. congruence.
Qed.

(* rendering: `x.$.a.[2].[n]` *)
Example C17_ex_render :
  render_path [FieldAccessByName "a"; ArrayAccess 2; FieldAccessByScalar "n"] = ".$.a.[2].[n]"%string /\ index_lens 10 = ".$.[10]"%string.
Proof. vm_compute. split; reflexivity. Qed.

Print Assumptions C17_call_result.
Print Assumptions C17_stored_is_read.
Print Assumptions C17_literal.
Print Assumptions C17_error.
Print Assumptions C17_lens.
Print Assumptions C17_iterator.
Print Assumptions C17_canon.
Print Assumptions C17_canon_map.
Print Assumptions C17_request.
Print Assumptions C17_same_everywhere.
Print Assumptions C17_source_tie.
Print Assumptions C17_partial_holds.
Print Assumptions C17_refuted_length_scalar.
Print Assumptions C17_refuted_length_canon.
Print Assumptions C17_refuted_length_map.
Print Assumptions C17_refuted_canon_lens.
Print Assumptions C17_refuted_error_lens.
Print Assumptions C17_full_refuted.
