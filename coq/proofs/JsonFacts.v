(* JsonFacts.v -- facts about model/Json.v: induction principle for [json], [json_eqb] reflects equality,
   the key order, sorted association lists, [obj_insert] / [jobj_of] (used by C26 and C25). *)
From Coq Require Import Lia Permutation.
From Aqua Require Import Base Json.
Open Scope N_scope.
Open Scope list_scope.

(* ---- induction over json (the generated principle ignores the nested lists) ---- *)
Section JsonInd.
  Variable P : json -> Prop.
  Hypothesis Hnull : P JNull.
  Hypothesis Hbool : forall b, P (JBool b).
  Hypothesis Hint : forall z, P (JInt z).
  Hypothesis Hfloat : forall r, P (JFloat r).
  Hypothesis Hstr : forall s, P (JStr s).
  Hypothesis Harr : forall l, Forall P l -> P (JArr l).
  Hypothesis Hobj : forall kvs, Forall (fun kv => P (snd kv)) kvs -> P (JObj kvs).

  Fixpoint json_ind' (j : json) : P j :=
    match j with
    | JNull => Hnull
    | JBool b => Hbool b
    | JInt z => Hint z
    | JFloat r => Hfloat r
    | JStr s => Hstr s
    | JArr l =>
        Harr l ((fix go (l : list json) : Forall P l :=
                   match l with
                   | [] => Forall_nil _
                   | x :: r => Forall_cons x (json_ind' x) (go r)
                   end) l)
    | JObj kvs =>
        Hobj kvs ((fix go (l : list (string * json)) : Forall (fun kv => P (snd kv)) l :=
                     match l with
                     | [] => Forall_nil _
                     | (k, v) :: r => Forall_cons (k, v) (json_ind' v) (go r)
                     end) kvs)
    end.
End JsonInd.

(* ---- the nested fixpoints of Json.v in list form ---- *)

Definition member_eqb (p q : string * json) : bool := String.eqb (fst p) (fst q) && json_eqb (snd p) (snd q).

Lemma json_eqb_arr : forall xs ys, json_eqb (JArr xs) (JArr ys) = list_eqb json_eqb xs ys.
Proof.
  induction xs as [|x xs IH]; intros [|y ys]; try reflexivity.
  cbn [list_eqb]. rewrite <- IH. reflexivity.
Qed.

Lemma json_eqb_obj : forall xs ys, json_eqb (JObj xs) (JObj ys) = list_eqb member_eqb xs ys.
Proof.
  induction xs as [|[k x] xs IH]; intros [|[k' y] ys]; try reflexivity.
  cbn [list_eqb]. rewrite <- IH. reflexivity.
Qed.

Lemma wf_json_arr : forall l, wf_json (JArr l) = forallb wf_json l.
Proof. induction l as [|x l IH]; [reflexivity|]. cbn [forallb]. rewrite <- IH. reflexivity. Qed.

Lemma wf_json_obj : forall kvs,
  wf_json (JObj kvs) = keys_sorted (map fst kvs) && forallb (fun kv => wf_json (snd kv)) kvs.
Proof.
  intro kvs. change (wf_json (JObj kvs)) with
    (keys_sorted (map fst kvs) &&
     (fix go (l : list (string * json)) := match l with [] => true | (_, x) :: r => wf_json x && go r end) kvs).
  f_equal. induction kvs as [|[k x] r IH]; [reflexivity|]. cbn [forallb snd]. rewrite <- IH. reflexivity.
Qed.

Lemma list_eqb_eq {A} (eqb : A -> A -> bool) (xs : list A) :
  Forall (fun x => forall y, eqb x y = true <-> x = y) xs ->
  forall ys, list_eqb eqb xs ys = true <-> xs = ys.
Proof.
  induction 1 as [|x xs Hx _ IH]; intros [|y ys]; cbn [list_eqb]; try (split; [discriminate|discriminate]).
  - split; reflexivity.
  - rewrite andb_true_iff, Hx, IH. split.
    + intros [-> ->]. reflexivity.
    + intros [= -> ->]. split; reflexivity.
Qed.

(* ---- json_eqb reflects equality ---- *)
Theorem json_eqb_eq : forall a b, json_eqb a b = true <-> a = b.
Proof.
  induction a as [| b1 | z1 | r1 | s1 | l IH | kvs IH] using json_ind'; intros b.
  - destruct b; cbn; split; congruence.
  - destruct b; cbn; try (split; congruence). rewrite Bool.eqb_true_iff. split; congruence.
  - destruct b; cbn; try (split; congruence). rewrite Z.eqb_eq. split; congruence.
  - destruct b; cbn; try (split; congruence). rewrite String.eqb_eq. split; congruence.
  - destruct b; cbn; try (split; congruence). rewrite String.eqb_eq. split; congruence.
  - destruct b as [| | | | | l' |]; try (cbn; split; congruence).
    rewrite json_eqb_arr, (list_eqb_eq json_eqb l IH). split; congruence.
  - destruct b as [| | | | | | kvs']; try (cbn; split; congruence).
    rewrite json_eqb_obj.
    assert (Hm : Forall (fun x => forall y, member_eqb x y = true <-> x = y) kvs).
    { induction IH as [|[k v] r Hv _ IHr]; constructor; [|exact IHr].
      intros [k' v']. unfold member_eqb. cbn [fst snd] in *.
      rewrite andb_true_iff, String.eqb_eq, Hv. split; [intros [-> ->]; reflexivity | intros [= -> ->]; split; reflexivity]. }
    rewrite (list_eqb_eq member_eqb kvs Hm). split; congruence.
Qed.

Lemma json_eqb_refl : forall a, json_eqb a a = true.
Proof. intro a. apply json_eqb_eq. reflexivity. Qed.

(* ---- the byte order on keys is a strict total order ---- *)

Lemma N_of_ascii_inj : forall x y, N_of_ascii x = N_of_ascii y -> x = y.
Proof. intros x y H. rewrite <- (ascii_N_embedding x), <- (ascii_N_embedding y), H. reflexivity. Qed.

Lemma string_ltb_irrefl : forall a, string_ltb a a = false.
Proof. induction a as [|c a IH]; cbn; [reflexivity|]. rewrite N.ltb_irrefl. exact IH. Qed.

Lemma string_ltb_trans : forall a b c, string_ltb a b = true -> string_ltb b c = true -> string_ltb a c = true.
Proof.
  induction a as [|x a IH]; intros [|y b] [|z c]; cbn; try congruence.
  destruct (N.ltb_spec (N_of_ascii x) (N_of_ascii y)) as [Hxy|Hxy];
  destruct (N.ltb_spec (N_of_ascii y) (N_of_ascii x)) as [Hyx|Hyx];
  destruct (N.ltb_spec (N_of_ascii y) (N_of_ascii z)) as [Hyz|Hyz];
  destruct (N.ltb_spec (N_of_ascii z) (N_of_ascii y)) as [Hzy|Hzy];
  destruct (N.ltb_spec (N_of_ascii x) (N_of_ascii z)) as [Hxz|Hxz];
  destruct (N.ltb_spec (N_of_ascii z) (N_of_ascii x)) as [Hzx|Hzx];
  try congruence; try lia.
  apply IH.
Qed.

Lemma string_ltb_asym : forall a b, string_ltb a b = true -> string_ltb b a = false.
Proof.
  intros a b H. destruct (string_ltb b a) eqn:E; [|reflexivity].
  pose proof (string_ltb_trans a b a H E) as H1. rewrite string_ltb_irrefl in H1. discriminate.
Qed.

Lemma string_ltb_total : forall a b, string_ltb a b = false -> string_ltb b a = false -> a = b.
Proof.
  induction a as [|x a IH]; intros [|y b]; cbn; try congruence.
  destruct (N.ltb_spec (N_of_ascii x) (N_of_ascii y)) as [Hxy|Hxy];
  destruct (N.ltb_spec (N_of_ascii y) (N_of_ascii x)) as [Hyx|Hyx]; try congruence; try lia.
  intros H1 H2. assert (x = y) by (apply N_of_ascii_inj; lia). subst. f_equal. apply IH; assumption.
Qed.

Lemma string_ltb_neq : forall a b, string_ltb a b = true -> String.eqb a b = false.
Proof.
  intros a b H. destruct (String.eqb a b) eqn:E; [|reflexivity].
  apply String.eqb_eq in E. subst. rewrite string_ltb_irrefl in H. discriminate.
Qed.

Lemma string_ltb_neq' : forall a b, string_ltb a b = true -> String.eqb b a = false.
Proof. intros a b H. rewrite String.eqb_sym. apply string_ltb_neq. exact H. Qed.

(* ---- sorted key lists ---- *)

Lemma keys_sorted_inv : forall k r, keys_sorted (k :: r) = true ->
  keys_sorted r = true /\ forall k', In k' r -> string_ltb k k' = true.
Proof.
  intros k r. revert k. induction r as [|k1 r IH]; intros k H.
  - split; [reflexivity|]. intros k' [].
  - cbn [keys_sorted] in H. apply andb_true_iff in H. destruct H as [Hk Hr].
    split; [exact Hr|]. intros k' [<-|Hin]; [exact Hk|].
    destruct (IH k1 Hr) as [_ Hall]. apply (string_ltb_trans k k1 k' Hk). apply Hall. exact Hin.
Qed.

Lemma keys_sorted_intro : forall k r, keys_sorted r = true ->
  (forall k', In k' r -> string_ltb k k' = true) -> keys_sorted (k :: r) = true.
Proof.
  intros k [|k1 r] Hr Hall; [reflexivity|].
  cbn [keys_sorted]. rewrite (Hall k1 (or_introl eq_refl)). exact Hr.
Qed.

Lemma keys_sorted_app_lt : forall l1 k l2, keys_sorted (l1 ++ k :: l2) = true ->
  forall x, In x l1 -> string_ltb x k = true.
Proof.
  induction l1 as [|a l1 IH]; intros k l2 H x Hin; [destruct Hin|].
  cbn [app] in H. destruct (keys_sorted_inv _ _ H) as [Hr Hall]. destruct Hin as [<-|Hin].
  - apply Hall. apply in_or_app. right. left. reflexivity.
  - apply (IH k l2 Hr x Hin).
Qed.

Lemma keys_sorted_nodup : forall l, keys_sorted l = true -> NoDup l.
Proof.
  induction l as [|k r IH]; intro H; [constructor|].
  destruct (keys_sorted_inv _ _ H) as [Hr Hall]. constructor; [|apply IH; exact Hr].
  intro Hin. specialize (Hall k Hin). rewrite string_ltb_irrefl in Hall. discriminate.
Qed.

(* ---- obj_get / obj_insert ---- *)

Lemma obj_get_in : forall k l v, obj_get k l = Some v -> In k (map fst l).
Proof.
  induction l as [|[k1 v1] r IH]; intros v H; cbn in *; [discriminate|].
  destruct (String.eqb k k1) eqn:E; [left; symmetry; apply String.eqb_eq; exact E | right; apply (IH v H)].
Qed.

Lemma obj_get_notin : forall k l, ~ In k (map fst l) -> obj_get k l = None.
Proof.
  intros k l H. destruct (obj_get k l) eqn:E; [|reflexivity]. exfalso. apply H. apply (obj_get_in k l j E).
Qed.

Lemma obj_get_insert : forall k' k v l,
  obj_get k' (obj_insert k v l) = if String.eqb k' k then Some v else obj_get k' l.
Proof.
  intros k' k v. induction l as [|[k1 v1] r IH]; cbn [obj_insert obj_get].
  - reflexivity.
  - destruct (String.eqb k k1) eqn:E1.
    + apply String.eqb_eq in E1. subst k1. cbn [obj_get]. destruct (String.eqb k' k); reflexivity.
    + destruct (string_ltb k k1); cbn [obj_get]; [reflexivity|].
      rewrite IH. destruct (String.eqb k' k1) eqn:E2; [|reflexivity].
      destruct (String.eqb k' k) eqn:E3; [|reflexivity].
      apply String.eqb_eq in E2, E3. subst. rewrite String.eqb_refl in E1. discriminate.
Qed.

Lemma obj_insert_keys : forall k v l k', In k' (map fst (obj_insert k v l)) -> k' = k \/ In k' (map fst l).
Proof.
  intros k v. induction l as [|[k1 v1] r IH]; intros k' H; cbn [obj_insert] in H.
  - destruct H as [<-|[]]. left. reflexivity.
  - destruct (String.eqb k k1) eqn:E1.
    + cbn in H. destruct H as [<-|H]; [left; reflexivity | right; right; exact H].
    + destruct (string_ltb k k1).
      * cbn [map fst In] in H. destruct H as [<-|H]; [left; reflexivity | right; exact H].
      * cbn [map fst In] in H. destruct H as [<-|H]; [right; left; reflexivity|].
        destruct (IH k' H) as [->|Hin]; [left; reflexivity | right; right; exact Hin].
Qed.

Lemma obj_insert_values : forall (P : json -> Prop) k v l,
  P v -> Forall (fun kv => P (snd kv)) l -> Forall (fun kv => P (snd kv)) (obj_insert k v l).
Proof.
  intros P k v l Hv Hl. induction Hl as [|[k1 v1] r H1 Hr IH]; cbn [obj_insert].
  - constructor; [exact Hv|constructor].
  - destruct (String.eqb k k1); [constructor; assumption|].
    destruct (string_ltb k k1); constructor; try assumption. constructor; assumption.
Qed.

Lemma obj_insert_sorted : forall k v l,
  keys_sorted (map fst l) = true -> keys_sorted (map fst (obj_insert k v l)) = true.
Proof.
  intros k v. induction l as [|[k1 v1] r IH]; intro H; cbn [obj_insert].
  - reflexivity.
  - destruct (String.eqb k k1) eqn:E1.
    + apply String.eqb_eq in E1. subst k1. exact H.
    + destruct (string_ltb k k1) eqn:E2.
      * cbn [map fst] in *. cbn [keys_sorted]. rewrite E2. exact H.
      * cbn [map fst] in *. destruct (keys_sorted_inv _ _ H) as [Hr Hall].
        apply keys_sorted_intro; [apply IH; exact Hr|].
        intros k' Hin. destruct (obj_insert_keys k v r k' Hin) as [->|Hin'].
        -- destruct (string_ltb k1 k) eqn:E3; [reflexivity|].
           rewrite (string_ltb_total k k1 E2 E3), String.eqb_refl in E1. discriminate.
        -- apply Hall. exact Hin'.
Qed.

(* a key above every present key goes to the end *)
Lemma obj_insert_last : forall k v l,
  (forall k', In k' (map fst l) -> string_ltb k' k = true) -> obj_insert k v l = l ++ [(k, v)].
Proof.
  intros k v. induction l as [|[k1 v1] r IH]; intro H; cbn [obj_insert app]; [reflexivity|].
  assert (H1 : string_ltb k1 k = true) by (apply H; left; reflexivity).
  rewrite (string_ltb_neq' _ _ H1), (string_ltb_asym _ _ H1). f_equal. apply IH.
  intros k' Hin. apply H. right. exact Hin.
Qed.

Definition ins_fold (kvs acc : list (string * json)) : list (string * json) :=
  fold_left (fun acc kv => obj_insert (fst kv) (snd kv) acc) kvs acc.

Lemma jobj_of_fold : forall kvs, jobj_of kvs = JObj (ins_fold kvs []).
Proof. reflexivity. Qed.

(* inserting an already sorted sequence after a sorted prefix appends it *)
Lemma ins_fold_sorted : forall kvs acc,
  keys_sorted (map fst (acc ++ kvs)) = true -> ins_fold kvs acc = acc ++ kvs.
Proof.
  induction kvs as [|[k v] r IH]; intros acc H; cbn [ins_fold fold_left fst snd].
  - rewrite app_nil_r. reflexivity.
  - rewrite obj_insert_last.
    + change (ins_fold r (acc ++ [(k, v)]) = acc ++ (k, v) :: r). rewrite IH.
      * rewrite <- app_assoc. reflexivity.
      * rewrite <- app_assoc. exact H.
    + intros k' Hin. rewrite map_app in H. cbn [map fst] in H. apply (keys_sorted_app_lt _ _ _ H k' Hin).
Qed.

Theorem jobj_of_sorted : forall kvs, keys_sorted (map fst kvs) = true -> jobj_of kvs = JObj kvs.
Proof. intros kvs H. rewrite jobj_of_fold, (ins_fold_sorted kvs [] H). reflexivity. Qed.

Lemma ins_fold_keys_sorted : forall kvs acc,
  keys_sorted (map fst acc) = true -> keys_sorted (map fst (ins_fold kvs acc)) = true.
Proof.
  induction kvs as [|[k v] r IH]; intros acc H; cbn [ins_fold fold_left]; [exact H|].
  apply IH. apply obj_insert_sorted. exact H.
Qed.

Lemma ins_fold_values : forall (P : json -> Prop) kvs acc,
  Forall (fun kv => P (snd kv)) kvs -> Forall (fun kv => P (snd kv)) acc ->
  Forall (fun kv => P (snd kv)) (ins_fold kvs acc).
Proof.
  intros P. induction kvs as [|[k v] r IH]; intros acc Hk Ha; cbn [ins_fold fold_left]; [exact Ha|].
  inversion Hk as [|? ? Hv Hr]; subst. apply IH; [exact Hr|]. apply obj_insert_values; assumption.
Qed.

(* [jobj_of] always builds a well-formed object from well-formed values *)
Theorem jobj_of_wf : forall kvs,
  (forall kv, In kv kvs -> wf_json (snd kv) = true) -> wf_json (jobj_of kvs) = true.
Proof.
  intros kvs H. rewrite jobj_of_fold, wf_json_obj. apply andb_true_iff. split.
  - apply ins_fold_keys_sorted. reflexivity.
  - apply forallb_forall. apply Forall_forall.
    apply (ins_fold_values (fun x => wf_json x = true)); [|constructor].
    apply Forall_forall. exact H.
Qed.

(* two sorted association lists with the same bindings are the same list *)
Lemma sorted_ext : forall l1 l2,
  keys_sorted (map fst l1) = true -> keys_sorted (map fst l2) = true ->
  (forall k, obj_get k l1 = obj_get k l2) -> l1 = l2.
Proof.
  induction l1 as [|[k1 v1] r1 IH]; intros [|[k2 v2] r2] H1 H2 Hget.
  - reflexivity.
  - specialize (Hget k2). cbn in Hget. rewrite String.eqb_refl in Hget. discriminate.
  - specialize (Hget k1). cbn in Hget. rewrite String.eqb_refl in Hget. discriminate.
  - cbn [map fst] in H1, H2.
    destruct (keys_sorted_inv _ _ H1) as [Hr1 Hall1]. destruct (keys_sorted_inv _ _ H2) as [Hr2 Hall2].
    assert (Hk : k1 = k2).
    { apply string_ltb_total.
      - destruct (string_ltb k1 k2) eqn:E; [|reflexivity]. exfalso.
        pose proof (Hget k1) as G. cbn [obj_get] in G. rewrite String.eqb_refl, (string_ltb_neq _ _ E) in G.
        symmetry in G. apply obj_get_in in G. specialize (Hall2 k1 G).
        rewrite (string_ltb_asym _ _ E) in Hall2. discriminate.
      - destruct (string_ltb k2 k1) eqn:E; [|reflexivity]. exfalso.
        pose proof (Hget k2) as G. cbn [obj_get] in G. rewrite String.eqb_refl, (string_ltb_neq _ _ E) in G.
        apply obj_get_in in G. specialize (Hall1 k2 G).
        rewrite (string_ltb_asym _ _ E) in Hall1. discriminate. }
    subst k2.
    pose proof (Hget k1) as G. cbn [obj_get] in G. rewrite String.eqb_refl in G. injection G as ->.
    f_equal. apply IH; [exact Hr1|exact Hr2|].
    intro k. pose proof (Hget k) as G. cbn [obj_get] in G. destruct (String.eqb k k1) eqn:E; [|exact G].
    apply String.eqb_eq in E. subst k.
    rewrite !obj_get_notin; [reflexivity| |].
    + intro Hin. specialize (Hall2 k1 Hin). rewrite string_ltb_irrefl in Hall2. discriminate.
    + intro Hin. specialize (Hall1 k1 Hin). rewrite string_ltb_irrefl in Hall1. discriminate.
Qed.

(* lookup in a fold of insertions: with distinct keys, the binding of the list, else the accumulator's *)
Lemma obj_get_ins_fold : forall kvs acc k,
  NoDup (map fst kvs) ->
  obj_get k (ins_fold kvs acc) = match obj_get k kvs with Some v => Some v | None => obj_get k acc end.
Proof.
  induction kvs as [|[k0 v0] r IH]; intros acc k Hnd; cbn [ins_fold fold_left fst snd]; [reflexivity|].
  cbn [map fst] in Hnd. inversion Hnd as [|? ? Hnotin Hnd']; subst.
  change (obj_get k (ins_fold r (obj_insert k0 v0 acc)) =
          match obj_get k ((k0, v0) :: r) with Some v => Some v | None => obj_get k acc end).
  rewrite (IH _ k Hnd'), obj_get_insert. cbn [obj_get].
  destruct (String.eqb k k0) eqn:E; [|reflexivity].
  apply String.eqb_eq in E. subst k0. rewrite (obj_get_notin k r Hnotin). reflexivity.
Qed.

Lemma obj_get_perm : forall l l' k,
  Permutation l l' -> NoDup (map fst l) -> obj_get k l = obj_get k l'.
Proof.
  intros l l' k Hp. induction Hp as [| [k1 v1] l l' Hp IH | [k1 v1] [k2 v2] l | l l' l'' Hp1 IH1 Hp2 IH2]; intro Hnd.
  - reflexivity.
  - cbn [obj_get]. cbn [map fst] in Hnd. inversion Hnd; subst. rewrite IH by assumption. reflexivity.
  - cbn [obj_get]. cbn [map fst] in Hnd. inversion Hnd as [|? ? Hnotin _]; subst.
    destruct (String.eqb k k1) eqn:E1; destruct (String.eqb k k2) eqn:E2; try reflexivity.
    apply String.eqb_eq in E1, E2. subst. exfalso. apply Hnotin. left. reflexivity.
  - rewrite IH1 by exact Hnd. apply IH2.
    apply (Permutation_NoDup (Permutation_map fst Hp1) Hnd).
Qed.

(* the object built from a list of bindings with distinct keys does not depend on their order *)
Theorem jobj_of_perm : forall kvs kvs',
  Permutation kvs kvs' -> NoDup (map fst kvs) -> jobj_of kvs = jobj_of kvs'.
Proof.
  intros kvs kvs' Hp Hnd. rewrite !jobj_of_fold. f_equal.
  assert (Hnd' : NoDup (map fst kvs')) by apply (Permutation_NoDup (Permutation_map fst Hp) Hnd).
  apply sorted_ext.
  - apply ins_fold_keys_sorted. reflexivity.
  - apply ins_fold_keys_sorted. reflexivity.
  - intro k. rewrite !obj_get_ins_fold by assumption. rewrite (obj_get_perm kvs kvs' k Hp Hnd). reflexivity.
Qed.
