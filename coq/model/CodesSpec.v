(* CodesSpec.v -- C02: error codes and which data an outcome carries.

   Part 1 (codes): air/src/utils/to_error_code.rs generate_to_error_code! = start id + position of the
   variant in the enum's discriminant iterator (declaration order); the four variant lists and start
   ids are the GENERATED ones (coq/gen/Generated.v, re-read from /repo on every run).

   Part 2 (outcomes): the whole of air/src/runner.rs execute_air_impl as one function
   [execute_air_full]: the routing up to `prepare` is model/RunTop.v (every farewell_if_fail! stage,
   opaque stage behaviours = the fields of [world]); what `prepare` hands to the executor is the
   world's [w_rest : run_input] (decoded previous/current data, script tree, parameters, call
   results = PreparationDescriptor); from there on [after_prepare] mirrors runner.rs lines
   `air.execute` .. end and air/src/farewell_step/outcome.rs (from_success_result,
   from_execution_error, from_uncatchable_error, populate_outcome_from_contexts and its two
   internal-error exits execution_error_into_outcome / signing_error_into_outcome) over the
   executor model Exec.exec.  model/RunExec.v [run] is the same function with the outcome bytes
   abstracted away; [C02_run_glue_stmt] says exactly how the two are related (and where RunExec's
   comment about the compactification failure differs from the code: EMPTY data, not previous data).

   Outside world (Section variables, universally quantified in every statement):
     exec_stream_instr, finish_streams   as in RunExec.run (stream instructions / Streams::compactify)
     sign_produced, sign_result          PeerCidTracker::gen_signature succeeding in
                                         signing_step::sign_produced_cids / outcome.rs sign_result
     serialize, decode                   InterpreterDataEnvelope::serialize (None: `.expect` panics) and the
                                         decoder of the same envelope
   Definitions only. *)
From Aqua Require Import Base Json Air Trace Handler Values Scalars Lens Exec RunExec RunTop.
From Aqua Require Stream.
Open Scope N_scope.
Open Scope list_scope.

(* ------------------------------------------------------------------------------------------ *)
(* 1. codes *)

Definition in_range (lo hi c : Z) : bool := ((lo <=? c) && (c <=? hi))%Z.
Definition prep_code (c : Z) : bool := in_range 1 9999 c.
Definition catchable_range (c : Z) : bool := in_range 10000 19999 c.
Definition uncatchable_range (c : Z) : bool := in_range 20000 29999 c.
Definition farewell_range (c : Z) : bool := (30000 <=? c)%Z.

(* the property's two classes *)
Definition fail_code (c : Z) : bool := prep_code c || uncatchable_range c.
Definition ok_code (c : Z) : bool := (c =? 0)%Z || catchable_range c || (c =? 30000)%Z.

(* to_error_code of every variant of an enum, in declaration order *)
Definition codes_of (names : list string) (start : Z) : list Z := map (code_in names start) names.

(* farewell_step/errors.rs: impl ToErrorCode for SigningError = FAREWELL_ERRORS_START_ID + FarewellError::COUNT *)
Definition signing_error_code : Z := (farewell_errors_start_id + Z.of_nat (length farewell_error_variants))%Z.

Definition all_codes : list Z :=
  codes_of preparation_error_variants preparation_error_start_id ++
  codes_of catchable_error_variants catchable_errors_start_id ++
  codes_of uncatchable_error_variants uncatchable_errors_start_id ++
  codes_of farewell_error_variants farewell_errors_start_id ++ [signing_error_code].

Fixpoint nodup_z (l : list Z) : bool :=
  match l with
  | [] => true
  | x :: r => negb (existsb (Z.eqb x) r) && nodup_z r
  end.

(* the boolean sweep over the generated lists (finite) *)
Definition codes_table_ok : bool :=
  forallb prep_code (codes_of preparation_error_variants preparation_error_start_id) &&
  forallb catchable_range (codes_of catchable_error_variants catchable_errors_start_id) &&
  forallb uncatchable_range (codes_of uncatchable_error_variants uncatchable_errors_start_id) &&
  forallb farewell_range (codes_of farewell_error_variants farewell_errors_start_id) &&
  (code_in farewell_error_variants farewell_errors_start_id "UnprocessedCallResult" =? 30000)%Z &&
  nodup_z all_codes && negb (existsb (Z.eqb 0) all_codes) && (interpreter_success =? 0)%Z.

(* every constructor of the model's error types is a variant of the generated enum (so that
   [code_in] never answers its -1 default) *)
Definition name_known (names : list string) (n : string) : bool := existsb (String.eqb n) names.

Definition C02_codes_stmt : Prop :=
  (* over the generated variant lists *)
  (forall c, In c (codes_of preparation_error_variants preparation_error_start_id) -> (1 <= c <= 9999)%Z) /\
  (forall c, In c (codes_of catchable_error_variants catchable_errors_start_id) -> (10000 <= c <= 19999)%Z) /\
  (forall c, In c (codes_of uncatchable_error_variants uncatchable_errors_start_id) -> (20000 <= c <= 29999)%Z) /\
  (forall c, In c (codes_of farewell_error_variants farewell_errors_start_id) -> (30000 <= c)%Z) /\
  code_in farewell_error_variants farewell_errors_start_id "UnprocessedCallResult" = 30000%Z /\
  NoDup all_codes /\ ~ In 0%Z all_codes /\ interpreter_success = 0%Z /\
  (* over the model's error types *)
  (forall e : prep_err, (1 <= prep_err_code e <= 9999)%Z /\
                        prep_err_code e = code_in preparation_error_variants preparation_error_start_id (prep_err_name e)) /\
  (forall c : catchable, (10000 <= catchable_code c <= 19999)%Z) /\
  (forall u : uncatchable, (20000 <= uncatchable_code u <= 29999)%Z) /\
  farewell_error_code = 30000%Z /\ signing_error_code = 30001%Z.

(* the general fact behind the ranges: a variant's code lies in [start, start + number of variants) *)
Definition C02_codes_general_stmt : Prop :=
  (forall (A : Type) (p : A -> bool) (l : list A) (i : N), index_of p l = Some i -> (N.to_nat i < length l)%nat) /\
  (forall (names : list string) (start : Z) (n : string), In n names ->
     (start <= code_in names start n < start + Z.of_nat (length names))%Z) /\
  (* hence: any enum with at most 9999 (resp. 10000) variants stays inside its range *)
  (forall names n, In n names -> (Z.of_nat (length names) <= 9999)%Z -> (1 <= code_in names 1 n <= 9999)%Z) /\
  (forall names start n, In n names -> (Z.of_nat (length names) <= 10000)%Z ->
     (start <= code_in names start n <= start + 9999)%Z).

(* ------------------------------------------------------------------------------------------ *)
(* 2. outcomes *)

Definition bytes := list N.

(* InterpreterOutcome {ret_code, data, next_peer_pks, call_requests, flags}; the error message is
   not part of C02 *)
Record result := { r_code : Z; r_data : bytes; r_next : list string; r_reqs : list (N * request); r_flags : flags }.

Inductive full_outcome :=
| FOut (r : result)
| FCrash (site : string)
| FFuel
| FUnsupported (what : string).

(* farewell_step/outcome.rs from_uncatchable_error: InterpreterOutcome::new(error.to_error_code(), _, data.into(),
   vec![], serialize(&CallRequests::new()), flags) *)
Definition from_uncatchable_error (prev : bytes) (code : Z) (fl : flags) : result :=
  {| r_code := code; r_data := prev; r_next := []; r_reqs := []; r_flags := fl |}.

(* execution_error_into_outcome / signing_error_into_outcome: InterpreterOutcome::new(code, _, vec![], vec![],
   <_>::default(), flags): EMPTY data (and empty, not even encoded, call requests) *)
Definition internal_error_outcome (code : Z) (fl : flags) : result :=
  {| r_code := code; r_data := []; r_next := []; r_reqs := []; r_flags := fl |}.

(* the routing of runner.rs over any continuation [rest] (what happens from `air.execute` on) *)
Definition route {X : Type} (rest : X -> flags -> full_outcome) (l : limits) (w : world X) (prev : bytes) : full_outcome :=
  match RunTop.execute_air X l w with
  | Failed e _ fl => FOut (from_uncatchable_error prev (prep_err_code e) fl)
  | Rest x fl => rest x fl
  end.

Section Full.
  Variable exec_stream_instr : (instr -> ctx -> xres) -> instr -> ctx -> option xres.
  Variable finish_streams : ctx -> ctx + uncatchable.
  Variable sign_produced : ctx -> bool.
  Variable sign_result : ctx -> bool.
  Variable serialize : idata -> list cid -> option bytes.

  (* from_success_result: INTERPRETER_SUCCESS iff no call result is left over *)
  Definition success_code (x : ctx) : Z :=
    match x_call_results x with [] => interpreter_success | _ => farewell_error_code end.

  (* populate_outcome_from_contexts *)
  Definition populate (code : Z) (x : ctx) (fl : flags) : full_outcome :=
    match finish_streams x with
    | inr u => FOut (internal_error_outcome (uncatchable_code u) fl)           (* compactify_streams fails *)
    | inl x1 =>
        if negb (sign_result x1) then FOut (internal_error_outcome signing_error_code fl) else
        match serialize (data_of_ctx x1) (x_tracker x1) with
        | None => FCrash "InterpreterDataEnvelope::serialize: expect"
        | Some b => FOut {| r_code := code; r_data := b; r_next := dedup (x_next_peers x1) [];
                            r_reqs := x_requests x1; r_flags := fl |}
        end
    end.

  (* runner.rs: farewell_if_fail!(sign_produced_cids(..), raw_prev_data, ..) -- after execution, whatever it returned *)
  Definition signing_failed (prev : bytes) (fl : flags) : full_outcome :=
    FOut (from_uncatchable_error prev (uncatchable_code USigningError) fl).

  (* runner.rs from `air.execute(&mut exec_ctx, &mut trace_handler)` to the end *)
  Definition after_prepare (fuel : nat) (prev : bytes) (i : run_input) (fl : flags) : full_outcome :=
    match exec exec_stream_instr fuel (ri_script i) (initial_ctx i) with
    | XCrash s => FCrash s
    | XFuel => FFuel
    | XUnsupported w => FUnsupported w
    | XOk x =>
        if negb (sign_produced x) then signing_failed prev fl
        else populate (success_code x) x fl                                    (* from_success_result *)
    | XErr e x =>
        if negb (sign_produced x) then signing_failed prev fl else
        match e with
        | ECatch c => populate (catchable_code c) x fl                         (* from_execution_error *)
        | EUncatch u => FOut (from_uncatchable_error prev (uncatchable_code u) fl)
        end
    end.

  (* execute_air: every farewell_if_fail! stage of RunTop answers from_uncatchable_error(raw_prev_data, ..) *)
  Definition execute_air_full (fuel : nat) (l : limits) (w : world run_input) (prev : bytes) : full_outcome :=
    route (after_prepare fuel prev) l w prev.

  (* the context handed to populate_outcome_from_contexts, when the run gets there *)
  Definition farewell_ctx (fuel : nat) (l : limits) (w : world run_input) : option ctx :=
    match RunTop.execute_air run_input l w with
    | Failed _ _ _ => None
    | Rest i _ =>
        match exec exec_stream_instr fuel (ri_script i) (initial_ctx i) with
        | XOk x | XErr (ECatch _) x => if sign_produced x then Some x else None
        | _ => None
        end
    end.

  (* "the interpreter's internal-error branch is not taken": Streams::compactify succeeds on the final context *)
  Definition compactify_ok (fuel : nat) (l : limits) (w : world run_input) : Prop :=
    forall x, farewell_ctx fuel l w = Some x -> exists x1, finish_streams x = inl x1.

  (* ---------------- statements ---------------- *)

  (* (a) each failing stage, (b) an uncatchable execution error, (c) a failing sign_produced_cids:
     exactly (that error's code, the previous bytes, no peers, no requests) *)
  Definition C02_fail_stages_stmt : Prop :=
    forall fuel l w prev,
      (forall e s fl, RunTop.execute_air run_input l w = Failed e s fl ->
         execute_air_full fuel l w prev =
           FOut {| r_code := prep_err_code e; r_data := prev; r_next := []; r_reqs := []; r_flags := fl |}) /\
      (forall i fl u x, RunTop.execute_air run_input l w = Rest i fl ->
         exec exec_stream_instr fuel (ri_script i) (initial_ctx i) = XErr (EUncatch u) x ->
         execute_air_full fuel l w prev =
           FOut {| r_code := if sign_produced x then uncatchable_code u else uncatchable_code USigningError;
                   r_data := prev; r_next := []; r_reqs := []; r_flags := fl |}) /\
      (forall i fl x, RunTop.execute_air run_input l w = Rest i fl ->
         (exec exec_stream_instr fuel (ri_script i) (initial_ctx i) = XOk x \/
          exists e, exec exec_stream_instr fuel (ri_script i) (initial_ctx i) = XErr e x) ->
         sign_produced x = false ->
         execute_air_full fuel l w prev =
           FOut {| r_code := uncatchable_code USigningError; r_data := prev; r_next := []; r_reqs := []; r_flags := fl |}).

  (* the property's first sentence, as it reads: an outcome whose code is in 1..9999 or 20000..29999
     carries the previous bytes, no next peers, no call requests *)
  Definition C02_fail_keeps_prev_stmt : Prop :=
    forall fuel l w prev r,
      compactify_ok fuel l w ->
      execute_air_full fuel l w prev = FOut r -> fail_code (r_code r) = true ->
      r_data r = prev /\ r_next r = [] /\ r_reqs r = [].

  (* the property's second sentence: code 0, a catchable code or 30000 => new data built from the final
     context: the handler's result trace of this run, the last issued request id; never empty; decodable *)
  Definition codec_ok (decode : bytes -> option idata) : Prop :=
    forall d s b, serialize d s = Some b -> b <> [] /\ decode b = Some d.

  Definition C02_ok_data_stmt : Prop :=
    forall decode, codec_ok decode ->
    forall fuel l w prev r,
      execute_air_full fuel l w prev = FOut r -> ok_code (r_code r) = true ->
      exists x x1,
        farewell_ctx fuel l w = Some x /\ finish_streams x = inl x1 /\
        serialize (data_of_ctx x1) (x_tracker x1) = Some (r_data r) /\
        d_trace (data_of_ctx x1) = result_trace cid (x_handler x1) /\
        d_lcid (data_of_ctx x1) = x_lcid x1 /\
        r_data r <> [] /\ decode (r_data r) = Some (data_of_ctx x1) /\
        r_next r = dedup (x_next_peers x1) [] /\ r_reqs r = x_requests x1.

  (* every code an outcome can carry is one of the documented ones, unless an internal-error branch
     of the farewell step is taken *)
  Definition C02_code_classes_stmt : Prop :=
    forall fuel l w prev r,
      compactify_ok fuel l w ->
      (forall x x1, farewell_ctx fuel l w = Some x -> finish_streams x = inl x1 -> sign_result x1 = true) ->
      execute_air_full fuel l w prev = FOut r ->
      fail_code (r_code r) = true \/ ok_code (r_code r) = true.

  (* the relation to RunExec.run (signing does not fail there) *)
  Definition C02_run_glue_stmt : Prop :=
    (forall x, sign_produced x = true) -> (forall x, sign_result x = true) ->
    forall fuel prev i fl,
      match run exec_stream_instr finish_streams fuel i with
      | OutNewData code d next reqs signed =>
          after_prepare fuel prev i fl =
            match serialize d signed with
            | Some b => FOut {| r_code := code; r_data := b; r_next := next; r_reqs := reqs; r_flags := fl |}
            | None => FCrash "InterpreterDataEnvelope::serialize: expect"
            end
      | OutPrevData code =>
          after_prepare fuel prev i fl = FOut (from_uncatchable_error prev code fl) \/
          (* RunExec answers OutPrevData for a failing compactification; the code answers empty data *)
          (exists x u, finish_streams x = inr u /\ code = uncatchable_code u /\
                       after_prepare fuel prev i fl = FOut (internal_error_outcome code fl))
      | OutCrash s => after_prepare fuel prev i fl = FCrash s
      | OutFuel => after_prepare fuel prev i fl = FFuel
      | OutUnsupported w => after_prepare fuel prev i fl = FUnsupported w
      end.
End Full.

(* Without [compactify_ok] the first sentence fails IN THE MODEL OF THE CODE: outcome.rs
   execution_error_into_outcome answers an uncatchable-range code with EMPTY data.  (Whether the real
   Streams::compactify can fail is the stream invariant of DESIGN 6/C02 `compactify_total`.) *)
Definition C02_internal_error_branch_stmt : Prop :=
  exists exec_stream_instr finish_streams sign_produced sign_result serialize fuel l w prev r,
    execute_air_full exec_stream_instr finish_streams sign_produced sign_result serialize fuel l w prev = FOut r /\
    fail_code (r_code r) = true /\ r_data r = [] /\ prev <> [].

(* ------------------------------------------------------------------------------------------ *)
(* 2b. when compactification cannot fail: the local half of DESIGN 6/C02 `compactify_total`.
   Streams::compactify / StreamMaps::compactify run a plan of TraceHandler::update_generation calls
   (Stream.run_plan over Handler.update_generation; ExecStreams.finish_streams is built from it).
   [gen_state_at t p]: position p of the result trace holds a state whose generation
   update_generation can overwrite (an Ap state or a stream Call state). *)
Definition gen_state_at (t : list (state cid)) (p : N) : bool :=
  match Trace.nth_N t p with
  | Some (SAp _) => true
  | Some (SCall (Executed (VRStream _ _))) => true
  | _ => false
  end.

(* if every value position of the plan points at such a state and no generation index overflows,
   the plan runs to the end: no GenerationCompactificationError *)
Definition C02_compactify_sufficient_stmt : Prop :=
  forall (h : handler cid) (pl : Stream.compact_plan),
    forallb (fun pg => gen_state_at (result_trace cid h) (fst pg)) (Stream.cp_updates pl) = true ->
    Stream.cp_crash pl = None ->
    exists h', Stream.run_plan (update_generation cid) h pl = Stream.CompactOk h' /\
               forall q, gen_state_at (result_trace cid h') q = gen_state_at (result_trace cid h) q.

(* ------------------------------------------------------------------------------------------ *)
(* 3. tie to the source lines (tools/genx_codes.py) *)

Definition str_list_eqb := list_eqb String.eqb.
Definition triple_str_eqb (a b : string * string * string) : bool :=
  match a, b with (a1, a2, a3), (b1, b2, b3) => String.eqb a1 b1 && String.eqb a2 b2 && String.eqb a3 b3 end.

Definition codes_source_agrees : bool :=
  (* InterpreterOutcome::new(ret_code, error_message, data, next_peer_pks, call_requests, flags), field for field *)
  str_list_eqb outcome_new_params
    ["ret_code"; "error_message"; "data"; "next_peer_pks"; "call_requests"; "soft_limits_triggering"]%string &&
  list_eqb (pair_eqb String.eqb String.eqb) (firstn 5 outcome_new_field_init)
    [("ret_code", "ret_code"); ("error_message", "error_message"); ("data", "data");
     ("next_peer_pks", "next_peer_pks"); ("call_requests", "call_requests")]%string &&
  outcome_new_call_requests_is_into &&
  (* farewell_if_fail! and its sites: RunTop's stages, each handing raw_prev_data on *)
  farewell_if_fail_is_standard &&
  list_eqb triple_str_eqb runner_farewell_sites
    [("check_against_size_limits", "raw_prev_data", "SoftLimitsTriggering::default()");
     ("check_against_size_limits", "raw_prev_data", "soft_limits_triggering");
     ("parse_data", "raw_prev_data", "soft_limits_triggering");
     ("verify", "raw_prev_data", "soft_limits_triggering");
     ("prepare", "raw_prev_data", "soft_limits_triggering");
     ("sign_produced_cids", "raw_prev_data", "soft_limits_triggering")]%string &&
  forallb (fun s => String.eqb (snd (fst s)) "raw_prev_data") runner_farewell_sites &&
  str_list_eqb runner_stage_order
    ["check_against_size_limits"; "check_against_size_limits"; "parse_data"; "verify"; "prepare";
     "execute"; "sign_produced_cids"; "match"]%string &&
  (runner_other_early_exits =? 0) && runner_unwraps_with_identity &&
  (* the dispatch after execution *)
  list_eqb triple_str_eqb runner_exec_match_arms
    [("Ok(_)", "from_success_result", "exec_ctx");
     ("Err(error) if error.is_catchable()", "Err(from_execution_error", "exec_ctx");
     ("Err(error)", "Err(from_uncatchable_error", "raw_prev_data")]%string &&
  is_catchable_is_standard && execution_error_code_delegates &&
  (* from_uncatchable_error: data in, data out; no peers; an encoded empty request map *)
  str_list_eqb from_uncatchable_error_args
    ["ret_code"; "error.to_string()"; "data"; "vec![]"; "call_requests"; "soft_limits_triggering"]%string &&
  list_eqb (pair_eqb String.eqb String.eqb) (firstn 2 from_uncatchable_error_lets)
    [("ret_code", "error.to_error_code()"); ("data", "data.into()")]%string &&
  match nth_error from_uncatchable_error_lets 2 with
  | Some (n, rhs) => String.eqb n "call_requests" &&
                     String.eqb (substring 0 55 rhs) "CallRequestsRepr .serialize(&CallRequests::new()) .expe"
  | None => false
  end &&
  (Nat.eqb (length from_uncatchable_error_lets) 3) &&
  (* success / catchable: populate_outcome_from_contexts *)
  from_success_result_code_rule_is_standard && from_execution_error_is_standard &&
  str_list_eqb populate_steps
    ["compactify_streams"; "sign_result"; "from_execution_result"; "serialize"; "dedup"; "InterpreterOutcome::new"]%string &&
  str_list_eqb populate_data_args ["trace_handler.into_result_trace()"; "exec_ctx.last_call_request_id"]%string &&
  str_list_eqb populate_outcome_args
    ["ret_code"; "error_message"; "data"; "next_peer_pks"; "call_requests"; "soft_limits_triggering"]%string &&
  (populate_early_returns =? 2) && (populate_returns_total =? 2) &&
  populate_next_peers_is_dedup && populate_requests_from_ctx &&
  (* the two internal-error exits: empty data, no peers, default requests *)
  list_eqb (pair_eqb String.eqb str_list_eqb) internal_error_outcome_args
    [("execution_error_into_outcome",
      ["error.to_error_code()"; "error.to_string()"; "vec![]"; "vec![]"; "<_>::default()"; "soft_limits_triggering"]);
     ("signing_error_into_outcome",
      ["error.to_error_code()"; "error.to_string()"; "vec![]"; "vec![]"; "<_>::default()"; "soft_limits_triggering"])]%string &&
  String.eqb compactify_error_route "execution_error_into_outcome" &&
  String.eqb sign_error_route "signing_error_into_outcome" &&
  (* codes: start id + position in the discriminant iterator, each enum with its own start id *)
  to_error_code_macro_is_standard && error_enums_iterate_discriminants &&
  list_eqb (pair_eqb String.eqb String.eqb) to_error_code_uses
    [("PreparationError", "PREPARATION_ERROR_START_ID"); ("CatchableError", "CATCHABLE_ERRORS_START_ID");
     ("UncatchableError", "UNCATCHABLE_ERRORS_START_ID"); ("FarewellError", "FAREWELL_ERRORS_START_ID")]%string &&
  signing_error_code_is_start_plus_count &&
  (interpreter_success =? 0)%Z &&
  (* the model's enumerations are the generated ones *)
  prep_table_agrees && codes_table_ok.

Definition C02_source_tie_stmt : Prop := codes_source_agrees = true.
