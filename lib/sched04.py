"""Schedules of honest histories for C04 / C09 (driver: harness/src/bin/honest04.rs, which runs the real
`air::execute_air` through `aquah::sim::Net` and the schedule operations of harness/src/sim.rs:
["start"], ["d",k] deliver in-flight message k, ["dup",k] deliver and keep a copy, ["r",p,mask] hand back the
results of the pending calls of peer p selected by mask (0 = all), ["re",k] re-deliver a delivered message).

* bounded-exhaustive: `exhaustive_case` asks the driver for a depth-first search over every applicable
  operation of every reachable network state (all interleavings, every message duplicated at most once,
  every non-empty subset of a peer's pending results), for small scripts (`small_script`: at most
  `max_instr` instructions over 3 peers);
* random: `random_schedule` builds long schedules over 3-5 peers in which call results are held back,
  handed back in batches or one by one, messages are duplicated, overtaken and re-delivered.

The data-consistency error codes are read from coq/gen/Generated.v (`c04_consistency_errors`, written by
tools/genx_consistency.py from /repo's error enums on every run), so that a renumbering is followed.
"""
import json
import os
import re

import airgen
import vlib

KEYWORDS = ("call", "seq", "par", "xor", "fold", "next", "ap", "canon", "new", "match", "mismatch", "null", "fail", "never")
INSTR_RE = re.compile(r"\((%s)\b" % "|".join(KEYWORDS))


def consistency_codes():
    """[(enum, variant, code)] from the generated table."""
    src = open(os.path.join(vlib.COQ, "gen", "Generated.v")).read()
    m = re.search(r"Definition c04_consistency_errors[^:]*:[^=]*:=\s*\[(.*?)\]\.", src, flags=re.S)
    if not m:
        raise RuntimeError("c04_consistency_errors is not in Generated.v (translator piece genx_consistency.py failed?)")
    return [(a, b, int(c)) for a, b, c in re.findall(r'\("(\w+)",\s*"(\w+)",\s*(-?\d+)%Z\)', m.group(1))]


def instr_count(script):
    return len(INSTR_RE.findall(script))


# ------------------------------------------------------------------------------------------------
# s-expressions (for the classification of known findings by script shape)

def parse_sexp(text):
    toks = re.findall(r'"(?:[^"\\]|\\.)*"|[()\[\]]|[^\s()\[\]]+', text)
    pos = 0

    def rd():
        nonlocal pos
        t = toks[pos]
        pos += 1
        if t in "([":
            out = [t]
            close = ")" if t == "(" else "]"
            while pos < len(toks) and toks[pos] != close:
                out.append(rd())
            pos += 1
            return out
        return t
    try:
        return rd()
    except IndexError:
        return []


def walk(t):
    if isinstance(t, list):
        yield t
        for x in t[1:]:
            yield from walk(x)


def appends_to(t, stream):
    """does the instruction tree t append to `stream` (ap ... $s / call ... $s)?"""
    for n in walk(t):
        if len(n) >= 3 and n[0] == "(" and n[1] in ("ap", "call") and n[-1] == stream:
            return True
    return False


def recursive_stream_folds(script):
    """names of the streams that are folded over by a fold whose own body appends to them"""
    res = []
    for n in walk(parse_sexp(script)):
        if len(n) >= 5 and n[0] == "(" and n[1] == "fold" and isinstance(n[2], str) and n[2].startswith("$"):
            if any(appends_to(b, n[2]) for b in n[4:]):
                res.append(n[2])
    return res


def last_error_call_args(script):
    """%last_error% (whole, or any field of it) used as an argument of a call"""
    for n in walk(parse_sexp(script)):
        if len(n) >= 4 and n[0] == "(" and n[1] == "call":
            for a in n[2:]:
                if isinstance(a, list) and a and a[0] == "[":
                    for x in a[1:]:
                        if isinstance(x, str) and x.startswith("%last_error%"):
                            return True
    return False


def lens_call_args(script):
    """a call with an argument that is a lens on a variable (x.$.path): its resolution can fail catchably"""
    for n in walk(parse_sexp(script)):
        if len(n) >= 4 and n[0] == "(" and n[1] == "call":
            for a in n[2:]:
                if isinstance(a, list) and a and a[0] == "[":
                    for x in a[1:]:
                        if isinstance(x, str) and ".$." in x and not x.startswith("%"):
                            return True
    return False


PENDING_STATE_RE = re.compile(r"state from (previous|current) `Call\(RequestSentBy\(PeerId\(.*is incompatible with expected", re.S)


def classify(prop, script, failure):
    """key of a known finding for this failure, or None (= a new violation)"""
    if prop == "C04":
        if failure.get("code") == code_of("TraceError") and PENDING_STATE_RE.search(failure.get("msg") or "") \
                and lens_call_args(script):
            return "pending-request-then-catchable-argument-error"
        if failure.get("code") == code_of("InstructionParametersMismatch") and "argument_hash" in (failure.get("msg") or "") \
                and last_error_call_args(script):
            return "last-error-as-call-argument"
        return None
    if prop == "C09":
        if failure.get("key") == "result-forgotten" and recursive_stream_folds(script):
            return "stream-fold-cursor-hole"
        return None
    return None


_CODES = None


def code_of(variant):
    global _CODES
    if _CODES is None:
        _CODES = {v: c for _, v, c in consistency_codes()}
    return _CODES.get(variant)


# ------------------------------------------------------------------------------------------------
# generators

def small_script(rng, profile_kw, max_instr=6, min_calls=2, tries=200):
    """a generated well-scoped script with at most max_instr instructions and at least min_calls calls"""
    for _ in range(tries):
        prof = airgen.Profile(peers=3, depth=rng.choice([1, 2, 2, 3]), **profile_kw)
        s = airgen.gen_script(rng, prof)
        if instr_count(s) <= max_instr and s.count("(call ") >= min_calls:
            return s
    return '(seq (call "@A" ("s" "num") [] v1) (call "@B" ("s" "id") [v1] v2))'


HAND_SMALL = [
    # par with both branches remote, join afterwards (traces of different shape meet at A)
    '(seq (par (call "@B" ("s" "tag") [] x) (call "@C" ("s" "tag") [] y)) (call "@A" ("s" "args") [x y] z))',
    # par whose right branch is remote while the left is local and slow
    '(par (seq (call "@A" ("s" "num") [] a) (call "@B" ("s" "id") [a] b)) (call "@C" ("s" "tag") [] c))',
    # nested par
    '(par (par (call "@A" ("s" "tag") []) (call "@B" ("s" "tag") [])) (seq (call "@C" ("s" "num") [] n) (call "@A" ("s" "id") [n])))',
    # failing service under xor, continuation on another peer
    '(seq (xor (call "@B" ("s" "fail") []) (call "@C" ("s" "tag") [] t)) (call "@A" ("s" "num") []))',
    # streams filled from two peers, canon at a third
    '(seq (par (call "@A" ("s" "tag") [] $s1) (call "@B" ("s" "tag") [] $s1)) (seq (canon "@C" $s1 #canon1) (call "@C" ("s" "id") [#canon1])))',
    # fold over a stream with calls on different peers
    '(seq (par (call "@A" ("s" "tag") [] $s1) (call "@B" ("s" "tag") [] $s1)) (fold $s1 i1 (seq (call "@C" ("s" "id") [i1]) (next i1))))',
    # fold over a scalar array, par-next idiom
    '(seq (call "@A" ("s" "arr") [] v1) (fold v1 i1 (par (call "@B" ("s" "id") [i1]) (next i1))))',
    # a par whose left branch is itself a par + a dependent call, right branch a new scope (7 instructions): the shape
    # on which the par state machine re-positioned a slider inside the left window (fixed in /repo)
    '(par (seq (par (call "@C" ("s" "args") [[]] v1) (call "@B" ("s" "arr") [] v2)) (call "@A" ("s" "num") ["lit" v1 v2.$.length])) (new v7 (call "@A" ("s" "tag") [] v7)))',
    # new on a stream
    '(new $s1 (seq (par (call "@A" ("s" "num") [] $s1) (call "@B" ("s" "num") [] $s1)) (seq (canon "@A" $s1 #canon1) (call "@C" ("s" "id") [#canon1]))))',
]


def exhaustive_case(script, oracles, codes, max_runs, peers=3, dup_cap=1, subsets=True, services=None, **extra):
    c = {"kind": "honest", "mode": "exhaustive", "script": script, "peers": airgen.PEERS[:peers], "init": 0,
         "services": services if services is not None else airgen.DEFAULT_SERVICES, "codes": codes,
         "max_runs": max_runs, "dup_cap": dup_cap, "subsets": subsets, "oracles": list(oracles), "max_failures": 3}
    c.update(extra)
    return c


def random_schedule(rng, n_ops, peers=5):
    """delayed and batched call results, duplicates, overtaking, re-deliveries; ends with a FIFO drain"""
    ops = [["start"]]
    lazy = rng.random() < 0.5            # hold call results back for a while
    for k in range(n_ops):
        x = rng.random()
        if x < 0.40:
            ops.append(["d", rng.randrange(8)])            # any in-flight message: overtaking
        elif x < 0.52:
            ops.append(["dup", rng.randrange(8)])
        elif x < 0.60:
            ops.append(["re", rng.randrange(8)])
        else:
            if lazy and rng.random() < 0.6:
                continue
            y = rng.random()
            mask = 0 if y < 0.4 else (1 << rng.randrange(4)) if y < 0.7 else rng.randrange(1, 16)
            ops.append(["r", rng.randrange(peers), mask])
    for _ in range(14):
        for p in range(peers):
            ops.append(["r", p, 0])
        ops.append(["d", 0])
        if rng.random() < 0.2:
            ops.append(["re", rng.randrange(8)])
    return ops


def path_case(script, ops, oracles, codes, peers, services=None, **extra):
    c = {"kind": "honest", "mode": "path", "script": script, "peers": airgen.PEERS[:peers], "init": 0,
         "services": services if services is not None else airgen.DEFAULT_SERVICES, "codes": codes, "ops": ops,
         "oracles": list(oracles), "max_failures": 3}
    c.update(extra)
    return c


# ------------------------------------------------------------------------------------------------
# evaluation

def run_honest(cases, result, prop, stream_name="ordinary"):
    """runs honest04 on the cases; fills result (evaluations = runs of execute_air, distinct = explored
    network states per script, distribution, oracle_fail with known-finding keys)"""
    if not cases:
        return
    lines = []
    for c in cases:
        c2 = {k: v for k, v in c.items() if k != "kind"}
        lines.append(json.dumps(c2))
    outs = vlib.harness_lines("honest04", lines, timeout=2400)
    dist = result["distribution"]

    def bump(k, n=1):
        dist[k] = dist.get(k, 0) + n
    for c, o in zip(cases, outs):
        if "error" in o:
            result["errors"].append("honest04: " + o["error"])
            continue
        result["evaluations"] += o["runs"]
        tag = "%s/%s" % (stream_name, c["mode"])
        bump("histories " + tag)
        bump("runs " + tag, o["runs"])
        bump("network states " + tag, o["states"])
        if c["mode"] == "exhaustive":
            bump("exhaustive searches completed" if o["complete"] else "exhaustive searches cut at max_runs")
        bump("duplicated deliveries", o["dups"])
        bump("result hand-backs", o["returns"])
        bump("partial (delayed/batched) hand-backs", o["subset_returns"])
        bump("runs merging two non-empty data", o["merges"])
        bump("runs where both sides carry results", o["both_sides_results"])
        for k in ("par", "fold", "canon", "ap"):
            bump("produced %s states" % k, o["traces"][k])
        for code, n in o["codes"].items():
            bump("code %s" % code, n)
        if o["panics"]:
            bump("panics (C01's business)", o["panics"])
        if o["merges"] > 0:
            result["distinct"].add(json.dumps([c["script"], c["mode"], o["states"], o["runs"]]))
        if len(result["samples"]) < 3:
            result["samples"].append({"case": {k: v for k, v in c.items() if k not in ("services", "codes")},
                                      "summary": {k: o[k] for k in ("runs", "states", "complete", "codes", "max_depth")}})
        for f in o["failures"]:
            if f.get("property") != prop:
                continue
            replay = dict(c, mode="path", ops=f.get("path", []))
            result["oracle_fail"].append({"case": replay, "detail": f, "key": classify(prop, c["script"], f),
                                          "what": "property oracle false on the implementation: %s" % f.get("what", "")})
