(* IdsProofs.v -- proofs for C06 / C05 (statements in model/IdsSpec.v). *)
From Coq Require Import Lia Sorted.
From Aqua Require Import Base Json Air Trace Handler Values Scalars Lens Exec RunExec ExecStreams ExecCases CallSpec IdsSpec IdsCases ExecInv ExecStreamsInv.
Open Scope N_scope.
Open Scope list_scope.

(* ------------------------------------------------------------------------------------------ *)
(* source tie *)

Lemma ids_source_agrees_holds : ids_source_agrees = true.
Proof. vm_compute. reflexivity. Qed.
Lemma ids_overflow_bound_agrees_holds : ids_overflow_bound_agrees = true.
Proof. vm_compute. reflexivity. Qed.
Lemma ids_src_increment_is_1 : ids_src_increment = 1.
Proof. reflexivity. Qed.

(* ------------------------------------------------------------------------------------------ *)
(* the part of the context the two properties are about *)

Definition same_core (x x' : ctx) : Prop :=
  x_lcid x' = x_lcid x /\ x_requests x' = x_requests x /\ x_call_results x' = x_call_results x /\
  x_params x' = x_params x /\ x_handler x' = x_handler x.

Lemma same_core_refl : forall x, same_core x x.
Proof. intro x; repeat split; reflexivity. Qed.
Lemma same_core_trans : forall x y z, same_core x y -> same_core y z -> same_core x z.
Proof.
  intros x y z (a1 & a2 & a3 & a4 & a5) (b1 & b2 & b3 & b4 & b5).
  repeat split; congruence.
Qed.

Lemma sc_set_scalars : forall x m, same_core x (set_scalars x m). Proof. intros; repeat split; reflexivity. Qed.
Lemma sc_set_canons : forall x m, same_core x (set_canons x m). Proof. intros; repeat split; reflexivity. Qed.
Lemma sc_set_iterables : forall x m, same_core x (set_iterables x m). Proof. intros; repeat split; reflexivity. Qed.
Lemma sc_set_next_peers : forall x m, same_core x (set_next_peers x m). Proof. intros; repeat split; reflexivity. Qed.
Lemma sc_set_last_error : forall x e b, same_core x (set_last_error x e b). Proof. intros; repeat split; reflexivity. Qed.
Lemma sc_set_error : forall x e b, same_core x (set_error x e b). Proof. intros; repeat split; reflexivity. Qed.
Lemma sc_set_complete : forall x b, same_core x (set_complete x b). Proof. intros; repeat split; reflexivity. Qed.
Lemma sc_set_cids : forall x c t, same_core x (set_cids x c t). Proof. intros; repeat split; reflexivity. Qed.
Lemma sc_set_fold_counter : forall x n, same_core x (set_fold_counter x n). Proof. intros; repeat split; reflexivity. Qed.
Lemma sc_set_ext : forall x e, same_core x (set_ext x e). Proof. intros; repeat split; reflexivity. Qed.
Lemma sc_make_incomplete : forall x, same_core x (make_incomplete x). Proof. intros; apply sc_set_complete. Qed.
Lemma sc_flush_complete : forall x, same_core x (flush_complete x). Proof. intros; apply sc_set_complete. Qed.

Lemma sc_record_cid : forall x p c, same_core x (record_cid x p c).
Proof. intros; unfold record_cid; destruct (String.eqb p (current_peer x)); [apply sc_set_cids | apply same_core_refl]. Qed.

Lemma sc_track_service_result : forall x v t ah, same_core x (fst (track_service_result x v t ah)).
Proof. intros; unfold track_service_result; cbn [fst]; apply sc_set_cids. Qed.

Lemma sc_set_scalar_value : forall x n v x', set_scalar_value x n v = POk x' -> same_core x x'.
Proof.
  intros x n v x' H; unfold set_scalar_value in H.
  destruct (Scalars.set_value vagg (x_scalars x) n v) as [[m b] | e]; inversion H; subst; apply sc_set_scalars.
Qed.
Lemma set_scalar_value_err : forall x n v e, set_scalar_value x n v = PErr e -> is_catchable e = false.
Proof.
  intros x n v e H; unfold set_scalar_value in H.
  destruct (Scalars.set_value vagg (x_scalars x) n v) as [[m b] | s] eqn:E; inversion H; subst.
  unfold Scalars.set_value in E.
  destruct (cells_get vagg (m_cells vagg (x_scalars x)) n) as [[| l r] |]; try discriminate.
  destruct (negb (variable_could_be_set vagg (x_scalars x) n)).
  - inversion E; reflexivity.
  - destruct (c_depth vagg l =? m_depth vagg (x_scalars x)); discriminate.
Qed.

Lemma sc_add_stream_value : forall x n v g p x', add_stream_value x n v g p = POk x' -> same_core x x'.
Proof.
  intros x n v g p x' H; unfold add_stream_value in H.
  destruct (Stream.streams_add_stream_value vagg (e_streams (x_ext x)) n v g p); inversion H; subst.
  unfold with_streams; apply sc_set_ext.
Qed.
Lemma add_stream_value_err : forall x n v g p e, add_stream_value x n v g p = PErr e -> is_catchable e = false.
Proof.
  intros x n v g p e H; unfold add_stream_value in H.
  destruct (Stream.streams_add_stream_value vagg (e_streams (x_ext x)) n v g p); inversion H; reflexivity.
Qed.

Lemma sc_populate_from_data : forall x v ah t pos src out x', populate_from_data x v ah t pos src out = POk x' -> same_core x x'.
Proof.
  intros x v ah t pos src out x' H; unfold populate_from_data in H.
  destruct out as [sv | sv |]; destruct v as [c | c g | c]; try discriminate.
  - unfold pbind in H. destruct (resolve_service_info x c); try discriminate.
    destruct (verify_call ah t (si_arg_hash a) (si_tetraplet a)); try discriminate.
    eapply sc_set_scalar_value; eassumption.
  - unfold pbind in H. destruct (resolve_service_info x c); try discriminate.
    destruct (verify_call ah t (si_arg_hash a) (si_tetraplet a)); try discriminate.
    eapply sc_add_stream_value; eassumption.
  - inversion H; subst; apply same_core_refl.
Qed.

Lemma sc_ctx_set_errors : forall x e s t b, same_core x (ctx_set_errors x e s t b).
Proof.
  intros; unfold ctx_set_errors.
  eapply same_core_trans; [| apply sc_set_error].
  match goal with |- same_core _ (if ?c then _ else ?y) => destruct c end.
  - eapply same_core_trans; [| apply sc_set_error].
    destruct (x_last_error_can_set x && affects_last_error e); [apply sc_set_last_error | apply same_core_refl].
  - destruct (x_last_error_can_set x && affects_last_error e); [apply sc_set_last_error | apply same_core_refl].
Qed.

(* call_end: only the handler moves, by one state *)
Definition pushed (x x' : ctx) (c : call_result cid) : Prop :=
  x_lcid x' = x_lcid x /\ x_requests x' = x_requests x /\ x_call_results x' = x_call_results x /\
  x_params x' = x_params x /\
  result_trace cid (x_handler x') = result_trace cid (x_handler x) ++ [SCall c].

Lemma pushed_call_end : forall x c, pushed x (call_end x c) c.
Proof. intros; repeat split; reflexivity. Qed.

Lemma pushed_after_core : forall x y c, same_core x y -> pushed x (call_end y c) c.
Proof.
  intros x y c (a1 & a2 & a3 & a4 & a5). unfold pushed, call_end. cbn.
  rewrite <- a5. repeat split; assumption.
Qed.

(* ------------------------------------------------------------------------------------------ *)
(* results_take *)

Lemma results_take_spec : C06_results_take_stmt.
Proof.
  unfold C06_results_take_stmt. induction l as [| [k0 a0] l IH]; intro k; cbn [results_take].
  - split; [reflexivity | intros []].
  - destruct (k0 =? k) eqn:E.
    + apply N.eqb_eq in E; subst. exists [], l. repeat split; auto.
    + apply N.eqb_neq in E. specialize (IH k). destruct (results_take l k) as [[a |] rest].
      * destruct IH as (l1 & l2 & -> & -> & Hn). exists ((k0, a0) :: l1), l2. repeat split; auto.
        cbn. intros [H | H]; [congruence | auto].
      * destruct IH as [-> Hn]. split; [reflexivity |]. cbn. intros [H | H]; [congruence | auto].
Qed.

Lemma results_take_removed : forall l k o rest, results_take l k = (o, rest) -> removed_from rest l.
Proof.
  induction l as [| [k0 a0] l IH]; intros k o rest H; cbn [results_take] in H.
  - inversion H; constructor.
  - destruct (k0 =? k).
    + inversion H; subst. apply rf_drop. clear. induction rest; constructor; auto.
    + destruct (results_take l k) as [o' r'] eqn:E. inversion H; subst. apply rf_keep. eapply IH; eauto.
Qed.

Lemma removed_from_refl : forall A (l : list A), removed_from l l.
Proof. induction l; constructor; auto. Qed.
Lemma removed_from_trans : forall A (a b c : list A), removed_from a b -> removed_from b c -> removed_from a c.
Proof.
  intros A a b c H1 H2. revert a H1. induction H2; intros x H1.
  - assumption.
  - inversion H1; subst.
    + apply rf_keep; auto.
    + apply rf_drop; auto.
  - apply rf_drop; auto.
Qed.

(* ------------------------------------------------------------------------------------------ *)
(* update_state_with_service_result *)

Lemma usr_spec : forall x t ah out ans,
  match update_state_with_service_result x t ah out ans with
  | XOk x' => exists v, pushed x x' (Executed v)
  | XErr (ECatch c) x' => (exists code msg, c = CLocalServiceError code msg) /\ exists fc, pushed x x' (Failed fc)
  | XErr (EUncatch _) x' => same_core x x'
  | XCrash _ | XFuel | XUnsupported _ => True
  end.
Proof.
  intros x t ah out ans. unfold update_state_with_service_result.
  destruct (negb (sa_ret_code ans =? call_service_success)%Z).
  - destruct (track_service_result x (call_service_failed_value (sa_ret_code ans) (sa_text ans)) t ah) as [x1 sc] eqn:E.
    split; [eauto |]. exists sc. apply pushed_after_core.
    eapply same_core_trans; [| apply sc_record_cid].
    pose proof (sc_track_service_result x (call_service_failed_value (sa_ret_code ans) (sa_text ans)) t ah) as H.
    rewrite E in H; exact H.
  - destruct (sa_parsed ans) as [result |].
    + unfold populate_from_service_result. destruct out as [v | v |].
      * destruct (track_service_result x result t ah) as [x1 sc] eqn:E.
        pose proof (sc_track_service_result x result t ah) as H. rewrite E in H. cbn [fst] in H.
        destruct (set_scalar_value x1 (v_name v) (VAService result t (trace_pos_of x) sc)) as [x2 | e | s | w] eqn:E2; auto.
        -- eexists. apply pushed_after_core.
           eapply same_core_trans; [exact H |]. eapply same_core_trans; [eapply sc_set_scalar_value; eassumption | apply sc_record_cid].
        -- apply set_scalar_value_err in E2. destruct e; [discriminate | exact H].
      * destruct (track_service_result x result t ah) as [x1 sc] eqn:E.
        pose proof (sc_track_service_result x result t ah) as H. rewrite E in H. cbn [fst] in H.
        destruct (add_stream_value x1 (v_name v) (VAService result t (trace_pos_of x) sc) Stream.GNew (v_pos v)) as [x2 | e | s | w] eqn:E2; auto.
        -- eexists. apply pushed_after_core.
           eapply same_core_trans; [exact H |]. eapply same_core_trans; [eapply sc_add_stream_value; eassumption | apply sc_record_cid].
        -- apply add_stream_value_err in E2. destruct e; [discriminate | exact H].
      * eexists. apply pushed_call_end.
    + destruct (track_service_result x (call_service_failed_value 2147483647 "<msg:service result is not JSON>") t ah) as [x1 sc] eqn:E.
      split; [eauto |]. exists sc. apply pushed_after_core.
      eapply same_core_trans; [| apply sc_record_cid].
      pose proof (sc_track_service_result x (call_service_failed_value 2147483647 "<msg:service result is not JSON>") t ah) as H.
      rewrite E in H; exact H.
Qed.

(* ------------------------------------------------------------------------------------------ *)
(* handle_prev_state *)

Lemma resolve_service_info_err : forall x c e, resolve_service_info x c = PErr e -> is_catchable e = false.
Proof.
  intros x c e H; unfold resolve_service_info in H.
  destruct (negb (cid_mem c (cs_services (x_cids x)))); [inversion H; reflexivity |].
  destruct c; try discriminate.
  destruct (negb (cid_mem c1 (cs_values (x_cids x)))); [inversion H; reflexivity |].
  destruct (negb (cid_mem c3 (cs_tetraplets (x_cids x)))); [inversion H; reflexivity |].
  destruct c1; try discriminate; destruct c3; discriminate.
Qed.
Lemma verify_call_err : forall a b c d e, verify_call a b c d = PErr e -> is_catchable e = false.
Proof.
  intros a b c d e H; unfold verify_call in H.
  destruct (negb (cid_eqb a c)); [inversion H; reflexivity |].
  destruct (negb (tetraplet_eqb b d)); [inversion H; reflexivity | discriminate].
Qed.
Lemma populate_from_data_err : forall x v ah t pos src out e, populate_from_data x v ah t pos src out = PErr e -> is_catchable e = false.
Proof.
  intros x v ah t pos src out e H; unfold populate_from_data in H.
  destruct out as [sv | sv |]; destruct v as [c | c g | c]; try (inversion H; reflexivity).
  - unfold pbind in H. destruct (resolve_service_info x c) eqn:E1; try discriminate.
    + destruct (verify_call ah t (si_arg_hash a) (si_tetraplet a)) eqn:E2; try discriminate.
      * eapply set_scalar_value_err; eassumption.
      * inversion H; subst. eapply verify_call_err; eassumption.
    + inversion H; subst. eapply resolve_service_info_err; eassumption.
  - unfold pbind in H. destruct (resolve_service_info x c) eqn:E1; try discriminate.
    + destruct (verify_call ah t (si_arg_hash a) (si_tetraplet a)) eqn:E2; try discriminate.
      * eapply add_stream_value_err; eassumption.
      * inversion H; subst. eapply verify_call_err; eassumption.
    + inversion H; subst. eapply resolve_service_info_err; eassumption.
Qed.

Definition ids_same (x x' : ctx) : Prop :=
  x_lcid x' = x_lcid x /\ x_requests x' = x_requests x /\ x_call_results x' = x_call_results x /\ x_params x' = x_params x.
Lemma ids_same_refl : forall x, ids_same x x. Proof. intro; repeat split; reflexivity. Qed.
Lemma ids_same_trans : forall x y z, ids_same x y -> ids_same y z -> ids_same x z.
Proof. intros x y z (a1 & a2 & a3 & a4) (b1 & b2 & b3 & b4). repeat split; congruence. Qed.
Lemma ids_same_of_core : forall x y, same_core x y -> ids_same x y.
Proof. intros x y (a1 & a2 & a3 & a4 & a5). repeat split; assumption. Qed.
Lemma ids_same_of_pushed : forall x y c, pushed x y c -> ids_same x y.
Proof. intros x y c (a1 & a2 & a3 & a4 & a5). repeat split; assumption. Qed.
Lemma ids_same_set_handler : forall x h, ids_same x (set_handler x h). Proof. intros; repeat split; reflexivity. Qed.
Lemma ids_same_call_end : forall x c, ids_same x (call_end x c). Proof. intros; repeat split; reflexivity. Qed.

(* the outcome of meeting a previous state, as far as ids and results are concerned *)
Definition hps_post (x : ctx) (met : call_result cid) (x' : ctx) : Prop :=
  x_params x' = x_params x /\ no_request x x' /\
  (x_call_results x' = x_call_results x \/
   exists k ans, met = RequestSentBy (SPeerCall (current_peer x) k) /\
                 results_take (x_call_results x) k = (Some ans, x_call_results x')).

Lemma hps_post_of_same : forall x met x', ids_same x x' -> hps_post x met x'.
Proof. intros x met x' (a1 & a2 & a3 & a4). split; [assumption |]. split; [split; assumption |]. left; assumption. Qed.

Lemma hps_spec : forall x met pos src t ah out r sd,
  handle_prev_state x met pos src t ah out = (r, sd) ->
  match r with
  | XOk x' =>
      hps_post x met x' /\
      (forall m, sd = SD true m -> ~ is_done_or_pending (current_peer x) met /\ tp_peer t = current_peer x /\ ids_same x x')
  | XErr _ x' => hps_post x met x'
  | _ => True
  end.
Proof.
  intros x met pos src t ah out r sd H. unfold handle_prev_state in H.
  destruct met as [s | v | fc].
  - destruct s as [p | p k].
    + destruct (String.eqb (tp_peer t) (current_peer x)) eqn:E; inversion H; subst; clear H.
      * split; [apply hps_post_of_same, ids_same_refl |].
        intros m _. split; [intro F; exact F |]. split; [apply String.eqb_eq; exact E | apply ids_same_refl].
      * split; [apply hps_post_of_same, ids_same_of_core, sc_make_incomplete |]. intros m Hm; discriminate.
    + destruct (String.eqb p (current_peer x)) eqn:Ep.
      * apply String.eqb_eq in Ep; subst p.
        destruct (results_take (x_call_results x) k) as [[ans |] rest] eqn:Et.
        -- destruct ah as [a |]; [| inversion H; subst; try exact I; apply hps_post_of_same, ids_same_refl].
           inversion H; subst; clear H.
           pose proof (usr_spec (set_calls x (x_lcid x) rest (x_requests x)) t a out ans) as U.
           destruct (update_state_with_service_result (set_calls x (x_lcid x) rest (x_requests x)) t a out ans) as [x' | e x' | | |]; auto.
           ++ destruct U as (v & (u1 & u2 & u3 & u4 & u5)). cbn in u1, u2, u3, u4.
              split; [| intros m Hm; discriminate].
              split; [assumption |]. split; [split; assumption |]. right. exists k, ans. split; [reflexivity |]. rewrite u3; exact Et.
           ++ destruct e as [c | u].
              ** destruct U as (_ & fc & (u1 & u2 & u3 & u4 & u5)). cbn in u1, u2, u3, u4.
                 split; [assumption |]. split; [split; assumption |]. right. exists k, ans. split; [reflexivity |]. rewrite u3; exact Et.
              ** destruct U as (u1 & u2 & u3 & u4 & u5). cbn in u1, u2, u3, u4.
                 split; [assumption |]. split; [split; assumption |]. right. exists k, ans. split; [reflexivity |]. rewrite u3; exact Et.
        -- inversion H; subst; clear H.
           split; [apply hps_post_of_same, ids_same_of_core, sc_make_incomplete |]. intros m Hm; discriminate.
      * destruct (String.eqb (tp_peer t) (current_peer x)) eqn:E; inversion H; subst; clear H.
        -- split; [apply hps_post_of_same, ids_same_refl |].
           intros m _. split; [| split; [apply String.eqb_eq; exact E | apply ids_same_refl]].
           cbn. intro F; subst p. rewrite String.eqb_refl in Ep; discriminate.
        -- split; [apply hps_post_of_same, ids_same_of_core, sc_make_incomplete |]. intros m Hm; discriminate.
  - destruct ah as [a |]; [| inversion H; subst; try exact I; apply hps_post_of_same, ids_same_refl].
    destruct (populate_from_data x v a t pos src out) as [x1 | e | s | w] eqn:E; inversion H; subst; clear H; auto.
    + split; [| intros m Hm; discriminate]. apply hps_post_of_same.
      eapply ids_same_trans; [| apply ids_same_call_end].
      apply sc_populate_from_data in E. apply ids_same_of_core.
      destruct v; try (eapply same_core_trans; [exact E | apply sc_record_cid]); exact E.
    + apply hps_post_of_same, ids_same_refl.
  - destruct (resolve_service_info x fc) as [si | e | s | w]; try (inversion H; subst; clear H; auto; apply hps_post_of_same, ids_same_refl).
    destruct ah as [a |]; [| inversion H; subst; try exact I; apply hps_post_of_same, ids_same_refl].
    destruct (verify_call a t (si_arg_hash si) (si_tetraplet si)); try (inversion H; subst; clear H; auto; apply hps_post_of_same, ids_same_refl).
    assert (G : forall y, hps_post x (Failed fc) y -> match (XErr (EUncatch UMalformedCallServiceFailed) x) with XErr _ x' => hps_post x (Failed fc) x' | _ => True end)
      by (intros; apply hps_post_of_same, ids_same_refl).
    destruct (si_value si); try (inversion H; subst; clear H; apply hps_post_of_same, ids_same_refl).
    destruct (obj_get "ret_code" kvs) as [[] |]; try (inversion H; subst; clear H; apply hps_post_of_same, ids_same_refl).
    destruct (obj_get "message" kvs) as [[] |]; try (inversion H; subst; clear H; apply hps_post_of_same, ids_same_refl).
    destruct ((-2147483648 <=? z)%Z && (z <=? 2147483647)%Z); inversion H; subst; clear H; try (apply hps_post_of_same, ids_same_refl).
    apply hps_post_of_same. eapply ids_same_trans; [| apply ids_same_call_end].
    apply ids_same_of_core. eapply same_core_trans; [apply sc_make_incomplete | apply sc_record_cid].
Qed.

(* ------------------------------------------------------------------------------------------ *)
(* resolved_call_execute *)

Definition issue_or_forward (x1 : ctx) (t : tetraplet) (arg_values : list json) (arg_tetraplets : list (list tetraplet)) : xres :=
  if negb (String.eqb (tp_peer t) (current_peer x1)) then
    XOk (call_end (make_incomplete (set_next_peers x1 (x_next_peers x1 ++ [tp_peer t])))
                  (RequestSentBy (SPeer (current_peer x1))))
  else
    if 4294967295 <=? x_lcid x1 then XCrash "next_call_request_id: u32 overflow" else
    let id := x_lcid x1 + 1 in
    let rq := {| rq_service := tp_service t; rq_function := tp_function t; rq_args := arg_values;
                 rq_tetraplets := arg_tetraplets |} in
    let x2 := set_calls x1 id (x_call_results x1) (x_requests x1 ++ [(id, rq)]) in
    XOk (call_end (make_incomplete x2) (RequestSentBy (SPeerCall (current_peer x2) id))).

Definition issued (x : ctx) (t : tetraplet) (x' : ctx) : Prop :=
  tp_peer t = current_peer x /\ x_call_results x' = x_call_results x /\ x_params x' = x_params x /\
  x_lcid x < u32_max_id /\
  exists rq, x_requests x' = x_requests x ++ [(x_lcid x + ids_src_increment, rq)] /\
             x_lcid x' = x_lcid x + ids_src_increment /\
             rq_service rq = tp_service t /\ rq_function rq = tp_function t /\
             exists tr, result_trace cid (x_handler x') = tr ++ [SCall (RequestSentBy (SPeerCall (current_peer x) (x_lcid x')))].

Lemma issue_or_forward_spec : forall x x1 t vals tets x',
  ids_same x x1 -> outcome_ctx (issue_or_forward x1 t vals tets) = Some x' -> ids_same x x' \/ issued x t x'.
Proof.
  intros x x1 t vals tets x' S H. unfold issue_or_forward in H.
  assert (P : current_peer x1 = current_peer x) by (unfold current_peer; destruct S as (_ & _ & _ & ->); reflexivity).
  destruct (String.eqb (tp_peer t) (current_peer x1)) eqn:E; cbn [negb] in H.
  - destruct (4294967295 <=? x_lcid x1) eqn:O; [discriminate |].
    cbn in H. inversion H; subst; clear H. right.
    destruct S as (s1 & s2 & s3 & s4). apply N.leb_gt in O. apply String.eqb_eq in E.
    unfold issued. cbn. rewrite s1 in *. rewrite s2, s3, s4.
    split; [congruence |]. split; [reflexivity |]. split; [reflexivity |]. split; [exact O |].
    eexists. split; [reflexivity |]. split; [reflexivity |]. split; [reflexivity |]. split; [reflexivity |].
    eexists. unfold current_peer in *. cbn. rewrite s4. reflexivity.
  - cbn in H. inversion H; subst; clear H. left.
    eapply ids_same_trans; [exact S |]. repeat split; reflexivity.
Qed.

Definition rce_post (x : ctx) (t : tetraplet) (x' : ctx) : Prop :=
  x_params x' = x_params x /\
  ((no_request x x' /\
    (x_call_results x' = x_call_results x \/
     exists k ans pos src h',
       meet_call_start cid cid_eqb (x_handler x) = Ok (CallMet cid (RequestSentBy (SPeerCall (current_peer x) k)) pos src, h') /\
       results_take (x_call_results x) k = (Some ans, x_call_results x')))
   \/
   (issued x t x' /\
    exists h', meet_call_start cid cid_eqb (x_handler x) = Ok (CallNotMet cid, h') \/
               exists met pos src, meet_call_start cid cid_eqb (x_handler x) = Ok (CallMet cid met pos src, h') /\
                                   ~ is_done_or_pending (current_peer x) met)).

Lemma rce_post_of_same : forall x t x', ids_same x x' -> rce_post x t x'.
Proof. intros x t x' (a1 & a2 & a3 & a4). split; [assumption |]. left. split; [split; assumption | left; assumption]. Qed.

Lemma rce_spec : forall x t args out x',
  outcome_ctx (resolved_call_execute x t args out) = Some x' -> rce_post x t x'.
Proof.
  intros x t args out x' H. unfold resolved_call_execute in H.
  destruct (collect_args x args) as [[vals tets] | e | s | w]; try discriminate.
  - (* arguments resolved *)
    unfold with_handler in H.
    destruct (meet_call_start cid cid_eqb (x_handler x)) as [[m h'] | e | s] eqn:M; try discriminate.
    + cbn [fst snd] in H. destruct m as [| met pos src].
      * (* no state *)
        change (outcome_ctx (issue_or_forward (set_handler x h') t vals tets) = Some x') in H.
        apply (issue_or_forward_spec x) in H; [| apply ids_same_set_handler].
        destruct H as [H | H]; [apply rce_post_of_same; exact H |].
        split; [apply H |]. right. split; [exact H |]. exists h'. left. exact M.
      * destruct (handle_prev_state (set_handler x h') met pos src t (Some (CArgs vals)) out) as [r sd] eqn:Eh.
        pose proof (hps_spec _ _ _ _ _ _ _ _ _ Eh) as P.
        assert (Q : forall y, hps_post (set_handler x h') met y -> rce_post x t y).
        { intros y (p1 & (p2 & p3) & p4). cbn in p1, p2, p3, p4. split; [exact p1 |]. left. split; [split; assumption |].
          destruct p4 as [p4 | (k & ans & -> & p4)]; [left; exact p4 |].
          right. exists k, ans, pos, src, h'. split; [exact M | exact p4]. }
        destruct r as [x1 | e x1 | | |]; try discriminate.
        -- destruct P as [P1 P2]. destruct sd as [[|] prev].
           ++ destruct (P2 prev eq_refl) as (N1 & N2 & N3).
              change (outcome_ctx (issue_or_forward x1 t vals tets) = Some x') in H.
              apply (issue_or_forward_spec x) in H; [| eapply ids_same_trans; [apply ids_same_set_handler | exact N3]].
              destruct H as [H | H]; [apply rce_post_of_same; exact H |].
              split; [apply H |]. right. split; [exact H |]. exists h'. right. exists met, pos, src. split; [exact M | exact N1].
           ++ cbn [outcome_ctx] in H. inversion H; subst; clear H.
              destruct prev as [c |]; cbn [maybe_set_prev_state]; [| apply Q; exact P1].
              destruct P1 as (p1 & (p2 & p3) & p4).
              apply Q. split; [exact p1 |]. split; [split; assumption |]. exact p4.
        -- cbn [outcome_ctx] in H. inversion H; subst; clear H. apply Q; exact P.
    + cbn [outcome_ctx] in H. inversion H; subst. apply rce_post_of_same, ids_same_refl.
  - (* an argument is not resolvable *)
    destruct (is_joinable e); [| cbn [outcome_ctx] in H; inversion H; subst; apply rce_post_of_same, ids_same_refl].
    unfold with_handler in H.
    destruct (meet_call_start cid cid_eqb (x_handler x)) as [[m h'] | e' | s] eqn:M; try discriminate.
    + cbn [fst snd] in H. destruct m as [| met pos src].
      * destruct (negb (String.eqb (tp_peer t) (current_peer (set_handler x h')))); cbn [outcome_ctx] in H; inversion H; subst; clear H;
          apply rce_post_of_same; repeat split; reflexivity.
      * destruct (handle_prev_state (set_handler x h') met pos src t None out) as [r sd] eqn:Eh.
        pose proof (hps_spec _ _ _ _ _ _ _ _ _ Eh) as P.
        assert (Q : forall y, hps_post (set_handler x h') met y -> rce_post x t y).
        { intros y (p1 & (p2 & p3) & p4). cbn in p1, p2, p3, p4. split; [exact p1 |]. left. split; [split; assumption |].
          destruct p4 as [p4 | (k & ans & -> & p4)]; [left; exact p4 |].
          right. exists k, ans, pos, src, h'. split; [exact M | exact p4]. }
        destruct r as [x1 | e1 x1 | | |]; try discriminate.
        -- destruct P as [P1 P2]. destruct sd as [should prev].
           assert (Q2 : rce_post x t (maybe_set_prev_state x1 (SD should prev))).
           { destruct prev as [c |]; cbn [maybe_set_prev_state]; [| apply Q; exact P1].
             destruct P1 as (p1 & (p2 & p3) & p4). apply Q. split; [exact p1 |]. split; [split; assumption |]. exact p4. }
           destruct should; cbn [negb] in H.
           ++ destruct (negb (String.eqb (tp_peer t) (current_peer x1))); cbn [outcome_ctx] in H; inversion H; subst; clear H; [| exact Q2].
              destruct (P2 prev eq_refl) as (N1 & N2 & N3).
              apply rce_post_of_same. eapply ids_same_trans; [apply ids_same_set_handler |].
              eapply ids_same_trans; [exact N3 |]. repeat split; reflexivity.
           ++ cbn [outcome_ctx] in H; inversion H; subst; clear H. exact Q2.
        -- cbn [outcome_ctx] in H. inversion H; subst; clear H. apply Q; exact P.
    + cbn [outcome_ctx] in H. inversion H; subst. apply rce_post_of_same, ids_same_refl.
Qed.

(* ------------------------------------------------------------------------------------------ *)
(* the local theorems *)

Lemma C06_routing_call_holds : C06_routing_call_stmt.
Proof.
  intros x t args out x' H. apply rce_spec in H. destruct H as [P [[_ R] | [I _]]].
  - split; [exact P | exact R].
  - split; [exact P |]. left. apply I.
Qed.

Lemma C05_not_rerequested_holds : C05_not_rerequested_stmt.
Proof.
  intros x t args out met pos src h' x' M D H. apply rce_spec in H. destruct H as [_ [[N _] | [_ (h2 & [E | (met2 & pos2 & src2 & E & ND)])]]].
  - exact N.
  - rewrite M in E; discriminate.
  - rewrite M in E. inversion E; subst. contradiction.
Qed.

Lemma C05_request_recorded_holds : C05_request_recorded_stmt.
Proof.
  intros x t args out x' H. apply rce_spec in H. destruct H as [_ [[N _] | [I _]]].
  - left; exact N.
  - right. destruct I as (i1 & i2 & i3 & i4 & rq & i5 & i6 & i7 & i8 & i9).
    split; [exact i1 |]. exists rq. repeat split; assumption.
Qed.

(* meeting a state never touches the result trace *)
Lemma prepare_positions_mapping_result : forall sch (k k' : keeper cid),
  prepare_positions_mapping cid sch k = Ok k' -> k_result cid k' = k_result cid k.
Proof.
  intros sch k k' H. unfold prepare_positions_mapping in H.
  destruct sch.
  - destruct (s_pos cid (k_prev cid k) =? 0); inversion H; reflexivity.
  - destruct (s_pos cid (k_cur cid k) =? 0); inversion H; reflexivity.
  - unfold bind in H. destruct (s_pos cid (k_prev cid k) =? 0); try discriminate.
    cbn in H. destruct (s_pos cid (k_cur cid k) =? 0); inversion H; reflexivity.
Qed.

Lemma next_states_result : forall (k : keeper cid) p c k', next_states cid k = (p, c, k') -> k_result cid k' = k_result cid k.
Proof.
  intros k p c k' H. unfold next_states in H.
  destruct (next_state cid (k_prev cid k)) as [pp sp]. destruct (next_state cid (k_cur cid k)) as [cc sc].
  inversion H; reflexivity.
Qed.

Lemma C05_meet_keeps_result_holds : C05_meet_keeps_result_stmt.
Proof.
  intros h h' m H. unfold meet_call_start, bind in H.
  destruct (try_merge_next_state_as_call cid cid_eqb (h_keeper cid h)) as [[m' k'] | e | s] eqn:E; inversion H; subst; clear H.
  unfold result_trace. cbn.
  unfold try_merge_next_state_as_call in E.
  destruct (next_states cid (h_keeper cid h)) as [[p c] k1] eqn:N. apply next_states_result in N.
  assert (G : forall r sch k2 mk, prepare_call_result cid r sch k1 = Ok (mk, k2) -> k_result cid k2 = k_result cid (h_keeper cid h)).
  { intros r sch k2 mk G. unfold prepare_call_result, bind in G.
    destruct (prepare_positions_mapping cid sch k1) as [k3 | |] eqn:P; inversion G; subst.
    apply prepare_positions_mapping_result in P. congruence. }
  destruct p as [[] |]; destruct c as [[] |]; try discriminate; try (eapply G; eassumption).
  - unfold bind in E. destruct (merge_call_results cid cid_eqb c0 c) as [ms | |]; try discriminate. eapply G; eassumption.
  - inversion E; subst; exact N.
Qed.

Lemma C05_recorded_holds : C05_recorded_stmt.
Proof.
  intros x t args out k ans rest pos src h' vals tets A M T. cbv zeta.
  unfold resolved_call_execute. rewrite A. unfold with_handler. rewrite M. cbn [fst snd].
  unfold handle_prev_state.
  replace (current_peer (set_handler x h')) with (current_peer x) by reflexivity.
  rewrite String.eqb_refl.
  replace (x_call_results (set_handler x h')) with (x_call_results x) by reflexivity.
  rewrite T.
  pose proof (usr_spec (set_calls (set_handler x h') (x_lcid (set_handler x h')) rest (x_requests (set_handler x h'))) t (CArgs vals) out ans) as U.
  destruct (update_state_with_service_result (set_calls (set_handler x h') (x_lcid (set_handler x h')) rest (x_requests (set_handler x h'))) t (CArgs vals) out ans)
    as [x' | e x' | | |]; auto.
  - cbn [maybe_set_prev_state]. destruct U as (v & (u1 & u2 & u3 & u4 & u5)). cbn in u1, u2, u3, u4, u5.
    split; [exact u3 |]. split; [split; assumption |]. exists v. exact u5.
  - destruct e as [c | u]; [| exact I].
    destruct U as (L & fc & (u1 & u2 & u3 & u4 & u5)). cbn in u1, u2, u3, u4, u5.
    split; [exact u3 |]. split; [split; assumption |]. split; [exact L |]. exists fc. exact u5.
Qed.

Lemma C05_pending_kept_holds : C05_pending_kept_stmt.
Proof.
  intros x t args out k rest pos src h' M T.
  unfold resolved_call_execute.
  assert (HP : forall ah, handle_prev_state (set_handler x h') (RequestSentBy (SPeerCall (current_peer x) k)) pos src t ah out =
                          (XOk (make_incomplete (set_handler x h')), SD false (Some (RequestSentBy (SPeerCall (current_peer x) k))))).
  { intro ah. unfold handle_prev_state.
    replace (current_peer (set_handler x h')) with (current_peer x) by reflexivity.
    rewrite String.eqb_refl.
    replace (x_call_results (set_handler x h')) with (x_call_results x) by reflexivity.
    rewrite T. reflexivity. }
  destruct (collect_args x args) as [[vals tets] | e | s | w]; auto.
  - unfold with_handler. rewrite M. cbn [fst snd]. rewrite HP. cbn [maybe_set_prev_state].
    repeat split; reflexivity.
  - destruct (is_joinable e) eqn:J.
    + unfold with_handler. rewrite M. cbn [fst snd]. rewrite HP. cbn [negb maybe_set_prev_state].
      repeat split; reflexivity.
    + split; [reflexivity |]. split; [reflexivity | exact J].
Qed.

(* ------------------------------------------------------------------------------------------ *)
(* N_seq *)

Lemma N_seq_length : forall n s, length (N_seq s n) = n.
Proof. induction n; intro s; cbn; [reflexivity | rewrite IHn; reflexivity]. Qed.

Lemma N_seq_app : forall a b s, N_seq s (a + b) = N_seq s a ++ N_seq (s + N.of_nat a) b.
Proof.
  induction a as [| a IH]; intros b s.
  - cbn. rewrite N.add_0_r. reflexivity.
  - cbn [N_seq plus app]. rewrite IH. f_equal. f_equal. f_equal. lia.
Qed.

Lemma N_seq_bounds : forall n s k, In k (N_seq s n) -> s <= k < s + N.of_nat n.
Proof.
  induction n as [| n IH]; intros s k H; cbn in H; [contradiction |].
  destruct H as [H | H]; [subst; lia |]. apply IH in H. lia.
Qed.

Lemma N_seq_sorted : forall n s, StronglySorted N.lt (N_seq s n).
Proof.
  induction n as [| n IH]; intro s; cbn; constructor; [apply IH |].
  apply Forall_forall. intros k H. apply N_seq_bounds in H. lia.
Qed.

Lemma sorted_lt_nodup : forall l, StronglySorted N.lt l -> NoDup l.
Proof.
  induction 1 as [| a l S IH F]; constructor; [| exact IH].
  intro H. rewrite Forall_forall in F. specialize (F a H). lia.
Qed.

(* ------------------------------------------------------------------------------------------ *)
(* the two relations are invariants of the executor (proofs/ExecInv.v) *)

Lemma fresh_step_of_no_request : forall x y, x_requests y = x_requests x -> x_lcid y = x_lcid x -> fresh_step x y.
Proof.
  intros x y H1 H2. exists []. rewrite app_nil_r. cbn. rewrite N.add_0_r. repeat split; auto. rewrite H2; auto.
Qed.

Lemma fresh_step_trans : forall x y z, fresh_step x y -> fresh_step y z -> fresh_step x z.
Proof.
  intros x y z (n1 & a1 & a2 & a3 & a4) (n2 & b1 & b2 & b3 & b4).
  exists (n1 ++ n2). rewrite b1, a1, app_assoc. split; [reflexivity |].
  rewrite map_app, app_length, N_seq_app, a2, b2. split.
  - f_equal. f_equal. rewrite a3. rewrite ids_src_increment_is_1. lia.
  - split; [rewrite b3, a3; lia | auto].
Qed.

Lemma fresh_step_exec_invariant : exec_invariant fresh_step.
Proof.
  constructor.
  - apply frame_invariant_of_frame; [exact fresh_step_trans |].
    intros x y (f1 & f2 & _). apply fresh_step_of_no_request; assumption.
  - intros x id ans rest _. apply fresh_step_of_no_request; reflexivity.
  - intros x p _. apply fresh_step_of_no_request; reflexivity.
  - intros x rq H. apply N.leb_gt in H. exists [(x_lcid x + 1, rq)]. cbn.
    rewrite ids_src_increment_is_1. repeat split; auto. unfold u32_max_id. lia.
Qed.

Lemma results_step_trans : forall x y z, results_step x y -> results_step y z -> results_step x z.
Proof.
  intros x y z (a1 & a2) (b1 & b2). split; [eapply removed_from_trans; eassumption | congruence].
Qed.

Lemma results_step_exec_invariant : exec_invariant results_step.
Proof.
  constructor.
  - apply frame_invariant_of_frame; [exact results_step_trans |].
    intros x y (_ & _ & _ & f4 & f5). split; [rewrite f4; apply removed_from_refl | exact f5].
  - intros x id ans rest H. split; [cbn; eapply results_take_removed; eassumption | reflexivity].
  - intros x p _. split; [apply removed_from_refl | reflexivity].
  - intros x rq _. split; [apply removed_from_refl | reflexivity].
Qed.

Lemma C06_fresh_exec_holds : C06_fresh_exec_stmt.
Proof. intros esi H fuel i x. apply exec_inv; [exact fresh_step_exec_invariant | exact H]. Qed.

Lemma C06_routing_exec_holds : C06_routing_exec_stmt.
Proof. intros esi H fuel i x. apply exec_inv; [exact results_step_exec_invariant | exact H]. Qed.

(* ------------------------------------------------------------------------------------------ *)
(* one run *)

Lemma C06_lcid_from_prev_holds : C06_lcid_from_prev_stmt.
Proof. intros esi fs fuel i n. reflexivity. Qed.

Lemma C06_fresh_run_holds : C06_fresh_run_stmt.
Proof.
  intros esi fs He Hf fuel i. unfold fresh_run_post. cbv zeta.
  pose proof (C06_fresh_exec_holds esi He fuel (ri_script i) (initial_ctx i)) as H.
  assert (Triv : forall o, out_requests o = [] -> host_next_prev (ri_prev i) o = ri_prev i ->
            map fst (out_requests o) = N_seq (d_lcid (ri_prev i) + 1) (length (map fst (out_requests o))) /\
            d_lcid (host_next_prev (ri_prev i) o) = d_lcid (ri_prev i) + N.of_nat (length (map fst (out_requests o))) /\
            (d_lcid (ri_prev i) <= u32_max_id -> d_lcid (host_next_prev (ri_prev i) o) <= u32_max_id)).
  { intros o E1 E2. rewrite E1, E2. cbn. rewrite N.add_0_r. auto. }
  assert (New : forall code x x1, fresh_step (initial_ctx i) x -> fs x = inl x1 ->
            let o := OutNewData code (data_of_ctx x1) (dedup (x_next_peers x1) []) (x_requests x1) (x_tracker x1) in
            map fst (out_requests o) = N_seq (d_lcid (ri_prev i) + 1) (length (map fst (out_requests o))) /\
            d_lcid (host_next_prev (ri_prev i) o) = d_lcid (ri_prev i) + N.of_nat (length (map fst (out_requests o))) /\
            (d_lcid (ri_prev i) <= u32_max_id -> d_lcid (host_next_prev (ri_prev i) o) <= u32_max_id)).
  { intros code x x1 (new & a1 & a2 & a3 & a4) F. cbv zeta. cbn [out_requests host_next_prev data_of_ctx d_lcid].
    destruct (Hf _ _ F) as (f1 & f2 & _). rewrite f1, f2. cbn in a1, a2, a3, a4. rewrite a1. cbn [app].
    rewrite map_length. rewrite ids_src_increment_is_1 in a2. repeat split; assumption. }
  unfold run. destruct (exec esi fuel (ri_script i) (initial_ctx i)) as [x | e x | s | | w]; cbn [res_sat] in H.
  - destruct (fs x) as [x1 | u] eqn:F.
    + destruct (New (match x_call_results x with [] => 0%Z | _ => farewell_error_code end) x x1 H F) as (n1 & n2 & n3). repeat split; assumption.
    + destruct (Triv (OutPrevData (uncatchable_code u)) eq_refl eq_refl) as (t1 & t2 & t3). repeat split; assumption.
  - destruct e as [c | u].
    + destruct (fs x) as [x1 | u] eqn:F.
      * destruct (New (catchable_code c) x x1 H F) as (n1 & n2 & n3). repeat split; assumption.
      * destruct (Triv (OutPrevData (uncatchable_code u)) eq_refl eq_refl) as (t1 & t2 & t3). repeat split; assumption.
    + destruct (Triv (OutPrevData (uncatchable_code u)) eq_refl eq_refl) as (t1 & t2 & t3). repeat split; assumption.
  - destruct (Triv (OutCrash s) eq_refl eq_refl) as (t1 & t2 & t3). repeat split; assumption.
  - destruct (Triv OutFuel eq_refl eq_refl) as (t1 & t2 & t3). repeat split; assumption.
  - destruct (Triv (OutUnsupported w) eq_refl eq_refl) as (t1 & t2 & t3). repeat split; assumption.
Qed.

(* ------------------------------------------------------------------------------------------ *)
(* run sequences *)

Lemma run_seq_chain : forall esi fs, hook_preserves fresh_step esi -> finish_keeps_ids fs ->
  forall steps prev,
    let '(idss, final) := run_seq esi fs prev steps in
    concat idss = N_seq (d_lcid prev + 1) (length (concat idss)) /\
    d_lcid final = d_lcid prev + N.of_nat (length (concat idss)).
Proof.
  intros esi fs He Hf. induction steps as [| s rest IH]; intro prev; cbn [run_seq].
  - cbn. rewrite N.add_0_r. auto.
  - pose proof (C06_fresh_run_holds esi fs He Hf (rs_fuel s) (step_input prev s)) as R. unfold fresh_run_post in R. cbv zeta in R.
    cbn [ri_prev step_input] in R. destruct R as (r1 & r2 & _ & _).
    set (o := run esi fs (rs_fuel s) (step_input prev s)) in *.
    specialize (IH (host_next_prev prev o)).
    destruct (run_seq esi fs (host_next_prev prev o) rest) as [idss final].
    destruct IH as (i1 & i2). cbn [concat].
    rewrite app_length, N_seq_app. split.
    + rewrite <- r1. f_equal. rewrite i1 at 1. f_equal. rewrite r2. lia.
    + rewrite i2, r2. lia.
Qed.

Lemma C06_fresh_runs_holds : C06_fresh_runs_stmt.
Proof.
  intros esi fs He Hf prev steps. unfold fresh_runs_post.
  pose proof (run_seq_chain esi fs He Hf steps prev) as H.
  destruct (run_seq esi fs prev steps) as [idss final]. cbv zeta. destruct H as (h1 & h2).
  split; [exact h1 |]. split; [exact h2 |].
  assert (S : StronglySorted N.lt (concat idss)) by (rewrite h1; apply N_seq_sorted).
  split; [exact S |]. split; [apply sorted_lt_nodup; exact S |].
  apply Forall_forall. intros k Hk. rewrite h1 in Hk. apply N_seq_bounds in Hk. rewrite h2. lia.
Qed.

(* ------------------------------------------------------------------------------------------ *)
(* leftovers *)

Lemma farewell_error_code_is_30000 : farewell_error_code = 30000%Z.
Proof. reflexivity. Qed.

Lemma C06_unknown_holds : C06_unknown_stmt.
Proof.
  intros esi fs fuel i x E. unfold run. rewrite E.
  destruct (fs x) as [x1 | u]; [| reflexivity].
  exists (match x_call_results x with [] => 0%Z | _ => farewell_error_code end). split; [reflexivity |].
  destruct (x_call_results x); split; intro H; try reflexivity; try congruence.
Qed.

(* ------------------------------------------------------------------------------------------ *)
(* stage-1 instances of the two section parameters, concrete runs (non-vacuity, refutation witness) *)

Lemma no_streams_preserves : forall R, hook_preserves R no_streams.
Proof. intros R run _ i x r H. discriminate. Qed.
Lemma no_finish_keeps_ids : finish_keeps_ids no_finish.
Proof. intros x x1 H. inversion H; subst. repeat split; reflexivity. Qed.

Definition ex_me : string := "A".
Definition ex_params : run_params := {| rp_init_peer := ex_me; rp_current_peer := ex_me; rp_timestamp := 1; rp_ttl := 1 |}.
Definition ex_call (f : string) (out : call_output) : instr :=
  ICall ("call " ++ f) {| t_peer := PLiteral ex_me; t_service := SLiteral "s"; t_function := SLiteral f |} [] out.
Definition ex_answer (j : json) : service_answer := {| sa_ret_code := 0; sa_text := "<text>"; sa_parsed := Some j |}.
Definition ex_data (tr : list (state cid)) (lcid : N) : idata := {| d_trace := tr; d_lcid := lcid; d_cids := empty_cids |}.

(* (par (call A f) (call A g)) on a peer whose previous data says 5 and whose current data says 9 *)
Definition ex_par_script : instr := IPar (ex_call "f" OutNone) (ex_call "g" OutNone).
Definition ex_first_run : run_input :=
  {| ri_script := ex_par_script; ri_params := ex_params; ri_prev := ex_data [] 5; ri_cur := ex_data [] 9; ri_results := [] |}.
Definition ex_first_out : outcome := run1 20 ex_first_run.

(* second run: result for 7 and a result under an id nobody asked for *)
Definition ex_second_run : run_input :=
  {| ri_script := ex_par_script; ri_params := ex_params; ri_prev := host_next_prev (ex_data [] 5) ex_first_out;
     ri_cur := empty_data; ri_results := [(99, ex_answer (JStr "stale")); (7, ex_answer (JStr "seven"))] |}.
Definition ex_second_out : outcome := run1 20 ex_second_run.
(* third run: the result for 6 under its own id, nothing else *)
Definition ex_third_run : run_input :=
  {| ri_script := ex_par_script; ri_params := ex_params; ri_prev := host_next_prev (ri_prev ex_second_run) ex_second_out;
     ri_cur := empty_data; ri_results := [(6, ex_answer (JStr "six"))] |}.
Definition ex_third_out : outcome := run1 20 ex_third_run.

Definition out_code (o : outcome) : Z := match o with OutNewData c _ _ _ _ | OutPrevData c => c | _ => (-1)%Z end.
Definition out_trace (o : outcome) : list (state cid) := match o with OutNewData _ d _ _ _ => d_trace d | _ => [] end.
Definition out_lcid (o : outcome) : N := match o with OutNewData _ d _ _ _ => d_lcid d | _ => 0 end.

(* the witness against "leftovers are always reported": (fail 1 "x") with a result nobody asked for *)
Definition ex_refute_run : run_input :=
  {| ri_script := IFail "fail 1 x" (FLiteral 1 "x"); ri_params := ex_params; ri_prev := empty_data; ri_cur := empty_data;
     ri_results := [(7, ex_answer (JStr "lost"))] |}.
Definition ex_refute_ctx : ctx :=
  match exec no_streams 5 (ri_script ex_refute_run) (initial_ctx ex_refute_run) with XErr _ x => x | _ => initial_ctx ex_refute_run end.
Definition ex_refute_err : catchable :=
  match exec no_streams 5 (ri_script ex_refute_run) (initial_ctx ex_refute_run) with XErr (ECatch c) _ => c | _ => CStreamMapError end.

Lemma C06_unknown_not_full : ~ C06_unknown_full.
Proof.
  intro H.
  assert (E : exec no_streams 5 (ri_script ex_refute_run) (initial_ctx ex_refute_run) = XErr (ECatch ex_refute_err) ex_refute_ctx)
    by (vm_compute; reflexivity).
  assert (L : x_call_results ex_refute_ctx <> []) by (vm_compute; discriminate).
  destruct (H no_streams no_finish no_finish_keeps_ids 5%nat ex_refute_run ex_refute_ctx (or_intror (ex_intro _ ex_refute_err E)) L)
    as (d & next & reqs & signed & R).
  vm_compute in R. discriminate.
Qed.

(* the part of the full statement that holds: an execution that SUCCEEDS reports its leftovers *)
Definition C06_unknown_partial_stmt : Prop :=
  forall esi fs fuel i x,
    exec esi fuel (ri_script i) (initial_ctx i) = XOk x -> x_call_results x <> [] ->
    forall x1, fs x = inl x1 ->
    exists d next reqs signed, run esi fs fuel i = OutNewData 30000%Z d next reqs signed.
Lemma C06_unknown_partial_holds : C06_unknown_partial_stmt.
Proof.
  intros esi fs fuel i x E L x1 F. pose proof (C06_unknown_holds esi fs fuel i x E) as H. rewrite F in H.
  destruct H as (code & R & C & _). rewrite (C L) in R. eauto.
Qed.

(* ------------------------------------------------------------------------------------------ *)
(* stage 2: the full executor (ExecStreams.v), through proofs/ExecStreamsInv.v *)

Lemma finish_streams_keeps_ids : finish_keeps_ids finish_streams.
Proof.
  intros x x1 H. apply finish_streams_frame in H. destruct H as (f1 & f2 & f3 & f4 & f5). repeat split; assumption.
Qed.

Lemma C06_fresh_run2_holds : C06_fresh_run2_stmt.
Proof.
  intros fuel i.
  exact (C06_fresh_run_holds stream_instr finish_streams (stream_instr_preserves _ fresh_step_exec_invariant) finish_streams_keeps_ids fuel i).
Qed.

Lemma C06_fresh_runs2_holds : C06_fresh_runs2_stmt.
Proof.
  intros prev steps.
  exact (C06_fresh_runs_holds stream_instr finish_streams (stream_instr_preserves _ fresh_step_exec_invariant) finish_streams_keeps_ids prev steps).
Qed.

Lemma C06_exec2_holds : C06_exec2_stmt.
Proof.
  intros fuel i x. split; [apply (exec2_inv _ fresh_step_exec_invariant) | apply (exec2_inv _ results_step_exec_invariant)].
Qed.

(* ------------------------------------------------------------------------------------------ *)
(* the Coq-side oracle (IdsCases.c06_oracle) against the theorem *)

Lemma increasing_from_N_seq : forall n l, increasing_from l (N_seq (l + 1) n) = true.
Proof.
  induction n as [| n IH]; intro l; cbn [N_seq increasing_from]; [reflexivity |].
  rewrite IH. replace (l <? l + 1) with true by (symmetry; apply N.ltb_lt; lia). reflexivity.
Qed.

Lemma last_N_seq_le : forall n s d b, d <= b -> s + N.of_nat n <= b + 1 -> last (N_seq s n) d <= b.
Proof.
  induction n as [| n IH]; intros s d b H1 H2; cbn [N_seq last]; [exact H1 |].
  destruct n as [| m].
  - cbn. lia.
  - change (last (N_seq (s + 1) (S m)) d <= b). apply IH; lia.
Qed.

Lemma C06_oracle_sound_holds : C06_oracle_sound_stmt.
Proof.
  intros l ids lcid' H1 H2. remember (length ids) as n eqn:Hn. subst ids lcid'. split.
  - apply increasing_from_N_seq.
  - apply N.leb_le. apply last_N_seq_le; lia.
Qed.
