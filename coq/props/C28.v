(* props/C28.v -- the beautifier faithfully renders the script structure.
   Only pinned statements, [exact], non-vacuity examples and Print Assumptions. *)
From Aqua Require Import Base Air Beautify BeautifyProofs.
Open Scope list_scope.
Open Scope N_scope.

(* the text the beautifier writes, read back by the independent reader, is the script with its
   sequences flattened -- for every script tree (error nodes included), both settings of the hopon
   switch, every indent step > 0, under the hypothesis [texts_ok] on the opaque renderings *)
Theorem C28 : C28_text_stmt.
Proof. exact C28_text_holds. Qed.

(* the same on the list of lines (no text hypothesis beyond the keywords is used by the layout) *)
Theorem C28_lines : C28_read_flatten_stmt.
Proof. exact C28_read_flatten_holds. Qed.

(* every instruction appears exactly once, in script order, at indentation step * depth *)
Theorem C28_listing : C28_listing_stmt.
Proof. exact C28_listing_holds. Qed.

(* every line, separators included, sits at step * (nesting depth) *)
Theorem C28_indent : C28_indent_stmt.
Proof. exact C28_indent_holds. Qed.

(* the only partial operation of the walker (usize addition of the indentation) cannot fail while
   step * depth fits a usize *)
Theorem C28_no_crash : C28_no_crash_stmt.
Proof. exact C28_no_crash_holds. Qed.

(* the walker's dispatch, the keywords, the call / hopon formats and DEFAULT_INDENT_STEP of the model
   are the ones found in /repo's sources today *)
Theorem C28_source_tie : beautify_tables_agree = true.
Proof. exact beautify_tables_ok. Qed.

(* without the hypothesis the literal property is false: a string literal with a newline in it *)
Theorem C28_literal_newline_refuted : ~ C28_unrestricted.
Proof. exact C28_unrestricted_refuted. Qed.

(* ---- non-vacuity ---- *)
(* (new $st (seq (call "p" ("s" "arr") [] a) (par (fold a i (seq (xor (call i ("s" "f") [a.$.[0] 1.5 "x"] $st)
   (fail :error:)) (next i)) (canon "p" $st #can)) (match a "b" (new $s (new #c1 (canon "p" $s #c1)))))))
   as printed by the harness from the real parser *)
Definition C28_example : instr :=
  (INew "new $st" (NStream {| v_name := "$st"; v_pos := 5 |}) (ISeq (ICall "call ""p"" (""s"" ""arr"") [] a" {| t_peer := (PLiteral "p"); t_service := (SLiteral "s"); t_function := (SLiteral "arr") |} [] (OutScalar {| v_name := "a"; v_pos := 39 |})) (IPar (IFoldScalar "fold a i" (FIScalar {| v_name := "a"; v_pos := 53 |}) {| v_name := "i"; v_pos := 55 |} (ISeq (IXor (ICall "call i (""s"" ""f"") [a.$.[0] 1.5 ""x""] $st" {| t_peer := (PScalar {| v_name := "i"; v_pos := 73 |}); t_service := (SLiteral "s"); t_function := (SLiteral "f") |} [(VScalarL {| vl_name := "a"; vl_lambda := (LValuePath [(ArrayAccess 0)]); vl_pos := 86 |}); (VNumber (NumFloat "1.5")); (VLiteral "x")] (OutStream {| v_name := "$st"; v_pos := 103 |})) (IFail "fail :error:" FError)) (INext "next i" {| v_name := "i"; v_pos := 130 |})) (Some (ICanon "canon ""p"" $st #can" (PLiteral "p") {| v_name := "$st"; v_pos := 145 |} {| v_name := "#can"; v_pos := 149 |})) {| sp_left := 47; sp_right := 155 |}) (IMatch "match a ""b""" (VScalar {| v_name := "a"; v_pos := 163 |}) (VLiteral "b") (INew "new $s" (NStream {| v_name := "$s"; v_pos := 174 |}) (INew "new #c1" (NCanon {| v_name := "#c1"; v_pos := 182 |}) (ICanon "canon ""p"" $s #c1" (PLiteral "p") {| v_name := "$s"; v_pos := 197 |} {| v_name := "#c1"; v_pos := 200 |}) {| sp_left := 177; sp_right := 205 |}) {| sp_left := 169; sp_right := 206 |})))) {| sp_left := 0; sp_right := 210 |}).

(* the hypothesis holds for it (both modes), and the model writes the text the real beautifier wrote *)
Example C28_hypothesis_nonvacuous :
  texts_ok false C28_example = true /\ texts_ok true C28_example = true /\
  beautify_ast false 4 C28_example = BOk "new $st:
    a <- call ""p"" (""s"", ""arr"") []
    par:
        fold a i:
            try:
                $st <- call i (""s"", ""f"") [a.$.[0], 1.5, ""x""]
            catch:
                fail :error:
            next i
        last:
            canon ""p"" $st #can
    |
        match a ""b"":
            new $s:
                new #c1:
                    canon ""p"" $s #c1
".
Proof. vm_compute. repeat split. Qed.

(* the conclusion is not trivially true: the structure read back has every block, and the hopon mode
   collapses the new/new/canon pattern into one leaf *)
Example C28_reading_nonvacuous :
  (match beautify_ast false 4 C28_example with BOk s => read_text s | BCrash => None end)
  = Some [TBlock "new $st"
            [TLeaf "a <- call ""p"" (""s"", ""arr"") []";
             TPar [TBlockLast "fold a i"
                     [TTry [TLeaf "$st <- call i (""s"", ""f"") [a.$.[0], 1.5, ""x""]"] [TLeaf "fail :error:"];
                      TLeaf "next i"]
                     [TLeaf "canon ""p"" $st #can"]]
                  [TBlock "match a ""b""" [TBlock "new $s" [TBlock "new #c1" [TLeaf "canon ""p"" $s #c1"]]]]]] /\
  flatten true C28_example
  = [TBlock "new $st"
       [TLeaf "a <- call ""p"" (""s"", ""arr"") []";
        TPar [TBlockLast "fold a i"
                [TTry [TLeaf "$st <- call i (""s"", ""f"") [a.$.[0], 1.5, ""x""]"] [TLeaf "fail :error:"];
                 TLeaf "next i"]
                [TLeaf "canon ""p"" $st #can"]]
             [TBlock "match a ""b""" [TLeaf "hopon ""p"""]]]] /\
  listing 0 (flatten true C28_example)
  = [(0, "new $st:"); (1, "a <- call ""p"" (""s"", ""arr"") []"); (1, "par:"); (2, "fold a i:"); (3, "try:");
     (4, "$st <- call i (""s"", ""f"") [a.$.[0], 1.5, ""x""]"); (4, "fail :error:"); (3, "next i");
     (3, "canon ""p"" $st #can"); (2, "match a ""b"":"); (3, "hopon ""p""")]%string.
Proof. vm_compute. repeat split. Qed.

(* the reader does reject and does distinguish: a dangling separator, a header without `:`, a
   different structure *)
Example C28_reader_rejects :
  read_text "|
" = None /\
  read_text "fold a i
    null
" = None /\
  read_text "par:
    null
" = None /\
  read_text "par:
    null
|
    null
" = Some [TPar [TLeaf "null"] [TLeaf "null"]] /\
  read_text "null" = None.
Proof. vm_compute. repeat split. Qed.

(* the crash outcome exists in the model: two nested blocks with the largest step *)
Example C28_crash_nonvacuous :
  beautify_ast false usize_max (IPar INull (IPar INull INull)) = BCrash /\
  (exists s, beautify_ast false 8 (IPar INull (IPar INull INull)) = BOk s).
Proof. split; [vm_compute; reflexivity | eexists; vm_compute; reflexivity]. Qed.

(* the refutation witness violates exactly the hypothesis *)
Example C28_witness_violates_hypothesis :
  texts_ok false C28_newline_witness = false /\ error_nodes C28_newline_witness = 0%nat.
Proof. vm_compute. split; reflexivity. Qed.

Print Assumptions C28.
Print Assumptions C28_lines.
Print Assumptions C28_listing.
Print Assumptions C28_indent.
Print Assumptions C28_no_crash.
Print Assumptions C28_source_tie.
Print Assumptions C28_literal_newline_refuted.
