(* MergeFull.v -- the FULL statements of C07 and C08 (DESIGN section 6) over runs of RunExec.run in
   honest histories.  They are stated here as definitions; props/C07.v and props/C08.v prove the
   state-level and handler-level parts (model/MergeSpec.v) and list the gap.
   Definitions only. *)
From Coq Require Import Permutation.
From Aqua Require Import Base Json Air Trace Handler Values Scalars Lens Exec RunExec MergeSpec.
Open Scope N_scope.
Open Scope list_scope.

Section Full.
  (* the stream / canon instructions and the end-of-run compaction are parameters of RunExec.run *)
  Variable es : (instr -> ctx -> xres) -> instr -> ctx -> option xres.
  Variable fs : ctx -> ctx + uncatchable.
  (* the deterministic services of the hosts: peer -> request -> answer *)
  Variable svc : string -> request -> service_answer.
  Variable script : instr.
  Variable init_peer : string.
  Variable timestamp ttl : N.

  Definition params_of (p : string) : run_params :=
    {| rp_init_peer := init_peer; rp_current_peer := p; rp_timestamp := timestamp; rp_ttl := ttl |}.
  Definition run_at (fuel : nat) (p : string) (prev cur : idata) (results : list (N * service_answer)) : outcome :=
    run es fs fuel {| ri_script := script; ri_params := params_of p; ri_prev := prev; ri_cur := cur; ri_results := results |}.

  (* ---- honest histories: hosts keep the returned data, answer the requests they were handed,
          and send the data to the peers named by the run (air/README.md) ---- *)
  Record host := { ho_prev : idata; ho_pending : list (N * request) }.
  Record net := { n_hosts : list (string * host); n_inflight : list (string * idata); n_data : list idata }.
  Definition new_host : host := {| ho_prev := empty_data; ho_pending := [] |}.
  Definition get_host (hs : list (string * host)) (p : string) : host :=
    match find (fun x => String.eqb (fst x) p) hs with Some x => snd x | None => new_host end.
  Definition set_host (hs : list (string * host)) (p : string) (h : host) : list (string * host) :=
    (p, h) :: filter (fun x => negb (String.eqb (fst x) p)) hs.
  Definition answered_ids (a : list (N * request)) (id : N) : bool := existsb (fun x => fst x =? id) a.

  (* one run of peer p: current data is nothing or any particle ever sent to p (duplicates and
     stale particles included); `answered` = the pending requests whose results are handed back *)
  Definition step_input_ok (n : net) (p : string) (cur : idata) (answered : list (N * request)) : Prop :=
    (cur = empty_data \/ In (p, cur) (n_inflight n)) /\
    incl answered (ho_pending (get_host (n_hosts n) p)) /\ NoDup (map fst answered).
  Definition step_results (p : string) (answered : list (N * request)) : list (N * service_answer) :=
    map (fun ir => (fst ir, svc p (snd ir))) answered.

  Inductive reachable : net -> Prop :=
  | R_init : reachable {| n_hosts := []; n_inflight := []; n_data := [] |}
  | R_step : forall n p cur answered fuel code c next reqs signed,
      reachable n -> step_input_ok n p cur answered ->
      run_at fuel p (ho_prev (get_host (n_hosts n) p)) cur (step_results p answered) = OutNewData code c next reqs signed ->
      reachable {| n_hosts := set_host (n_hosts n) p
                                {| ho_prev := c;
                                   ho_pending := reqs ++ filter (fun x => negb (answered_ids answered (fst x)))
                                                                (ho_pending (get_host (n_hosts n) p)) |};
                   n_inflight := map (fun q => (q, c)) next ++ n_inflight n;
                   n_data := c :: n_data n |}.

  (* ---- C07: re-delivering already merged data changes nothing ---- *)
  Definition C07_full_stmt : Prop :=
    forall n p cur answered fuel code c next reqs signed,
      reachable n -> step_input_ok n p cur answered ->
      let a := ho_prev (get_host (n_hosts n) p) in
      run_at fuel p a cur (step_results p answered) = OutNewData code c next reqs signed ->
      forall x, In x [cur; a; c; empty_data] ->
      exists fuel' code' c' signed',
        run_at fuel' p c x [] = OutNewData code' c' [] [] signed' /\ d_trace c' = d_trace c.

  (* ---- C08: merge results do not depend on delivery order or grouping ---- *)
  (* a merge plan: data are merged at observers (each node runs at peer `at_peer` with the left
     result as its previous data and the right result as current data); the left fold over
     d1..dn at peer o is GNode o (.. (GNode o (GNode o GEmpty d1) d2) ..) dn *)
  Inductive grouping := GEmpty | GLeaf (d : idata) | GNode (at_peer : string) (l r : grouping).
  Fixpoint leaves (g : grouping) : list idata :=
    match g with GEmpty => [] | GLeaf d => [d] | GNode _ l r => leaves l ++ leaves r end.
  Fixpoint eval_grouping (fuel : nat) (g : grouping) : option idata :=
    match g with
    | GEmpty => Some empty_data
    | GLeaf d => Some d
    | GNode o l r =>
        match eval_grouping fuel l, eval_grouping fuel r with
        | Some a, Some b =>
            match run_at fuel o a b [] with
            | OutNewData _ c _ _ _ => Some c
            | _ => None
            end
        | _, _ => None
        end
    end.

  (* knowledge: the executed / failed calls and executed canons, by content id *)
  Inductive known := KCall (c : cid) | KUnused (c : cid) | KFailed (c : cid) | KCanon (c : cid).
  Fixpoint knowledge (t : list (state cid)) : list known :=
    match t with
    | [] => []
    | SCall (Executed (VRScalar c)) :: r | SCall (Executed (VRStream c _)) :: r => KCall c :: knowledge r
    | SCall (Executed (VRUnused c)) :: r => KUnused c :: knowledge r
    | SCall (Failed c) :: r => KFailed c :: knowledge r
    | SCanon (CanonExecuted c) :: r => KCanon c :: knowledge r
    | _ :: r => knowledge r
    end.

  (* scripts without streams or stream maps *)
  Fixpoint stream_free (i : instr) : bool :=
    match i with
    | ICall _ _ _ (OutStream _) => false
    | ICall _ _ _ _ => true
    | IAp _ _ (ApStream _) => false
    | IAp _ _ _ => true
    | IApMap _ _ _ _ | ICanon _ _ _ _ | ICanonMap _ _ _ _ | ICanonStreamMapScalar _ _ _ _ => false
    | ISeq a b | IPar a b | IXor a b => stream_free a && stream_free b
    | IMatch _ _ _ b | IMisMatch _ _ _ b => stream_free b
    | INew _ (NScalar _) b _ => stream_free b
    | INew _ _ _ _ => false
    | IFoldScalar _ (FIScalar _) _ b l _ | IFoldScalar _ (FIScalarL _) _ b l _ | IFoldScalar _ FIEmptyArray _ b l _ =>
        stream_free b && match l with Some x => stream_free x | None => true end
    | IFoldScalar _ _ _ _ _ _ | IFoldStream _ _ _ _ _ _ | IFoldStreamMap _ _ _ _ _ _ => false
    | IFail _ _ | INever | INext _ _ | INull | IError => true
    end.

  (* traces identical except for who sent pending requests *)
  Definition state_eq_mod_sender (a b : state cid) : Prop :=
    match a, b with
    | SCall (RequestSentBy _), SCall (RequestSentBy _) => True
    | SCanon (CanonRequestSentBy _), SCanon (CanonRequestSentBy _) => True
    | _, _ => a = b
    end.

  Definition C08_full_stmt : Prop :=
    forall n g1 g2 fuel x1 x2,
      reachable n ->
      incl (leaves g1) (n_data n) -> Permutation (leaves g1) (leaves g2) ->
      eval_grouping fuel g1 = Some x1 -> eval_grouping fuel g2 = Some x2 ->
      Permutation (knowledge (d_trace x1)) (knowledge (d_trace x2)) /\
      (stream_free script = true -> Forall2 state_eq_mod_sender (d_trace x1) (d_trace x2)).
End Full.
