"""C20 -- execution is deterministic.

Theorems (coq/props/C20.v): every HashMap/HashSet iteration of the Rust code is an explicit order parameter of the
model and the canonical observation does not depend on it (catalogue of the sources' nondeterminism sites closed
against tools/genx_det.py).  What a Gallina theorem cannot say (RandomState seeds of the real process) is covered here
by re-execution: the driver `det20` runs every run of generated histories three times in one process and in N fresh
child processes and compares the canonical outcomes (code, MESSAGE, decoded data with sorted stores, call requests,
next peers as a set, flags).  The order-parameterised pieces of the model (next-peer dedup, 30000 message, canon-map
rendering) are evaluated in Coq against what the executions showed."""
import json

import airgen
import vlib

PID = "C20"
MODEL_TARGETS = ["model/DetCases.vo"]
HARNESS_BINS = ["det20"]
RULE = ("a case is a simulated history (generated script with several streams, `new`-scoped streams, stream folds, canon; stream maps + "
        "canon maps; several next peers; several signers) with probes: k >= 2 call results nobody asked for (code 30000), current data with "
        "several culprits (all signatures rotated, all signatures dropped, >= 2 bad values in the value store); EVERY run of the history is "
        "executed 3 times in one process and once in each of N fresh child processes (N = 4 quick, 16 thorough) and the canonical outcomes "
        "must be equal; evaluations = runs; distinct = (script, step, kind, code) of the NON-TRIVIAL runs: >= 2 next peers, >= 2 signers, "
        ">= 2 call requests, >= 2 stream generations in the trace, unprocessed results, tampered data or a canon-map probe")
PARTIAL = [
    "process-level sources (RandomState seeds, allocator addresses, thread-locals) cannot be expressed by a theorem over a Gallina function: "
    "they are covered by the re-executions in fresh and reused processes, i.e. by sampling",
    "C20_order_irrelevant_partial carries the hypothesis streams_ok (unique stream names, stream values at pairwise different trace positions "
    "in the context the farewell step starts in; C20_finish_needs_disjoint shows it cannot simply be dropped for an arbitrary context). It is now "
    "discharged for every run of the executor model: C20_streams_ok_run (from the stream-position invariant C02_stream_pos_inv, "
    "proofs/StreamPosProofs.v) and C20_order_irrelevant_run2 = C20_full_holds state the run without it. Remaining gap: the invariant is proved "
    "for the executor MODEL; its agreement with the Rust executor is the sampled lock-step correspondence",
    "the order parameters of run_det are o_streams, o_stream_maps (ExecStreams.finish_streams = Streams::compactify then StreamMaps::compactify) "
    "and o_next; the canon-map rendering order and the verifier's six orders are shown irrelevant / relevant by their own theorems "
    "(C20_canon_map_order / C20_canon_map_refuted, C20_verifier_order) and are not parameters of run_det",
    "that exec reads the CID stores only through membership (cid_mem / cid_track) is by inspection of model/Exec.v; C20_stores_order and "
    "C20_merge_cid_states_order show set-equality of the merged stores",
    "CanonStreamMap::as_jvalue is order DEPENDENT when two keys render to the same string (42 and \"42\"): C20_canon_map_refuted, replayed on the "
    "real code (known finding canon-map-colliding-keys); C20_canon_map_order holds for collision-free keys",
    "preparation errors on data with several culprits (codes 8 / 9): the code is stable (C15_order for the verifier); DataVerifier::verify and "
    "CidStore::verify* visit their maps in key order since fix 7dbe90a (C20_first_culprit_source_tie reads it from the source); five message-only sites "
    "still name the culprit met first in hash order (DataVerifier::new MalformedKey, merge MergeMismatch, cid_info.rs dangling references): "
    "known finding preparation-error-first-culprit-uncovered-sites",
]
ASSUMPTIONS = [
    "the catalogue (tools/genx_det.py) is a regex-level scan: hash containers reached only through a type the scan does not see as one are not listed; "
    "its classification in model/DetSpec.v is by reading the code",
    "Debug rendering of String / i32 / CallServiceResult inside the 30000 message is modelled for printable ASCII only (other cases are skipped by check_case)",
]

HEADER = ("From Aqua Require Import Base Json JsonText Air Trace Handler Values Scalars Lens Exec RunExec ExecStreams DetSpec DetCases.\n"
          "Open Scope N_scope.\nOpen Scope list_scope.\nOpen Scope string_scope.\n")

SERVICES = airgen.DEFAULT_SERVICES + [["s", "mapprobe", {"echo": 0}], ["s", "k1", {"const": "alpha"}], ["s", "k2", {"const": 7}]]
KNOWN = {"canon-map-colliding-keys", "preparation-error-first-culprit-uncovered-sites"}
TAMPERS = ["swap_sigs", "swap_sigs", "drop_sigs", "bad_values", "two_bad_keys", "dangling_refs", "fork_data", "fork_data"]


def fork_services():
    """the same service table with other results: the second world of `fork_data` probes"""
    sv = json.loads(json.dumps(SERVICES))
    for e in sv:
        if "const" in e[2] and e[1] not in ("peer_b", "peer_c", "peers"):
            e[2] = {"const": {"forked": e[1]}}
        elif "peertag" in e[2]:
            e[2] = {"const": "forked-tag"}
    return sv



def children(tier):
    return {"quick": 4, "thorough": 16}[tier]


def seq(parts):
    s = parts[-1]
    for p in reversed(parts[:-1]):
        s = "(seq %s %s)" % (p, s)
    return s


def lit(v):
    return json.dumps(v) if isinstance(v, str) else str(v)


def map_case(rng, tier, collide):
    """a stream map filled with k pairs, canonicalised, handed to a service as one argument (and iterated)"""
    peers = airgen.PEERS[:3]
    if collide:
        n = rng.choice([17, 42, 0, -5])
        kvs = [[n, "int"], [str(n), "str"]]
        if rng.random() < 0.5:
            kvs.append(["other", "x"])
        if rng.random() < 0.5:
            kvs.append([n, "int2"])
        rng.shuffle(kvs)
    else:
        ints = rng.random() < 0.5
        pool = [1, 2, 33, -4, 500] if ints else ["a", "b", "k-1", "key", "zz"]
        if rng.random() < 0.3:
            pool = [1, 22, "a", "b"]     # mixed but no overlap
        kvs = [[rng.choice(pool), rng.choice(["v1", "v2", 3, True])] for _ in range(rng.randint(2, 5))]
        kvs = [[k, v if isinstance(v, str) else json.dumps(v)] for k, v in kvs]
    aps = ["(ap (%s %s) %%m)" % (lit(k), json.dumps(v)) for k, v in kvs]
    target = rng.choice(peers)
    tail = ['(canon "@%s" %%m #%%cm)' % target, '(call "@%s" ("s" "mapprobe") [#%%cm] r)' % target]
    if rng.random() < 0.5:
        tail.append('(fold #%%cm it (seq (call "@%s" ("s" "id") [it]) (next it)))' % rng.choice(peers))
    if rng.random() < 0.4:
        tail.append('(call "@%s" ("s" "num") [] $t)' % rng.choice(peers))
    script = seq(aps + tail)
    if rng.random() < 0.3:
        script = "(new %%m %s)" % script
    return {"gen": "collide" if collide else "map", "script": script, "peers": peers, "init": 0, "services": SERVICES,
            "ops": airgen.fifo_schedule(6), "particle_id": "map-%d" % rng.randrange(1 << 20), "children": children(tier),
            "map_kvs": [[k, json.dumps(v)] for k, v in kvs], "expect": "canon-map-colliding-keys" if collide else None}


def fanout_case(rng, tier):
    """several next peers at once, several streams compactified at once, nested new scopes"""
    peers = airgen.PEERS[:rng.choice([4, 5])]
    others = peers[1:]
    calls = ['(call "@%s" ("s" "%s") [%s] $s%d)' % (p, rng.choice(["num", "tag", "arr", "args"]),
                                                 rng.choice(["", '"lit"', "%timestamp%", "%ttl%", "%init_peer_id%"]), i % 3)
             for i, p in enumerate(others * rng.choice([1, 2]))]
    rng.shuffle(calls)
    par = calls[-1]
    for c in reversed(calls[:-1]):
        par = "(par %s %s)" % (c, par)
    aps = ['(ap %s $s%d)' % (rng.choice(['"x"', "1", "%timestamp%"]), rng.randrange(4)) for _ in range(rng.randint(2, 6))]
    inner = seq(aps + ['(new $s1 %s)' % seq(['(ap "in" $s1)', '(ap "in2" $s1)', '(canon "@A" $s1 #c_in)']),
                       '(canon "@A" $s0 #c_out)', '(call "@%s" ("s" "id") [#c_out])' % rng.choice(peers)])
    script = "(par %s %s)" % (inner, par) if rng.random() < 0.5 else "(par %s %s)" % (par, inner)
    return {"gen": "fanout", "script": script, "peers": peers, "init": 0, "services": SERVICES,
            "ops": airgen.gen_schedule(rng, n_ops=rng.choice([10, 16])), "particle_id": "fan-%d" % rng.randrange(1 << 20),
            "children": children(tier)}


def history_case(rng, tier):
    prof = airgen.Profile(peers=rng.choice([3, 4]), depth=rng.choice([3, 4, 5]), canon=True, new=True, streams=True,
                          stream_folds=True, failing=rng.random() < 0.6, last_error=rng.random() < 0.2)
    script = airgen.gen_script(rng, prof)
    ops = airgen.gen_schedule(rng, n_ops=rng.choice([8, 14, 22]))
    return {"gen": "history", "script": script, "peers": airgen.PEERS[:prof.peers], "init": 0, "services": SERVICES, "ops": ops,
            "particle_id": "hist-%d" % rng.randrange(1 << 20), "children": children(tier)}


def add_probes(rng, c):
    n = len(c["ops"])
    if rng.random() < 0.6:
        c["bogus"] = [[rng.randrange(min(n, 12)), rng.randrange(len(c["peers"])), rng.choice([2, 2, 3, 4])] for _ in range(rng.randint(1, 3))]
    if rng.random() < 0.5:
        c["tamper"] = [[rng.randrange(1, min(n, 14)), rng.choice(TAMPERS), rng.randrange(1000)] for _ in range(rng.randint(1, 5))]
        if any(t[1] == "fork_data" for t in c["tamper"]):
            c["services_fork"] = fork_services()
    return c


def gen_cases(rng, tier, escalate=False):
    mult = 3 if escalate else 1
    n_hist = {"quick": 32, "thorough": 500}[tier] * mult
    n_fan = {"quick": 14, "thorough": 150}[tier] * mult
    n_map = {"quick": 14, "thorough": 150}[tier] * mult
    n_col = {"quick": 4, "thorough": 24}[tier]
    cases = []
    for _ in range(n_hist):
        cases.append(add_probes(rng, history_case(rng, tier)))
    for _ in range(n_fan):
        cases.append(add_probes(rng, fanout_case(rng, tier)))
    for _ in range(n_map):
        cases.append(add_probes(rng, map_case(rng, tier, False)))
    for _ in range(n_col):
        cases.append(map_case(rng, tier, True))
    return cases


def evaluate(cases, result, tier):
    if not cases:
        return
    for c in cases:
        c.setdefault("children", children(tier))
    outs = vlib.harness_lines("det20", [json.dumps(c) for c in cases], timeout=3000)
    terms, owner = [], []
    dist = result["distribution"]

    def bump(k, n=1):
        dist[k] = dist.get(k, 0) + n

    for ci, o in enumerate(outs):
        if "error" in o:
            # a generated script the real parser refuses is not an input of the property
            bump("script refused by the parser")
            continue
        for m in o.get("machinery", []):
            result["errors"].append("det20: " + m)
        gen = cases[ci].get("gen", "replay")
        bump("histories/" + gen)
        result["evaluations"] += int(o.get("runs", 0))
        bump("executions (all processes)", int(o.get("executions", 0)))
        for k, v in o.get("stats", {}).items():
            if k not in ("runs", "executions"):
                bump(k, int(v))
        for cl in o["classes"]:
            bump(cl)
        for inf in o["info"]:
            nontrivial = (inf["next"] >= 2 or inf["signers"] >= 2 or inf["requests"] >= 2 or inf["kind"] != "run" or inf["code"] == 30000
                          or cases[ci].get("map_kvs"))
            if nontrivial:
                result["distinct"].add(json.dumps([cases[ci]["script"], inf["step"], inf["kind"], inf["code"]]))
        for f in o.get("oracle_failures", []):
            key = f.get("key")
            result["oracle_fail"].append({"case": dict(cases[ci]), "detail": f, "key": key if key in KNOWN else None,
                                          "what": "the same input gave different canonical outcomes: %s" % f.get("what", "")})
            bump("outcome differences/" + str(key))
        for ti, t in enumerate(o["coq"]):
            terms.append(t)
            owner.append((ci, ti))
        if len(result["samples"]) < 3 and o["info"]:
            result["samples"].append({"case": {k: cases[ci].get(k) for k in ("gen", "script", "peers", "bogus", "tamper", "map_kvs")},
                                      "info": o["info"][:4], "stats": o.get("stats")})
    if not terms:
        return
    checks = {"model": "check_case", "modeldet": "model_deterministic"}
    fails, errs = vlib.coq_eval_cases("C20", HEADER, "case_t", checks, terms, shard_size=400)
    if any("inconsistent assumptions" in e for e in errs):
        vlib.coq_make(MODEL_TARGETS)
        fails, errs = vlib.coq_eval_cases("C20", HEADER, "case_t", checks, terms, shard_size=400)
    result["errors"].extend(errs)
    bump("coq cases (next-peer sets, 30000 messages, canon-map renderings)", len(terms))
    for i in fails["model"]:
        ci, ti = owner[i]
        result["mismatch"].append({"case": dict(cases[ci]), "term_index": ti, "term": terms[i][:4000],
                                   "what": "an observation of the real executions lies outside what model/DetSpec.v allows for any iteration order "
                                           "(dedup_real / unprocessed_msg / as_jvalue)"})
    # cases for which the MODEL itself allows more than one observation: must be exactly the colliding-key probes
    for i in fails["modeldet"]:
        ci, ti = owner[i]
        bump("cases where the model itself is order dependent")
        if cases[ci].get("expect") != "canon-map-colliding-keys":
            result["mismatch"].append({"case": dict(cases[ci]), "term_index": ti, "term": terms[i][:4000],
                                       "what": "the model is order dependent on a case that is not a colliding-keys probe"})
