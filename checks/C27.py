"""C27 -- data and call encodings round-trip."""
import hashlib
import json

import airgen
import vlib

PID = "C27"
MODEL_TARGETS = ["model/WireCases.vo"]
HARNESS_BINS = ["wire"]
RULE = ("a case is one encode/decode observation of the real crates: (a) the codec tag of a u32 written by encode_multiformat and "
        "parsed back with arbitrary bytes behind it, or an arbitrary/mutated byte string parsed as a tag; (b) a generated or "
        "run-produced CallResults / CallRequests map serialized and deserialized, and the same payload under another tag; "
        "(c) an InterpreterDataEnvelope (synthetic inner sizes around the bin8/bin16/bin32 borders, and every data produced in "
        "generated histories) serialized, read back, read with corrupted inner data through try_get_versions, cut, extended and "
        "bit-flipped; (d) InterpreterData of real runs re-encoded and decoded (canonical view compared). "
        "distinct = different Coq term (sha1 of inputs+observation); every case is non-trivial (a codec ran on it)")
PARTIAL = [
    "rkyv (InterpreterData), rmp-serde (the maps, the envelope's field contents) and semver text are premises "
    "`dec (enc x) = Some x` of the theorems; the check exercises them on generated maps and on every data of the generated histories",
    "C27_varint_canonical_full (the tag reader accepts only canonical encodings) is refuted for unsigned-varint 0.8.0: "
    "five-byte tags whose value does not fit 32 bits are read modulo 2^32 (known finding varint-u32-high-bits-dropped); "
    "C27_varint_canonical_partial proves canonicity for every tag whose LEB128 value fits u32",
    "the envelope reader of the model understands str and bin objects only; on any other MessagePack object it answers "
    "'not predicted' and the correspondence skips the case (the theorems are about serialized envelopes, where this never happens)",
]
ASSUMPTIONS = [
    "inner Format of the call maps (rmp-serde, to_vec_named/from_slice): from_slice (to_writer x) = x  [premise of C27_multiformat_roundtrip]",
    "semver::Version: parse (to_string v) = v  [premise of C27_envelope_versions_independent, C27_envelope_roundtrip, C27_data_roundtrip]",
    "rkyv archive + check_bytes of InterpreterData: try_from_slice (serialize d) = d  [premise of C27_data_roundtrip]",
    "rmp 0.8.12 writes str/bin/map headers as modelled (checked byte for byte against every serialized envelope of the run)",
    "bytes after a MessagePack value are ignored by rmp_serde::from_slice (observed; modelled)",
]

KNOWN_KEY = "varint-u32-high-bits-dropped"
HEADER = "From Aqua Require Import Base Wire WireCases.\nOpen Scope N_scope.\n"


def leb(n):
    out = []
    while True:
        b = n & 0x7F
        n >>= 7
        if n:
            out.append(b | 0x80)
        else:
            out.append(b)
            return out


def overflow_tag(bs):
    """five bytes, four continuations, a final fifth byte with bits above the 32nd"""
    return len(bs) >= 5 and all(b >= 0x80 for b in bs[:4]) and 0x10 <= bs[4] < 0x80


BOUNDARY = [0, 1, 2, 0x7F, 0x80, 0x81, 0xFF, 0x100, 0x200, 0x201, 0x202, 0x3FFF, 0x4000, 0x1FFFFF, 0x200000,
            0xFFFFFFF, 0x10000000, 0x7FFFFFFF, 0x80000000, 0xFFFFFFFE, 0xFFFFFFFF]


def rand_u32(rng):
    bits = rng.choice([1, 7, 8, 14, 15, 21, 22, 28, 29, 32])
    return rng.randrange(1 << bits)


def mutated_strings(rng, k, with_overflow):
    out = []
    for _ in range(k):
        n = rng.choice(BOUNDARY) if rng.random() < 0.4 else rand_u32(rng)
        e = leb(n)
        m = rng.randrange(9)
        if m == 0:                       # flip a continuation bit
            i = rng.randrange(len(e))
            e[i] ^= 0x80
        elif m == 1:                     # non-minimal: trailing zero group(s)
            e[-1] |= 0x80
            e += [0x80] * rng.randrange(0, 3) + [0x00]
        elif m == 2:                     # too long
            e = [b | 0x80 for b in e] + [0x80] * (5 - len(e)) + [rng.choice([0x01, 0x80, 0x7F])]
        elif m == 3:                     # cut
            e = e[:rng.randrange(len(e))]
            if e:
                e[-1] |= 0x80
        elif m == 4:                     # random bytes
            e = [rng.randrange(256) for _ in range(rng.randrange(0, 8))]
        elif m == 5:                     # flip any bit
            i = rng.randrange(len(e))
            e[i] ^= 1 << rng.randrange(8)
        elif m == 6 and with_overflow:   # five bytes, bits above the 32nd set
            e = [b | 0x80 for b in leb(n)[:4]]
            e += [0x80] * (4 - len(e)) + [rng.randrange(0x10, 0x80)]
        elif m == 7:                     # exactly five bytes, fifth below 0x10
            e = [rng.randrange(0x80, 0x100) for _ in range(4)] + [rng.randrange(0, 0x10)]
        e += [rng.randrange(256) for _ in range(rng.randrange(0, 4))]
        out.append(e)
    return out


def gen_tags(rng, k, with_overflow):
    tags = [{"c": 0x0200}, {"c": 0x0201}]
    pool = [0, 1, 0x55, 0x71, 0x0129, 0x0202, 0x0300, 0x7F, 0x80, 0x3FFF, 0x4000, 0xFFFFFFFF, 0x200000]
    for _ in range(k):
        r = rng.random()
        if r < 0.55:
            tags.append({"c": rng.choice(pool) if rng.random() < 0.6 else rand_u32(rng)})
        else:
            raw = rng.choice([[0x81, 0x84, 0x00], [0x81, 0x04], [], [0x81], [0x81, 0x84], [0x80, 0x80, 0x80, 0x80, 0x80, 0x01],
                              [0x81, 0x84, 0x80, 0x00], [0x01, 0x04], [0x81, 0x05], [0x80, 0x04]]
                             + ([[0x81, 0x84, 0x80, 0x80, 0x10], [0x81, 0x84, 0x80, 0x80, 0x70]] if with_overflow else []))
            tags.append({"raw": raw})
    return tags


TEXTS = ["", "null", "\"x\"", "{\"a\":[1,2,{\"b\":null}]}", "é中\U0001F600", "a\"b\\c\n\t\u0000", "x" * 31, "x" * 32, "y" * 255,
         "z" * 256, "[" + ",".join(["1"] * 200) + "]"]


def gen_callmaps(rng, with_overflow):
    res = []
    for _ in range(rng.choice([0, 1, 1, 2, 3, 6, 17])):
        res.append([rng.choice([0, 1, 2, 3, 0xFFFFFFFF, rand_u32(rng)]),
                    rng.choice([0, 1, -1, 42, 2**31 - 1, -2**31, rng.randrange(-1000, 1000)]),
                    rng.choice(TEXTS) if rng.random() < 0.7 else "".join(chr(rng.randrange(32, 0x250)) for _ in range(rng.randrange(0, 40)))])
    req = []
    for _ in range(rng.choice([0, 1, 1, 2, 3, 5, 16])):
        req.append([rng.choice([0, 1, 2, 3, 0xFFFFFFFF, rand_u32(rng)]),
                    rng.choice(["", "srv", "op", "s" * 40, "é"]), rng.choice(["", "f", "identity", "fn" * 20]),
                    [rng.randrange(256) for _ in range(rng.choice([0, 1, 5, 31, 32, 40, 255, 256, 300]))],
                    [rng.randrange(256) for _ in range(rng.choice([0, 1, 7, 33, 260]))]])
    return {"kind": "callmaps", "results": res, "requests": req, "tags": gen_tags(rng, 8, with_overflow)}


VERSIONS = ["0.6.3", "0.61.0", "0.64.1", "1.2.3-alpha.1+build.5", "10.20.30", "0.0.0", "1.0.0-" + "a" * 40, "2.0.0+" + "b" * 300]
CORRUPT = [{"garbage": 0}, {"garbage": 1}, {"garbage": 24}, {"garbage": 255}, {"garbage": 256}, {"garbage": 1000}, {"flip": 0}, {"flip": 7},
           {"flip": 100}, {"flip": 1000}, {"truncate": 0}, {"truncate": 5}, {"truncate": 333}, {"empty": 1}]


def gen_envelope(rng, size):
    big = size >= 4096
    return {"kind": "envelope", "dv": rng.choice(VERSIONS), "iv": rng.choice(VERSIONS), "inner_len": size, "seed": rng.randrange(1 << 30),
            "cuts": [rng.randrange(1 << 20) for _ in range(1 if big else 6)] + ([] if big else [0, 1, 2, 9, 10]),
            "junk": [rng.randrange(256) for _ in range(rng.randrange(0, 5))],
            "flips": [rng.randrange(1 << 20) for _ in range(1 if big else 5)] + [0, 1, 2],
            "corrupt": [] if big else rng.sample(CORRUPT, 4)}


def gen_cases(rng, tier, escalate=False):
    scale = {"quick": 1, "thorough": 12}[tier] * (3 if escalate else 1)
    cases = []
    # (a) varints
    for _ in range(6 * scale):
        nums = BOUNDARY + [rand_u32(rng) for _ in range(30)]
        cases.append({"kind": "varint", "numbers": nums,
                      "rests": [[], [0], [0x80], [0xFF, 0x01], [rng.randrange(256) for _ in range(5)]],
                      "raw": mutated_strings(rng, 70, with_overflow=(rng.random() < 0.3))})
    # (b) generated call maps
    for _ in range(12 * scale):
        cases.append(gen_callmaps(rng, with_overflow=(rng.random() < 0.2)))
    # (c) synthetic envelopes around the header borders
    sizes = [0, 1, 2, 31, 32, 254, 255, 256, 257, 1000]
    for s in sizes:
        cases.append(gen_envelope(rng, s))
    for s in ([65535, 65536] if tier == "quick" else [65534, 65535, 65536, 65537, 70001, 131072]):
        cases.append(gen_envelope(rng, s))
    for _ in range(6 * scale):
        cases.append(gen_envelope(rng, rng.randrange(0, 3000)))
    # (d) histories
    for _ in range(8 * scale):
        prof = airgen.Profile(peers=3, depth=rng.choice([2, 3, 4]))
        script = airgen.gen_script(rng, prof)
        ops = airgen.gen_schedule(rng, n_ops=rng.choice([8, 12, 18]))
        steps = sorted(rng.sample(range(0, 16), 5 if tier == "quick" else 8))
        cases.append({"kind": "data", "script": script, "peers": airgen.PEERS[:3], "init": 0, "services": airgen.DEFAULT_SERVICES,
                      "ops": ops, "probe_steps": steps, "seed": rng.randrange(1 << 30),
                      "corrupt": rng.sample(CORRUPT, 5), "tags": gen_tags(rng, 3, with_overflow=False),
                      "raw_muts": {"cuts": [rng.randrange(1 << 20) for _ in range(3)], "junk": [0xC1, rng.randrange(256)],
                                   "flips": [rng.randrange(1 << 20) for _ in range(3)]}})
    return cases


def key_of(info):
    """The known-finding key when every failing observation of the term is of the known class
    (a five-byte tag whose value does not fit u32, accepted); None otherwise (= hard violation)."""
    if info.get("kind") == "varint_raw":
        return KNOWN_KEY if overflow_tag(info.get("bytes", [])) else None
    if info.get("kind") == "multi":
        if info.get("obs") != "ok_same":
            return None
        bad = []
        for t in info.get("tags", []):
            lab, obs = t.get("label"), t.get("obs")
            if lab == "raw_tag":
                if obs == "ok_different" or (obs == "ok_same" and t.get("tag") != t.get("canon")):
                    bad.append(t)
            elif lab == "same_codec":
                if obs != "ok_same":
                    bad.append(t)
            elif obs != "err_codec":
                bad.append(t)
        if bad and all(t.get("label") == "raw_tag" and t.get("obs") == "ok_same" and overflow_tag(t.get("tag", [])) for t in bad):
            return KNOWN_KEY
    return None


def evaluate(cases, result, tier):
    if not cases:
        return
    outs = vlib.harness_lines("wire", [json.dumps(c) for c in cases])
    small, big = [], []          # (term, case index, term index)
    for ci, o in enumerate(outs):
        if "error" in o:
            result["errors"].append(o["error"])
            continue
        for ti, t in enumerate(o["coq"]):
            (big if len(t) > 30000 else small).append((t, ci, ti))
            result["distinct"].add(hashlib.sha1(t.encode()).hexdigest()[:20])
        for cl in o["classes"] + o.get("classes_extra", []):
            result["distribution"][cl] = result["distribution"].get(cl, 0) + 1
            result["evaluations"] += 1
        if len(result["samples"]) < 3 and o["coq"] and cases[ci].get("kind") in ("callmaps", "data", "varint"):
            if not any(s["case"].get("kind") == cases[ci].get("kind") for s in result["samples"]):
                c = dict(cases[ci])
                for k in ("raw", "numbers"):
                    if k in c:
                        c[k] = c[k][:6]
                result["samples"].append({"case": c, "first_term": o["coq"][0][:600]})
    for tag, group, shard in (("wire", small, 120), ("wire_big", big, 3)):
        if not group:
            continue
        terms = [g[0] for g in group]
        fails, errs = vlib.coq_eval_cases(tag, HEADER, "case_t", {"model": "check_case", "oracle": "c27_oracle"}, terms,
                                          shard_size=shard, timeout=1500)
        result["errors"].extend(errs)
        for i in fails["model"]:
            _, ci, ti = group[i]
            result["mismatch"].append({"case": cases[ci], "term_index": ti, "term": terms[i][:3000], "info": outs[ci]["info"][ti],
                                       "what": "model/Wire.v disagrees with the implementation on this observation"})
        for i in fails["oracle"]:
            _, ci, ti = group[i]
            info = outs[ci]["info"][ti]
            result["oracle_fail"].append({"case": cases[ci], "term_index": ti, "term": terms[i][:3000], "info": info,
                                          "key": key_of(info),
                                          "what": "c27_oracle is false on the implementation's observation: " + outs[ci]["classes"][ti]})
