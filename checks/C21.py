"""C21 -- data from unsupported interpreter versions is rejected."""
import airgen
import runtop_common

PID = "C21"
MODEL_TARGETS = ["model/RunTopCases.vo"]
HARNESS_BINS = ["runtop"]
RULE = ("current data of real histories re-enveloped with every version of a grid around the minimal version "
        "(major/minor/patch in {0,1,60,61,62,2^32}, pre-release and build variants), alone and combined with "
        "mutations that break a neighbouring stage; distinct = different (mutation, version string, result code)")
PARTIAL = ["the order of semver::Version is modelled only against a minimal version that is a plain x.y.z triple "
           "(the translator fails otherwise); parsing of the version string is the semver crate's",
           "the previous data's version is not checked by the code (documented by the model, not part of the property)"]
ASSUMPTIONS = ["semver::Version::parse decides major/minor/patch/pre of the version strings"]


def version_grid(rng, n):
    nums = [0, 1, 60, 61, 62, 4294967296]
    pres = ["", "-alpha", "-0", "-rc.1"]
    builds = ["", "+x"]
    allv = []
    for a in [0, 1]:
        for b in nums:
            for c in [0, 1, 61]:
                for p in pres:
                    for bd in builds:
                        allv.append("%d.%d.%d%s%s" % (a, b, c, p, bd))
    must = ["0.61.0", "0.61.0-alpha", "0.60.9", "0.61.1", "0.61.0+x", "0.61.0-alpha+x", "0.60.4294967296", "1.0.0", "0.0.0", "0.62.0-rc.1"]
    return must + rng.sample(allv, n)


def gen_cases(rng, tier, escalate=False):
    n = {"quick": 6, "thorough": 60}[tier] * (4 if escalate else 1)
    cases = []
    for k in range(n):
        prof = airgen.Profile(peers=3, depth=rng.choice([2, 3]), canon=False)
        script = airgen.gen_script(rng, prof)
        ops = airgen.gen_schedule(rng, n_ops=10)
        muts = ["none"] + rng.sample(["cur_inner_garbage", "prev_garbage", "air_garbage", "cr_garbage", "bad_key_format", "cur_empty"], 2)
        cases.append({"mode": "versions", "script": script, "peers": airgen.PEERS[:3], "init": 0,
                      "services": airgen.DEFAULT_SERVICES, "ops": ops, "mutations": muts,
                      "probe_steps": sorted(rng.sample(range(1, 12), 3)),
                      "versions": version_grid(rng, 12 if tier == "quick" else 40), "seed": rng.randrange(1 << 30)})
    return cases


def evaluate(cases, result, tier):
    runtop_common.evaluate(cases, result, "c21_oracle")
