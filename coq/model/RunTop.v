(* RunTop.v -- the routing of air/src/runner.rs: execute_air_impl, up to the point where the
   instruction tree is executed.  Every stage that is not modelled here yet (decoders, verifier,
   parser, executor) is a field of [world]: the model says in which ORDER the stages run, which
   error each one yields, which flags the outcome carries and that a failing stage returns the
   previous data.  The size limits and the version check are modelled concretely.

   Mirrors:
     air/src/runner.rs                                  execute_air_impl
     air/src/preparation_step/sizes_limits_check.rs     check_against_size_limits, handle_limit_exceeding
     air/src/preparation_step/preparation.rs            parse_data, prepare, make_exec_ctx,
                                                        try_to_envelope, check_version_compatibility
     air/src/farewell_step/outcome.rs                   from_uncatchable_error
   Definitions only (proofs are in proofs/RunTopProofs.v). *)
From Aqua Require Import Base.
Open Scope N_scope.

(* ---- PreparationError, in the declaration order of air/src/preparation_step/errors.rs ---- *)
Inductive prep_err :=
| AIRParseError | DataDeFailed | EnvelopeDeFailed | EnvelopeDeFailedWithVersions
| CallResultsDeFailed | UnsupportedInterpreterVersion | MalformedKeyPairData
| CidStoreVerificationError | DataSignatureCheckError | SizeLimitsExceded.

Definition all_prep_err : list prep_err :=
  [AIRParseError; DataDeFailed; EnvelopeDeFailed; EnvelopeDeFailedWithVersions;
   CallResultsDeFailed; UnsupportedInterpreterVersion; MalformedKeyPairData;
   CidStoreVerificationError; DataSignatureCheckError; SizeLimitsExceded].

Definition prep_err_name (e : prep_err) : string :=
  match e with
  | AIRParseError => "AIRParseError" | DataDeFailed => "DataDeFailed"
  | EnvelopeDeFailed => "EnvelopeDeFailed"
  | EnvelopeDeFailedWithVersions => "EnvelopeDeFailedWithVersions"
  | CallResultsDeFailed => "CallResultsDeFailed"
  | UnsupportedInterpreterVersion => "UnsupportedInterpreterVersion"
  | MalformedKeyPairData => "MalformedKeyPairData"
  | CidStoreVerificationError => "CidStoreVerificationError"
  | DataSignatureCheckError => "DataSignatureCheckError"
  | SizeLimitsExceded => "SizeLimitsExceded"
  end%string.

Definition prep_err_eqb (a b : prep_err) : bool := String.eqb (prep_err_name a) (prep_err_name b).

(* generate_to_error_code!: position in the discriminant iterator + start id *)
Definition prep_err_index (e : prep_err) : N :=
  match index_of (prep_err_eqb e) all_prep_err with Some i => i | None => 0 end.
Definition prep_err_code (e : prep_err) : Z := (preparation_error_start_id + Z.of_N (prep_err_index e))%Z.

(* tie to the source: the hand-written enumeration is the generated one *)
Definition prep_table_agrees : bool :=
  list_eqb String.eqb (map prep_err_name all_prep_err) preparation_error_variants.

(* ---- limits ---- *)
Inductive size_kind := SzAir | SzParticle | SzCallResult.
Definition size_kind_eqb (a b : size_kind) : bool :=
  match a, b with SzAir, SzAir | SzParticle, SzParticle | SzCallResult, SzCallResult => true | _, _ => false end.

Record limits := { l_air : N; l_particle : N; l_result : N; l_hard : bool }.
Record flags := { f_air : bool; f_particle : bool; f_result : bool }.
Definition no_flags : flags := {| f_air := false; f_particle := false; f_result := false |}.
Definition flags_eqb (a b : flags) : bool :=
  Bool.eqb (f_air a) (f_air b) && Bool.eqb (f_particle a) (f_particle b) && Bool.eqb (f_result a) (f_result b).

(* the hand-written reading of the three checks; [limit_tables_agree] ties it to the source *)
Definition air_exceeds (l : limits) (air_len : N) : bool := l_air l <? air_len.           (* air.len() as u64 > limit *)
Definition particle_exceeds (l : limits) (cur_len : N) : bool := l_particle l <? cur_len.
Definition result_exceeds (l : limits) (sizes : list N) : bool := existsb (fun s => l_result l <? s) sizes.

Definition limit_entry_eqb (a b : string * cmp_op * string * string * string) : bool :=
  match a, b with
  | (a1, a2, a3, a4, a5), (b1, b2, b3, b4, b5) =>
      String.eqb a1 b1 && cmp_op_eqb a2 b2 && String.eqb a3 b3 && String.eqb a4 b4 && String.eqb a5 b5
  end.

Definition limit_tables_agree : bool :=
  list_eqb limit_entry_eqb early_limit_checks
    [("air", CmpGt, "air_size_limit", "air_size_limit_exceeded", "air_size_limit");
     ("raw_current_data", CmpGt, "particle_size_limit", "particle_size_limit_exceeded", "particle_size_limit")]%string
  && limit_entry_eqb call_result_limit_check
       ("call_result", CmpGt, "call_result_size_limit", "call_result_size_limit_exceeded", "call_result_size_limit")%string
  && handle_limit_exceeding_is_standard
  && (early_check_invocations =? 2)
  && first_early_check_reports_default_flags
  (* no other place of the interpreter reads a limit *)
  && list_eqb (pair_eqb String.eqb String.eqb) limit_use_sites
       [("air/src/preparation_step/preparation.rs", "call_result_size_limit");
        ("air/src/preparation_step/preparation.rs", "call_result_size_limit");
        ("air/src/preparation_step/sizes_limits_check.rs", "hard_limit_enabled");
        ("air/src/preparation_step/sizes_limits_check.rs", "air_size_limit");
        ("air/src/preparation_step/sizes_limits_check.rs", "air_size_limit");
        ("air/src/preparation_step/sizes_limits_check.rs", "particle_size_limit");
        ("air/src/preparation_step/sizes_limits_check.rs", "particle_size_limit")]%string.

(* ---- versions ---- *)
Record version := { v_major : N; v_minor : N; v_patch : N; v_pre_nonempty : bool }.
(* Order of semver::Version against a version x.y.z with empty pre-release and empty build
   metadata: lexicographic on the triple; on equal triples a pre-release is smaller; build
   metadata of the left side can only make it larger (the empty build is the least). *)
Definition triple_ltb (a b : N * N * N) : bool :=
  match a, b with
  | (a1, a2, a3), (b1, b2, b3) =>
      (a1 <? b1) || ((a1 =? b1) && ((a2 <? b2) || ((a2 =? b2) && (a3 <? b3))))
  end.
Definition triple_eqb (a b : N * N * N) : bool :=
  match a, b with (a1, a2, a3), (b1, b2, b3) => (a1 =? b1) && (a2 =? b2) && (a3 =? b3) end.
Definition v_triple (v : version) := (v_major v, v_minor v, v_patch v).
Definition version_lt_min (v : version) : bool :=
  triple_ltb (v_triple v) min_version || (triple_eqb (v_triple v) min_version && v_pre_nonempty v).
Definition min_as_version : version :=
  match min_version with (a, b, c) => {| v_major := a; v_minor := b; v_patch := c; v_pre_nonempty := false |} end.

Definition version_check_agrees : bool :=
  String.eqb version_check_field "interpreter_version" && cmp_op_eqb version_check_cmp CmpLt.

(* ---- the stages ---- *)
Inductive res (A : Type) := ROk (a : A) | RErr (e : prep_err).
Arguments ROk {A} a. Arguments RErr {A} e.

Section Run.
  (* X: whatever execution + signing + farewell produce from here on (code, message, data,
     next peers, requests) -- opaque at this level *)
  Variable X : Type.

  Record world := {
    w_air_len : N;                     (* air.len() *)
    w_cur_len : N;                     (* raw_current_data.len() *)
    w_prev_empty : bool;
    w_prev_env : res unit;             (* InterpreterDataEnvelope::try_from_slice(prev), when prev is non-empty *)
    w_cur_env : res version;           (* ... of current data, when non-empty: its interpreter_version *)
    w_prev_inner : res unit;           (* InterpreterData::try_from_slice(prev_envelope.inner_data) *)
    w_cur_inner : res unit;
    w_verify : res unit;               (* verification_step::verify *)
    w_parse_air : res unit;            (* air_parser::parse *)
    w_call_results : res (list N);     (* CallResultsRepr.deserialize: the result string lengths *)
    w_keypair : res unit;              (* KeyFormat::try_from / KeyPair::from_secret_key *)
    w_rest : X                         (* execute .. farewell *)
  }.

  (* each stage can only report its own errors (read off the constructors used in
     preparation.rs / verification_step.rs) *)
  Definition err_in (allowed : list prep_err) {A} (r : res A) : bool :=
    match r with ROk _ => true | RErr e => existsb (prep_err_eqb e) allowed end.
  Definition wf_world (w : world) : bool :=
    err_in [EnvelopeDeFailed; EnvelopeDeFailedWithVersions] (w_prev_env w) &&
    err_in [EnvelopeDeFailed; EnvelopeDeFailedWithVersions] (w_cur_env w) &&
    err_in [DataDeFailed] (w_prev_inner w) && err_in [DataDeFailed] (w_cur_inner w) &&
    err_in [CidStoreVerificationError; DataSignatureCheckError] (w_verify w) &&
    err_in [AIRParseError] (w_parse_air w) && err_in [CallResultsDeFailed] (w_call_results w) &&
    err_in [MalformedKeyPairData] (w_keypair w).

  Inductive outcome :=
  | Failed (e : prep_err) (sub : option size_kind) (fl : flags)   (* data = prev bytes, no peers, no requests *)
  | Rest (x : X) (fl : flags).

  (* check_against_size_limits *)
  Definition check_against_size_limits (l : limits) (w : world) : flags + size_kind :=
    let a := air_exceeds l (w_air_len w) in
    if a && l_hard l then inr SzAir else
    let p := particle_exceeds l (w_cur_len w) in
    if p && l_hard l then inr SzParticle else
    inl {| f_air := a; f_particle := p; f_result := false |}.

  (* try_to_envelope: empty bytes are the empty data of the minimal supported version *)
  Definition prev_envelope (w : world) : res unit :=
    if w_prev_empty w then ROk tt else w_prev_env w.
  Definition cur_envelope (w : world) : res version :=
    if w_cur_len w =? 0 then ROk min_as_version else w_cur_env w.
  Definition prev_inner (w : world) : res unit := if w_prev_empty w then ROk tt else w_prev_inner w.
  Definition cur_inner (w : world) : res unit := if w_cur_len w =? 0 then ROk tt else w_cur_inner w.

  Definition execute_air (l : limits) (w : world) : outcome :=
    match check_against_size_limits l w with
    | inr k => Failed SizeLimitsExceded (Some k) no_flags            (* first invocation: default flags *)
    | inl fl =>
      (* the second invocation computes the same thing and cannot fail any more *)
      (* parse_data *)
      match prev_envelope w with RErr e => Failed e None fl | ROk _ =>
      match cur_envelope w with RErr e => Failed e None fl | ROk v =>
      if version_lt_min v then Failed UnsupportedInterpreterVersion None fl else
      match prev_inner w with RErr e => Failed e None fl | ROk _ =>
      match cur_inner w with RErr e => Failed e None fl | ROk _ =>
      (* verify *)
      match w_verify w with RErr e => Failed e None fl | ROk _ =>
      (* prepare *)
      match w_parse_air w with RErr e => Failed e None fl | ROk _ =>
      match w_call_results w with RErr e => Failed e None fl | ROk sizes =>
      let r := result_exceeds l sizes in
      let fl' := {| f_air := f_air fl; f_particle := f_particle fl; f_result := r |} in
      if r && l_hard l then Failed SizeLimitsExceded (Some SzCallResult) fl' else
      match w_keypair w with RErr e => Failed e None fl' | ROk _ =>
      Rest (w_rest w) fl'
      end end end end end end end end
    end.

  Definition unlimited : limits :=
    {| l_air := 18446744073709551615; l_particle := 18446744073709551615;
       l_result := 18446744073709551615; l_hard := false |}.

  Definition sizes_fit_u64 (w : world) : Prop :=
    w_air_len w <= 18446744073709551615 /\ w_cur_len w <= 18446744073709551615 /\
    match w_call_results w with ROk sizes => Forall (fun s => s <= 18446744073709551615) sizes | RErr _ => True end.

  Definition with_flags (o : outcome) (fl : flags) : outcome :=
    match o with Failed e s _ => Failed e s fl | Rest x _ => Rest x fl end.

  Definition reached_result_check (w : world) : option (list N) :=
    match prev_envelope w, cur_envelope w with
    | ROk _, ROk v =>
        if version_lt_min v then None else
        match prev_inner w, cur_inner w, w_verify w, w_parse_air w, w_call_results w with
        | ROk _, ROk _, ROk _, ROk _, ROk sizes => Some sizes
        | _, _, _, _, _ => None
        end
    | _, _ => None
    end.

  (* what the soft-limit flags must be, read off the inputs alone *)
  Definition expected_flags (l : limits) (w : world) : flags :=
    {| f_air := air_exceeds l (w_air_len w);
       f_particle := particle_exceeds l (w_cur_len w);
       f_result := match reached_result_check w with Some sizes => result_exceeds l sizes | None => false end |}.

  (* ---------------- statements of C22 ---------------- *)
  Definition C22_hard_stmt : Prop :=
    forall l w, l_hard l = true ->
      (air_exceeds l (w_air_len w) = true ->
         execute_air l w = Failed SizeLimitsExceded (Some SzAir) no_flags) /\
      (air_exceeds l (w_air_len w) = false -> particle_exceeds l (w_cur_len w) = true ->
         execute_air l w = Failed SizeLimitsExceded (Some SzParticle) no_flags) /\
      (air_exceeds l (w_air_len w) = false -> particle_exceeds l (w_cur_len w) = false ->
         forall sizes, reached_result_check w = Some sizes -> result_exceeds l sizes = true ->
         execute_air l w = Failed SizeLimitsExceded (Some SzCallResult)
                             {| f_air := false; f_particle := false; f_result := true |}) /\
      (* whatever is oversized, and even when an earlier stage fails first, the run is rejected *)
      (air_exceeds l (w_air_len w) = true \/ particle_exceeds l (w_cur_len w) = true \/
       (exists sizes, w_call_results w = ROk sizes /\ result_exceeds l sizes = true) ->
         exists e s fl, execute_air l w = Failed e s fl).

  Definition C22_below_stmt : Prop :=
    forall l w,
      air_exceeds l (w_air_len w) = false -> particle_exceeds l (w_cur_len w) = false ->
      (forall sizes, w_call_results w = ROk sizes -> result_exceeds l sizes = false) ->
      sizes_fit_u64 w -> wf_world w = true ->
      execute_air l w = execute_air unlimited w /\
      (forall e s fl, execute_air l w = Failed e s fl -> e <> SizeLimitsExceded /\ fl = no_flags) /\
      (forall x fl, execute_air l w = Rest x fl -> fl = no_flags).

  Definition C22_soft_stmt : Prop :=
    forall l w, l_hard l = false -> sizes_fit_u64 w -> wf_world w = true ->
      execute_air l w = with_flags (execute_air unlimited w) (expected_flags l w) /\
      (forall e s fl, execute_air l w = Failed e s fl -> e <> SizeLimitsExceded).

  Definition C22_full : Prop := C22_hard_stmt /\ C22_below_stmt /\ C22_soft_stmt.

  (* ---------------- statements of C21 ---------------- *)
  (* the stages before the version check succeed *)
  Definition reaches_version_check (l : limits) (w : world) : Prop :=
    (exists fl, check_against_size_limits l w = inl fl) /\ prev_envelope w = ROk tt.

  Definition C21_reject_stmt : Prop :=
    forall l w v, wf_world w = true -> reaches_version_check l w -> cur_envelope w = ROk v ->
      (version_lt_min v = true <->
       exists fl, execute_air l w = Failed UnsupportedInterpreterVersion None fl).

  (* the order itself: below the minimum iff smaller triple, or equal triple with a pre-release *)
  Definition C21_order_stmt : Prop :=
    forall v, version_lt_min v = true <->
      (let '(a, b, c) := min_version in
       v_major v < a \/ (v_major v = a /\ (v_minor v < b \/ (v_minor v = b /\ v_patch v < c))) \/
       (v_major v = a /\ v_minor v = b /\ v_patch v = c /\ v_pre_nonempty v = true)).

  Definition C21_empty_stmt : Prop :=
    forall l w, w_cur_len w = 0 -> wf_world w = true ->
      cur_envelope w = ROk min_as_version /\ cur_inner w = ROk tt /\
      version_lt_min min_as_version = false /\
      (forall e s fl, execute_air l w = Failed e s fl -> e <> UnsupportedInterpreterVersion).

  (* a supported version is never the reason for a rejection; and the version of the previous
     data is not looked at (documents the code) *)
  Definition C21_supported_stmt : Prop :=
    forall l w v, wf_world w = true -> cur_envelope w = ROk v -> version_lt_min v = false ->
      forall e s fl, execute_air l w = Failed e s fl -> e <> UnsupportedInterpreterVersion.

  Definition C21_full : Prop := C21_reject_stmt /\ C21_order_stmt /\ C21_empty_stmt /\ C21_supported_stmt.
End Run.

Arguments Failed {X} e sub fl.
Arguments Rest {X} x fl.
