(* CanonProofs.v -- proofs of the C11 statements of model/CanonSpec.v. *)
From Coq Require Import Lia.
From Aqua Require Import Base Json Air Trace Handler Values Scalars Lens Exec RunExec ExecStreams CallSpec CanonSpec.
From Aqua Require Import JsonFacts ExecInv.
From Aqua Require Stream.
Open Scope N_scope.
Open Scope list_scope.

(* ------------------------------------------------------------------------------------------ *)
(* equality on content ids reflects equality *)

Section CidInd.
  Variable P : cid -> Prop.
  Hypothesis HV : forall j, P (CValue j).
  Hypothesis HT : forall t, P (CTetraplet t).
  Hypothesis HA : forall a, P (CArgs a).
  Hypothesis HS : forall a b c, P a -> P b -> P c -> P (CService a b c).
  Hypothesis HE : forall v t prov, P v -> P t -> (forall k c, prov = Some (k, c) -> P c) -> P (CCanonElem v t prov).
  Hypothesis HR : forall t vs, P t -> Forall P vs -> P (CCanonResult t vs).
  Hypothesis HO : forall s, P (COpaque s).

  Fixpoint cid_ind' (c : cid) : P c :=
    match c with
    | CValue j => HV j
    | CTetraplet t => HT t
    | CArgs a => HA a
    | CService a b d => HS a b d (cid_ind' a) (cid_ind' b) (cid_ind' d)
    | CCanonElem v t prov =>
        HE v t prov (cid_ind' v) (cid_ind' t)
           (match prov as o return (forall k c0, o = Some (k, c0) -> P c0) with
            | None => fun k c0 E => match E in (_ = y) return (match y with None => True | Some _ => P c0 end) with eq_refl => I end
            | Some (k0, c1) => fun k c0 E =>
                match E in (_ = y) return (match y with Some (_, z) => P z | None => True end) with
                | eq_refl => cid_ind' c1 end
            end)
    | CCanonResult t vs =>
        HR t vs (cid_ind' t)
           ((fix go (l : list cid) : Forall P l :=
               match l with [] => Forall_nil P | x :: r => Forall_cons x (cid_ind' x) (go r) end) vs)
    | COpaque s => HO s
    end.
End CidInd.

Lemma tetraplet_eqb_eq a b : tetraplet_eqb a b = true <-> a = b.
Proof.
  destruct a as [a1 a2 a3 a4], b as [b1 b2 b3 b4]. unfold tetraplet_eqb. cbn [tp_peer tp_service tp_function tp_lens].
  rewrite !andb_true_iff, !String.eqb_eq. split.
  - intros [[[-> ->] ->] ->]. reflexivity.
  - intros E. inversion E. auto.
Qed.

Lemma cid_list_eqb_eq (vs : list cid) :
  Forall (fun x => forall y, cid_eqb x y = true <-> x = y) vs ->
  forall vs',
    (fix go (l l' : list cid) : bool :=
       match l, l' with
       | [], [] => true
       | x :: r, y :: r' => cid_eqb x y && go r r'
       | _, _ => false
       end) vs vs' = true <-> vs = vs'.
Proof.
  induction 1 as [| x r Hx _ IH]; intros [| y r']; try (split; discriminate).
  - split; reflexivity.
  - rewrite andb_true_iff, Hx, IH. split; [intros [-> ->]; reflexivity | intros E; inversion E; auto].
Qed.

Theorem cid_eqb_eq : forall a b, cid_eqb a b = true <-> a = b.
Proof.
  induction a as [j | t | args | a1 a2 a3 IH1 IH2 IH3 | v t prov IHv IHt IHp | t vs IHt IHvs | s] using cid_ind'; intros b.
  - destruct b; cbn [cid_eqb]; try (split; discriminate). rewrite json_eqb_eq. split; congruence.
  - destruct b; cbn [cid_eqb]; try (split; discriminate). rewrite tetraplet_eqb_eq. split; congruence.
  - destruct b; cbn [cid_eqb]; try (split; discriminate).
    rewrite (list_eqb_eq json_eqb args). { split; congruence. }
    apply Forall_forall. intros x _ y. apply json_eqb_eq.
  - destruct b; cbn [cid_eqb]; try (split; discriminate).
    rewrite !andb_true_iff, IH1, IH2, IH3. split; [intros [[-> ->] ->]; reflexivity | intros E; inversion E; auto].
  - destruct b as [| | | | v' t' prov' | |]; cbn [cid_eqb]; try (split; discriminate).
    rewrite !andb_true_iff, IHv, IHt.
    destruct prov as [[k c]|], prov' as [[k' c']|].
    + rewrite andb_true_iff, Bool.eqb_true_iff, (IHp k c eq_refl).
      split; [intros [[-> ->] [-> ->]]; reflexivity | intros E; inversion E; auto].
    + split; [intros [_ E]; discriminate | discriminate].
    + split; [intros [_ E]; discriminate | discriminate].
    + split; [intros [[-> ->] _]; reflexivity | intros E; inversion E; auto].
  - destruct b as [| | | | | t' vs' |]; cbn [cid_eqb]; try (split; discriminate).
    rewrite andb_true_iff, IHt, (cid_list_eqb_eq vs IHvs).
    split; [intros [-> ->]; reflexivity | intros E; inversion E; auto].
  - destruct b; cbn [cid_eqb]; try (split; discriminate). rewrite String.eqb_eq. split; congruence.
Qed.

Lemma cid_eqb_refl a : cid_eqb a a = true.
Proof. apply cid_eqb_eq. reflexivity. Qed.

Lemma cid_eqb_neq a b : a <> b -> cid_eqb a b = false.
Proof. intros H. destruct (cid_eqb a b) eqn:E; [apply cid_eqb_eq in E; contradiction | reflexivity]. Qed.

(* ------------------------------------------------------------------------------------------ *)
(* cid_mem / cid_track *)

Lemma cid_mem_in c l : cid_mem c l = true <-> In c l.
Proof.
  unfold cid_mem. rewrite existsb_exists. split.
  - intros (x & Hin & E). apply cid_eqb_eq in E. subst. exact Hin.
  - intros H. exists c. split; [exact H | apply cid_eqb_refl].
Qed.

Lemma cid_track_mem c l : cid_mem c (cid_track c l) = true.
Proof.
  unfold cid_track. destruct (cid_mem c l) eqn:E; [exact E |].
  apply cid_mem_in, in_or_app. right. left. reflexivity.
Qed.

Lemma cid_track_mono c d l : cid_mem d l = true -> cid_mem d (cid_track c l) = true.
Proof.
  unfold cid_track. destruct (cid_mem c l); [auto |]. rewrite !cid_mem_in. intros H. apply in_or_app. left. exact H.
Qed.

(* ------------------------------------------------------------------------------------------ *)
(* the canon merger *)

Lemma merge_executed_diff a b :
  a <> b -> merge_canon_results cid cid_eqb (CanonExecuted a) (CanonExecuted b) = Err CanonIncompatibleState.
Proof. intros H. cbn [merge_canon_results]. rewrite (cid_eqb_neq _ _ H). reflexivity. Qed.

Lemma merge_executed_absorbs a s :
  merge_canon_results cid cid_eqb (CanonExecuted a) (CanonRequestSentBy s) = Ok (CanonExecuted a) /\
  merge_canon_results cid cid_eqb (CanonRequestSentBy s) (CanonExecuted a) = Ok (CanonExecuted a) /\
  merge_canon_results cid cid_eqb (CanonExecuted a) (CanonExecuted a) = Ok (CanonExecuted a).
Proof. cbn [merge_canon_results]. rewrite cid_eqb_refl. repeat split. Qed.

Lemma merge_keeps_executed p c r a :
  merge_canon_results cid cid_eqb p c = Ok r ->
  p = CanonExecuted a \/ c = CanonExecuted a -> r = CanonExecuted a.
Proof.
  destruct p as [s | x], c as [s' | y]; cbn [merge_canon_results]; intros E [H | H]; try discriminate;
    inversion H; subst; try (inversion E; reflexivity).
  - destruct (cid_eqb a y); inversion E; reflexivity.
  - destruct (cid_eqb x a) eqn:Ex; inversion E; subst. apply cid_eqb_eq in Ex. subst. reflexivity.
Qed.

Lemma merge_seq_keeps_executed a l : forall r, merge_seq (CanonExecuted a) l = Ok r -> r = CanonExecuted a.
Proof.
  induction l as [| [side s] l IH]; intros r; cbn [merge_seq].
  - intros E. inversion E. reflexivity.
  - destruct side; unfold Handler.bind.
    + destruct (merge_canon_results cid cid_eqb (CanonExecuted a) s) as [m | e | st] eqn:E; try discriminate.
      rewrite (merge_keeps_executed _ _ _ a E (or_introl eq_refl)). apply IH.
    + destruct (merge_canon_results cid cid_eqb s (CanonExecuted a)) as [m | e | st] eqn:E; try discriminate.
      rewrite (merge_keeps_executed _ _ _ a E (or_intror eq_refl)). apply IH.
Qed.

Lemma try_merge_next_state_as_canon_result k m k' :
  try_merge_next_state_as_canon cid cid_eqb k = Ok (m, k') -> k_result cid k' = k_result cid k.
Proof.
  unfold try_merge_next_state_as_canon.
  destruct (next_states cid k) as [[p c] k1] eqn:En. pose proof (next_states_result _ _ _ _ En) as Hn.
  destruct p as [[]|], c as [[]|]; try discriminate.
  - unfold Handler.bind. destruct (merge_canon_results cid cid_eqb c0 c); try discriminate.
    intros E. inversion E; subst. exact Hn.
  - intros E. inversion E; subst. exact Hn.
  - intros E. inversion E; subst. exact Hn.
  - intros E. inversion E; subst. exact Hn.
Qed.

Lemma meet_canon_start_result h m h' :
  meet_canon_start cid cid_eqb h = Ok (m, h') -> result_trace cid h' = result_trace cid h.
Proof.
  unfold meet_canon_start, Handler.bind.
  destruct (try_merge_next_state_as_canon cid cid_eqb (h_keeper cid h)) as [[m0 k0]| |] eqn:E; try discriminate.
  intros E2. inversion E2; subst. cbn [fst snd]. unfold result_trace. cbn [with_keeper h_keeper].
  apply (try_merge_next_state_as_canon_result _ _ _ E).
Qed.

Lemma meet_canon_start_executed h r h' a :
  meet_canon_start cid cid_eqb h = Ok (r, h') ->
  next_prev_state h = Some (SCanon (CanonExecuted a)) \/ next_cur_state h = Some (SCanon (CanonExecuted a)) ->
  r = CanonMet cid (CanonExecuted a).
Proof.
  unfold meet_canon_start, Handler.bind, next_prev_state, next_cur_state, try_merge_next_state_as_canon, next_states.
  destruct (next_state cid (k_prev cid (h_keeper cid h))) as [p sp].
  destruct (next_state cid (k_cur cid (h_keeper cid h))) as [c sc]. cbn [fst snd].
  intros E [H | H]; subst.
  - destruct c as [[]|]; try discriminate.
    + unfold Handler.bind in E.
      destruct (merge_canon_results cid cid_eqb (CanonExecuted a) c) as [m | |] eqn:Em; try discriminate.
      rewrite (merge_keeps_executed _ _ _ a Em (or_introl eq_refl)) in E. inversion E. reflexivity.
    + inversion E. reflexivity.
  - destruct p as [[]|]; try discriminate.
    + unfold Handler.bind in E.
      destruct (merge_canon_results cid cid_eqb c (CanonExecuted a)) as [m | |] eqn:Em; try discriminate.
      rewrite (merge_keeps_executed _ _ _ a Em (or_intror eq_refl)) in E. inversion E. reflexivity.
    + inversion E. reflexivity.
Qed.

(* ------------------------------------------------------------------------------------------ *)
(* the canon instructions (canon, canon_map, canon_stream_map_scalar) *)

Lemma exec_canon_unfold k tb x p stream r h :
  meet_canon_start cid cid_eqb (x_handler x) = Ok (r, h) ->
  exec_canon_generic k tb x p stream =
    let x0 := set_handler x h in
    match r with
    | CanonMet _ (CanonExecuted c) => handle_canon_executed k x0 p c
    | CanonMet _ (CanonRequestSentBy sender) =>
        lift x0 (resolve_peer_id_to_string x0 p) (fun peer =>
          if negb (String.eqb (current_peer x0) peer) then
            let x1 := make_incomplete x0 in
            XOk (set_handler x1 (meet_canon_end cid (x_handler x1) (CanonRequestSentBy sender)))
          else create_canon_first_time k tb x0 stream peer)
    | CanonEmpty _ =>
        match resolve_peer_id_to_string x0 p with
        | PErr e => if is_joinable e then XOk (make_incomplete x0) else XErr e x0
        | PCrash s => XCrash s
        | PUnsupported w => XUnsupported w
        | POk peer =>
            if negb (String.eqb (current_peer x0) peer) then
              let x1 := set_next_peers (make_incomplete x0) (x_next_peers x0 ++ [peer]) in
              XOk (set_handler x1 (meet_canon_end cid (x_handler x1) (CanonRequestSentBy (current_peer x1))))
            else create_canon_first_time k tb x0 stream peer
        end
    end.
Proof. intros E. unfold exec_canon_generic. rewrite E. reflexivity. Qed.

(* peer resolution reads scalars, iterables and canon variables only *)
Lemma resolve_peer_set_handler x h p : resolve_peer_id_to_string (set_handler x h) p = resolve_peer_id_to_string x p.
Proof. destruct p; reflexivity. Qed.
Lemma resolve_peer_with_tables x ms mm p : resolve_peer_id_to_string (with_tables x ms mm) p = resolve_peer_id_to_string x p.
Proof. destruct p; reflexivity. Qed.

Lemma tr_meet_canon_end x c : tr (set_handler x (meet_canon_end cid (x_handler x) c)) = tr x ++ [SCanon c].
Proof. reflexivity. Qed.

Lemma same_tables_refl x : same_tables x x.
Proof. split; reflexivity. Qed.

(* the epilogs: set the variable, write Executed(c) *)
Lemma canon_epilog_ok k x values t c y :
  canon_epilog k x values t c = XOk y ->
  value_bound k x y values t c /\
  tr y = tr x ++ [SCanon (CanonExecuted c)] /\
  same_tables x y /\ x_cids y = x_cids x /\ x_tracker y = x_tracker x /\ x_next_peers y = x_next_peers x.
Proof.
  unfold canon_epilog. destruct k as [name | name | name].
  - unfold set_canon_value.
    destruct (Scalars.set_value canon_wp (x_canons x) name _) as [[m b] | e] eqn:E; cbn [lift]; [| discriminate].
    intros Hy. inversion Hy; subst. repeat split. exists b. exact E.
  - destruct (negb (kv_pairs_valid values)); [discriminate |]. unfold set_canon_map_value.
    destruct (Scalars.set_value canon_map_wp (e_canon_maps (x_ext x)) name _) as [[m b] | e] eqn:E; cbn [lift]; [| discriminate].
    intros Hy. inversion Hy; subst. repeat split. exists b. exact E.
  - destruct values as [| v rest]; [discriminate |]. unfold set_scalar_value.
    destruct (Scalars.set_value vagg (x_scalars x) name _) as [[m b] | e] eqn:E; cbn [lift]; [| discriminate].
    intros Hy. inversion Hy; subst. repeat split. exists v, rest, b. split; [reflexivity | exact E].
Qed.

Lemma canon_epilog_ctx k x values t c y :
  outcome_ctx (canon_epilog k x values t c) = Some y ->
  same_tables x y /\ x_cids y = x_cids x /\ x_tracker y = x_tracker x /\ x_next_peers y = x_next_peers x /\
  (tr y = tr x \/ tr y = tr x ++ [SCanon (CanonExecuted c)]).
Proof.
  unfold canon_epilog. destruct k as [name | name | name].
  - unfold set_canon_value.
    destruct (Scalars.set_value canon_wp (x_canons x) name _) as [[m b] | e]; cbn [lift outcome_ctx];
      intros Hy; inversion Hy; subst; repeat split; [right | left]; reflexivity.
  - destruct (negb (kv_pairs_valid values)).
    + cbn [outcome_ctx]. intros Hy; inversion Hy; subst. repeat split. left; reflexivity.
    + unfold set_canon_map_value.
      destruct (Scalars.set_value canon_map_wp (e_canon_maps (x_ext x)) name _) as [[m b] | e]; cbn [lift outcome_ctx];
        intros Hy; inversion Hy; subst; repeat split; [right | left]; reflexivity.
  - destruct values as [| v rest].
    + cbn [outcome_ctx]. intros Hy; inversion Hy; subst. repeat split. left; reflexivity.
    + unfold set_scalar_value.
      destruct (Scalars.set_value vagg (x_scalars x) name _) as [[m b] | e]; cbn [lift outcome_ctx];
        intros Hy; inversion Hy; subst; repeat split; [right | left]; reflexivity.
Qed.

Lemma canon_epilog_with_tables k x ms mm values t c :
  canon_epilog k (with_tables x ms mm) values t c = xres_map (fun y => with_tables y ms mm) (canon_epilog k x values t c).
Proof.
  unfold canon_epilog. destruct k as [name | name | name].
  - unfold set_canon_value. change (x_canons (with_tables x ms mm)) with (x_canons x).
    destruct (Scalars.set_value canon_wp (x_canons x) name _) as [[m0 b] | e]; reflexivity.
  - destruct (negb (kv_pairs_valid values)); [reflexivity |]. unfold set_canon_map_value.
    change (e_canon_maps (x_ext (with_tables x ms mm))) with (e_canon_maps (x_ext x)).
    destruct (Scalars.set_value canon_map_wp (e_canon_maps (x_ext x)) name _) as [[m0 b] | e]; reflexivity.
  - destruct values as [| v rest]; [reflexivity |]. unfold set_scalar_value.
    change (x_scalars (with_tables x ms mm)) with (x_scalars x).
    change (trace_pos_of (with_tables x ms mm)) with (trace_pos_of x).
    destruct (Scalars.set_value vagg (x_scalars x) name _) as [[m0 b] | e]; reflexivity.
Qed.

Lemma record_cid_with_tables x ms mm peer c : record_cid (with_tables x ms mm) peer c = with_tables (record_cid x peer c) ms mm.
Proof. unfold record_cid. change (current_peer (with_tables x ms mm)) with (current_peer x). destruct (String.eqb peer (current_peer x)); reflexivity. Qed.

(* record_cid only touches the tracker *)
Lemma record_cid_fields x z c :
  x_canons (record_cid x z c) = x_canons x /\ x_scalars (record_cid x z c) = x_scalars x /\
  x_ext (record_cid x z c) = x_ext x /\ tr (record_cid x z c) = tr x /\ x_cids (record_cid x z c) = x_cids x /\
  x_next_peers (record_cid x z c) = x_next_peers x /\
  x_tracker (record_cid x z c) = (if String.eqb z (current_peer x) then x_tracker x ++ [c] else x_tracker x).
Proof. unfold record_cid. destruct (String.eqb z (current_peer x)); repeat split. Qed.

Lemma value_bound_transfer k x x' y values t c :
  x_canons x' = x_canons x -> x_scalars x' = x_scalars x -> x_ext x' = x_ext x -> tr x' = tr x ->
  value_bound k x' y values t c -> value_bound k x y values t c.
Proof.
  intros E1 E2 E3 E4. destruct k; cbn [value_bound]; unfold canon_bound; rewrite ?E1, ?E2, ?E3, ?E4; auto.
Qed.

Lemma same_tables_transfer x x' y : x_ext x' = x_ext x -> same_tables x' y -> same_tables x y.
Proof. unfold same_tables. intros E. rewrite E. auto. Qed.

Lemma handle_canon_executed_with_tables k x ms mm p c :
  handle_canon_executed k (with_tables x ms mm) p c =
  xres_map (fun y => with_tables y ms mm) (handle_canon_executed k x p c).
Proof.
  unfold handle_canon_executed. rewrite resolve_peer_with_tables.
  destruct (resolve_peer_id_to_string x p) as [peer | e | s | w]; cbn [lift xres_map]; try reflexivity.
  change (x_cids (with_tables x ms mm)) with (x_cids x).
  destruct (negb (cid_mem c (cs_canon_results (x_cids x)))); [reflexivity |].
  destruct c; try reflexivity.
  destruct (negb (cid_mem c (cs_tetraplets (x_cids x)))); [reflexivity |].
  destruct c; try reflexivity.
  destruct (verify_canon (canon_tetraplet peer) t); cbn [lift xres_map]; try reflexivity.
  destruct (canon_values_by_cids (x_cids x) values); cbn [lift xres_map]; try reflexivity.
  rewrite record_cid_with_tables. apply canon_epilog_with_tables.
Qed.

(* decoding: the store lookups succeed only with what the content id itself says *)
Lemma canon_value_by_cid_decode cs c v : canon_value_by_cid cs c = POk v -> decode_canon_elem c = Some v.
Proof.
  unfold canon_value_by_cid. destruct (negb (cid_mem c (cs_canon_elems cs))); [discriminate |].
  destruct c; try discriminate.
  destruct (negb (cid_mem c1 (cs_values cs))); [discriminate |].
  destruct (negb (cid_mem c2 (cs_tetraplets cs))); [discriminate |].
  destruct c1; try discriminate. destruct c2; try discriminate.
  intros E. inversion E. reflexivity.
Qed.

Lemma canon_values_by_cids_decode cs l : forall vs, canon_values_by_cids cs l = POk vs -> decode_canon_elems l = Some vs.
Proof.
  induction l as [| c r IH]; intros vs; cbn [canon_values_by_cids decode_canon_elems].
  - intros E. inversion E. reflexivity.
  - destruct (canon_value_by_cid cs c) as [v | | |] eqn:Ev; cbn [pbind]; try discriminate.
    destruct (canon_values_by_cids cs r) as [vs0 | | |]; cbn [pbind]; try discriminate.
    intros E. inversion E; subst. rewrite (canon_value_by_cid_decode _ _ _ Ev), (IH vs0 eq_refl). reflexivity.
Qed.

Lemma verify_canon_ok e s : verify_canon e s = POk tt <-> e = s.
Proof.
  unfold verify_canon. destruct (tetraplet_eqb e s) eqn:E.
  - apply tetraplet_eqb_eq in E. split; auto.
  - split; [discriminate |]. intros H. apply tetraplet_eqb_eq in H. congruence.
Qed.

Lemma handle_canon_executed_ok k x p c y :
  handle_canon_executed k x p c = XOk y ->
  exists w, decode_canon_result c = Some w /\ value_bound k x y (cw_values w) (cw_tetraplet w) c /\
            tr y = tr x ++ [SCanon (CanonExecuted c)] /\ same_tables x y.
Proof.
  unfold handle_canon_executed.
  destruct (resolve_peer_id_to_string x p) as [peer | e | s | w]; cbn [lift]; try discriminate.
  destruct (negb (cid_mem c (cs_canon_results (x_cids x)))); [discriminate |].
  destruct c as [| | | | | tc vcs |]; try discriminate.
  destruct (negb (cid_mem tc (cs_tetraplets (x_cids x)))); [discriminate |].
  destruct tc as [| t | | | | |]; try discriminate.
  destruct (verify_canon (canon_tetraplet peer) t); cbn [lift]; try discriminate.
  destruct (canon_values_by_cids (x_cids x) vcs) as [values | | |] eqn:Ev; cbn [lift]; try discriminate.
  intros Hy. apply canon_epilog_ok in Hy. destruct Hy as (Hb & Ht & He & _).
  exists {| cw_values := values; cw_tetraplet := t; cw_cid := CCanonResult (CTetraplet t) vcs |}.
  cbn [decode_canon_result]. rewrite (canon_values_by_cids_decode _ _ _ Ev).
  split; [reflexivity |]. cbn [cw_values cw_tetraplet].
  destruct (record_cid_fields x (tp_peer t) (CCanonResult (CTetraplet t) vcs)) as (R1 & R2 & R3 & R4 & _).
  split; [apply (value_bound_transfer _ _ _ _ _ _ _ R1 R2 R3 R4 Hb) |].
  split; [rewrite Ht, R4; reflexivity | apply (same_tables_transfer _ _ _ R3 He)].
Qed.

Lemma handle_canon_executed_cids k x p c y :
  outcome_ctx (handle_canon_executed k x p c) = Some y ->
  x_cids y = x_cids x /\ x_next_peers y = x_next_peers x /\ (tr y = tr x \/ tr y = tr x ++ [SCanon (CanonExecuted c)]).
Proof.
  unfold handle_canon_executed.
  assert (Hx : forall e, outcome_ctx (XErr e x) = Some y ->
            x_cids y = x_cids x /\ x_next_peers y = x_next_peers x /\ (tr y = tr x \/ tr y = tr x ++ [SCanon (CanonExecuted c)])).
  { intros e Hy. inversion Hy; subst. repeat split. left; reflexivity. }
  destruct (resolve_peer_id_to_string x p) as [peer | e | s | w]; cbn [lift]; try discriminate; try apply Hx.
  destruct (negb (cid_mem c (cs_canon_results (x_cids x)))); [apply Hx |].
  destruct c as [| | | | | tc vcs |]; try discriminate.
  destruct (negb (cid_mem tc (cs_tetraplets (x_cids x)))); [apply Hx |].
  destruct tc as [| t | | | | |]; try discriminate.
  destruct (verify_canon (canon_tetraplet peer) t); cbn [lift]; try discriminate; try apply Hx.
  destruct (canon_values_by_cids (x_cids x) vcs) as [values | | |]; cbn [lift]; try discriminate; try apply Hx.
  intros Hy. apply canon_epilog_ctx in Hy. destruct Hy as (_ & Hc & _ & Hn & Ht).
  destruct (record_cid_fields x (tp_peer t) (CCanonResult (CTetraplet t) vcs)) as (_ & _ & _ & R4 & R5 & R6 & _).
  rewrite R5 in Hc. rewrite R4 in Ht. rewrite R6 in Hn. repeat split; assumption.
Qed.

Theorem C11_reuse : C11_reuse_stmt.
Proof.
  intros k tb x p stream c [h Hm]. split; [| split].
  - intros ms mm tb' stream'.
    assert (Hm' : meet_canon_start cid cid_eqb (x_handler (with_tables x ms mm)) = Ok (CanonMet cid (CanonExecuted c), h)) by exact Hm.
    rewrite (exec_canon_unfold _ _ _ _ _ _ _ Hm'), (exec_canon_unfold _ _ _ _ _ _ _ Hm). cbv zeta.
    change (set_handler (with_tables x ms mm) h) with (with_tables (set_handler x h) ms mm).
    apply handle_canon_executed_with_tables.
  - intros y. rewrite (exec_canon_unfold _ _ _ _ _ _ _ Hm). cbv zeta. intros Hy.
    apply handle_canon_executed_ok in Hy. destruct Hy as (w & Hd & Hb & Ht & He).
    pose proof (meet_canon_start_result _ _ _ Hm) as Hres.
    assert (T0 : tr (set_handler x h) = tr x) by (unfold tr; cbn [x_handler set_handler]; exact Hres).
    exists w. split; [exact Hd |].
    split; [apply (value_bound_transfer k x (set_handler x h) y _ _ _ eq_refl eq_refl eq_refl T0 Hb) |].
    split; [rewrite Ht, T0; reflexivity | exact He].
  - intros y. rewrite (exec_canon_unfold _ _ _ _ _ _ _ Hm). cbv zeta. intros Hy.
    apply handle_canon_executed_cids in Hy. apply Hy.
Qed.

(* ------------------------------------------------------------------------------------------ *)
(* first execution *)

Lemma decode_canon_elem_of v : decode_canon_elem (canon_elem_cid v) = Some (forget_pos v).
Proof. destruct v; reflexivity. Qed.

Lemma decode_canon_elems_of vs : decode_canon_elems (map canon_elem_cid vs) = Some (map forget_pos vs).
Proof.
  induction vs as [| v r IH]; [reflexivity |].
  cbn [map decode_canon_elems]. rewrite decode_canon_elem_of, IH. reflexivity.
Qed.

Lemma decode_first_cid peer vs :
  decode_canon_result (first_cid peer vs) =
  Some {| cw_values := map forget_pos vs; cw_tetraplet := canon_tetraplet peer; cw_cid := first_cid peer vs |}.
Proof. unfold first_cid. cbn [decode_canon_result]. rewrite decode_canon_elems_of. reflexivity. Qed.

(* create_canon_stream_for_first_time *)
Lemma create_canon_first_time_ok k tb x stream peer y :
  create_canon_first_time k tb x stream peer = XOk y ->
  value_bound k x y (canon_producer k tb x stream peer) (canon_tetraplet peer)
              (first_cid peer (canon_producer k tb x stream peer)) /\
  tr y = tr x ++ [SCanon (CanonExecuted (first_cid peer (canon_producer k tb x stream peer)))] /\
  cid_mem (first_cid peer (canon_producer k tb x stream peer)) (cs_canon_results (x_cids y)) = true /\
  x_tracker y = (if String.eqb peer (current_peer x) then x_tracker x ++ [first_cid peer (canon_producer k tb x stream peer)] else x_tracker x) /\
  same_tables x y /\ x_next_peers y = x_next_peers x.
Proof.
  unfold create_canon_first_time. fold (first_cid peer (canon_producer k tb x stream peer)).
  set (values := canon_producer k tb x stream peer). set (c := first_cid peer values).
  intros Hy. apply canon_epilog_ok in Hy. destruct Hy as (Hb & Ht & He & Hc & Hk & Hn).
  set (cs2 := {| cs_values := _; cs_tetraplets := _; cs_canon_elems := _; cs_canon_results := _; cs_services := _ |}) in *.
  destruct (record_cid_fields (set_cids x cs2 (x_tracker x)) peer c) as (R1 & R2 & R3 & R4 & R5 & R6 & R7).
  change (current_peer (set_cids x cs2 (x_tracker x))) with (current_peer x) in R7.
  split; [apply (value_bound_transfer k x _ y _ _ _ R1 R2 R3 R4 Hb) |].
  split; [rewrite Ht, R4; reflexivity |].
  split; [rewrite Hc, R5; unfold cs2; cbn [x_cids set_cids cs_canon_results]; apply cid_track_mem |].
  split; [rewrite Hk, R7; reflexivity |].
  split; [apply (same_tables_transfer x _ y R3 He) | rewrite Hn, R6; reflexivity].
Qed.

Theorem C11_first : C11_first_stmt.
Proof.
  intros k tb x p stream r y [h Hm] Hne Hp Hy values c.
  rewrite (exec_canon_unfold _ _ _ _ _ _ _ Hm) in Hy. cbv zeta in Hy.
  rewrite resolve_peer_set_handler, Hp in Hy. change (current_peer (set_handler x h)) with (current_peer x) in Hy.
  assert (Hc : create_canon_first_time k tb (set_handler x h) stream (current_peer x) = XOk y).
  { destruct r as [| [s | c0]]; [| | destruct Hne]; cbn [lift] in Hy; rewrite String.eqb_refl in Hy; exact Hy. }
  clear Hy. apply create_canon_first_time_ok in Hc.
  change (canon_producer k tb (set_handler x h) stream (current_peer x)) with values in Hc. fold c in Hc.
  change (current_peer (set_handler x h)) with (current_peer x) in Hc. rewrite String.eqb_refl in Hc.
  destruct Hc as (Hb & Ht & Hmem & Hk & He & _).
  pose proof (meet_canon_start_result _ _ _ Hm) as Hres.
  assert (T0 : tr (set_handler x h) = tr x) by (unfold tr; cbn [x_handler set_handler]; exact Hres).
  split; [destruct k; reflexivity || exact I |].
  split; [rewrite Ht, T0; reflexivity |].
  split; [apply (value_bound_transfer k x (set_handler x h) y _ _ _ eq_refl eq_refl eq_refl T0 Hb) |].
  split; [exact Hmem |]. split; [exact Hk |]. split; [exact He | apply decode_first_cid].
Qed.

(* ------------------------------------------------------------------------------------------ *)
(* only at the designated peer *)

Lemma canon_met_inj x r r' : canon_met x r -> canon_met x r' -> r = r'.
Proof. intros [h H] [h' H']. rewrite H in H'. inversion H'. reflexivity. Qed.

Lemma app_one_neq {A} (l : list A) a : l ++ [a] <> l.
Proof. intros H. apply (f_equal (@length _)) in H. rewrite app_length in H. cbn in H. lia. Qed.

Lemma create_canon_first_time_full k tb x stream peer y :
  outcome_ctx (create_canon_first_time k tb x stream peer) = Some y ->
  x_next_peers y = x_next_peers x /\
  (tr y = tr x \/ tr y = tr x ++ [SCanon (CanonExecuted (first_cid peer (canon_producer k tb x stream peer)))]).
Proof.
  unfold create_canon_first_time. fold (first_cid peer (canon_producer k tb x stream peer)).
  intros Hy. apply canon_epilog_ctx in Hy. destruct Hy as (_ & _ & _ & Hn & Ht).
  match type of Hn with x_next_peers y = x_next_peers (record_cid ?z ?q ?c) =>
    destruct (record_cid_fields z q c) as (_ & _ & _ & R4 & _ & R6 & _) end.
  rewrite R6 in Hn. rewrite R4 in Ht. split; assumption.
Qed.

Theorem C11_only_designated : C11_only_designated_stmt.
Proof.
  intros k tb x p stream y Hy.
  destruct (meet_canon_start cid cid_eqb (x_handler x)) as [[r h] | e | s] eqn:Hm.
  2: { unfold exec_canon_generic in Hy. rewrite Hm in Hy. cbn [with_handler outcome_ctx] in Hy. inversion Hy; subst.
       split; [| split].
       - intros [H | (c & Ht & _)]; [contradiction H; reflexivity | exfalso; symmetry in Ht; apply (app_one_neq _ _ Ht)].
       - intros r peer [h Hr]. rewrite Hm in Hr. discriminate.
       - reflexivity. }
  2: { unfold exec_canon_generic in Hy. rewrite Hm in Hy. discriminate. }
  assert (Hmet : canon_met x r) by (exists h; exact Hm).
  pose proof (meet_canon_start_result _ _ _ Hm) as Hres.
  rewrite (exec_canon_unfold _ _ _ _ _ _ _ Hm) in Hy. cbv zeta in Hy.
  rewrite resolve_peer_set_handler in Hy. change (current_peer (set_handler x h)) with (current_peer x) in Hy.
  assert (T0 : tr (set_handler x h) = tr x) by (unfold tr; cbn [x_handler set_handler]; exact Hres).
  split; [| split].
  - (* a change happens only at the designated peer *)
    intros Hch.
    destruct r as [| [s | c]].
    + destruct (resolve_peer_id_to_string x p) as [peer | e | s0 | w] eqn:Ep; try discriminate.
      * destruct (String.eqb (current_peer x) peer) eqn:Eq; cbn [negb] in Hy.
        -- apply String.eqb_eq in Eq. subst peer. reflexivity.
        -- cbn [outcome_ctx] in Hy. inversion Hy; subst. exfalso.
           destruct Hch as [H | (c & Ht & _)]; [apply H; reflexivity |].
           rewrite tr_meet_canon_end in Ht. change (tr (set_next_peers (make_incomplete (set_handler x h)) _)) with (tr (set_handler x h)) in Ht.
           rewrite T0 in Ht. apply app_inv_head in Ht. discriminate.
      * exfalso. destruct (is_joinable e); cbn [outcome_ctx] in Hy; inversion Hy; subst;
          (destruct Hch as [H | (c & Ht & _)]; [apply H; reflexivity |]);
          change (tr (make_incomplete (set_handler x h))) with (tr (set_handler x h)) in Ht; rewrite T0 in Ht;
          symmetry in Ht; apply (app_one_neq _ _ Ht).
    + destruct (resolve_peer_id_to_string x p) as [peer | e | s0 | w] eqn:Ep; cbn [lift] in Hy; try discriminate.
      * destruct (String.eqb (current_peer x) peer) eqn:Eq; cbn [negb] in Hy.
        -- apply String.eqb_eq in Eq. subst peer. reflexivity.
        -- cbn [outcome_ctx] in Hy. inversion Hy; subst. exfalso.
           destruct Hch as [H | (c & Ht & _)]; [apply H; reflexivity |].
           rewrite tr_meet_canon_end in Ht. change (tr (make_incomplete (set_handler x h))) with (tr (set_handler x h)) in Ht.
           rewrite T0 in Ht. apply app_inv_head in Ht. discriminate.
      * exfalso. cbn [outcome_ctx] in Hy. inversion Hy; subst.
        destruct Hch as [H | (c & Ht & _)]; [apply H; reflexivity |].
        rewrite T0 in Ht. symmetry in Ht. apply (app_one_neq _ _ Ht).
    + exfalso. apply handle_canon_executed_cids in Hy. destruct Hy as (Hc & _ & Ht).
      change (x_cids (set_handler x h)) with (x_cids x) in Hc. rewrite T0 in Ht.
      destruct Hch as [H | (c' & Ht' & Hn)]; [apply H; rewrite Hc; reflexivity |].
      destruct Ht as [Ht | Ht]; rewrite Ht in Ht'.
      * symmetry in Ht'. apply (app_one_neq _ _ Ht').
      * apply app_inv_head in Ht'. inversion Ht'; subst. apply Hn. exact Hmet.
  - (* elsewhere *)
    intros r' peer Hr' Ep Hne. rewrite (canon_met_inj _ _ _ Hr' Hmet). clear r' Hr'.
    assert (Eq : String.eqb (current_peer x) peer = false).
    { destruct (String.eqb (current_peer x) peer) eqn:E; [| reflexivity]. apply String.eqb_eq in E. congruence. }
    rewrite Ep in Hy.
    destruct r as [| [s | c]].
    + rewrite Eq in Hy. cbn [negb outcome_ctx] in Hy. inversion Hy; subst.
      split; [reflexivity |]. split; [| reflexivity].
      rewrite tr_meet_canon_end. change (tr (set_next_peers (make_incomplete (set_handler x h)) _)) with (tr (set_handler x h)).
      rewrite T0. reflexivity.
    + cbn [lift] in Hy. rewrite Eq in Hy. cbn [negb outcome_ctx] in Hy. inversion Hy; subst.
      split; [reflexivity |]. split; [| reflexivity].
      rewrite tr_meet_canon_end. change (tr (make_incomplete (set_handler x h))) with (tr (set_handler x h)).
      rewrite T0. reflexivity.
    + apply handle_canon_executed_cids in Hy. destruct Hy as (Hc & Hn & Ht).
      rewrite T0 in Ht. split; [exact Hc |]. split; [exact Hn | exact Ht].
  - intros Hno. exfalso. apply (Hno r Hmet).
Qed.

(* ------------------------------------------------------------------------------------------ *)
(* uniqueness *)

Lemma verify_canon_rejects k x p t vcs peer :
  resolve_peer_id_to_string x p = POk peer ->
  t <> canon_tetraplet peer ->
  cid_mem (CCanonResult (CTetraplet t) vcs) (cs_canon_results (x_cids x)) = true ->
  cid_mem (CTetraplet t) (cs_tetraplets (x_cids x)) = true ->
  handle_canon_executed k x p (CCanonResult (CTetraplet t) vcs) =
    XErr (EUncatch (UInstructionParametersMismatch "canon tetraplet")) x.
Proof.
  intros Ep Hne M1 M2. unfold handle_canon_executed. rewrite Ep. cbn [lift]. rewrite M1, M2. cbn [negb].
  unfold verify_canon. destruct (tetraplet_eqb (canon_tetraplet peer) t) eqn:E; [| reflexivity].
  apply tetraplet_eqb_eq in E. congruence.
Qed.

Lemma uncatchable_ends_run hook finish fuel i u x :
  exec hook fuel (ri_script i) (initial_ctx i) = XErr (EUncatch u) x ->
  run hook finish fuel i = OutPrevData (uncatchable_code u).
Proof. intros H. unfold run. rewrite H. reflexivity. Qed.

Theorem C11_unique : C11_unique_stmt.
Proof.
  split; [exact merge_executed_diff |].
  split; [exact merge_executed_absorbs |].
  split; [exact merge_keeps_executed |].
  split; [exact merge_seq_keeps_executed |].
  split; [exact meet_canon_start_executed |].
  split; [exact verify_canon_rejects | exact uncatchable_ends_run].
Qed.

(* ------------------------------------------------------------------------------------------ *)
(* two runs *)

Lemma track_canon_values_spec vs : forall cs,
  let cs' := track_canon_values cs vs in
  (forall c, cid_mem c (cs_values cs) = true -> cid_mem c (cs_values cs') = true) /\
  (forall c, cid_mem c (cs_tetraplets cs) = true -> cid_mem c (cs_tetraplets cs') = true) /\
  (forall c, cid_mem c (cs_canon_elems cs) = true -> cid_mem c (cs_canon_elems cs') = true) /\
  (forall v, In v vs ->
     cid_mem (CValue (va_result v)) (cs_values cs') = true /\
     cid_mem (CTetraplet (va_tetraplet v)) (cs_tetraplets cs') = true /\
     cid_mem (canon_elem_cid v) (cs_canon_elems cs') = true).
Proof.
  unfold track_canon_values. induction vs as [| v r IH]; intros cs; cbn [fold_left].
  - repeat split; auto; intros v Hv; destruct Hv.
  - match goal with |- context [fold_left _ r ?c1] => specialize (IH c1); set (cs1 := c1) in * end.
    cbv zeta in IH. destruct IH as (I1 & I2 & I3 & I4).
    split; [| split; [| split]].
    + intros c H. apply I1. unfold cs1. cbn [cs_values]. apply cid_track_mono. exact H.
    + intros c H. apply I2. unfold cs1. cbn [cs_tetraplets]. apply cid_track_mono. exact H.
    + intros c H. apply I3. unfold cs1. cbn [cs_canon_elems]. apply cid_track_mono. exact H.
    + intros w [E | Hin]; [subst w | apply (I4 w Hin)].
      split; [| split].
      * apply I1. unfold cs1. cbn [cs_values]. apply cid_track_mem.
      * apply I2. unfold cs1. cbn [cs_tetraplets]. apply cid_track_mem.
      * apply I3. unfold cs1. cbn [cs_canon_elems]. apply cid_track_mem.
Qed.

(* what the data of the first execution carries in its stores *)
Definition carries (cs : cid_state) (peer : string) (values : list vagg) : Prop :=
  cid_mem (first_cid peer values) (cs_canon_results cs) = true /\
  cid_mem (CTetraplet (canon_tetraplet peer)) (cs_tetraplets cs) = true /\
  forall v, In v values ->
    cid_mem (CValue (va_result v)) (cs_values cs) = true /\
    cid_mem (CTetraplet (va_tetraplet v)) (cs_tetraplets cs) = true /\
    cid_mem (canon_elem_cid v) (cs_canon_elems cs) = true.

Lemma create_canon_first_time_carries k tb x stream peer y :
  create_canon_first_time k tb x stream peer = XOk y -> carries (x_cids y) peer (canon_producer k tb x stream peer).
Proof.
  unfold create_canon_first_time. fold (first_cid peer (canon_producer k tb x stream peer)).
  set (values := canon_producer k tb x stream peer). set (c := first_cid peer values).
  intros Hy. apply canon_epilog_ok in Hy. destruct Hy as (_ & _ & _ & Hc & _).
  set (cs2 := {| cs_values := _; cs_tetraplets := _; cs_canon_elems := _; cs_canon_results := _; cs_services := _ |}) in *.
  destruct (record_cid_fields (set_cids x cs2 (x_tracker x)) peer c) as (_ & _ & _ & _ & R5 & _).
  rewrite R5 in Hc. cbn [x_cids set_cids] in Hc. rewrite Hc. clear Hc R5.
  destruct (track_canon_values_spec values (x_cids x)) as (_ & _ & _ & I4).
  unfold carries, cs2. cbn [cs_canon_results cs_tetraplets cs_values cs_canon_elems].
  split; [apply cid_track_mem |]. split; [apply cid_track_mem |].
  intros v Hin. destruct (I4 v Hin) as (A & B & C). repeat split; try assumption. apply cid_track_mono. exact B.
Qed.

Lemma carries_include big small peer values : stores_include big small -> carries small peer values -> carries big peer values.
Proof.
  intros (S1 & S2 & S3 & S4) (C1 & C2 & C3). split; [apply S4; exact C1 |]. split; [apply S2; exact C2 |].
  intros v Hin. destruct (C3 v Hin) as (A & B & C). repeat split; [apply S1 | apply S2 | apply S3]; assumption.
Qed.

Lemma forget_pos_new v : va_new (va_result v) (va_tetraplet v) 0 (prov_of_opt (prov_to_opt (va_provenance v))) = forget_pos v.
Proof. destruct v; reflexivity. Qed.

Lemma canon_values_by_cids_of cs values :
  (forall v, In v values ->
     cid_mem (CValue (va_result v)) (cs_values cs) = true /\
     cid_mem (CTetraplet (va_tetraplet v)) (cs_tetraplets cs) = true /\
     cid_mem (canon_elem_cid v) (cs_canon_elems cs) = true) ->
  canon_values_by_cids cs (map canon_elem_cid values) = POk (map forget_pos values).
Proof.
  induction values as [| v r IH]; intros H; [reflexivity |].
  cbn [map canon_values_by_cids].
  destruct (H v (or_introl eq_refl)) as (A & B & C).
  assert (E : canon_value_by_cid cs (canon_elem_cid v) = POk (forget_pos v)).
  { unfold canon_value_by_cid. rewrite C. cbn [negb]. unfold canon_elem_cid. rewrite A, B. cbn [negb].
    rewrite forget_pos_new. reflexivity. }
  rewrite E. cbn [pbind]. rewrite IH; [reflexivity |]. intros w Hin. apply H. right. exact Hin.
Qed.

Theorem C11_two_runs : C11_two_runs_stmt.
Proof.
  intros k1 tb1 x1 p1 stream1 r1 y1 [h1 Hm1] Hne Hp1 Hy1 values c k2 tb2 x2 p2 stream2 h2 Hm2 Hinc Hp2.
  (* the first run went through create_canon_first_time *)
  rewrite (exec_canon_unfold _ _ _ _ _ _ _ Hm1) in Hy1. cbv zeta in Hy1.
  rewrite resolve_peer_set_handler, Hp1 in Hy1. change (current_peer (set_handler x1 h1)) with (current_peer x1) in Hy1.
  assert (Hc : create_canon_first_time k1 tb1 (set_handler x1 h1) stream1 (current_peer x1) = XOk y1).
  { destruct r1 as [| [s | c0]]; [| | destruct Hne]; cbn [lift] in Hy1; rewrite String.eqb_refl in Hy1; exact Hy1. }
  apply create_canon_first_time_carries in Hc.
  change (canon_producer k1 tb1 (set_handler x1 h1) stream1 (current_peer x1)) with values in Hc.
  pose proof (carries_include _ _ _ _ Hinc Hc) as (C1 & C2 & C3).
  (* the second run *)
  rewrite (exec_canon_unfold _ _ _ _ _ _ _ Hm2). cbv zeta.
  unfold handle_canon_executed. rewrite resolve_peer_set_handler, Hp2. cbn [lift].
  change (x_cids (set_handler x2 h2)) with (x_cids x2).
  fold c in C1. rewrite C1. cbn [negb]. unfold c at 1. unfold first_cid at 1. rewrite C2. cbn [negb].
  unfold verify_canon. rewrite (proj2 (tetraplet_eqb_eq _ _) eq_refl). cbn [lift].
  rewrite (canon_values_by_cids_of _ _ C3). cbn [lift].
  reflexivity.
Qed.

(* ------------------------------------------------------------------------------------------ *)
(* source tie *)

Lemma canon_table_agrees p c : canon_table_merge mt_canon_table p c = Some (merge_canon_results cid cid_eqb p c).
Proof.
  destruct p as [s | a], c as [s' | b]; try reflexivity.
  unfold mt_canon_table. cbn [canon_table_merge ckind_of ckind_eqb andb cids_differ merge_canon_results].
  destruct (cid_eqb a b); reflexivity.
Qed.

Theorem C11_source_tie : C11_source_tie_stmt.
Proof.
  split; [vm_compute; reflexivity |].
  split; [exact canon_table_agrees |].
  split; [intros a b; reflexivity |].
  split; [intros a b; reflexivity |].
  split; [reflexivity | exact verify_canon_ok].
Qed.

(* ------------------------------------------------------------------------------------------ *)
(* reading the bound variable back (Scalars::get_value after set_value), when the current depth is visible *)

Lemma cells_get_put {T} (cs : list (string * list (cell T))) name v : cells_get T (cells_put T cs name v) name = Some v.
Proof.
  induction cs as [| [n x] r IH]; cbn [cells_put cells_get].
  - rewrite String.eqb_refl. reflexivity.
  - destruct (String.eqb n name) eqn:E; cbn [cells_get]; rewrite E; [reflexivity | exact IH].
Qed.

Lemma canon_bound_get x y name w :
  canon_bound x y name w ->
  existsb (N.eqb (m_depth canon_wp (x_canons x))) (m_allowed canon_wp (x_canons x)) = true ->
  get_canon_stream y name = POk w.
Proof.
  intros [b Hb] Hal. unfold get_canon_stream, Scalars.get_value.
  unfold Scalars.set_value in Hb.
  destruct (cells_get canon_wp (m_cells canon_wp (x_canons x)) name) as [[| last rest] |] eqn:Eg.
  - injection Hb as Hm Hbb. rewrite <- Hm. cbn [m_cells m_allowed]. rewrite cells_get_put. cbn [c_depth c_value]. rewrite Hal. reflexivity.
  - destruct (negb (variable_could_be_set canon_wp (x_canons x) name)); [discriminate |].
    destruct (c_depth canon_wp last =? m_depth canon_wp (x_canons x)) eqn:Ed.
    + injection Hb as Hm Hbb. rewrite <- Hm. cbn [m_cells m_allowed]. rewrite cells_get_put. cbn [c_depth c_value].
      apply N.eqb_eq in Ed. rewrite Ed, Hal. reflexivity.
    + injection Hb as Hm Hbb. rewrite <- Hm. cbn [m_cells m_allowed]. rewrite cells_get_put. cbn [c_depth c_value]. rewrite Hal. reflexivity.
  - injection Hb as Hm Hbb. rewrite <- Hm. cbn [m_cells m_allowed]. rewrite cells_get_put. cbn [c_depth c_value]. rewrite Hal. reflexivity.
Qed.
