//! `streams`: driver of the stream component (air/src/execution_step/value_types/stream/*,
//! execution_context/streams_variables.rs) for C12 and C13.
//!
//! Streams are private to the `air` crate, so they are driven through the public
//! `air::execute_air` in simulated multi-peer histories of purpose-built scripts.  A script is given
//! as a small structured PROGRAM (JSON, see `Node`), rendered to AIR text here; because the shapes
//! are restricted, the layout of every produced trace is a function of the program and of the `par`
//! sizes / fold lore recorded in the trace itself, so that every state of a trace can be attributed
//! to the instruction instance that wrote it (`Reader`).  For every successful run of the history
//! the previous, current and produced traces are read that way and, per stream instance, the driver
//! prints one term of `StreamCases.case_t`:
//!
//!  * the events of the run on that stream in execution order (= position order of the produced
//!    trace): `EAdd v g` for an append replayed or performed, with the `Generation` the interpreter
//!    must have used (state executed in prev data => `Previous g`, else in current data =>
//!    `Current g`, else `New`); `ECanon` for a canon executed in THIS run together with what it saw
//!    (content of the canon result in the produced data + the argument of the `see` service request);
//!    `EFold` for a fold over the stream: per iterated value what its body appended to the folded
//!    stream and whether the body reached `next`, plus the lore order of the produced trace;
//!  * the observation: the generation of every value of the instance in the produced trace;
//!  * for the oracles: generations of the same values in prev and current data, whether this is the
//!    peer's last run of a history that reached quiescence, the host's log of `visit` invocations.
//!
//! input : {"peers":[..], "init":0, "prog": NODE, "ops":[..schedule..], "drain": bool, "limit": bool}
//! output: {"coq":[case_t..], "classes":[..], "info":[..], "script": "...", "runs": n}
//!
//! NODE (every value is a JSON string):
//!   {"k":"seq","xs":[NODE..]} | {"k":"par","xs":[NODE..]} | {"k":"new","s":"$s","x":NODE} | {"k":"null"}
//!   {"k":"call","p":"A","f":"f3","v":"a","s":"$s"}     (call "@A" ("s" "f3") [] $s), the service returns "a"
//!   {"k":"ap","v":"x","s":"$s"}                        (ap "x" $s)
//!   {"k":"canon","p":"P","s":"$s","id":2}              (seq (canon "@P" $s #cn2) (call "@P" ("s" "see2") [#cn2]))   ("see":false: the canon alone)
//!   {"k":"gate","p":"P","id":1}                        (call "@P" ("s" "gate1") [] g1)
//!   {"k":"fold","s":"$s","id":1,"p":"P","guards":[{"m":"a","v":"c","s":"$s"}..],"pre":bool,"visit":bool,"last":bool}
//!        (fold $s it1 (seq (xor (match it1 "a" (ap "c" $s)) (null)) .. (seq (call "@P" ("s" "pre1") [it1])
//!                      (seq (call "@P" ("s" "visit1") [it1]) (next it1)))) (null))

use air_interpreter_data::*;
use aquah::coqfmt as c;
use aquah::sim::*;
use serde_json::Value as J;
use std::collections::{BTreeMap, HashMap};
use std::io::BufRead;

// ------------------------------------------------------------------------------------------
// programs

#[derive(Clone, Debug)]
struct Guard {
    m: String,
    v: String,
    s: String,
}

#[derive(Clone, Debug)]
enum Kind {
    Seq(Vec<Node>),
    Par(Vec<Node>),
    New(String, Box<Node>),
    Null,
    Call { p: String, f: String, v: String, s: String },
    Ap { v: String, s: String },
    Canon { p: String, s: String, cid: u64, see: bool },
    Gate { p: String, gid: u64 },
    Fold { s: String, fid: u64, p: String, guards: Vec<Guard>, pre: bool, visit: bool, last: bool },
}

#[derive(Clone, Debug)]
struct Node {
    id: usize,
    kind: Kind,
}

fn st(j: &J, k: &str) -> Result<String, String> {
    j[k].as_str().map(String::from).ok_or_else(|| format!("program: field {} missing in {}", k, j))
}

fn parse_node(j: &J, next_id: &mut usize) -> Result<Node, String> {
    let id = *next_id;
    *next_id += 1;
    let k = st(j, "k")?;
    let kind = match k.as_str() {
        "seq" | "par" => {
            let mut xs = vec![];
            for x in j["xs"].as_array().ok_or("xs")? {
                xs.push(parse_node(x, next_id)?);
            }
            if xs.is_empty() {
                return Err("empty seq/par".into());
            }
            if k == "seq" { Kind::Seq(xs) } else { Kind::Par(xs) }
        }
        "new" => Kind::New(st(j, "s")?, Box::new(parse_node(&j["x"], next_id)?)),
        "null" => Kind::Null,
        "call" => Kind::Call { p: st(j, "p")?, f: st(j, "f")?, v: st(j, "v")?, s: st(j, "s")? },
        "ap" => Kind::Ap { v: st(j, "v")?, s: st(j, "s")? },
        "canon" => Kind::Canon { p: st(j, "p")?, s: st(j, "s")?, cid: j["id"].as_u64().ok_or("canon id")?, see: j["see"].as_bool().unwrap_or(true) },
        "gate" => Kind::Gate { p: st(j, "p")?, gid: j["id"].as_u64().ok_or("gate id")? },
        "fold" => {
            let mut guards = vec![];
            for g in j["guards"].as_array().unwrap_or(&vec![]) {
                guards.push(Guard { m: st(g, "m")?, v: st(g, "v")?, s: st(g, "s")? });
            }
            Kind::Fold {
                s: st(j, "s")?,
                fid: j["id"].as_u64().ok_or("fold id")?,
                p: st(j, "p")?,
                guards,
                pre: j["pre"].as_bool().unwrap_or(false),
                visit: j["visit"].as_bool().unwrap_or(false),
                last: j["last"].as_bool().unwrap_or(true),
            }
        }
        other => return Err(format!("program: unknown node kind {}", other)),
    };
    Ok(Node { id, kind })
}

fn lit(v: &str) -> String {
    // AIR string literal: anything but a double quote
    format!("\"{}\"", v.replace('"', "'"))
}

fn nest(op: &str, xs: &[String]) -> String {
    if xs.len() == 1 {
        xs[0].clone()
    } else {
        format!("({} {} {})", op, xs[0], nest(op, &xs[1..]))
    }
}

fn render(n: &Node) -> String {
    match &n.kind {
        Kind::Seq(xs) => nest("seq", &xs.iter().map(render).collect::<Vec<_>>()),
        Kind::Par(xs) => nest("par", &xs.iter().map(render).collect::<Vec<_>>()),
        Kind::New(s, x) => format!("(new {} {})", s, render(x)),
        Kind::Null => "(null)".into(),
        Kind::Call { p, f, s, .. } => format!("(call \"@{}\" (\"s\" \"{}\") [] {})", p, f, s),
        Kind::Ap { v, s } => format!("(ap {} {})", lit(v), s),
        Kind::Canon { p, s, cid, see } => {
            if *see {
                format!("(seq (canon \"@{p}\" {s} #cn{cid}) (call \"@{p}\" (\"s\" \"see{cid}\") [#cn{cid}]))", p = p, s = s, cid = cid)
            } else {
                format!("(canon \"@{p}\" {s} #cn{cid})", p = p, s = s, cid = cid)
            }
        }
        Kind::Gate { p, gid } => format!("(call \"@{}\" (\"s\" \"gate{}\") [] g{})", p, gid, gid),
        Kind::Fold { s, fid, p, guards, pre, visit, last } => {
            let it = format!("it{}", fid);
            let mut parts: Vec<String> = guards
                .iter()
                .map(|g| format!("(xor (match {} {} (ap {} {})) (null))", it, lit(&g.m), lit(&g.v), g.s))
                .collect();
            if *pre {
                parts.push(format!("(call \"@{}\" (\"s\" \"pre{}\") [{}])", p, fid, it));
            }
            if *visit {
                parts.push(format!("(call \"@{}\" (\"s\" \"visit{}\") [{}])", p, fid, it));
            }
            if parts.is_empty() {
                parts.push("(null)".into());
            }
            parts.push(format!("(next {})", it));
            if *last {
                format!("(fold {} {} {} (null))", s, it, nest("seq", &parts))
            } else {
                format!("(fold {} {} {})", s, it, nest("seq", &parts))
            }
        }
    }
}

fn collect_services(n: &Node, out: &mut Vec<J>) {
    match &n.kind {
        Kind::Seq(xs) | Kind::Par(xs) => xs.iter().for_each(|x| collect_services(x, out)),
        Kind::New(_, x) => collect_services(x, out),
        Kind::Call { f, v, .. } => out.push(serde_json::json!(["s", f, {"const": v}])),
        Kind::Canon { cid, .. } => out.push(serde_json::json!(["s", format!("see{}", cid), {"const": "seen"}])),
        Kind::Gate { gid, .. } => out.push(serde_json::json!(["s", format!("gate{}", gid), {"const": "open"}])),
        Kind::Fold { fid, .. } => {
            out.push(serde_json::json!(["s", format!("pre{}", fid), {"const": "pre"}]));
            out.push(serde_json::json!(["s", format!("visit{}", fid), {"const": "visited"}]));
        }
        _ => {}
    }
}

// ------------------------------------------------------------------------------------------
// identities of instruction instances

#[derive(Clone, Debug, PartialEq, Eq, Hash)]
enum Ident {
    Static(usize),
    /// (fold node, identity of the value being iterated, index in the body: guard j, PRE, VISIT)
    InFold(usize, u32, usize),
}
const BODY_PRE: usize = 100000;
const BODY_VISIT: usize = 100001;

#[derive(Default)]
struct Interner {
    map: HashMap<Ident, u32>,
    rev: Vec<Ident>,
    /// plain value of the identities that are stream values
    value: HashMap<u32, String>,
}

impl Interner {
    fn get(&mut self, i: Ident) -> u32 {
        if let Some(k) = self.map.get(&i) {
            return *k;
        }
        let k = self.rev.len() as u32;
        self.rev.push(i.clone());
        self.map.insert(i, k);
        k
    }
}

// ------------------------------------------------------------------------------------------
// reading a trace along the program

#[derive(Clone, Debug)]
struct Lore {
    value_pos: usize,
    iter: u32,
    before: (usize, usize),
    after: (usize, usize),
}

#[derive(Clone, Debug)]
enum ItemKind {
    /// a value of a stream instance: generation in this trace, service result cid for calls
    Append { inst: String, gen: u32, cid: Option<String> },
    /// a call that is not (yet) a stream value: request sent / a gate / see / pre / visit call
    Call { executed: bool },
    Canon { inst: String, result: Option<String>, canon_id: u64 },
    Fold { inst: String, fid: u64, peer: String, visit: bool, lore: Vec<Lore> },
}

#[derive(Clone, Debug)]
struct Item {
    pos: usize,
    ident: u32,
    kind: ItemKind,
    /// Some((fold node, iterated value)) for states written inside an iteration of a stream fold
    ctx: Option<(usize, u32)>,
}

struct Reader<'a> {
    trace: &'a [ExecutedState],
    items: Vec<Item>,
    pos2ident: HashMap<usize, u32>,
    scopes: Vec<(String, usize)>,
    ctx: Option<(usize, u32)>,
    names: &'a mut Interner,
}

fn gen_u32(g: &GenerationIdx) -> u32 {
    let u: usize = (*g).into();
    u as u32
}
fn pos_usize(p: TracePos) -> usize {
    p.into()
}

impl<'a> Reader<'a> {
    fn inst(&self, stream: &str) -> String {
        for (n, id) in self.scopes.iter().rev() {
            if n == stream {
                return format!("{}@{}", stream, id);
            }
        }
        format!("{}@global", stream)
    }

    fn ident(&mut self, node: usize, body_index: Option<usize>) -> u32 {
        let i = match (self.ctx, body_index) {
            (Some((f, it)), Some(b)) => Ident::InFold(f, it, b),
            (Some((f, it)), None) => Ident::InFold(f, it, 200000 + node),
            (None, _) => Ident::Static(node),
        };
        self.names.get(i)
    }

    fn push(&mut self, pos: usize, ident: u32, kind: ItemKind) {
        if let ItemKind::Append { .. } = kind {
            self.pos2ident.insert(pos, ident);
        }
        self.items.push(Item { pos, ident, kind, ctx: self.ctx });
    }

    /// a call whose result goes to a stream: one state
    fn read_call(&mut self, pos: usize, end: usize, ident: u32, stream: Option<(&str, &str)>) -> Result<usize, String> {
        if pos >= end {
            return Ok(pos);
        }
        match &self.trace[pos] {
            ExecutedState::Call(CallResult::RequestSentBy(_)) => self.push(pos, ident, ItemKind::Call { executed: false }),
            ExecutedState::Call(CallResult::Executed(ValueRef::Stream { cid, generation })) => match stream {
                Some((s, v)) => {
                    let inst = self.inst(s);
                    self.names.value.insert(ident, v.to_string());
                    self.push(pos, ident, ItemKind::Append { inst, gen: gen_u32(generation), cid: Some(cid.get_inner().to_string()) })
                }
                None => return Err(format!("trace[{}]: stream value where a scalar/unused call is expected", pos)),
            },
            ExecutedState::Call(CallResult::Executed(_)) => {
                if stream.is_some() {
                    return Err(format!("trace[{}]: non-stream value where a stream call is expected", pos));
                }
                self.push(pos, ident, ItemKind::Call { executed: true })
            }
            other => return Err(format!("trace[{}]: {:?} where a call state is expected", pos, other)),
        }
        Ok(pos + 1)
    }

    fn read_ap(&mut self, pos: usize, end: usize, ident: u32, s: &str, v: &str) -> Result<usize, String> {
        if pos >= end {
            return Ok(pos);
        }
        match &self.trace[pos] {
            ExecutedState::Ap(a) if a.res_generations.len() == 1 => {
                let inst = self.inst(s);
                self.names.value.insert(ident, v.to_string());
                self.push(pos, ident, ItemKind::Append { inst, gen: gen_u32(&a.res_generations[0]), cid: None });
                Ok(pos + 1)
            }
            other => Err(format!("trace[{}]: {:?} where an ap state is expected", pos, other)),
        }
    }

    fn read_par(&mut self, xs: &[Node], pos: usize, end: usize) -> Result<usize, String> {
        if xs.len() == 1 {
            return self.read(&xs[0], pos, end);
        }
        if pos >= end {
            return Ok(pos);
        }
        match &self.trace[pos] {
            ExecutedState::Par(p) => {
                let l = p.left_size as usize;
                let r = p.right_size as usize;
                if pos + 1 + l + r > end {
                    return Err(format!("trace[{}]: par({},{}) leaves the window ending at {}", pos, l, r, end));
                }
                let e1 = self.read(&xs[0], pos + 1, pos + 1 + l)?;
                if e1 != pos + 1 + l {
                    return Err(format!("trace[{}]: left par branch read {} of {} states", pos, e1 - pos - 1, l));
                }
                let e2 = self.read_par(&xs[1..], pos + 1 + l, pos + 1 + l + r)?;
                if e2 != pos + 1 + l + r {
                    return Err(format!("trace[{}]: right par branch read {} of {} states", pos, e2 - pos - 1 - l, r));
                }
                Ok(pos + 1 + l + r)
            }
            other => Err(format!("trace[{}]: {:?} where a par state is expected", pos, other)),
        }
    }

    fn read(&mut self, n: &Node, pos: usize, end: usize) -> Result<usize, String> {
        match &n.kind {
            Kind::Null => Ok(pos),
            Kind::Seq(xs) => {
                let mut p = pos;
                for x in xs {
                    p = self.read(x, p, end)?;
                }
                Ok(p)
            }
            Kind::Par(xs) => self.read_par(xs, pos, end),
            Kind::New(s, x) => {
                self.scopes.push((s.clone(), n.id));
                let r = self.read(x, pos, end);
                self.scopes.pop();
                r
            }
            Kind::Call { v, s, .. } => {
                let id = self.ident(n.id, None);
                self.read_call(pos, end, id, Some((s, v)))
            }
            Kind::Ap { v, s } => {
                let id = self.ident(n.id, None);
                self.read_ap(pos, end, id, s, v)
            }
            Kind::Gate { .. } => {
                let id = self.ident(n.id, None);
                self.read_call(pos, end, id, None)
            }
            Kind::Canon { s, cid, see, .. } => {
                if pos >= end {
                    return Ok(pos);
                }
                let id = self.ident(n.id, None);
                let inst = self.inst(s);
                match &self.trace[pos] {
                    ExecutedState::Canon(CanonResult::RequestSentBy(_)) => {
                        self.push(pos, id, ItemKind::Canon { inst, result: None, canon_id: *cid });
                        Ok(pos + 1)
                    }
                    ExecutedState::Canon(CanonResult::Executed(r)) => {
                        self.push(pos, id, ItemKind::Canon { inst, result: Some(r.get_inner().to_string()), canon_id: *cid });
                        if !*see {
                            return Ok(pos + 1);
                        }
                        let see = self.names.get(Ident::InFold(n.id, self.ctx.map(|c| c.1).unwrap_or(u32::MAX), 300000));
                        self.read_call(pos + 1, end, see, None)
                    }
                    other => Err(format!("trace[{}]: {:?} where a canon state is expected", pos, other)),
                }
            }
            Kind::Fold { s, fid, p, guards, pre, visit, .. } => {
                if pos >= end {
                    return Ok(pos);
                }
                if self.ctx.is_some() {
                    return Err("nested stream folds are not supported".into());
                }
                let lore = match &self.trace[pos] {
                    ExecutedState::Fold(f) => f.lore.clone(),
                    other => return Err(format!("trace[{}]: {:?} where a fold state is expected", pos, other)),
                };
                let inst = self.inst(s);
                let fold_ident = self.ident(n.id, None);
                let item_index = self.items.len();
                self.push(pos, fold_ident, ItemKind::Fold { inst, fid: *fid, peer: p.clone(), visit: *visit, lore: vec![] });
                let mut out_lore = vec![];
                let mut max_end = pos + 1;
                for e in lore.iter() {
                    let vp = pos_usize(e.value_pos);
                    let iter = *self.pos2ident.get(&vp).ok_or_else(|| format!("fold at {}: lore value position {} is not a stream value read so far", pos, vp))?;
                    if e.subtraces_desc.len() != 2 {
                        return Err(format!("fold at {}: lore entry with {} descriptors", pos, e.subtraces_desc.len()));
                    }
                    let b = (pos_usize(e.subtraces_desc[0].begin_pos), e.subtraces_desc[0].subtrace_len as usize);
                    let a = (pos_usize(e.subtraces_desc[1].begin_pos), e.subtraces_desc[1].subtrace_len as usize);
                    if b.0 + b.1 > end || a.0 + a.1 > end {
                        return Err(format!("fold at {}: lore window outside the enclosing window", pos));
                    }
                    max_end = max_end.max(b.0 + b.1).max(a.0 + a.1);
                    out_lore.push(Lore { value_pos: vp, iter, before: b, after: a });
                    // the body before `next`
                    self.ctx = Some((n.id, iter));
                    let value = self.names.value.get(&iter).cloned().unwrap_or_default();
                    let (mut q, wend) = (b.0, b.0 + b.1);
                    for (j, g) in guards.iter().enumerate() {
                        if g.m == value {
                            let id = self.ident(n.id, Some(j));
                            q = self.read_ap(q, wend, id, &g.s, &g.v)?;
                        }
                    }
                    if *pre {
                        let id = self.ident(n.id, Some(BODY_PRE));
                        q = self.read_call(q, wend, id, None)?;
                    }
                    if *visit {
                        let id = self.ident(n.id, Some(BODY_VISIT));
                        q = self.read_call(q, wend, id, None)?;
                    }
                    self.ctx = None;
                    if q != wend {
                        return Err(format!("fold at {}: iteration window [{},{}) read up to {}", pos, b.0, wend, q));
                    }
                    if a.1 != 0 {
                        return Err(format!("fold at {}: non-empty after-window", pos));
                    }
                }
                if let ItemKind::Fold { lore, .. } = &mut self.items[item_index].kind {
                    *lore = out_lore;
                }
                Ok(max_end)
            }
        }
    }
}

fn read_trace(prog: &Node, trace: &[ExecutedState], names: &mut Interner) -> Result<Vec<Item>, String> {
    let mut r = Reader { trace, items: vec![], pos2ident: HashMap::new(), scopes: vec![], ctx: None, names };
    let e = r.read(prog, 0, trace.len())?;
    if e != trace.len() {
        return Err(format!("trace of {} states read up to {}", trace.len(), e));
    }
    let mut items = r.items;
    items.sort_by_key(|i| i.pos);
    Ok(items)
}

fn trace_vec(bytes: &[u8]) -> Result<(Vec<ExecutedState>, Option<InterpreterData>), String> {
    if bytes.is_empty() {
        return Ok((vec![], None));
    }
    let d = decode_data(bytes)?;
    let t: Vec<ExecutedState> = d.data.trace.iter().cloned().collect();
    Ok((t, Some(d.data)))
}

// ------------------------------------------------------------------------------------------
// cases

fn gen_term(prev: &HashMap<u32, u32>, cur: &HashMap<u32, u32>, id: u32) -> String {
    if let Some(g) = prev.get(&id) {
        format!("(GPrevious {})", g)
    } else if let Some(g) = cur.get(&id) {
        format!("(GCurrent {})", g)
    } else {
        "GNew".into()
    }
}

fn label_of(names: &Interner, id: u32, cid: &Option<String>) -> String {
    match cid {
        Some(c) => format!("c:{}", c),
        None => format!("l:{}", J::String(names.value.get(&id).cloned().unwrap_or_default())),
    }
}

/// what an executed canon holds: (label, plain value) per element, from the stores of the data
fn canon_content(data: &InterpreterData, result_cid: &str) -> Result<Vec<(String, String)>, String> {
    let ci = &data.cid_info;
    let r = ci.canon_result_store.get(&air_interpreter_cid::CID::new(result_cid)).ok_or("canon result not in store")?;
    let mut out = vec![];
    for e in r.values.iter() {
        let a = ci.canon_element_store.get(e).ok_or("canon element not in store")?;
        let v = ci.value_store.get(&a.value).ok_or("canon value not in store")?;
        let jv: J = serde_json::to_value(&v.get_value()).map_err(|e| e.to_string())?;
        let plain = match &jv {
            J::String(s) => s.clone(),
            o => o.to_string(),
        };
        let label = match &a.provenance {
            Provenance::ServiceResult { cid } => format!("c:{}", cid.get_inner()),
            Provenance::Literal => format!("l:{}", jv),
            Provenance::Canon { cid } => format!("k:{}", cid.get_inner()),
        };
        out.push((label, plain));
    }
    Ok(out)
}

struct RunCases {
    terms: Vec<String>,
    classes: Vec<String>,
    infos: Vec<J>,
}

#[allow(clippy::too_many_arguments)]
fn cases_of_run(
    prog: &Node,
    rec: &StepRecord,
    names: &mut Interner,
    peer_name: &str,
    is_final: bool,
    visits: &BTreeMap<u64, Vec<String>>,
    out: &mut RunCases,
) -> Result<(), String> {
    let (pt, _) = trace_vec(&rec.input.prev)?;
    let (ct, _) = trace_vec(&rec.input.cur)?;
    let (ot, odata) = trace_vec(&rec.out.data)?;
    let odata = odata.ok_or("no produced data")?;
    let pi = read_trace(prog, &pt, names).map_err(|e| format!("prev data: {}", e))?;
    let ci = read_trace(prog, &ct, names).map_err(|e| format!("current data: {}", e))?;
    let oi = read_trace(prog, &ot, names).map_err(|e| format!("produced data: {}", e))?;

    // per instance: generations in prev / cur, executed canons in prev / cur
    let gens = |items: &[Item]| -> HashMap<String, HashMap<u32, u32>> {
        let mut m: HashMap<String, HashMap<u32, u32>> = HashMap::new();
        for it in items {
            if let ItemKind::Append { inst, gen, .. } = &it.kind {
                m.entry(inst.clone()).or_default().insert(it.ident, *gen);
            }
        }
        m
    };
    let (pg, cg) = (gens(&pi), gens(&ci));
    let canon_done = |items: &[Item], id: u32| items.iter().any(|it| it.ident == id && matches!(&it.kind, ItemKind::Canon { result: Some(_), .. }));
    let empty = HashMap::new();

    let mut insts: Vec<String> = vec![];
    for it in &oi {
        let i = match &it.kind {
            ItemKind::Append { inst, .. } | ItemKind::Canon { inst, .. } | ItemKind::Fold { inst, .. } => Some(inst.clone()),
            _ => None,
        };
        if let Some(i) = i {
            if !insts.contains(&i) {
                insts.push(i);
            }
        }
    }
    let call_done: HashMap<u32, bool> = oi.iter().filter_map(|it| if let ItemKind::Call { executed } = &it.kind { Some((it.ident, *executed)) } else { None }).collect();

    for inst in insts {
        let p = pg.get(&inst).unwrap_or(&empty);
        let cu = cg.get(&inst).unwrap_or(&empty);
        let mut events: Vec<String> = vec![];
        let mut labels: Vec<String> = vec![];
        let mut outvals: Vec<String> = vec![];
        let mut n_add = 0usize;
        let mut n_canon = 0usize;
        let mut n_fold = 0usize;
        let mut srcs = [0usize; 3];
        let mut max_lore = 0usize;
        let mut own_fold = false;
        let mut vis_terms: Vec<String> = vec![];
        let mut prev_lore: Vec<String> = vec![];
        // folds over this instance: node id -> position, to attribute in-body appends
        let my_folds: Vec<usize> = oi
            .iter()
            .filter_map(|it| if let ItemKind::Fold { inst: fi, .. } = &it.kind { if *fi == inst { Some(names.rev[it.ident as usize].clone()) } else { None } } else { None })
            .filter_map(|i| if let Ident::Static(n) = i { Some(n) } else { None })
            .collect();
        for it in &oi {
            match &it.kind {
                ItemKind::Append { inst: ai, gen, cid } if *ai == inst => {
                    let g = gen_term(p, cu, it.ident);
                    srcs[if g.starts_with("(GP") { 0 } else if g.starts_with("(GC") { 1 } else { 2 }] += 1;
                    labels.push(format!("({}, {}, {})", it.ident, c::s(&label_of(names, it.ident, cid)), c::s(&names.value.get(&it.ident).cloned().unwrap_or_default())));
                    outvals.push(format!("({}, {}, {})", it.ident, it.pos, gen));
                    n_add += 1;
                    let in_my_fold = it.ctx.map(|(f, _)| my_folds.contains(&f)).unwrap_or(false);
                    if !in_my_fold {
                        events.push(format!("EAdd {} {}", it.ident, g));
                    }
                }
                ItemKind::Canon { inst: ki, result: Some(r), canon_id } if *ki == inst => {
                    if canon_done(&pi, it.ident) || canon_done(&ci, it.ident) {
                        continue; // replayed, the stream is not looked at
                    }
                    let content = canon_content(&odata, r)?;
                    // the request of the `see` call of this run
                    let seen_arg: Option<Vec<String>> = rec.out.requests.as_ref().and_then(|m| {
                        m.values().find(|q| q.function == format!("see{}", canon_id)).and_then(|q| {
                            q.args.get(0).and_then(|a| a.as_array()).map(|a| a.iter().map(|x| x.as_str().map(String::from).unwrap_or_else(|| x.to_string())).collect())
                        })
                    });
                    n_canon += 1;
                    events.push(format!(
                        "ECanon {} {} {}",
                        it.pos,
                        c::list(content.iter().map(|(l, _)| c::s(l))),
                        c::opt(seen_arg.map(|v| c::list(v.iter().map(|x| c::s(x)))))
                    ));
                }
                ItemKind::Fold { inst: fi, fid, peer, visit, lore } if *fi == inst => {
                    let fnode = match &names.rev[it.ident as usize] { Ident::Static(n) => *n, _ => 0 };
                    let owner = peer == peer_name;
                    own_fold |= owner;
                    n_fold += 1;
                    max_lore = max_lore.max(lore.len());
                    let mut body = vec![];
                    for l in lore {
                        let adds: Vec<String> = oi
                            .iter()
                            .filter(|x| x.ctx == Some((fnode, l.iter)))
                            .filter_map(|x| if let ItemKind::Append { inst: ai, .. } = &x.kind { if *ai == inst { Some(format!("({}, {})", x.ident, gen_term(p, cu, x.ident))) } else { None } } else { None })
                            .collect();
                        // the body reaches `next` when every call of it is executed after this run
                        let cont = oi
                            .iter()
                            .filter(|x| x.ctx == Some((fnode, l.iter)))
                            .all(|x| if let ItemKind::Call { .. } = &x.kind { *call_done.get(&x.ident).unwrap_or(&false) } else { true });
                        body.push(format!("({}, ({}, {}))", l.iter, c::list(adds), c::b(cont)));
                    }
                    events.push(format!("EFold {} {} {} {}", it.pos, c::b(owner), c::list(body), c::list(lore.iter().map(|l| l.iter.to_string()))));
                    // the values this fold had iterated according to the previous data
                    let pl: Vec<String> = pi
                        .iter()
                        .filter(|x| x.ident == it.ident)
                        .flat_map(|x| if let ItemKind::Fold { lore: l, .. } = &x.kind { l.iter().map(|e| e.iter.to_string()).collect::<Vec<_>>() } else { vec![] })
                        .collect();
                    prev_lore.push(format!("({}, {})", it.pos, c::list(pl)));
                    if owner && *visit {
                        let v = visits.get(fid).cloned().unwrap_or_default();
                        vis_terms.push(format!("({}, {})", it.pos, c::list(v.iter().map(|x| c::s(x)))));
                    }
                }
                _ => {}
            }
        }
        let pairs = |m: &HashMap<u32, u32>| {
            let mut v: Vec<(u32, u32)> = m.iter().map(|(a, b)| (*a, *b)).collect();
            v.sort();
            c::list(v.iter().map(|(a, b)| format!("({}, {})", a, b)))
        };
        out.terms.push(format!(
            "{{| c_labels := {}; c_prev := {}; c_cur := {}; c_events := {}; c_out := OData {}; c_final := {}; c_visits := {}; c_prev_lore := {} |}}",
            c::list(labels), pairs(p), pairs(cu), c::list(events), c::list(outvals), c::b(is_final), c::list(vis_terms), c::list(prev_lore)
        ));
        let scoped = !inst.ends_with("@global");
        out.classes.push(format!(
            "{}{}{}{}",
            if n_fold > 0 { "fold" } else if n_canon > 0 { "canon" } else { "plain" },
            if scoped { "/new" } else { "" },
            if srcs[0] > 0 && srcs[1] > 0 && srcs[2] > 0 { "/3src" } else if (srcs[0] > 0) as u8 + (srcs[1] > 0) as u8 + (srcs[2] > 0) as u8 == 2 { "/2src" } else { "/1src" },
            if is_final && own_fold { "/final" } else { "" }
        ));
        out.infos.push(serde_json::json!({"step": rec.step, "peer": peer_name, "inst": inst, "adds": n_add, "canons": n_canon, "folds": n_fold,
            "prev": srcs[0], "cur": srcs[1], "new": srcs[2], "lore": max_lore, "final": is_final, "own_fold": own_fold}));
    }
    Ok(())
}

fn run_case(case: &J) -> J {
    let peers: Vec<String> = case["peers"].as_array().map(|a| a.iter().filter_map(|x| x.as_str().map(String::from)).collect()).unwrap_or_default();
    if peers.is_empty() {
        return serde_json::json!({"error": "no peers"});
    }
    let mut next_id = 1usize;
    let prog = match parse_node(&case["prog"], &mut next_id) {
        Ok(p) => p,
        Err(e) => return serde_json::json!({ "error": e }),
    };
    let text = render(&prog);
    let script = Net::instantiate(&text, &peers);
    let mut svc = vec![];
    collect_services(&prog, &mut svc);
    let services = Services::from_json(&J::Array(svc));
    let init = case["init"].as_u64().unwrap_or(0) as usize % peers.len();
    let mut ops = ops_from_json(&case["ops"]);
    if case["drain"].as_bool().unwrap_or(true) {
        let rounds = case["drain_rounds"].as_u64().unwrap_or(40);
        for _ in 0..rounds {
            for p in 0..peers.len() {
                ops.push(Op::Return(p, 0));
            }
            ops.push(Op::Deliver(0, false));
        }
    }
    if let Err(e) = air_parser::parse(&script) {
        return serde_json::json!({"error": format!("script does not parse: {} :: {}", e.chars().take(300).collect::<String>(), text)});
    }
    let mut net = Net::new(&script, &peers, init, services, case["particle_id"].as_str().unwrap_or("particle-streams"));
    let mut recs: Vec<StepRecord> = vec![];
    for op in &ops {
        if let Some(r) = net.exec(op) {
            // the interpreter dedups the next peers through a HashSet (order differs between processes): put the
            // particles this run sent into a canonical order, so that a schedule replays exactly
            let sent = r.out.next.iter().filter(|n| net.peer_index_by_id(n).is_some()).count();
            let n = net.inflight.len();
            if r.out.panic.is_none() && sent > 1 && sent <= n {
                net.inflight[n - sent..].sort_by_key(|m| m.to);
            }
            recs.push(r);
        }
    }
    let quiescent = net.inflight.is_empty() && net.hosts.iter().all(|h| h.pending.is_empty());
    let mut last_run: HashMap<usize, usize> = HashMap::new();
    for (i, r) in recs.iter().enumerate() {
        last_run.insert(r.peer, i);
    }
    // host logs: visit<fid> -> plain values visited, per peer
    let mut visits: Vec<BTreeMap<u64, Vec<String>>> = vec![BTreeMap::new(); peers.len()];
    for (pi, h) in net.hosts.iter().enumerate() {
        for (_, req, _) in &h.log {
            if let Some(n) = req.function.strip_prefix("visit") {
                if let Ok(fid) = n.parse::<u64>() {
                    let a = req.args.get(0).map(|x| x.as_str().map(String::from).unwrap_or_else(|| x.to_string())).unwrap_or_default();
                    visits[pi].entry(fid).or_default().push(a);
                }
            }
        }
    }
    let mut names = Interner::default();
    let mut out = RunCases { terms: vec![], classes: vec![], infos: vec![] };
    let mut run_errors: Vec<J> = vec![];
    let mut reader_errors: Vec<String> = vec![];
    let limit_mode = case["limit"].as_bool().unwrap_or(false);
    let mut n_codes = 0usize;
    let mut unprocessed: Vec<J> = vec![];
    for (i, rec) in recs.iter().enumerate() {
        if rec.out.code != 0 {
            n_codes += 1;
        }
        if rec.out.panic.is_some() || (rec.out.code != 0 && rec.out.code != 30000) || (rec.out.code == 30000 && limit_mode) {
            run_errors.push(serde_json::json!({"step": rec.step, "peer": peers[rec.peer], "code": rec.out.code,
                "panic": rec.out.panic, "msg": rec.out.msg.chars().take(200).collect::<String>()}));
            if limit_mode {
                if let Some(t) = case["limit_adds"].as_u64() {
                    // a single-run program whose appends are all `New`: the attempted appends are static
                    let evs: Vec<String> = (0..t).map(|k| format!("EAdd {} GNew", k)).collect();
                    out.terms.push(format!(
                        "{{| c_labels := []; c_prev := []; c_cur := []; c_events := {}; c_out := OErr {}; c_final := false; c_visits := []; c_prev_lore := [] |}}",
                        c::list(evs), c::z(rec.out.code as i128)
                    ));
                    out.classes.push(format!("limit/err:{}", rec.out.code));
                    out.infos.push(serde_json::json!({"step": rec.step, "peer": peers[rec.peer], "inst": "limit", "adds": t, "code": rec.out.code}));
                }
            }
            continue;
        }
        if rec.out.code == 30000 {
            unprocessed.push(serde_json::json!({"step": rec.step, "peer": peers[rec.peer], "msg": rec.out.msg.chars().take(200).collect::<String>()}));
        }
        let is_final = quiescent && last_run.get(&rec.peer) == Some(&i);
        if let Err(e) = cases_of_run(&prog, rec, &mut names, &peers[rec.peer], is_final, &visits[rec.peer], &mut out) {
            reader_errors.push(format!("step {} peer {}: {}", rec.step, peers[rec.peer], e));
        }
    }
    let invocations: usize = net.hosts.iter().map(|h| h.log.len()).sum();
    let mut o = serde_json::json!({"coq": out.terms, "classes": out.classes, "info": out.infos, "script": text, "runs": recs.len(),
        "quiescent": quiescent, "invocations": invocations, "run_errors": run_errors, "unprocessed_results": unprocessed, "nonzero_codes": n_codes});
    if !reader_errors.is_empty() {
        o["error"] = J::String(format!("trace reader: {} :: {}", reader_errors.join(" | "), text));
    }
    if case["dump"].as_bool().unwrap_or(false) {
        let mut d = vec![];
        for rec in &recs {
            let t = trace_vec(&rec.out.data).map(|(t, _)| t).unwrap_or_default();
            d.push(serde_json::json!({"step": rec.step, "peer": peers[rec.peer], "code": rec.out.code, "cur": !rec.input.cur.is_empty(),
                "results": rec.input.call_results.len(), "next": rec.out.next.len(),
                "requests": rec.out.requests.as_ref().map(|m| m.values().map(|q| format!("{}{:?}", q.function, q.args)).collect::<Vec<_>>()),
                "trace": t.iter().map(|s| format!("{:?}", s)).collect::<Vec<_>>()}));
        }
        o["dump"] = J::Array(d);
    }
    o
}

fn main() {
    quiet_panics();
    for line in std::io::stdin().lock().lines() {
        let line = match line {
            Ok(l) => l,
            Err(_) => break,
        };
        if line.trim().is_empty() {
            continue;
        }
        let case: J = serde_json::from_str(&line).unwrap_or(J::Null);
        let r = std::panic::catch_unwind(|| run_case(&case));
        match r {
            Ok(j) => println!("{}", j),
            Err(_) => println!("{}", serde_json::json!({"error": "driver panicked"})),
        }
    }
}
