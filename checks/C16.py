"""C16 -- distributed execution agrees with the sequential meaning of the script.

Generated scripts of the fragment F (lib/seq16gen.py) over 3-5 peers are run on the REAL interpreter by
the multi-peer simulator (harness/src/bin/seq16.rs) under many schedules: random ones (duplicates,
re-deliveries, answers to a subset of the pending requests, with and without a final drain) and, for small
scripts, delivery / answer orders enumerated depth first.  Every service invocation of every host
(peer, service, function, argument values, the run that issued the request, the run that received the
answer) is printed as a Coq term of `SeqCases.case_t`; Coq evaluates the independent sequential reading
`SeqSem.seq_eval` (vm_compute) and the oracle `c16_oracle`:
  (1) the observed invocations are a sub-multiset of the calls the sequential reading makes,
  (2) in a drained history of a script in which nothing runs after a par they are all of them,
  (3) the requests issued up to a run are calls the reading reaches when only the answers handed back up to
      that run are known (no call is issued before the reading reaches it)."""
import json
import os

import seq16gen
import vlib

PID = "C16"
MODEL_TARGETS = ["model/SeqCases.vo"]
HARNESS_BINS = ["seq16"]
HEADER = "From Aqua Require Import Base Json Air SeqSem SeqFrag SeqCases.\nOpen Scope N_scope.\nOpen Scope list_scope.\n"
RULE = ("a case is one honest history (script of F over 3-5 peers, deterministic services some of which fail, schedule) run on the "
        "real interpreter; quick: random scripts x (random schedules with duplicates / re-deliveries / partial answers, the same "
        "drained, FIFO) + depth-first enumeration of delivery and answer orders for small scripts; distinct = distinct "
        "(script, multiset of observed invocations with their issue/answer runs) with at least two invocations")
PARTIAL = [
    "C16_full (every honest history on several peers, the whole fragment) is a Definition: it follows from the approximation invariant of "
    "DESIGN appendix B, which is proved ONLY for straight-line scripts on several peers (call with literal target/service/function and literal or plain-scalar arguments, ap of a literal or scalar, seq, xor, match, mismatch, fail, null, never; model/NetLin.v): C16_step_two_data (one run on two data that both "
    "approximate the full sequential trace), C16_net_invariant (induction over SeqLocal's honest histories: start, every delivery order, "
    "duplication, re-delivery, delayed answers) and C16_full_linear (the invocations are a prefix of the calls of SeqSem.seq_eval, in its "
    "order); for par, folds, new, lenses and variable targets C16_full is decided by exploration with the Coq-evaluated reference (this check)",
    "C16_local_full (single peer, the whole fragment) is a Definition; proved is C16_local_partial: straight-line scripts only "
    "(call with literal target/service/function and literal or plain-scalar arguments, ap of a literal or a plain scalar, seq, xor, "
    "match, mismatch, fail, null, never; for run1 and for the complete executor run2) -- par, folds, new and lenses are not covered "
    "by the single-peer theorem",
    ":error: and %last_error% are outside the fragment of the reference evaluator (the error object carries message, instruction text "
    "and executing peer); `fail` only with a literal; fold bodies only in the four shapes with a single `next`",
    "progress (every call of the reading is eventually executed in a drained history) is not part of the property and not promised "
    "by the interpreter after a par; it is checked only for scripts in which nothing runs after a par (SeqCases.live_shape)",
    "the ordering oracle knows answers by (peer, service, function, arguments), not by call instance: a repeated identical call is "
    "considered known after its first answer",
]
ASSUMPTIONS = [
    "services are deterministic functions of (peer, service, function, arguments): the Coq reading of the harness's service table "
    "(SeqCases.svc_of_table) is compared with every answer a host's service actually gave (check_services)",
    "the host follows air/README.md (harness/src/sim.rs): stores the returned data, answers each request once under its id, forwards "
    "the particle to the next peers",
]


def _case(script, peers, stats, **kw):
    c = {"script": script, "peers": seq16gen.PEERS[:peers], "init": 0, "services": seq16gen.SERVICES, "gen_stats": stats}
    c.update(kw)
    return c


def fifo(n=60):
    ops = [["start"]]
    for _ in range(n):
        for p in range(5):
            ops.append(["r", p, 0])
        ops.append(["d", 0])
    return ops


def gen_cases(rng, tier, escalate=False):
    n_scripts = {"quick": 45, "thorough": 800}[tier] * (3 if escalate else 1)
    n_small = {"quick": 24, "thorough": 300}[tier] * (3 if escalate else 1)
    paths = {"quick": 20, "thorough": 100}[tier]
    cases = []
    for _ in range(n_scripts):
        peers = rng.choice([3, 3, 4, 5])
        script, stats = seq16gen.gen_script(rng, peers=peers, depth=rng.choice([3, 4, 4, 5]), tail_par=rng.random() < 0.5)
        init = rng.randrange(peers)
        cases.append(_case(script, peers, stats, init=init, ops=fifo(), drain=True, how="fifo"))
        for _ in range(2):
            ops = seq16gen.gen_schedule(rng, n_ops=rng.choice([6, 12, 24, 40]))
            cases.append(_case(script, peers, stats, init=init, ops=ops, drain=False, how="random"))
            cases.append(_case(script, peers, stats, init=init, ops=ops, drain=True, how="random+drain"))
    for _ in range(n_small):
        peers = rng.choice([3, 3, 4])
        script, stats = seq16gen.gen_script(rng, peers=peers, depth=rng.choice([2, 2, 3]), tail_par=rng.random() < 0.5)
        cases.append(_case(script, peers, stats, init=rng.randrange(peers), explore={"max_paths": paths, "max_len": 60}, how="explore"))
    # par / seq skeletons over infallible calls, many at the init peer: the par state machine of the trace handler
    for _ in range(n_small):
        peers = rng.choice([2, 3, 3])
        if rng.random() < 0.5:
            script, stats = seq16gen.gen_par_skeleton(rng, peers=peers, depth=rng.choice([2, 3, 3]))
        else:
            peers = 3
            script, stats = seq16gen.gen_join_template(rng, peers=peers)
        cases.append(_case(script, peers, stats, init=0, explore={"max_paths": paths // 2, "max_len": 60}, how="explore-par"))
    # a `new` scope left through a failure that an outer xor catches
    for _ in range(max(6, n_small // 3)):
        script, stats = seq16gen.gen_scope_template(rng, peers=3)
        cases.append(_case(script, 3, stats, init=rng.randrange(3), ops=fifo(), drain=True, how="fifo"))
        cases.append(_case(script, 3, stats, init=rng.randrange(3), ops=seq16gen.gen_schedule(rng, n_ops=16), drain=True, how="random+drain"))
    return cases


def evaluate(cases, result, tier):
    if not cases:
        return
    keep = ("script", "peers", "init", "services", "ops", "drain", "explore", "particle_id")
    for c in cases:
        c.setdefault("services", seq16gen.SERVICES)          # corpus / replay cases may leave the table out
    outs = vlib.harness_lines("seq16", [json.dumps({k: c[k] for k in keep if k in c}) for c in cases], timeout=1800)
    dist = result["distribution"]
    terms, owner = [], []
    seen_scripts = set()
    for ci, o in enumerate(outs):
        c = cases[ci]
        if "error" in o:
            result["errors"].append(o["error"][:600])
            continue
        if c["script"] not in seen_scripts:
            seen_scripts.add(c["script"])
            dist["scripts"] = dist.get("scripts", 0) + 1
            for k, v in (c.get("gen_stats") or {}).items():
                dist["gen/" + k] = dist.get("gen/" + k, 0) + v
        hdr = "let script := %s in " % o["script_term"]
        for ti, t in enumerate(o["coq"]):
            info = o["info"][ti]
            terms.append("(" + hdr + t + ")")
            owner.append((ci, ti))
            result["evaluations"] += 1
            dist["history/" + o["classes"][ti]] = dist.get("history/" + o["classes"][ti], 0) + 1
            dist["invocations"] = dist.get("invocations", 0) + info["invocations"]
            dist["runs"] = dist.get("runs", 0) + info["runs"]
            dist["peers invoked/%d" % info["peers_invoked"]] = dist.get("peers invoked/%d" % info["peers_invoked"], 0) + 1
            for ec in info["error_codes"]:
                dist["run with error code " + ec.split("x")[0]] = dist.get("run with error code " + ec.split("x")[0], 0) + 1
            if info["panics"]:
                dist["panics"] = dist.get("panics", 0) + info["panics"]
            if info["invocations"] >= 2:
                result["distinct"].add(json.dumps([c["script"], t[t.index("sc_observed"):]]))
        if len(result["samples"]) < 3 and o["coq"] and ci % 11 == 5:
            result["samples"].append({"case": {k: c[k] for k in keep if k in c and k != "services"}, "info": o["info"][0],
                                      "term": o["coq"][0][:1500]})
    if not terms:
        return
    tag = os.environ.get("C16_TAG", PID)
    checks = {"model": "check_case", "oracle": "c16_oracle",
              "done": "fun c => negb (reading_status c =? 0)", "progress": "fun c => negb (progress_checked c)"}
    fails, errs = vlib.coq_eval_cases(tag, HEADER, "case_t", checks, terms, shard_size=60, timeout=1700)
    result["errors"].extend(errs)
    dist["drained history of a script where progress is promised (oracle part 2 applies)"] = len(fails["progress"])
    dist["sequential reading completes"] = len(fails["done"])
    dist["sequential reading is stuck (never / undefined variable) or fails"] = len(terms) - len(fails["done"])
    # which part failed: evaluated only on the failing cases
    bad = sorted(set(fails["model"]) | set(fails["oracle"]))
    parts_of = {"frag": "check_fragment", "defined": "check_defined", "services": "check_services",
                "o1": "oracle_subset", "o2": "oracle_drained", "o3": "oracle_order"}
    for nm in parts_of:
        fails[nm] = []
    if bad:
        f2, errs2 = vlib.coq_eval_cases(tag + "-parts", HEADER, "case_t", parts_of, [terms[i] for i in bad[:40]], shard_size=10, timeout=900)
        result["errors"].extend(errs2)
        for nm, idxs in f2.items():
            fails[nm] = [bad[j] for j in idxs]
    which = {i: [] for i in fails["model"]}
    for nm in ("frag", "defined", "services"):
        for i in fails[nm]:
            which.setdefault(i, []).append(nm)
    for i in fails["model"]:
        ci, ti = owner[i]
        result["mismatch"].append({"case": {k: cases[ci][k] for k in keep if k in cases[ci]}, "term_index": ti, "term": terms[i][:6000],
                                   "info": outs[ci]["info"][ti], "failed": which.get(i),
                                   "what": "outside what the reference evaluator is defined for, or the Coq reading of the service table "
                                           "disagrees with an answer a host gave (frag = script not in F: generator bug; defined = "
                                           "seq_eval out of fuel / outside fragment; services = svc_of_table vs sim.rs)"})
    parts = {i: [] for i in fails["oracle"]}
    for nm, txt in (("o1", "an invocation the sequential reading does not make (or makes less often)"),
                    ("o2", "drained history: a call of the sequential reading was never executed"),
                    ("o3", "a request was issued before the sequential reading reaches it with the answers known at that run")):
        for i in fails[nm]:
            parts.setdefault(i, []).append(txt)
    for i in fails["oracle"]:
        ci, ti = owner[i]
        result["oracle_fail"].append({"case": {k: cases[ci][k] for k in keep if k in cases[ci]}, "term_index": ti, "term": terms[i][:6000],
                                      "info": outs[ci]["info"][ti], "key": None, "what": "c16_oracle is false: " + "; ".join(parts.get(i, []))})
