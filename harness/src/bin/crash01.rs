//! crash01: C01 driver ("never crashes / bounded memory on adversarial input").
//!
//! PARENT mode (default): reads one JSON case per stdin line and prints one JSON object per line.
//! Every case is executed by a CHILD process (`crash01 --child`, started through
//! `sh -c 'ulimit -v <kB>; exec ...'`, i.e. with RLIMIT_AS) that the parent talks to line by line
//! with a timeout, so that an abort / out-of-memory / stack overflow / endless loop is *observed*
//! (child death or timeout) and attributed to the case; the child is then restarted.
//!
//! case (all fields optional except "kind"):
//!   {"kind": "exec",  "script", "peers", "init", "services", "ops" (honest schedule; default start+drain),
//!    "pick": k (in-flight message k mod count is intercepted; its sender is the ATTACKER, its receiver the victim),
//!    "source": "inflight" | "attacker_prev",
//!    "tamper": [[op, args..]..] (structural edits of the decoded data, see `tamper_one`),
//!    "resign": bool (the attacker signs the CIDs attributed to it in the tampered trace with its own key),
//!    "mut": [[kind, a, b]..] byte-level mutation of the encoded current data, "mut_level": "envelope" | "inner",
//!    "mut_results": [[kind,a,b]..] byte-level mutation of the serialized call results of the follow-up run,
//!    "victim_script": text (script the victim runs; default = the history's script),
//!    "post": n  (follow-up steps: pending call results are handed back to the victim, messages delivered)}
//!   {"kind": "script", "script", "peers", "init", "services", "steps"}   -- plain history (script-level recipes, deep nesting)
//!   {"kind": "parse" | "beautify", "text"}
//!   {"kind": "human", <history fields>, "mut", "mut_level", "tamper"}       -- air::to_human_readable_data on (mutated) produced data
//! output: {"coq": [<CrashCases.ccase term>], "classes": [class], "info": [{...}]}
//!
//! The oracle is not evaluated here: the observation (returned / panicked / died / timeout, peak RSS,
//! input size) is printed as a Coq term and `CrashCases.c01_oracle` decides.

use air_interpreter_cid::CID;
use air_interpreter_data::*;
use air_interpreter_signatures::{KeyFormat, KeyPair};
use aquah::coqfmt as c;
use aquah::sim::*;
use serde_json::{json, Value as J};
use std::collections::BTreeMap;
use std::io::{BufRead, Write};
use std::rc::Rc;

// ------------------------------------------------------------------------------------------------
// small helpers

fn n(j: &J) -> u64 {
    j.as_u64().unwrap_or(0)
}
fn st(j: &J) -> String {
    j.as_str().unwrap_or("").to_string()
}

/// a number, or a symbolic boundary value relative to the trace length
fn sym(j: &J, len: usize) -> u32 {
    let l = len as u64;
    let v: u64 = match j.as_str() {
        Some("len") => l,
        Some(s) if s.starts_with("len-") => l.saturating_sub(s[4..].parse::<u64>().unwrap_or(0)),
        Some(s) if s.starts_with("len+") => l + s[4..].parse::<u64>().unwrap_or(0),
        Some("2^31") => 1 << 31,
        Some("max") => u32::MAX as u64,
        Some("max-1") => u32::MAX as u64 - 1,
        Some("stub") => 0xCAFEBABE,
        Some(s) => s.parse::<u64>().unwrap_or(0),
        None => n(j),
    };
    v as u32
}

/// file:line of the last panic (set by the panic hook of the child)
static LAST_PANIC_AT: std::sync::Mutex<Option<String>> = std::sync::Mutex::new(None);

fn record_panics() {
    std::panic::set_hook(Box::new(|info| {
        let at = info.location().map(|l| format!("{}:{}", l.file(), l.line())).unwrap_or_default();
        // a panic that cannot unwind (e.g. an unsafe-precondition check) aborts the process: leave its text
        // on stderr for the parent
        let msg = if let Some(s) = info.payload().downcast_ref::<&str>() {
            s.to_string()
        } else if let Some(s) = info.payload().downcast_ref::<String>() {
            s.clone()
        } else {
            String::new()
        };
        eprintln!("panic at {}: {}", at, msg.replace('\n', " ").chars().take(300).collect::<String>());
        if let Ok(mut g) = LAST_PANIC_AT.lock() {
            *g = Some(at);
        }
    }));
}

fn take_panic_at() -> Option<String> {
    LAST_PANIC_AT.lock().ok().and_then(|mut g| g.take())
}

fn vm_hwm_kb() -> u64 {
    if let Ok(s) = std::fs::read_to_string("/proc/self/status") {
        for l in s.lines() {
            if let Some(r) = l.strip_prefix("VmHWM:") {
                return r.trim().trim_end_matches("kB").trim().parse().unwrap_or(0);
            }
        }
    }
    0
}

fn keypair_of(name: &str) -> KeyPair {
    KeyPair::from_secret_key(secret_of(name), KeyFormat::Ed25519).expect("key")
}

fn decode(bytes: &[u8]) -> Option<(InterpreterData, Versions)> {
    if bytes.is_empty() {
        return None;
    }
    let env = InterpreterDataEnvelope::try_from_slice(bytes).ok()?;
    let d = InterpreterData::try_from_slice(&env.inner_data).ok()?;
    Some((d, env.versions.clone()))
}

fn encode(d: &InterpreterData, versions: &Versions) -> Option<Vec<u8>> {
    let inner = d.serialize().ok()?;
    InterpreterDataEnvelope { versions: versions.clone(), inner_data: inner.into() }.serialize().ok()
}

// ------------------------------------------------------------------------------------------------
// byte-level mutation

fn mutate_bytes(b: &mut Vec<u8>, ops: &J) -> usize {
    let mut applied = 0;
    for m in ops.as_array().cloned().unwrap_or_default() {
        let k = st(&m[0]);
        let a = n(&m[1]) as usize;
        let x = n(&m[2]);
        match k.as_str() {
            "flip" if !b.is_empty() => {
                let i = a % b.len();
                b[i] ^= (x as u8) | 1;
                applied += 1;
            }
            "set" if !b.is_empty() => {
                let i = a % b.len();
                b[i] = x as u8;
                applied += 1;
            }
            "trunc" => {
                let i = a % (b.len() + 1);
                b.truncate(i);
                applied += 1;
            }
            "insert" => {
                let i = a % (b.len() + 1);
                b.insert(i, x as u8);
                applied += 1;
            }
            "del" if !b.is_empty() => {
                let i = a % b.len();
                b.remove(i);
                applied += 1;
            }
            "dup" if !b.is_empty() => {
                // duplicate a short slice
                let i = a % b.len();
                let l = 1 + (x as usize) % 16;
                let s: Vec<u8> = b[i..(i + l).min(b.len())].to_vec();
                for (k2, y) in s.into_iter().enumerate() {
                    b.insert(i + k2, y);
                }
                applied += 1;
            }
            "u32" if b.len() >= 4 => {
                // overwrite 4 aligned bytes with a boundary value (little endian: rkyv archives)
                let i = (a % (b.len() / 4)) * 4;
                let v: u32 = match x % 6 {
                    0 => 0,
                    1 => u32::MAX,
                    2 => u32::MAX - 1,
                    3 => 1 << 31,
                    4 => 0xCAFEBABE,
                    _ => b.len() as u32,
                };
                b[i..i + 4].copy_from_slice(&v.to_le_bytes());
                applied += 1;
            }
            _ => {}
        }
    }
    applied
}

fn mutate_text(t: &str, ops: &J) -> String {
    let mut b = t.as_bytes().to_vec();
    mutate_bytes(&mut b, ops);
    String::from_utf8_lossy(&b).into_owned()
}

// ------------------------------------------------------------------------------------------------
// structural tampering of decoded data (kept CID-consistent: every fabricated store entry is stored
// under the hash of its content, so `CidInfo::verify` accepts the stores)

struct Stores {
    values: CidTracker<RawValue>,
    tetraplets: CidTracker<polyplets::SecurityTetraplet>,
    canon_elems: CidTracker<CanonCidAggregate>,
    canon_results: CidTracker<CanonResultCidAggregate>,
    services: CidTracker<ServiceResultCidAggregate>,
}

impl Stores {
    fn open(ci: &CidInfo) -> Stores {
        Stores {
            values: CidTracker::from_cid_stores(ci.value_store.clone(), CidStore::new()),
            tetraplets: CidTracker::from_cid_stores(ci.tetraplet_store.clone(), CidStore::new()),
            canon_elems: CidTracker::from_cid_stores(ci.canon_element_store.clone(), CidStore::new()),
            canon_results: CidTracker::from_cid_stores(ci.canon_result_store.clone(), CidStore::new()),
            services: CidTracker::from_cid_stores(ci.service_result_store.clone(), CidStore::new()),
        }
    }
    fn close(self) -> CidInfo {
        CidInfo {
            value_store: self.values.into(),
            tetraplet_store: self.tetraplets.into(),
            canon_element_store: self.canon_elems.into(),
            canon_result_store: self.canon_results.into(),
            service_result_store: self.services.into(),
        }
    }
}

/// a RawValue whose text is `raw` verbatim (JSON or not)
fn raw_value(raw: &str) -> Option<RawValue> {
    serde_json::from_value::<RawValue>(J::String(raw.to_string())).ok()
}

fn call_result_of(j: &J, fallback_cid: &str) -> CallResult {
    let cid = |x: &J| -> String {
        let s = st(x);
        if s.is_empty() || s.starts_with('@') { fallback_cid.to_string() } else { s }
    };
    match j[0].as_str().unwrap_or("") {
        "sent" => CallResult::RequestSentBy(Sender::PeerId(Rc::new(st(&j[1])))),
        "sent_id" => CallResult::RequestSentBy(Sender::PeerIdWithCallId { peer_id: Rc::new(st(&j[1])), call_id: n(&j[2]) as u32 }),
        "scalar" => CallResult::Executed(ValueRef::Scalar(CID::new(cid(&j[1])))),
        "stream" => CallResult::Executed(ValueRef::Stream { cid: CID::new(cid(&j[1])), generation: GenerationIdx::from(n(&j[2]) as u32 as usize) }),
        "unused" => CallResult::Executed(ValueRef::Unused(CID::new(cid(&j[1])))),
        _ => CallResult::Failed(CID::new(cid(&j[1]))),
    }
}

fn state_of(j: &J, svc_cid: &str, canon_cid: &str, len: usize) -> ExecutedState {
    match j[0].as_str().unwrap_or("") {
        "st_call" => ExecutedState::Call(call_result_of(&j[1], svc_cid)),
        "st_ap" => ExecutedState::Ap(ApResult {
            res_generations: j[1].as_array().map(|a| a.iter().map(|g| GenerationIdx::from(sym(g, len) as usize)).collect()).unwrap_or_default(),
        }),
        "st_par" => ExecutedState::Par(ParResult { left_size: sym(&j[1], len), right_size: sym(&j[2], len) }),
        "st_canon" => match j[1][0].as_str().unwrap_or("") {
            "csent" => ExecutedState::Canon(CanonResult::RequestSentBy(Rc::new(st(&j[1][1])))),
            _ => {
                let s = st(&j[1][1]);
                ExecutedState::Canon(CanonResult::Executed(CID::new(if s.is_empty() || s.starts_with('@') { canon_cid.to_string() } else { s })))
            }
        },
        _ => ExecutedState::Fold(FoldResult {
            lore: j[1]
                .as_array()
                .map(|a| {
                    a.iter()
                        .map(|e| FoldSubTraceLore {
                            value_pos: sym(&e[0], len).into(),
                            subtraces_desc: e[1]
                                .as_array()
                                .map(|ds| ds.iter().map(|d| SubTraceDesc { begin_pos: sym(&d[0], len).into(), subtrace_len: sym(&d[1], len) }).collect())
                                .unwrap_or_default(),
                        })
                        .collect()
                })
                .unwrap_or_default(),
        }),
    }
}

fn kind_of(s: &ExecutedState) -> &'static str {
    match s {
        ExecutedState::Par(_) => "par",
        ExecutedState::Call(CallResult::RequestSentBy(_)) => "call_sent",
        ExecutedState::Call(CallResult::Executed(ValueRef::Scalar(_))) => "call_scalar",
        ExecutedState::Call(CallResult::Executed(ValueRef::Stream { .. })) => "call_stream",
        ExecutedState::Call(CallResult::Executed(ValueRef::Unused(_))) => "call_unused",
        ExecutedState::Call(CallResult::Failed(_)) => "call_failed",
        ExecutedState::Fold(_) => "fold",
        ExecutedState::Ap(_) => "ap",
        ExecutedState::Canon(CanonResult::RequestSentBy(_)) => "canon_sent",
        ExecutedState::Canon(CanonResult::Executed(_)) => "canon",
    }
}

fn pick<F: Fn(&ExecutedState) -> bool>(t: &[ExecutedState], pred: F, k: u64) -> Option<usize> {
    let idxs: Vec<usize> = t.iter().enumerate().filter(|(_, s)| pred(s)).map(|(i, _)| i).collect();
    if idxs.is_empty() {
        None
    } else {
        Some(idxs[(k as usize) % idxs.len()])
    }
}

fn with_cid(s: &ExecutedState, new: &str) -> ExecutedState {
    match s {
        ExecutedState::Call(CallResult::Executed(ValueRef::Scalar(_))) => ExecutedState::Call(CallResult::Executed(ValueRef::Scalar(CID::new(new)))),
        ExecutedState::Call(CallResult::Executed(ValueRef::Stream { generation, .. })) => {
            ExecutedState::Call(CallResult::Executed(ValueRef::Stream { cid: CID::new(new), generation: *generation }))
        }
        ExecutedState::Call(CallResult::Executed(ValueRef::Unused(_))) => ExecutedState::Call(CallResult::Executed(ValueRef::Unused(CID::new(new)))),
        ExecutedState::Call(CallResult::Failed(_)) => ExecutedState::Call(CallResult::Failed(CID::new(new))),
        ExecutedState::Canon(CanonResult::Executed(_)) => ExecutedState::Canon(CanonResult::Executed(CID::new(new))),
        o => o.clone(),
    }
}

fn has_cid(s: &ExecutedState) -> bool {
    matches!(
        s,
        ExecutedState::Call(CallResult::Executed(_)) | ExecutedState::Call(CallResult::Failed(_)) | ExecutedState::Canon(CanonResult::Executed(_))
    )
}
fn has_store_cid(s: &ExecutedState) -> bool {
    matches!(
        s,
        ExecutedState::Call(CallResult::Executed(ValueRef::Scalar(_)))
            | ExecutedState::Call(CallResult::Executed(ValueRef::Stream { .. }))
            | ExecutedState::Call(CallResult::Failed(_))
            | ExecutedState::Canon(CanonResult::Executed(_))
    )
}
fn is_stream_state(s: &ExecutedState) -> bool {
    matches!(s, ExecutedState::Ap(_) | ExecutedState::Call(CallResult::Executed(ValueRef::Stream { .. })))
}

/// One structural edit; returns a label when it applied.
fn tamper_one(d: &mut InterpreterData, op: &J, attacker_id: &str) -> Option<String> {
    let mut t: Vec<ExecutedState> = d.trace.to_vec();
    let len = t.len();
    let k = st(&op[0]);
    let some_svc: String = t.iter().find_map(|s| if let ExecutedState::Call(cr) = s { cr.get_cid().map(|c| c.get_inner().to_string()) } else { None }).unwrap_or_else(|| "bagaaihra-none".into());
    let some_canon: String = t
        .iter()
        .find_map(|s| if let ExecutedState::Canon(CanonResult::Executed(cid)) = s { Some(cid.get_inner().to_string()) } else { None })
        .unwrap_or_else(|| "bagaaihra-none".into());
    let label: String;
    match k.as_str() {
        "lore" => {
            let i = pick(&t, |s| matches!(s, ExecutedState::Fold(_)), n(&op[1]))?;
            if let ExecutedState::Fold(f) = &mut t[i] {
                if f.lore.is_empty() {
                    return None;
                }
                let j = (n(&op[2]) as usize) % f.lore.len();
                let v = sym(&op[4], len);
                let e = &mut f.lore[j];
                let field = st(&op[3]);
                match field.as_str() {
                    "value_pos" => e.value_pos = v.into(),
                    "before_pos" => e.subtraces_desc.get_mut(0)?.begin_pos = v.into(),
                    "before_len" => e.subtraces_desc.get_mut(0)?.subtrace_len = v,
                    "after_pos" => e.subtraces_desc.get_mut(1)?.begin_pos = v.into(),
                    "after_len" => e.subtraces_desc.get_mut(1)?.subtrace_len = v,
                    _ => return None,
                }
                label = format!("lore.{}", field);
            } else {
                return None;
            }
        }
        "lore_desc" => {
            let i = pick(&t, |s| matches!(s, ExecutedState::Fold(_)), n(&op[1]))?;
            if let ExecutedState::Fold(f) = &mut t[i] {
                if f.lore.is_empty() {
                    return None;
                }
                let j = (n(&op[2]) as usize) % f.lore.len();
                f.lore[j].subtraces_desc.resize(n(&op[3]) as usize % 5, SubTraceDesc { begin_pos: 0.into(), subtrace_len: 0 });
                label = "lore.desc_count".into();
            } else {
                return None;
            }
        }
        "lore_dup" => {
            let i = pick(&t, |s| matches!(s, ExecutedState::Fold(_)), n(&op[1]))?;
            if let ExecutedState::Fold(f) = &mut t[i] {
                let e = f.lore.first()?.clone();
                f.lore.push(e);
                label = "lore.dup".into();
            } else {
                return None;
            }
        }
        "par" => {
            let i = pick(&t, |s| matches!(s, ExecutedState::Par(_)), n(&op[1]))?;
            t[i] = ExecutedState::Par(ParResult { left_size: sym(&op[2], len), right_size: sym(&op[3], len) });
            label = "par.sizes".into();
        }
        "gen" => {
            let i = pick(&t, is_stream_state, n(&op[1]))?;
            let g = GenerationIdx::from(sym(&op[2], len) as usize);
            t[i] = match &t[i] {
                ExecutedState::Ap(_) => ExecutedState::Ap(ApResult { res_generations: vec![g] }),
                ExecutedState::Call(CallResult::Executed(ValueRef::Stream { cid, .. })) => {
                    ExecutedState::Call(CallResult::Executed(ValueRef::Stream { cid: cid.clone(), generation: g }))
                }
                o => o.clone(),
            };
            label = format!("generation.{}", kind_of(&t[i]));
        }
        "ap_gens" => {
            let i = pick(&t, |s| matches!(s, ExecutedState::Ap(_)), n(&op[1]))?;
            let gens = op[2].as_array().map(|a| a.iter().map(|g| GenerationIdx::from(sym(g, len) as usize)).collect()).unwrap_or_default();
            t[i] = ExecutedState::Ap(ApResult { res_generations: gens });
            label = "ap.gens_count".into();
        }
        "dangling" => {
            // a well-formed CID that no store contains
            let i = pick(&t, has_store_cid, n(&op[1]))?;
            let fresh: CID<RawValue> = air_interpreter_cid::raw_value_to_json_cid(format!("\"dangling-{}\"", n(&op[1])));
            label = format!("dangling_cid.{}", kind_of(&t[i]));
            t[i] = with_cid(&t[i], &fresh.get_inner());
        }
        "illtyped" => {
            // a CID of the wrong store, or text that is not a CID at all
            let i = pick(&t, has_cid, n(&op[1]))?;
            let mode = st(&op[2]);
            let new: String = match mode.as_str() {
                "value" => d.cid_info.value_store.iter().next().map(|(c, _)| c.get_inner().to_string())?,
                "tetraplet" => d.cid_info.tetraplet_store.iter().next().map(|(c, _)| c.get_inner().to_string())?,
                "service" => some_svc.clone(),
                "canon" => some_canon.clone(),
                "empty" => String::new(),
                other => other.to_string(),
            };
            label = format!("illtyped_cid.{}.{}", kind_of(&t[i]), if ["value", "tetraplet", "service", "canon", "empty"].contains(&mode.as_str()) { mode.as_str() } else { "text" });
            t[i] = with_cid(&t[i], &new);
        }
        "nonjson" => {
            // value-store entry whose raw text is not JSON, stored under the right hash; the service
            // result aggregate that refers to it is re-hashed and the trace state updated
            let i = pick(&t, |s| matches!(s, ExecutedState::Call(CallResult::Executed(ValueRef::Scalar(_))) | ExecutedState::Call(CallResult::Executed(ValueRef::Stream { .. })) | ExecutedState::Call(CallResult::Failed(_))), n(&op[1]))?;
            let old = if let ExecutedState::Call(cr) = &t[i] { cr.get_cid()?.clone() } else { return None };
            let agg = d.cid_info.service_result_store.get(&old)?;
            let mut stores = Stores::open(&d.cid_info);
            let rv = raw_value(op[2].as_str().unwrap_or("{not json"))?;
            let vcid = stores.values.track_raw_value(rv);
            let new_agg = ServiceResultCidAggregate { value_cid: vcid, argument_hash: agg.argument_hash.clone(), tetraplet_cid: agg.tetraplet_cid.clone() };
            let ncid = stores.services.track_value(new_agg).ok()?;
            d.cid_info = stores.close();
            label = format!("nonjson_value.{}", kind_of(&t[i]));
            t[i] = with_cid(&t[i], &ncid.get_inner());
        }
        "nonjson_canon" => {
            let i = pick(&t, |s| matches!(s, ExecutedState::Canon(CanonResult::Executed(_))), n(&op[1]))?;
            let old = if let ExecutedState::Canon(CanonResult::Executed(cid)) = &t[i] { cid.clone() } else { return None };
            let res = d.cid_info.canon_result_store.get(&old)?;
            let first = res.values.first()?.clone();
            let elem = d.cid_info.canon_element_store.get(&first)?;
            let mut stores = Stores::open(&d.cid_info);
            let rv = raw_value(op[2].as_str().unwrap_or("{not json"))?;
            let vcid = stores.values.track_raw_value(rv);
            let new_elem = CanonCidAggregate { value: vcid, tetraplet: elem.tetraplet.clone(), provenance: elem.provenance.clone() };
            let ecid = stores.canon_elems.track_value(new_elem).ok()?;
            let mut values = res.values.clone();
            values[0] = ecid;
            let new_res = CanonResultCidAggregate { tetraplet: res.tetraplet.clone(), values };
            let rcid = stores.canon_results.track_value(new_res).ok()?;
            d.cid_info = stores.close();
            label = "nonjson_value.canon".into();
            t[i] = with_cid(&t[i], &rcid.get_inner());
        }
        "forge_call" => {
            // replace the k-th call state by an Executed / Failed state fabricated by the attacker:
            // ["forge_call", k, variant, value_json_text, service, function, arg_hash, peer("attacker" | id)]
            let i = pick(&t, |s| matches!(s, ExecutedState::Call(_)), n(&op[1]))?;
            let variant = st(&op[2]);
            let raw = op[3].as_str().map(|s| s.to_string()).unwrap_or_else(|| op[3].to_string());
            let peer = match op[7].as_str() {
                None | Some("attacker") | Some("") => attacker_id.to_string(),
                Some(p) => p.to_string(),
            };
            let mut stores = Stores::open(&d.cid_info);
            let vcid = stores.values.track_raw_value(raw_value(&raw)?);
            let tet = polyplets::SecurityTetraplet::new(peer, st(&op[4]), st(&op[5]), "");
            let tcid = stores.tetraplets.track_value(tet).ok()?;
            let agg = ServiceResultCidAggregate { value_cid: vcid.clone(), argument_hash: st(&op[6]).into(), tetraplet_cid: tcid };
            let scid = stores.services.track_value(agg).ok()?;
            d.cid_info = stores.close();
            t[i] = ExecutedState::Call(match variant.as_str() {
                "scalar" => CallResult::Executed(ValueRef::Scalar(scid)),
                "stream" => CallResult::Executed(ValueRef::Stream { cid: scid, generation: GenerationIdx::from(sym(&op[8], len) as usize) }),
                "unused" => CallResult::Executed(ValueRef::Unused(CID::new(vcid.get_inner()))),
                _ => CallResult::Failed(scid),
            });
            label = format!("forged_call.{}", variant);
        }
        "kind" => {
            if t.is_empty() {
                return None;
            }
            let i = (n(&op[1]) as usize) % t.len();
            let new = state_of(&op[2], &some_svc, &some_canon, len);
            label = format!("kind_swap.{}->{}", kind_of(&t[i]), kind_of(&new));
            t[i] = new;
        }
        "swap" => {
            if t.len() < 2 {
                return None;
            }
            let i = (n(&op[1]) as usize) % t.len();
            let j = (n(&op[2]) as usize) % t.len();
            t.swap(i, j);
            label = "swap_states".into();
        }
        "dup" => {
            if t.is_empty() {
                return None;
            }
            let i = (n(&op[1]) as usize) % t.len();
            let s = t[i].clone();
            t.insert(i, s);
            label = "dup_state".into();
        }
        "del" => {
            if t.is_empty() {
                return None;
            }
            let i = (n(&op[1]) as usize) % t.len();
            t.remove(i);
            label = "del_state".into();
        }
        "trunc" => {
            let i = (n(&op[1]) as usize) % (t.len() + 1);
            t.truncate(i);
            label = "truncate".into();
        }
        "push" => {
            let s = state_of(&op[1], &some_svc, &some_canon, len);
            label = format!("push.{}", kind_of(&s));
            t.push(s);
        }
        "set_trace" => {
            t = op[1].as_array().map(|a| a.iter().map(|s| state_of(s, &some_svc, &some_canon, len)).collect()).unwrap_or_default();
            label = "set_trace".into();
        }
        "lcid" => {
            d.last_call_request_id = sym(&op[1], len);
            label = "lcid".into();
        }
        _ => return None,
    }
    d.trace = t.into();
    Some(label)
}

/// (peer id, cid) for every state the data verifier attributes, as far as the stores resolve
fn attribution(d: &InterpreterData) -> Vec<(String, Rc<str>)> {
    let mut out = vec![];
    for elt in d.trace.iter() {
        match elt {
            ExecutedState::Call(call) => {
                if let Some(cid) = call.get_cid() {
                    if let Some(sr) = d.cid_info.service_result_store.get(cid) {
                        if let Some(t) = d.cid_info.tetraplet_store.get(&sr.tetraplet_cid) {
                            out.push((t.peer_pk.to_string(), cid.get_inner()));
                        }
                    }
                }
            }
            ExecutedState::Canon(CanonResult::Executed(cid)) => {
                if let Some(cr) = d.cid_info.canon_result_store.get(cid) {
                    if let Some(t) = d.cid_info.tetraplet_store.get(&cr.tetraplet) {
                        out.push((t.peer_pk.to_string(), cid.get_inner()));
                    }
                }
            }
            _ => {}
        }
    }
    out
}

fn resign(d: &mut InterpreterData, attacker: &Peer, salt: &str) -> bool {
    let cids: Vec<Rc<str>> = attribution(d).into_iter().filter(|(p, _)| p == &attacker.id).map(|(_, c)| c).collect();
    let kp = keypair_of(&attacker.name);
    match air_interpreter_signatures::sign_cids(cids, salt, kp.as_inner()) {
        Ok(s) => {
            d.signatures.put(kp.public(), s.into());
            true
        }
        Err(_) => false,
    }
}

// ------------------------------------------------------------------------------------------------
// one case (child side)

struct Obs {
    /// Some(code) of the LAST interpreter call made by the case; None when nothing was run
    code: Option<i64>,
    panic: Option<String>,
    class: String,
    input_bytes: usize,
    info: J,
}

fn net_of(case: &J) -> Net {
    let peers: Vec<String> = case["peers"].as_array().map(|a| a.iter().map(st).collect()).unwrap_or_else(|| vec!["A".into(), "B".into(), "C".into()]);
    let init = n(&case["init"]) as usize % peers.len().max(1);
    let script = Net::instantiate(case["script"].as_str().unwrap_or("(null)"), &peers);
    let mut sv = case["services"].clone();
    // peer names inside constant service results
    if let Ok(txt) = serde_json::to_string(&sv) {
        if let Ok(v) = serde_json::from_str::<J>(&Net::instantiate(&txt, &peers)) {
            sv = v;
        }
    }
    Net::new(&script, &peers, init, Services::from_json(&sv), case["particle_id"].as_str().unwrap_or("particle-c01"))
}

fn note_run(rec: &StepRecord, first_panic: &mut Option<(usize, String)>, codes: &mut BTreeMap<i64, u64>, last_code: &mut Option<i64>, bytes: &mut usize) {
    *bytes = (*bytes).max(rec.input.air.len() + rec.input.prev.len() + rec.input.cur.len() + rec.input.call_results.values().map(|v| v.1.len() + 16).sum::<usize>());
    match &rec.out.panic {
        Some(m) => {
            if first_panic.is_none() {
                *first_panic = Some((rec.step, m.clone()));
            }
        }
        None => {
            *codes.entry(rec.out.code).or_insert(0) += 1;
            *last_code = Some(rec.out.code);
        }
    }
}

fn run_history(net: &mut Net, case: &J, first_panic: &mut Option<(usize, String)>, codes: &mut BTreeMap<i64, u64>, last_code: &mut Option<i64>, bytes: &mut usize) -> usize {
    let mut runs = 0;
    if case["ops"].is_array() {
        for op in ops_from_json(&case["ops"]) {
            if let Some(r) = net.exec(&op) {
                note_run(&r, first_panic, codes, last_code, bytes);
                runs += 1;
            }
            if first_panic.is_some() {
                break;
            }
        }
    } else {
        if let Some(r) = net.exec(&Op::Start) {
            note_run(&r, first_panic, codes, last_code, bytes);
            runs += 1;
        }
        let steps = case["steps"].as_u64().unwrap_or(30) as usize;
        // drain, but stop *before* the network is empty when an interception is requested
        for _ in 0..steps {
            let mut progressed = false;
            for p in 0..net.hosts.len() {
                if !net.hosts[p].pending.is_empty() {
                    if let Some(r) = net.exec(&Op::Return(p, 0)) {
                        note_run(&r, first_panic, codes, last_code, bytes);
                        runs += 1;
                        progressed = true;
                    }
                }
            }
            if case["kind"] == "exec" && !net.inflight.is_empty() && case["hold"].as_bool().unwrap_or(true) {
                let want = case["hops"].as_u64().unwrap_or(0) as usize;
                if net.delivered.len() >= want {
                    break;
                }
            }
            if !net.inflight.is_empty() {
                if let Some(r) = net.exec(&Op::Deliver(0, false)) {
                    note_run(&r, first_panic, codes, last_code, bytes);
                    runs += 1;
                    progressed = true;
                }
            }
            if !progressed || first_panic.is_some() {
                break;
            }
        }
    }
    runs
}

fn do_case(case: &J) -> Obs {
    let kind = st(&case["kind"]);
    match kind.as_str() {
        "parse" => {
            let text = st(&case["text"]);
            let r = std::panic::catch_unwind(|| air_parser::parse(&text).is_ok());
            obs_simple("parse", text.len(), r.map(|ok| if ok { 0 } else { 1 }))
        }
        "beautify" => {
            let text = st(&case["text"]);
            let r = std::panic::catch_unwind(|| air_beautifier::beautify_to_string(&text).is_ok());
            obs_simple("beautify", text.len(), r.map(|ok| if ok { 0 } else { 1 }))
        }
        _ => do_history_case(case, &kind),
    }
}

fn obs_simple(class: &str, bytes: usize, r: std::thread::Result<i64>) -> Obs {
    match r {
        Ok(code) => Obs { code: Some(code), panic: None, class: format!("{}.{}", class, if code == 0 { "ok" } else { "rejected" }), input_bytes: bytes, info: json!({}) },
        Err(e) => Obs { code: None, panic: Some(panic_text(e)), class: format!("{}.panic", class), input_bytes: bytes, info: json!({}) },
    }
}

fn panic_text(e: Box<dyn std::any::Any + Send>) -> String {
    if let Some(s) = e.downcast_ref::<&str>() {
        s.to_string()
    } else if let Some(s) = e.downcast_ref::<String>() {
        s.clone()
    } else {
        "panic".to_string()
    }
}

fn do_history_case(case: &J, kind: &str) -> Obs {
    let mut net = net_of(case);
    let mut first_panic = None;
    let mut codes = BTreeMap::new();
    let mut last_code = None;
    let mut bytes = 0usize;
    let honest_runs = run_history(&mut net, case, &mut first_panic, &mut codes, &mut last_code, &mut bytes);
    let mut info = json!({"honest_runs": honest_runs});
    let finish = |class: String, first_panic: Option<(usize, String)>, last_code: Option<i64>, bytes: usize, codes: &BTreeMap<i64, u64>, mut info: J| -> Obs {
        info["codes"] = json!(codes.iter().map(|(k, v)| (k.to_string(), *v)).collect::<BTreeMap<String, u64>>());
        if let Some((s, m)) = &first_panic {
            info["panic_step"] = json!(s);
            info["panic"] = json!(m);
        }
        Obs { code: last_code, panic: first_panic.map(|x| x.1), class, input_bytes: bytes, info }
    };
    if kind == "script" || first_panic.is_some() {
        return finish(format!("script.{}", st(&case["label"])), first_panic, last_code.or(Some(0)), bytes, &codes, info);
    }

    // ---- the data the attacker sends
    let (attacker, victim, mut data): (usize, usize, Vec<u8>) = if !net.inflight.is_empty() {
        let i = (n(&case["pick"]) as usize) % net.inflight.len();
        let m = net.inflight.remove(i);
        let data = if case["source"] == "attacker_prev" { net.hosts[m.from].prev.clone() } else { m.data.clone() };
        (m.from, m.to, data)
    } else if !net.delivered.is_empty() {
        let m = net.delivered[(n(&case["pick"]) as usize) % net.delivered.len()].clone();
        (m.from, m.to, net.hosts[m.from].prev.clone())
    } else {
        // nobody ever sent anything: the init peer's own data is "sent" to the next peer
        let a = net.init_peer;
        (a, (a + 1) % net.hosts.len(), net.hosts[a].prev.clone())
    };
    info["attacker"] = json!(net.hosts[attacker].peer.name);
    info["victim"] = json!(net.hosts[victim].peer.name);
    let mut labels: Vec<String> = vec![];
    let salt = net.particle_id.clone();
    if case["tamper"].is_array() {
        if let Some((mut d, versions)) = decode(&data) {
            info["trace_len"] = json!(d.trace.len());
            let mut kinds: BTreeMap<&'static str, u64> = BTreeMap::new();
            for s in d.trace.iter() {
                *kinds.entry(kind_of(s)).or_insert(0) += 1;
            }
            info["trace_kinds"] = json!(kinds);
            let attacker_id = net.hosts[attacker].peer.id.clone();
            for op in case["tamper"].as_array().cloned().unwrap_or_default() {
                if let Some(l) = tamper_one(&mut d, &op, &attacker_id) {
                    labels.push(l);
                }
            }
            if case["resign"].as_bool().unwrap_or(true) {
                let ap = net.hosts[attacker].peer.clone();
                resign(&mut d, &ap, &salt);
            }
            if let Some(b) = encode(&d, &versions) {
                data = b;
            }
        }
    }
    if case["mut"].is_array() {
        if case["mut_level"] == "inner" {
            if let Ok(env) = InterpreterDataEnvelope::try_from_slice(&data) {
                let mut inner = env.inner_data.to_vec();
                let k = mutate_bytes(&mut inner, &case["mut"]);
                let env2 = InterpreterDataEnvelope { versions: env.versions.clone(), inner_data: inner.into() };
                if let Ok(b) = env2.serialize() {
                    data = b;
                    labels.push(format!("bytes.inner.{}", k));
                }
            }
        } else {
            let k = mutate_bytes(&mut data, &case["mut"]);
            labels.push(format!("bytes.envelope.{}", k));
        }
    }
    info["tamper_applied"] = json!(labels);
    let class = if labels.is_empty() { "untampered".to_string() } else { labels[0].clone() };

    if kind == "human" {
        let blen = data.len();
        let r = std::panic::catch_unwind(move || air::to_human_readable_data(data).is_ok());
        let mut o = obs_simple("human", blen, r.map(|ok| if ok { 0 } else { 1 }));
        o.class = format!("human.{}", class);
        o.info = info;
        return o;
    }

    // ---- the victim's run on the tampered data
    let mut input = net.make_input(victim, data.clone(), BTreeMap::new());
    if let Some(s) = case["victim_script"].as_str() {
        input.air = Net::instantiate(s, &net.hosts.iter().map(|h| h.peer.name.clone()).collect::<Vec<_>>());
    }
    if case["mut_script"].is_array() {
        input.air = mutate_text(&input.air, &case["mut_script"]);
    }
    if case["victim_prev"] == "empty" {
        input.prev = vec![];
    }
    if case["answer_pending"].as_bool().unwrap_or(false) {
        let ids: Vec<u32> = net.hosts[victim].pending.keys().cloned().collect();
        for id in ids {
            let req = net.hosts[victim].pending.remove(&id).unwrap();
            let r = net.services.call(&net.hosts[victim].peer.name.clone(), &req);
            input.call_results.insert(id, r);
        }
    }
    if case["mut_results"].is_array() {
        let mut raw = encode_call_results(&input.call_results);
        if raw.len() < 8 {
            // give the mutation something to chew on
            let mut m = BTreeMap::new();
            m.insert(1u32, (0i32, "\"x\"".to_string()));
            m.insert(7u32, (1i32, "{\"a\":[1,2]}".to_string()));
            raw = encode_call_results(&m);
        }
        mutate_bytes(&mut raw, &case["mut_results"]);
        input.call_results_raw = Some(raw);
    }
    let out = run(&input);
    let rec = StepRecord { step: net.step, peer: victim, input, out };
    net.step += 1;
    note_run(&rec, &mut first_panic, &mut codes, &mut last_code, &mut bytes);
    info["victim_code"] = json!(rec.out.code);
    info["victim_msg"] = json!(rec.out.msg.chars().take(160).collect::<String>());
    let accepted = rec.out.panic.is_none() && (rec.out.code == 0 || !rec.out.data.is_empty() && rec.out.data != rec.input.prev);
    info["accepted"] = json!(accepted);
    net.apply(victim, &rec.out);

    // ---- follow-up: results come back, particles travel on (a crash may need a second run)
    let post = case["post"].as_u64().unwrap_or(6) as usize;
    if first_panic.is_none() {
        for r in net.drain(post) {
            note_run(&r, &mut first_panic, &mut codes, &mut last_code, &mut bytes);
            if first_panic.is_some() {
                break;
            }
        }
    }
    finish(format!("exec.{}", class), first_panic, last_code, bytes, &codes, info)
}

fn child_main() {
    if std::env::var("C01_DEFAULT_HOOK").is_err() {
        record_panics();
    }
    let stdin = std::io::stdin();
    let stdout = std::io::stdout();
    for line in stdin.lock().lines() {
        let line = match line {
            Ok(l) => l,
            Err(_) => break,
        };
        if line.trim().is_empty() {
            continue;
        }
        let case: J = serde_json::from_str(&line).unwrap_or(J::Null);
        let before = vm_hwm_kb();
        let o = match std::panic::catch_unwind(std::panic::AssertUnwindSafe(|| do_case(&case))) {
            Ok(o) => o,
            Err(e) => Obs { code: None, panic: Some(format!("outside the interpreter call: {}", panic_text(e))), class: "driver".into(), input_bytes: 0, info: json!({}) },
        };
        let after = vm_hwm_kb();
        let panic_at = if o.panic.is_some() { take_panic_at() } else { None };
        let msg = json!({"code": o.code, "panic": o.panic, "panic_at": panic_at, "class": o.class, "input_bytes": o.input_bytes, "info": o.info,
                         "hwm_before_kb": before, "hwm_after_kb": after});
        let mut h = stdout.lock();
        let _ = writeln!(h, "{}", msg);
        let _ = h.flush();
        // a case that grew the peak gets a fresh process, so that the next peak is attributable
        if after > before + 65536 {
            break;
        }
    }
}

// ------------------------------------------------------------------------------------------------
// parent

struct Child {
    proc_: std::process::Child,
    rx: std::sync::mpsc::Receiver<String>,
    /// last lines the child wrote to stderr (the runtime's message when it aborts)
    err_tail: std::sync::Arc<std::sync::Mutex<Vec<String>>>,
    err_reader: Option<std::thread::JoinHandle<()>>,
}

fn spawn_child(mem_kb: u64) -> Child {
    let exe = std::env::current_exe().expect("exe");
    let mut p = std::process::Command::new("sh")
        .arg("-c")
        .arg(format!("ulimit -c 0; ulimit -v {}; exec \"$0\" --child", mem_kb))
        .arg(exe)
        .stdin(std::process::Stdio::piped())
        .stdout(std::process::Stdio::piped())
        .stderr(std::process::Stdio::piped())
        .spawn()
        .expect("spawn child");
    let out = p.stdout.take().expect("stdout");
    let err = p.stderr.take().expect("stderr");
    let err_tail = std::sync::Arc::new(std::sync::Mutex::new(Vec::<String>::new()));
    let tail2 = err_tail.clone();
    let err_reader = std::thread::spawn(move || {
        let r = std::io::BufReader::new(err);
        for l in r.lines() {
            if let (Ok(l), Ok(mut g)) = (l, tail2.lock()) {
                g.push(l);
                if g.len() > 6 {
                    g.remove(0);
                }
            }
        }
    });
    let (tx, rx) = std::sync::mpsc::channel();
    std::thread::spawn(move || {
        let r = std::io::BufReader::new(out);
        for l in r.lines() {
            match l {
                Ok(l) => {
                    if tx.send(l).is_err() {
                        break;
                    }
                }
                Err(_) => break,
            }
        }
    });
    Child { proc_: p, rx, err_tail, err_reader: Some(err_reader) }
}

fn term(class: &str, input_bytes: u64, obs: &str, hwm_kb: u64, grew_kb: u64) -> String {
    format!(
        "{{| cc_class := {}; cc_input_bytes := {}; cc_obs := {}; cc_hwm_kb := {}; cc_grew_kb := {} |}}",
        c::s(class),
        input_bytes,
        obs,
        hwm_kb,
        grew_kb
    )
}

fn parent_main() {
    let mem_mb: u64 = std::env::var("C01_MEM_MB").ok().and_then(|s| s.parse().ok()).unwrap_or(2048);
    let timeout_ms: u64 = std::env::var("C01_TIMEOUT_MS").ok().and_then(|s| s.parse().ok()).unwrap_or(20000);
    let stdin = std::io::stdin();
    let mut child: Option<Child> = None;
    for line in stdin.lock().lines() {
        let line = match line {
            Ok(l) => l,
            Err(_) => break,
        };
        if line.trim().is_empty() {
            continue;
        }
        let case: J = serde_json::from_str(&line).unwrap_or(J::Null);
        let case_timeout = case["timeout_ms"].as_u64().unwrap_or(timeout_ms);
        let approx_bytes = line.len() as u64;
        if child.is_none() {
            child = Some(spawn_child(case["mem_mb"].as_u64().unwrap_or(mem_mb) * 1024));
        }
        let ch = child.as_mut().unwrap();
        if let Ok(mut g) = ch.err_tail.lock() {
            g.clear(); // what the child wrote for earlier cases (the parser prints its error reports to stderr)
        }
        let sent = {
            let si = ch.proc_.stdin.as_mut().expect("stdin");
            writeln!(si, "{}", line).and_then(|_| si.flush()).is_ok()
        };
        let answer = if sent { ch.rx.recv_timeout(std::time::Duration::from_millis(case_timeout)) } else { Err(std::sync::mpsc::RecvTimeoutError::Disconnected) };
        let out = match answer {
            Ok(l) => {
                let m: J = serde_json::from_str(&l).unwrap_or(J::Null);
                let class = st(&m["class"]);
                let after = n(&m["hwm_after_kb"]);
                let before = n(&m["hwm_before_kb"]);
                let grew = after.saturating_sub(before);
                let ib = n(&m["input_bytes"]);
                let (obs, verdict) = match (&m["panic"], &m["code"]) {
                    (J::String(p), _) => (format!("(CPanicked {})", c::s(&p.chars().filter(|ch| ch.is_ascii() && *ch != '\n').take(200).collect::<String>())), "panic"),
                    (_, J::Number(code)) => (format!("(CReturned {})", c::z(code.as_i64().unwrap_or(0) as i128)), "returned"),
                    _ => ("(CReturned 0%Z)".to_string(), "returned"),
                };
                if grew > 65536 {
                    // the child leaves after such a case
                    let _ = ch.proc_.wait();
                    child = None;
                }
                json!({"coq": [term(&class, ib, &obs, after, grew)], "classes": [class],
                       "info": [{"verdict": verdict, "panic": m["panic"], "panic_at": m["panic_at"], "code": m["code"], "hwm_kb": after, "grew_kb": grew, "input_bytes": ib, "detail": m["info"]}]})
            }
            Err(e) => {
                let timed_out = matches!(e, std::sync::mpsc::RecvTimeoutError::Timeout);
                if timed_out {
                    let _ = ch.proc_.kill();
                }
                let status = ch.proc_.wait().ok();
                // the child is gone: its stderr reaches EOF, wait until the reader has seen everything
                if let Some(h) = ch.err_reader.take() {
                    let _ = h.join();
                }
                let tail: Vec<String> = ch.err_tail.lock().map(|g| g.clone()).unwrap_or_default();
                let tail_txt = tail.join(" | ");
                let death = if tail_txt.contains("overflowed its stack") {
                    "stack-overflow"
                } else if tail_txt.contains("memory allocation of") {
                    "allocation-failure"
                } else if tail_txt.contains("NonNull::new_unchecked requires that the pointer is non-null") {
                    "null-box-precondition"
                } else {
                    "other"
                };
                child = None;
                use std::os::unix::process::ExitStatusExt;
                let sig = status.and_then(|s| s.signal()).unwrap_or(0);
                let code = status.and_then(|s| s.code()).unwrap_or(-1);
                let class = format!("{}.{}", st(&case["kind"]), if timed_out { "timeout" } else { "died" });
                let obs = if timed_out { "CTimeout".to_string() } else { format!("(CDied {})", sig) };
                json!({"coq": [term(&class, approx_bytes, &obs, 0, 0)], "classes": [class],
                       "info": [{"verdict": if timed_out { "timeout" } else { "died" }, "signal": sig, "exit_code": code, "input_bytes": approx_bytes,
                                 "death": death, "stderr_tail": tail_txt}]})
            }
        };
        println!("{}", out);
    }
    if let Some(mut ch) = child {
        drop(ch.proc_.stdin.take());
        let _ = ch.proc_.wait();
    }
}

fn main() {
    if std::env::args().any(|a| a == "--child") {
        child_main();
    } else {
        parent_main();
    }
}
