#!/usr/bin/env python3
"""Translator: /repo's current working tree -> /verif/coq/gen/Generated.v

Deliberately strict: when a construct it expects is not found it raises, and the
caller treats a failed translation as a broken proof obligation.

Every extractor returns Coq source text for one or more definitions.  The file is
only rewritten when its content changes (so `make` keeps its cache).
"""
import os
import re
import sys

REPO = os.environ.get("VERIF_REPO", "/repo")
OUT = os.path.join(os.path.dirname(os.path.abspath(__file__)), "..", "coq", "gen", "Generated.v")


class TranslationError(Exception):
    pass


def read(rel):
    p = os.path.join(REPO, rel)
    try:
        with open(p, encoding="utf-8") as f:
            return f.read()
    except OSError as e:
        raise TranslationError(f"cannot read {rel}: {e}")


def strip_comments(src):
    # remove /* */ and // comments, keep string literals naive (good enough for the files we read)
    src = re.sub(r"/\*.*?\*/", "", src, flags=re.S)
    out = []
    for line in src.split("\n"):
        # do not strip inside string literals containing //
        m = re.search(r'(?<!:)//', line)
        if m and line[:m.start()].count('"') % 2 == 0:
            line = line[:m.start()]
        out.append(line)
    return "\n".join(out)


def coq_str(s):
    return '"' + s.replace('"', '""') + '"'


def coq_list(items):
    return "[" + "; ".join(items) + "]"


def enum_variants(rel, name):
    """Variant names of `pub enum <name>` in declaration order (attributes/doc skipped)."""
    src = strip_comments(read(rel))
    m = re.search(r"\benum\s+" + re.escape(name) + r"\b[^{]*\{", src)
    if not m:
        raise TranslationError(f"enum {name} not found in {rel}")
    i = m.end()
    depth = 1
    body_start = i
    while i < len(src) and depth > 0:
        c = src[i]
        if c == "{":
            depth += 1
        elif c == "}":
            depth -= 1
        i += 1
    body = src[body_start:i - 1]
    # walk top-level items of the enum body
    variants = []
    depth = 0
    token = ""
    items = []
    for c in body:
        if c in "({[":
            depth += 1
        elif c in ")}]":
            depth -= 1
        if c == "," and depth == 0:
            items.append(token)
            token = ""
        else:
            token += c
    if token.strip():
        items.append(token)
    for it in items:
        # drop attributes #[...] (possibly multi-line, nested brackets)
        s = it
        while True:
            s = s.lstrip()
            if s.startswith("#["):
                d = 0
                j = 0
                while j < len(s):
                    if s[j] == "[":
                        d += 1
                    elif s[j] == "]":
                        d -= 1
                        if d == 0:
                            break
                    j += 1
                s = s[j + 1:]
            else:
                break
        mm = re.match(r"([A-Za-z_][A-Za-z0-9_]*)", s)
        if not mm:
            if s.strip():
                raise TranslationError(f"cannot read a variant of {name}: {s[:40]!r}")
            continue
        variants.append(mm.group(1))
    if not variants:
        raise TranslationError(f"enum {name} has no variants?")
    return variants


def const_int(rel, name):
    src = strip_comments(read(rel))
    m = re.search(r"\bconst\s+" + re.escape(name) + r"\s*:\s*[A-Za-z0-9_]+\s*=\s*([^;]+);", src)
    if not m:
        raise TranslationError(f"const {name} not found in {rel}")
    v = m.group(1).strip().replace("_", "")
    try:
        return int(v, 0)
    except ValueError:
        raise TranslationError(f"const {name} in {rel} is not an integer literal: {v}")


def min_version():
    src = strip_comments(read("air/src/preparation_step/interpreter_versions.rs"))
    m = re.search(r"MINIMAL_INTERPRETER_VERSION\s*:[^=]*=\s*Lazy::new\(\|\|\s*semver::Version::from_str\(\"([^\"]+)\"\)", src, flags=re.S)
    if not m:
        raise TranslationError("MINIMAL_INTERPRETER_VERSION literal not found")
    mm = re.fullmatch(r"(\d+)\.(\d+)\.(\d+)", m.group(1))
    if not mm:
        raise TranslationError(f"minimal version {m.group(1)!r} is not a plain x.y.z triple")
    return tuple(int(x) for x in mm.groups())


def version_check():
    """The comparison used by check_version_compatibility."""
    src = strip_comments(read("air/src/preparation_step/preparation.rs"))
    m = re.search(r"fn\s+check_version_compatibility\b.*?\{(.*?)\n\}", src, flags=re.S)
    if not m:
        raise TranslationError("check_version_compatibility not found")
    body = m.group(1)
    mm = re.search(r"if\s+&?versions\.(\w+)\s*(<=|<|>=|>|==|!=)\s*super::min_supported_version\(\)", body)
    if not mm:
        raise TranslationError("check_version_compatibility: comparison not recognised")
    if "UnsupportedInterpreterVersion" not in body:
        raise TranslationError("check_version_compatibility: error variant not recognised")
    return mm.group(1), mm.group(2)


CMP = {">": "CmpGt", ">=": "CmpGe", "<": "CmpLt", "<=": "CmpLe", "==": "CmpEq", "!=": "CmpNe"}


def limit_checks():
    """The size checks of check_against_size_limits / make_exec_ctx as a table.

    Each entry: (what is measured, comparison, which limit, which flag is raised, error constructor).
    """
    src = strip_comments(read("air/src/preparation_step/sizes_limits_check.rs"))
    m = re.search(r"fn\s+check_against_size_limits\b.*?\{(.*?)\n\}", src, flags=re.S)
    if not m:
        raise TranslationError("check_against_size_limits not found")
    body = m.group(1)
    entries = []
    for mm in re.finditer(
        r"if\s+(\w+)\.len\(\)\s+as\s+u64\s*(<=|<|>=|>|==|!=)\s*run_parameters\.(\w+)\s*\{(.*?)\n    \}", body, flags=re.S
    ):
        what, op, limit, blk = mm.groups()
        e = re.search(r"PreparationError::(\w+)\(", blk)
        f = re.search(r"&mut\s+soft_limits_triggering\.(\w+)", blk)
        if not e or not f or "handle_limit_exceeding" not in blk or not blk.rstrip().endswith("?;"):
            raise TranslationError("check_against_size_limits: block shape not recognised")
        entries.append((what, op, limit, f.group(1), e.group(1)))
    if not entries:
        raise TranslationError("check_against_size_limits: no checks recognised")
    if not re.search(r"Ok\(soft_limits_triggering\)\s*$", body.strip()):
        raise TranslationError("check_against_size_limits: does not end in Ok(soft_limits_triggering)")

    # handle_limit_exceeding
    m = re.search(r"fn\s+handle_limit_exceeding\b.*?\{(.*?)\n\}", src, flags=re.S)
    if not m:
        raise TranslationError("handle_limit_exceeding not found")
    hb = re.sub(r"\s+", " ", m.group(1)).strip()
    expect = "*soft_limit_flag = true; if run_parameters.hard_limit_enabled { Err(error) } else { Ok(()) }"
    hle_standard = hb == expect

    # call result check in make_exec_ctx
    src2 = strip_comments(read("air/src/preparation_step/preparation.rs"))
    m = re.search(r"fn\s+make_exec_ctx\b.*?\{(.*?)\n\}", src2, flags=re.S)
    if not m:
        raise TranslationError("make_exec_ctx not found")
    b2 = m.group(1)
    mm = re.search(
        r"\.values\(\)\s*\.any\(\|(\w+)\|\s*\1\.result\.len\(\)\s+as\s+u64\s*(<=|<|>=|>|==|!=)\s*run_parameters\.(\w+)\)\s*\{(.*?)\n    \}",
        b2, flags=re.S)
    if not mm:
        raise TranslationError("make_exec_ctx: call result size check not recognised")
    _, op, limit, blk = mm.groups()
    e = re.search(r"PreparationError::(\w+)\(", blk)
    f = re.search(r"&mut\s+soft_limits_triggering\.(\w+)", blk)
    if not e or not f or "handle_limit_exceeding" not in blk:
        raise TranslationError("make_exec_ctx: block shape not recognised")
    cr_entry = ("call_result", op, limit, f.group(1), e.group(1))

    # runner.rs: how many times the early check is run, and with which flags on failure
    src3 = strip_comments(read("air/src/runner.rs"))
    n_checks = len(re.findall(r"check_against_size_limits\(&params, &air, &raw_current_data\)", src3))
    first_default = bool(re.search(
        r"farewell_if_fail!\(\s*check_against_size_limits\(&params, &air, &raw_current_data\),\s*raw_prev_data,\s*SoftLimitsTriggering::default\(\)\s*\)",
        src3))
    return entries, cr_entry, hle_standard, n_checks, first_default


def limit_use_sites():
    """Every non-test source line (outside the interface crate's struct plumbing) that reads a limit."""
    sites = []
    roots = ["air/src", "crates/air-lib/trace-handler/src", "crates/air-lib/interpreter-data/src",
             "crates/air-lib/interpreter-cid/src", "crates/air-lib/interpreter-signatures/src",
             "crates/air-lib/interpreter-value/src", "crates/air-lib/interpreter-sede/src"]
    pat = re.compile(r"\.(air_size_limit|particle_size_limit|call_result_size_limit|hard_limit_enabled)\b")
    for root in roots:
        for dp, dn, fn in sorted(os.walk(os.path.join(REPO, root))):
            dn.sort()
            for f in sorted(fn):
                if not f.endswith(".rs"):
                    continue
                rel = os.path.relpath(os.path.join(dp, f), REPO)
                for line in strip_comments(read(rel)).split("\n"):
                    for mm in pat.finditer(line):
                        sites.append((rel, mm.group(1)))
    return sites


def generate():
    out = []
    w = out.append
    w("(* GENERATED by /verif/tools/gen_model.py from /repo's working tree -- do not edit. *)")
    w("From Coq Require Import String List NArith ZArith.")
    w("Import ListNotations.")
    w("Open Scope string_scope.")
    w("")
    w("Inductive cmp_op := CmpGt | CmpGe | CmpLt | CmpLe | CmpEq | CmpNe.")
    w("")
    def _section_1(w):
        enums = [
            ("preparation_error_variants", "air/src/preparation_step/errors.rs", "PreparationError"),
            ("catchable_error_variants", "air/src/execution_step/errors/catchable_errors.rs", "CatchableError"),
            ("uncatchable_error_variants", "air/src/execution_step/errors/uncatchable_errors.rs", "UncatchableError"),
            ("farewell_error_variants", "air/src/farewell_step/errors.rs", "FarewellError"),
        ]
        for cname, rel, en in enums:
            vs = enum_variants(rel, en)
            w(f"Definition {cname} : list string := {coq_list([coq_str(v) for v in vs])}.")
        for cname, rname in [("preparation_error_start_id", "PREPARATION_ERROR_START_ID"),
                             ("catchable_errors_start_id", "CATCHABLE_ERRORS_START_ID"),
                             ("uncatchable_errors_start_id", "UNCATCHABLE_ERRORS_START_ID"),
                             ("farewell_errors_start_id", "FAREWELL_ERRORS_START_ID")]:
            w(f"Definition {cname} : Z := {const_int('air/src/utils/error_codes.rs', rname)}%Z.")
        w("")
    _guarded('core: error tables', _section_1, out)
    consts = [
        ("stream_max_size", "N", "air/src/execution_step/value_types/stream/stream_definition.rs", "STREAM_MAX_SIZE"),
        ("generation_stub", "N", "crates/air-lib/interpreter-data/src/generation_idx.rs", "GENERATION_STUB"),
        ("json_codec", "N", "crates/air-lib/interpreter-cid/src/lib.rs", "JSON_CODEC"),
        ("default_indent_step", "N", "crates/beautifier/src/beautifier.rs", "DEFAULT_INDENT_STEP"),
        ("call_service_success", "Z", "crates/air-lib/interpreter-interface/src/call_service_result.rs", "CALL_SERVICE_SUCCESS"),
    ]
    for cname, ty, rel, rname in consts:
        _guarded("core: constant " + rname,
                 lambda w, cname=cname, ty=ty, rel=rel, rname=rname:
                     w(f"Definition {cname} : {ty} := {const_int(rel, rname)}%{ty}."), out)
    def _section_2(w):
        mv = min_version()
        w(f"Definition min_version : N * N * N := ({mv[0]}%N, {mv[1]}%N, {mv[2]}%N).")
        fld, op = version_check()
        w(f"Definition version_check_field : string := {coq_str(fld)}.")
        w(f"Definition version_check_cmp : cmp_op := {CMP[op]}.")
        w("")
    _guarded('core: interpreter versions', _section_2, out)
    def _section_3(w):
        entries, cr, hle, n_checks, first_default = limit_checks()
        def ent(e):
            return f"({coq_str(e[0])}, {CMP[e[1]]}, {coq_str(e[2])}, {coq_str(e[3])}, {coq_str(e[4])})"
        w(f"Definition early_limit_checks : list (string * cmp_op * string * string * string) := {coq_list([ent(e) for e in entries])}.")
        w(f"Definition call_result_limit_check : string * cmp_op * string * string * string := {ent(cr)}.")
        w(f"Definition handle_limit_exceeding_is_standard : bool := {'true' if hle else 'false'}.")
        w(f"Definition early_check_invocations : N := {n_checks}%N.")
        w(f"Definition first_early_check_reports_default_flags : bool := {'true' if first_default else 'false'}.")
        sites = limit_use_sites()
        w(f"Definition limit_use_sites : list (string * string) := {coq_list(['(' + coq_str(a) + ', ' + coq_str(b) + ')' for a, b in sites])}.")
        w("")
    _guarded('core: size limits', _section_3, out)
    for extra in EXTRA_GENERATORS:
        _guarded("plugin: " + extra.__module__, lambda w, extra=extra: [w(l) for l in extra()], out)
    return "\n".join(out) + "\n"


FAILED_SECTIONS = []


EXTRA_GENERATORS = []
FAILED_SECTIONS = []
REFERENCE = os.path.join(os.path.dirname(os.path.abspath(__file__)), "generated_reference.json")
SECTION_LINES = {}      # section name -> the lines it produced in this run (for --update-reference)
_reference_cache = None


def _reference():
    global _reference_cache
    if _reference_cache is None:
        try:
            import json as _json
            with open(REFERENCE) as f:
                _reference_cache = _json.load(f)
        except (OSError, ValueError):
            _reference_cache = {}
    return _reference_cache


def _defined_names(lines):
    names = []
    for l in lines:
        m = re.match(r"\s*(?:Definition|Fixpoint|Inductive|Record)\s+([A-Za-z_][\w']*)", l)
        if m:
            names.append(m.group(1))
    return names


def _guarded(name, fn, out):
    """Run one section of the translator.  When the source construct it reads is not found, the section's
    definitions are taken from the committed reference snapshot (tools/generated_reference.json: what the
    section produced on the tree the proofs were developed against), so that the model keeps compiling and the
    correspondence / the property oracles can still look for a failing input; the failure is recorded in
    .cache/translator_status.json together with the names the section defines, and ./check counts it as a
    broken obligation of every property whose Coq files mention one of those names."""
    buf = []
    why = None
    try:
        fn(buf.append)
    except TranslationError as e:
        why = str(e)
    except Exception as e:  # a plugin bug must not take the other sections down
        why = "%s: %s" % (type(e).__name__, e)
    if why is None:
        SECTION_LINES[name] = list(buf)
        out.extend(buf)
        return
    ref = _reference().get(name)
    FAILED_SECTIONS.append((name, why, _defined_names(ref or [])))
    out.append("(* TRANSLATION-FAILED section %s: %s *)" % (name, why.replace("*)", "* )")))
    if ref:
        out.append("(* definitions below are the REFERENCE SNAPSHOT of this section, not read from the current source *)")
        out.extend(ref)
    out.append("")


def main():
    try:
        # optional extension modules next to this file: genx_*.py with a function `generate() -> list[str]`
        here = os.path.dirname(os.path.abspath(__file__))
        sys.path.insert(0, here)
        for f in sorted(os.listdir(here)):
            if f.startswith("genx_") and f.endswith(".py"):
                try:
                    mod = __import__(f[:-3])
                    EXTRA_GENERATORS.append(mod.generate)
                except Exception as e:
                    FAILED_SECTIONS.append(("plugin: " + f[:-3], "import failed: %s: %s" % (type(e).__name__, e), []))
        text = generate()
    except TranslationError as e:
        print(f"TRANSLATION-FAILED: {e}")
        return 2
    import json as _json
    status = os.path.join(os.path.dirname(os.path.dirname(OUT)), "..", ".cache", "translator_status.json")
    try:
        os.makedirs(os.path.dirname(status), exist_ok=True)
        with open(status, "w") as f:
            _json.dump({"failed_sections": [{"section": n, "why": w, "defines": d} for n, w, d in FAILED_SECTIONS]}, f)
    except OSError:
        pass
    for name, why, _ in FAILED_SECTIONS:
        print(f"TRANSLATION-FAILED section {name}: {why}")
    if "--update-reference" in sys.argv:
        if FAILED_SECTIONS:
            print("reference NOT updated: some sections failed")
        else:
            with open(REFERENCE, "w") as f:
                _json.dump(SECTION_LINES, f, indent=0, sort_keys=True)
            print("reference snapshot updated: %d sections" % len(SECTION_LINES))
    os.makedirs(os.path.dirname(OUT), exist_ok=True)
    old = None
    if os.path.exists(OUT):
        with open(OUT) as f:
            old = f.read()
    if old != text:
        with open(OUT, "w") as f:
            f.write(text)
        print("Generated.v rewritten")
    else:
        print("Generated.v unchanged")
    return 0


if __name__ == "__main__":
    sys.exit(main())
