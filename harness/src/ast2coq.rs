//! Printing of the real parser's syntax tree as a term of coq/model/Air.v.

use crate::coqfmt as c;
use air_lambda_ast::{Functor, LambdaAST, ValueAccessor};
use air_parser::ast::*;

fn pos(p: air_parser::AirPos) -> String {
    let u: usize = p.into();
    format!("{}", u)
}

fn span_lr(l: air_parser::AirPos, r: air_parser::AirPos) -> String {
    format!("{{| sp_left := {}; sp_right := {} |}}", pos(l), pos(r))
}

pub fn lambda(l: &LambdaAST<'_>) -> String {
    match l {
        LambdaAST::Functor(Functor::Length) => "LFunctorLength".into(),
        LambdaAST::ValuePath(p) => {
            let items = p.iter().map(|a| match a {
                ValueAccessor::ArrayAccess { idx } => format!("(ArrayAccess {})", idx),
                ValueAccessor::FieldAccessByName { field_name } => format!("(FieldAccessByName {})", c::s(field_name)),
                ValueAccessor::FieldAccessByScalar { scalar_name } => format!("(FieldAccessByScalar {})", c::s(scalar_name)),
                ValueAccessor::Error => "AccessorError".into(),
            });
            format!("(LValuePath {})", c::list(items))
        }
    }
}

fn olambda(l: &Option<LambdaAST<'_>>) -> String {
    c::opt(l.as_ref().map(lambda))
}

fn var(name: &str, p: air_parser::AirPos) -> String {
    format!("{{| v_name := {}; v_pos := {} |}}", c::s(name), pos(p))
}

fn var_l(name: &str, l: &LambdaAST<'_>, p: air_parser::AirPos) -> String {
    format!("{{| vl_name := {}; vl_lambda := {}; vl_pos := {} |}}", c::s(name), lambda(l), pos(p))
}

fn peer_arg(p: &ResolvableToPeerIdVariable<'_>) -> String {
    use ResolvableToPeerIdVariable::*;
    match p {
        InitPeerId => "PInitPeerId".into(),
        Literal(s) => format!("(PLiteral {})", c::s(s)),
        Scalar(v) => format!("(PScalar {})", var(v.name, v.position)),
        ScalarWithLambda(v) => format!("(PScalarL {})", var_l(v.name, &v.lambda, v.position)),
        CanonStreamWithLambda(v) => format!("(PCanonL {})", var_l(v.name, &v.lambda, v.position)),
        CanonStreamMapWithLambda(v) => format!("(PCanonMapL {})", var_l(v.name, &v.lambda, v.position)),
    }
}

fn string_arg(p: &ResolvableToStringVariable<'_>) -> String {
    use ResolvableToStringVariable::*;
    match p {
        Literal(s) => format!("(SLiteral {})", c::s(s)),
        Scalar(v) => format!("(SScalar {})", var(v.name, v.position)),
        ScalarWithLambda(v) => format!("(SScalarL {})", var_l(v.name, &v.lambda, v.position)),
        CanonStreamWithLambda(v) => format!("(SCanonL {})", var_l(v.name, &v.lambda, v.position)),
        CanonStreamMapWithLambda(v) => format!("(SCanonMapL {})", var_l(v.name, &v.lambda, v.position)),
    }
}

fn number(n: &Number) -> String {
    match n {
        Number::Int(i) => format!("(NumInt {})", c::z(*i as i128)),
        Number::Float(f) => format!("(NumFloat {})", c::s(&serde_json::Number::from_f64(*f).map(|x| x.to_string()).unwrap_or_else(|| "null".into()))),
    }
}

fn value(v: &ImmutableValue<'_>) -> String {
    use ImmutableValue::*;
    match v {
        InitPeerId => "VInitPeerId".into(),
        Error(e) => format!("(VError {})", olambda(&e.lens)),
        LastError(l) => format!("(VLastError {})", olambda(l)),
        Timestamp => "VTimestamp".into(),
        TTL => "VTTL".into(),
        Literal(s) => format!("(VLiteral {})", c::s(s)),
        Number(n) => format!("(VNumber {})", number(n)),
        Boolean(b) => format!("(VBoolean {})", c::b(*b)),
        EmptyArray => "VEmptyArray".into(),
        Variable(ImmutableVariable::Scalar(v)) => format!("(VScalar {})", var(v.name, v.position)),
        Variable(ImmutableVariable::CanonStream(v)) => format!("(VCanon {})", var(v.name, v.position)),
        Variable(ImmutableVariable::CanonStreamMap(v)) => format!("(VCanonMap {})", var(v.name, v.position)),
        VariableWithLambda(ImmutableVariableWithLambda::Scalar(v)) => format!("(VScalarL {})", var_l(v.name, &v.lambda, v.position)),
        VariableWithLambda(ImmutableVariableWithLambda::CanonStream(v)) => format!("(VCanonL {})", var_l(v.name, &v.lambda, v.position)),
        VariableWithLambda(ImmutableVariableWithLambda::CanonStreamMap(v)) => format!("(VCanonMapL {})", var_l(v.name, &v.lambda, v.position)),
    }
}

fn ap_arg(a: &ApArgument<'_>) -> String {
    use ApArgument::*;
    match a {
        InitPeerId => "AInitPeerId".into(),
        Timestamp => "ATimestamp".into(),
        TTL => "ATTL".into(),
        Error(e) => format!("(AError {})", olambda(&e.lens)),
        LastError(l) => format!("(ALastError {})", olambda(l)),
        Literal(s) => format!("(ALiteral {})", c::s(s)),
        Number(n) => format!("(ANumber {})", number(n)),
        Boolean(b) => format!("(ABoolean {})", c::b(*b)),
        EmptyArray => "AEmptyArray".into(),
        Scalar(v) => format!("(AScalar {})", var(v.name, v.position)),
        ScalarWithLambda(v) => format!("(AScalarL {})", var_l(v.name, &v.lambda, v.position)),
        CanonStream(v) => format!("(ACanon {})", var(v.name, v.position)),
        CanonStreamMap(v) => format!("(ACanonMap {})", var(v.name, v.position)),
        CanonStreamWithLambda(v) => format!("(ACanonL {})", var_l(v.name, &v.lambda, v.position)),
        CanonStreamMapWithLambda(v) => format!("(ACanonMapL {})", var_l(v.name, &v.lambda, v.position)),
    }
}

fn oinstr(i: &Option<std::rc::Rc<Instruction<'_>>>) -> String {
    c::opt(i.as_ref().map(|x| instr(x)))
}

pub fn instr(i: &Instruction<'_>) -> String {
    use Instruction::*;
    let text = c::s(&i.to_string());
    match i {
        Call(x) => {
            let out = match &x.output {
                CallOutputValue::Scalar(v) => format!("(OutScalar {})", var(v.name, v.position)),
                CallOutputValue::Stream(v) => format!("(OutStream {})", var(v.name, v.position)),
                CallOutputValue::None => "OutNone".into(),
            };
            format!(
                "(ICall {} {{| t_peer := {}; t_service := {}; t_function := {} |}} {} {})",
                text,
                peer_arg(&x.triplet.peer_id),
                string_arg(&x.triplet.service_id),
                string_arg(&x.triplet.function_name),
                c::list(x.args.iter().map(value)),
                out
            )
        }
        Ap(x) => {
            let r = match &x.result {
                ApResult::Scalar(v) => format!("(ApScalar {})", var(v.name, v.position)),
                ApResult::Stream(v) => format!("(ApStream {})", var(v.name, v.position)),
            };
            format!("(IAp {} {} {})", text, ap_arg(&x.argument), r)
        }
        ApMap(x) => {
            use StreamMapKeyClause::*;
            let k = match &x.key {
                Literal(s) => format!("(KLiteral {})", c::s(s)),
                Int(z) => format!("(KInt {})", c::z(*z as i128)),
                Scalar(v) => format!("(KScalar {})", var(v.name, v.position)),
                ScalarWithLambda(v) => format!("(KScalarL {})", var_l(v.name, &v.lambda, v.position)),
                CanonStreamWithLambda(v) => format!("(KCanonL {})", var_l(v.name, &v.lambda, v.position)),
            };
            format!("(IApMap {} {} {} {})", text, k, ap_arg(&x.value), var(x.map.name, x.map.position))
        }
        Canon(x) => format!(
            "(ICanon {} {} {} {})",
            text,
            peer_arg(&x.peer_id),
            var(x.stream.name, x.stream.position),
            var(x.canon_stream.name, x.canon_stream.position)
        ),
        CanonMap(x) => format!(
            "(ICanonMap {} {} {} {})",
            text,
            peer_arg(&x.peer_id),
            var(x.stream_map.name, x.stream_map.position),
            var(x.canon_stream_map.name, x.canon_stream_map.position)
        ),
        CanonStreamMapScalar(x) => format!(
            "(ICanonStreamMapScalar {} {} {} {})",
            text,
            peer_arg(&x.peer_id),
            var(x.stream_map.name, x.stream_map.position),
            var(x.scalar.name, x.scalar.position)
        ),
        Seq(x) => format!("(ISeq {} {})", instr(&x.0), instr(&x.1)),
        Par(x) => format!("(IPar {} {})", instr(&x.0), instr(&x.1)),
        Xor(x) => format!("(IXor {} {})", instr(&x.0), instr(&x.1)),
        Match(x) => format!("(IMatch {} {} {} {})", text, value(&x.left_value), value(&x.right_value), instr(&x.instruction)),
        MisMatch(x) => format!("(IMisMatch {} {} {} {})", text, value(&x.left_value), value(&x.right_value), instr(&x.instruction)),
        Fail(x) => {
            use air_parser::ast::Fail as F;
            let f = match &**x {
                F::Scalar(v) => format!("(FScalar {})", var(v.name, v.position)),
                F::ScalarWithLambda(v) => format!("(FScalarL {})", var_l(v.name, &v.lambda, v.position)),
                F::Literal { ret_code, error_message } => format!("(FLiteral {} {})", c::z(*ret_code as i128), c::s(error_message)),
                F::CanonStreamWithLambda(v) => format!("(FCanonL {})", var_l(v.name, &v.lambda, v.position)),
                F::LastError => "FLastError".into(),
                F::Error => "FError".into(),
            };
            format!("(IFail {} {})", text, f)
        }
        FoldScalar(x) => {
            use FoldScalarIterable::*;
            let it = match &x.iterable {
                Scalar(v) => format!("(FIScalar {})", var(v.name, v.position)),
                ScalarWithLambda(v) => format!("(FIScalarL {})", var_l(v.name, &v.lambda, v.position)),
                CanonStream(v) => format!("(FICanon {})", var(v.name, v.position)),
                CanonStreamMap(v) => format!("(FICanonMap {})", var(v.name, v.position)),
                CanonStreamMapWithLambda(v) => format!("(FICanonMapL {})", var_l(v.name, &v.lambda, v.position)),
                EmptyArray => "FIEmptyArray".into(),
            };
            format!(
                "(IFoldScalar {} {} {} {} {} {})",
                text,
                it,
                var(x.iterator.name, x.iterator.position),
                instr(&x.instruction),
                oinstr(&x.last_instruction),
                span_lr(x.span.left, x.span.right)
            )
        }
        FoldStream(x) => format!(
            "(IFoldStream {} {} {} {} {} {})",
            text,
            var(x.iterable.name, x.iterable.position),
            var(x.iterator.name, x.iterator.position),
            instr(&x.instruction),
            oinstr(&x.last_instruction),
            span_lr(x.span.left, x.span.right)
        ),
        FoldStreamMap(x) => format!(
            "(IFoldStreamMap {} {} {} {} {} {})",
            text,
            var(x.iterable.name, x.iterable.position),
            var(x.iterator.name, x.iterator.position),
            instr(&x.instruction),
            oinstr(&x.last_instruction),
            span_lr(x.span.left, x.span.right)
        ),
        Never(_) => "INever".into(),
        New(x) => {
            use NewArgument::*;
            let a = match &x.argument {
                Scalar(v) => format!("(NScalar {})", var(v.name, v.position)),
                Stream(v) => format!("(NStream {})", var(v.name, v.position)),
                StreamMap(v) => format!("(NStreamMap {})", var(v.name, v.position)),
                CanonStream(v) => format!("(NCanon {})", var(v.name, v.position)),
                CanonStreamMap(v) => format!("(NCanonMap {})", var(v.name, v.position)),
            };
            format!("(INew {} {} {} {})", text, a, instr(&x.instruction), span_lr(x.span.left, x.span.right))
        }
        Next(x) => format!("(INext {} {})", text, var(x.iterator.name, x.iterator.position)),
        Null(_) => "INull".into(),
        Error => "IError".into(),
    }
}
