(* IdsCases.v -- the property oracle of C06 evaluated on ONE run of the implementation
   (case type and model comparison are those of ExecCases.v; the runs come from harness/src/bin/ids06.rs
   and harness/src/bin/exec.rs).  Written from the property text, not from the model:

   "every call request id handed to the host is larger than any id previously handed out" -- per run:
   the ids are strictly increasing and larger than the counter stored in the previous data, and the
   counter stored in the new data is not smaller than any of them (so the next run starts above them);
   "results under ids that match no pending call are reported as unprocessed (code 30000)" -- a run
   that reports success was given no result under an id that is not pending in the previous or
   current data.  (Runs ending with an uncaught catchable error are the known finding
   `unprocessed-results-dropped-on-catchable-error`; they are judged by the Rust-side oracle, which can
   tag them.)  A run that returns the previous data hands out no id. *)
From Aqua Require Import Base Json Air Trace Handler Values Scalars Lens Exec RunExec ExecCases CallSpec IdsSpec.
Open Scope N_scope.
Open Scope list_scope.

Fixpoint increasing_from (l : N) (ids : list N) : bool :=
  match ids with [] => true | k :: r => (l <? k) && increasing_from k r end.

Definition unknown_ids (c : case_t) : list N :=
  let i := ec_input c in
  let me := rp_current_peer (ri_params i) in
  let pend := pending_ids me (d_trace (ri_prev i)) ++ pending_ids me (d_trace (ri_cur i)) in
  filter (fun k => negb (existsb (N.eqb k) pend)) (map fst (ri_results i)).

Definition c06_oracle (c : case_t) : bool :=
  let o := ec_obs c in
  let l := d_lcid (ri_prev (ec_input c)) in
  let ids := map fst (eo_requests o) in
  match eo_kind o with
  | 0 => increasing_from l ids && (last ids l <=? eo_lcid o) &&
         (if (eo_code o =? 0)%Z then match unknown_ids c with [] => true | _ => false end else true)
  | 1 => match ids with [] => true | _ => false end
  | _ => true
  end.

(* which runs exercise what (for the evidence) *)
Definition has_unknown (c : case_t) : bool := match unknown_ids c with [] => false | _ => true end.

(* the freshness clauses of the oracle are implied by the conclusion of C06_fresh_run (so a run of the
   model always passes them; the oracle is the weaker, property-text reading) *)
Definition C06_oracle_sound_stmt : Prop :=
  forall (l : N) (ids : list N) (lcid' : N),
    ids = N_seq (l + 1) (length ids) -> lcid' = l + N.of_nat (length ids) ->
    increasing_from l ids = true /\ (last ids l <=? lcid') = true.
