(* Lens.v -- the lambda ("lens") applier of the interpreter, and plain JSON navigation.

   Mirrors, function for function:
     air/src/execution_step/lambda_applier/applier.rs   select_by_lambda_from_scalar / _from_stream /
                                                        _from_canon_map, select_by_path_*, split_to_idx,
                                                        select_by_functor_*
     air/src/execution_step/lambda_applier/utils.rs     try_jvalue_with_idx, try_jvalue_with_field_name,
                                                        select_by_scalar, select_by_jvalue, try_scalar_ref_as_idx,
                                                        try_jvalue_as_idx, try_scalar_ref_as_stream_map_key,
                                                        try_number_to_u32
     air/src/execution_step/lambda_applier/errors.rs    LambdaError
     air/src/execution_step/lambda_applier/mod.rs       lambda_to_execution_error!
     air/src/execution_step/execution_context/scalar_variables.rs            Scalars::get_value, ScalarRef
     air/src/execution_step/execution_context/stream_maps_variables/stream_map_key.rs   StreamMapKey
     air/src/execution_step/value_types/canon_stream_map.rs                  CanonStreamMap::{from_canon_stream, index, len}
   The lens syntax tree ([lambda], [accessor]) is the one of Air.v (crates/air-lib/lambda/ast).

   What is abstracted: tetraplets / provenance that travel with a selection (C17), and the scalar store:
   the execution context is seen through [env], the answer of Scalars::get_value for each name.

   Then, independently of all that: [nav], navigation in a JSON value along field names and indices,
   and the statements of C24.  Definitions only (proofs are in proofs/LensProofs.v). *)
From Aqua Require Import Base Json Air.
Open Scope N_scope.

(* ------------------------------------------------------------------------------------------ *)
(* errors *)

(* LambdaError, in the declaration order of errors.rs *)
Inductive lambda_error :=
| CanonStreamNotHaveEnoughValues (stream_size idx : N)
| EmptyStream                                                    (* declared, never constructed *)
| FieldAccessorAppliedToStream (field_name : string)
| ArrayAccessorNotMatchValue (value : json) (idx : N)
| ValueNotContainSuchArrayIdx (value : json) (idx : N)
| ValueNotContainSuchField (value : json) (field_name : string)
| FieldAccessorNotMatchValue (value : json) (field_name : string)
| IndexAccessNotU32 (accessor : json)                            (* a JSON number *)
| ScalarAccessorHasInvalidType (scalar_accessor : json)
| StreamAccessorHasInvalidType (scalar_accessor : json)
| CanonStreamMapAccessorHasInvalidType (map_accessor : json)
| CanonStreamMapAccessorMustNotBeIterable.

Definition lambda_error_name (e : lambda_error) : string :=
  match e with
  | CanonStreamNotHaveEnoughValues _ _ => "CanonStreamNotHaveEnoughValues"
  | EmptyStream => "EmptyStream"
  | FieldAccessorAppliedToStream _ => "FieldAccessorAppliedToStream"
  | ArrayAccessorNotMatchValue _ _ => "ArrayAccessorNotMatchValue"
  | ValueNotContainSuchArrayIdx _ _ => "ValueNotContainSuchArrayIdx"
  | ValueNotContainSuchField _ _ => "ValueNotContainSuchField"
  | FieldAccessorNotMatchValue _ _ => "FieldAccessorNotMatchValue"
  | IndexAccessNotU32 _ => "IndexAccessNotU32"
  | ScalarAccessorHasInvalidType _ => "ScalarAccessorHasInvalidType"
  | StreamAccessorHasInvalidType _ => "StreamAccessorHasInvalidType"
  | CanonStreamMapAccessorHasInvalidType _ => "CanonStreamMapAccessorHasInvalidType"
  | CanonStreamMapAccessorMustNotBeIterable => "CanonStreamMapAccessorMustNotBeIterable"
  end%string.

(* one representative per variant, in declaration order: tied to the source by [lambda_error_table_agrees] *)
Definition all_lambda_errors : list lambda_error :=
  [CanonStreamNotHaveEnoughValues 0 0; EmptyStream; FieldAccessorAppliedToStream ""; ArrayAccessorNotMatchValue JNull 0;
   ValueNotContainSuchArrayIdx JNull 0; ValueNotContainSuchField JNull ""; FieldAccessorNotMatchValue JNull "";
   IndexAccessNotU32 JNull; ScalarAccessorHasInvalidType JNull; StreamAccessorHasInvalidType JNull;
   CanonStreamMapAccessorHasInvalidType JNull; CanonStreamMapAccessorMustNotBeIterable].

(* the generated table is [(variant name, fixed parts of its #[error(..)] message)] (tools/genx_lens.py) *)
Definition lambda_error_table_agrees : bool :=
  list_eqb String.eqb (map lambda_error_name all_lambda_errors) (map fst lambda_error_variants).

(* the #[error] templates: the harness driver recognises a variant by the fixed parts of its message *)
Definition lambda_error_messages_agree : bool :=
  list_eqb String.eqb (map snd lambda_error_variants)
    ["lambda is applied to a stream that have only '{stream_size}' elements, but '{idx}' requested";
     "lambda is applied to an empty stream";
     "field accessor (with field name = '{field_name}') can't be applied to a stream";
     "value '{value}' is not an array-type to match array accessor with idx = '{idx}'";
     "value '{value}' does not contain element for idx = '{idx}'";
     "value '{value}' does not contain element with field name = '{field_name}'";
     "value '{value}' is not an map-type to match field accessor with field_name = '{field_name}'";
     "index accessor `{accessor} can't be converted to u32`";
     "scalar accessor `{scalar_accessor}` should has number or string type";
     "stream accessor `{scalar_accessor}` should has number (u32) type";
     "canon stream map accessor `{map_accessor}` should be either string or number";
     "canon stream map accessor must not be iterable"]%string.

(* which JSON types utils.rs accepts where an index / key comes from a scalar (select_by_jvalue,
   try_jvalue_as_idx), and the error of the catch-all arm *)
Definition lens_accessor_types_agree : bool :=
  list_eqb (fun a b : string * list string * string =>
              String.eqb (fst (fst a)) (fst (fst b)) && list_eqb String.eqb (snd (fst a)) (snd (fst b)) &&
              String.eqb (snd a) (snd b))
    lens_accessor_type_table
    [("select_by_jvalue", ["String"; "Number"], "ScalarAccessorHasInvalidType");
     ("try_jvalue_as_idx", ["Number"], "StreamAccessorHasInvalidType")]%string.

(* the CatchableError variants a lens application can end in (execution_step/errors/catchable_errors.rs) *)
Inductive catchable_error :=
| LambdaApplierError (e : lambda_error)                   (* lambda_to_execution_error! *)
| LengthFunctorAppliedToNotArray (value : json)           (* select_by_functor_from_scalar *)
| VariableNotFound (name : string)                        (* Scalars::get_value *)
| VariableWasNotInitializedAfterNew (name : string).      (* Scalars::get_value *)

Definition catchable_error_name (c : catchable_error) : string :=
  match c with
  | LambdaApplierError _ => "LambdaApplierError"
  | LengthFunctorAppliedToNotArray _ => "LengthFunctorAppliedToNotArray"
  | VariableNotFound _ => "VariableNotFound"
  | VariableWasNotInitializedAfterNew _ => "VariableWasNotInitializedAfterNew"
  end%string.

(* generate_to_error_code!: start id + position in the enum, read from the generated variant list *)
Definition catchable_error_code (c : catchable_error) : option Z :=
  option_map (fun i => (catchable_errors_start_id + Z.of_N i)%Z)
             (index_of (String.eqb (catchable_error_name c)) catchable_error_variants).

(* panics: `ValueAccessor::Error => unreachable!("should not execute if parsing succeeded. QED.")`;
   [SiteEmptyValuePath] is not a panic but a value the Rust type NonEmpty<ValueAccessor> cannot hold *)
Inductive crash_site := SiteAccessorError | SiteEmptyValuePath.

(* ExecutionResult<T> restricted to what these functions produce *)
Inductive lres (A : Type) :=
| LOk (a : A)
| LCatchable (c : catchable_error)
| LCrash (s : crash_site).
Arguments LOk {A} a.
Arguments LCatchable {A} c.
Arguments LCrash {A} s.

Definition lbind {A B} (r : lres A) (f : A -> lres B) : lres B :=
  match r with LOk a => f a | LCatchable c => LCatchable c | LCrash s => LCrash s end.

(* LambdaResult<T> = Result<T, LambdaError> of utils.rs *)
Inductive lam_res (A : Type) := LamOk (a : A) | LamErr (e : lambda_error).
Arguments LamOk {A} a.
Arguments LamErr {A} e.

(* mod.rs: lambda_to_execution_error! *)
Definition lambda_to_execution_error {A} (r : lam_res A) : lres A :=
  match r with LamOk a => LOk a | LamErr e => LCatchable (LambdaApplierError e) end.

(* ------------------------------------------------------------------------------------------ *)
(* the scalar environment *)

(* ScalarRef: a plain scalar, or a fold iterator (its value is the element under the cursor:
   `fold_state.iterable.peek().expect(PEEK_ALLOWED_ON_NON_EMPTY)`, a fold state is never empty) *)
Inductive scalar_ref := SrValue (j : json) | SrIterable (current : json).
Definition sr_result (r : scalar_ref) : json := match r with SrValue j => j | SrIterable j => j end.

(* the three answers of Scalars::get_value (its fourth arm, a name that is both a scalar and an
   iterator, is excluded by the validator: `unreachable!("this is checked on the parsing stage")`) *)
Inductive env_entry := EnvNotFound | EnvUninit | EnvRef (r : scalar_ref).
Definition env := string -> env_entry.

(* scalar_variables.rs: Scalars::get_value *)
Definition get_value (e : env) (name : string) : lres scalar_ref :=
  match e name with
  | EnvNotFound => LCatchable (VariableNotFound name)
  | EnvUninit => LCatchable (VariableWasNotInitializedAfterNew name)
  | EnvRef r => LOk r
  end.

(* ------------------------------------------------------------------------------------------ *)
(* utils.rs *)

Definition u32_max : Z := 4294967295%Z.

(* try_number_to_u32 on an integer: `accessor.as_u64().and_then(|v| u32::try_from(v).ok())` *)
Definition z_to_u32 (z : Z) : option N :=
  if ((0 <=? z) && (z <=? u32_max))%Z then Some (Z.to_N z) else None.

(* try_number_to_u32: [num] is a JSON number; a float (even 1.0) has no as_u64 *)
Definition try_number_to_u32 (num : json) : lam_res N :=
  match num with
  | JInt z => match z_to_u32 z with Some i => LamOk i | None => LamErr (IndexAccessNotU32 num) end
  | _ => LamErr (IndexAccessNotU32 num)
  end.

(* `values.get(idx as usize)` / `iter.nth(idx)`: the element at position [i], by structural recursion on
   the list (the index stays a binary number: an index such as 4294967295 must not become a unary nat) *)
Fixpoint nth_N {A} (l : list A) (i : N) : option A :=
  match l with
  | [] => None
  | x :: rest => if i =? 0 then Some x else nth_N rest (N.pred i)
  end.

(* try_jvalue_with_idx *)
Definition try_jvalue_with_idx (v : json) (idx : N) : lam_res json :=
  match v with
  | JArr l => match nth_N l idx with
              | Some x => LamOk x
              | None => LamErr (ValueNotContainSuchArrayIdx v idx)
              end
  | _ => LamErr (ArrayAccessorNotMatchValue v idx)
  end.

(* try_jvalue_with_field_name *)
Definition try_jvalue_with_field_name (v : json) (field_name : string) : lam_res json :=
  match v with
  | JObj kvs => match obj_get field_name kvs with
                | Some x => LamOk x
                | None => LamErr (ValueNotContainSuchField v field_name)
                end
  | _ => LamErr (FieldAccessorNotMatchValue v field_name)
  end.

(* select_by_jvalue *)
Definition select_by_jvalue (v accessor : json) : lam_res json :=
  match accessor with
  | JStr s => try_jvalue_with_field_name v s
  | JInt _ | JFloat _ =>
      match try_number_to_u32 accessor with
      | LamOk idx => try_jvalue_with_idx v idx
      | LamErr e => LamErr e
      end
  | _ => LamErr (ScalarAccessorHasInvalidType accessor)
  end.

(* select_by_scalar: both arms go to select_by_jvalue with the scalar's / the iterator's value *)
Definition select_by_scalar (v : json) (r : scalar_ref) : lam_res json := select_by_jvalue v (sr_result r).

(* try_jvalue_as_idx *)
Definition try_jvalue_as_idx (j : json) : lam_res N :=
  match j with
  | JInt _ | JFloat _ => try_number_to_u32 j
  | _ => LamErr (StreamAccessorHasInvalidType j)
  end.

(* try_scalar_ref_as_idx *)
Definition try_scalar_ref_as_idx (r : scalar_ref) : lam_res N := try_jvalue_as_idx (sr_result r).

(* StreamMapKey = Str | U64 | I64.  Every construction on the lens path and on the canon-map path
   normalises integers the same way (`n.is_i64()` first, U64 only above i64::MAX; u32 -> I64), so the
   two integer variants are two disjoint ranges of ONE integer key: [MKInt]. *)
Inductive map_key := MKStr (s : string) | MKInt (z : Z).
Definition map_key_eqb (a b : map_key) : bool :=
  match a, b with
  | MKStr x, MKStr y => String.eqb x y
  | MKInt x, MKInt y => Z.eqb x y
  | _, _ => false
  end.

(* StreamMapKey::from_value_ref (a well-formed [JInt] is an i64 or a u64) *)
Definition stream_map_key_from_value (j : json) : option map_key :=
  match j with
  | JStr s => Some (MKStr s)
  | JInt z => Some (MKInt z)
  | _ => None
  end.

(* try_scalar_ref_as_stream_map_key *)
Definition try_scalar_ref_as_stream_map_key (r : scalar_ref) : lam_res map_key :=
  match r with
  | SrValue j => match stream_map_key_from_value j with
                 | Some k => LamOk k
                 | None => LamErr (CanonStreamMapAccessorHasInvalidType j)
                 end
  | SrIterable _ => LamErr CanonStreamMapAccessorMustNotBeIterable
  end.

(* ------------------------------------------------------------------------------------------ *)
(* applier.rs: scalars *)

(* one iteration of the loop of select_by_path_from_scalar *)
Definition apply_accessor (e : env) (v : json) (a : accessor) : lres json :=
  match a with
  | ArrayAccess idx => lambda_to_execution_error (try_jvalue_with_idx v idx)
  | FieldAccessByName f => lambda_to_execution_error (try_jvalue_with_field_name v f)
  | FieldAccessByScalar s => lbind (get_value e s) (fun r => lambda_to_execution_error (select_by_scalar v r))
  | AccessorError => LCrash SiteAccessorError
  end.

(* select_by_path_from_scalar: left to right, scalars are looked up only when reached *)
Fixpoint select_by_path_from_scalar (e : env) (v : json) (path : list accessor) : lres json :=
  match path with
  | [] => LOk v
  | a :: rest => lbind (apply_accessor e v a) (fun v' => select_by_path_from_scalar e v' rest)
  end.

Definition json_of_len {A} (l : list A) : json := JInt (Z.of_nat (length l)).    (* usize -> JValue *)

(* select_by_functor_from_scalar *)
Definition select_by_functor_from_scalar (v : json) : lres json :=
  match v with
  | JArr l => LOk (json_of_len l)
  | _ => LCatchable (LengthFunctorAppliedToNotArray v)
  end.

(* select_by_lambda_from_scalar *)
Definition select_by_lambda_from_scalar (e : env) (v : json) (lam : lambda) : lres json :=
  match lam with
  | LValuePath path => select_by_path_from_scalar e v path
  | LFunctorLength => select_by_functor_from_scalar v
  end.

(* ------------------------------------------------------------------------------------------ *)
(* applier.rs: canon streams (the elements' JSON values in order) *)

(* split_to_idx *)
Definition split_to_idx (e : env) (path : list accessor) : lres (N * list accessor) :=
  match path with
  | [] => LCrash SiteEmptyValuePath
  | ArrayAccess idx :: body => LOk (idx, body)
  | FieldAccessByName f :: _ => LCatchable (LambdaApplierError (FieldAccessorAppliedToStream f))
  | FieldAccessByScalar s :: body =>
      lbind (get_value e s) (fun r =>
      lbind (lambda_to_execution_error (try_scalar_ref_as_idx r)) (fun idx => LOk (idx, body)))
  | AccessorError :: _ => LCrash SiteAccessorError
  end.

(* `stream.peekable().nth(idx).ok_or(CanonStreamNotHaveEnoughValues { stream_size, idx })` *)
Definition stream_nth (elems : list json) (idx : N) : lres json :=
  match nth_N elems idx with
  | Some x => LOk x
  | None => LCatchable (LambdaApplierError (CanonStreamNotHaveEnoughValues (N.of_nat (length elems)) idx))
  end.

(* select_by_path_from_stream *)
Definition select_by_path_from_stream (e : env) (elems : list json) (path : list accessor) : lres json :=
  lbind (split_to_idx e path) (fun ib =>
  lbind (stream_nth elems (fst ib)) (fun value =>
  select_by_path_from_scalar e value (snd ib))).

(* select_by_lambda_from_stream (select_by_functor_from_stream never fails) *)
Definition select_by_lambda_from_stream (e : env) (elems : list json) (lam : lambda) : lres json :=
  match lam with
  | LValuePath path => select_by_path_from_stream e elems path
  | LFunctorLength => LOk (json_of_len elems)
  end.

(* ------------------------------------------------------------------------------------------ *)
(* applier.rs: canon stream maps *)

(* CanonStreamMap: [values], the {key, value} pairs in stream order (several pairs may share a key) *)
Definition canon_map := list (map_key * json).

(* the canon stream that CanonStreamMap::from_canon_stream files under a key *)
Definition key_group (cm : canon_map) (k : map_key) : list json :=
  map snd (filter (fun p => map_key_eqb (fst p) k) cm).

(* CanonStreamMap::index: HashMap::get, an entry exists iff some pair carries the key *)
Definition canon_map_index (cm : canon_map) (k : map_key) : option (list json) :=
  match key_group cm k with [] => None | g => Some g end.

(* select_by_path_from_canon_map_stream *)
Definition select_by_path_from_canon_map_stream (e : env) (g : list json) (path : list accessor) : lres json :=
  lbind (split_to_idx e path) (fun ib =>
  lbind (stream_nth g (fst ib)) (fun value =>
  match snd ib with
  | [] => LOk value                                        (* csm.$.key.[0] *)
  | body => select_by_path_from_scalar e value body        (* csm.$.key.[0].attribute *)
  end)).

(* the `stream_map_key` match of select_by_path_from_canon_map *)
Definition canon_map_key (e : env) (prefix : accessor) : lres map_key :=
  match prefix with
  | ArrayAccess idx => LOk (MKInt (Z.of_N idx))            (* From<u32> for StreamMapKey: I64 *)
  | FieldAccessByName f => LOk (MKStr f)
  | FieldAccessByScalar s =>
      lbind (get_value e s) (fun r => lambda_to_execution_error (try_scalar_ref_as_stream_map_key r))
  | AccessorError => LCrash SiteAccessorError
  end.

(* select_by_path_from_canon_map *)
Definition select_by_path_from_canon_map (e : env) (cm : canon_map) (path : list accessor) : lres json :=
  match path with
  | [] => LCrash SiteEmptyValuePath
  | prefix :: body =>
      lbind (canon_map_key e prefix) (fun k =>
      match body, canon_map_index cm k with
      | _ :: _, Some g => select_by_path_from_canon_map_stream e g body     (* csm.$.key... *)
      | [], Some g => LOk (JArr g)                                          (* csm.$.key : CanonStream::as_jvalue *)
      | _, None => LOk (JArr [])                                            (* csm.$.non_existing_key, whatever follows *)
      end)
  end.

(* select_by_lambda_from_canon_map (select_by_functor_from_canon_map: CanonStreamMap::len = number of pairs) *)
Definition select_by_lambda_from_canon_map (e : env) (cm : canon_map) (lam : lambda) : lres json :=
  match lam with
  | LValuePath path => select_by_path_from_canon_map e cm path
  | LFunctorLength => LOk (json_of_len cm)
  end.

(* ------------------------------------------------------------------------------------------ *)
(* plain JSON navigation (independent of everything above) *)

Inductive step := SField (name : string) | SIndex (i : N).

Definition nav1 (v : json) (s : step) : option json :=
  match s, v with
  | SField name, JObj kvs => option_map snd (find (fun kv => String.eqb (fst kv) name) kvs)
  | SIndex i, JArr l => nth_N l i
  | _, _ => None
  end.

Fixpoint nav (v : json) (ss : list step) : option json :=
  match ss with
  | [] => Some v
  | s :: rest => match nav1 v s with Some v' => nav v' rest | None => None end
  end.

(* what an accessor stands for: a literal index or field name, or the step held by a scalar
   (a string is a field name, an integer that fits u32 is an index) *)
Definition step_of_json (j : json) : option step :=
  match j with
  | JStr s => Some (SField s)
  | JInt z => option_map SIndex (z_to_u32 z)
  | _ => None
  end.

Definition resolve (e : env) (a : accessor) : option step :=
  match a with
  | ArrayAccess idx => Some (SIndex idx)
  | FieldAccessByName f => Some (SField f)
  | FieldAccessByScalar s => match e s with EnvRef r => step_of_json (sr_result r) | _ => None end
  | AccessorError => None
  end.

Fixpoint resolve_all (e : env) (path : list accessor) : option (list step) :=
  match path with
  | [] => Some []
  | a :: rest =>
      match resolve e a, resolve_all e rest with
      | Some s, Some ss => Some (s :: ss)
      | _, _ => None
      end
  end.

(* the same without the u32 bound: any non-negative integer is an index *)
Definition step_of_json_wide (j : json) : option step :=
  match j with
  | JStr s => Some (SField s)
  | JInt z => if (0 <=? z)%Z then Some (SIndex (Z.to_N z)) else None
  | _ => None
  end.
Definition resolve_wide (e : env) (a : accessor) : option step :=
  match a with
  | ArrayAccess idx => Some (SIndex idx)
  | FieldAccessByName f => Some (SField f)
  | FieldAccessByScalar s => match e s with EnvRef r => step_of_json_wide (sr_result r) | _ => None end
  | AccessorError => None
  end.
Fixpoint resolve_all_wide (e : env) (path : list accessor) : option (list step) :=
  match path with
  | [] => Some []
  | a :: rest =>
      match resolve_wide e a, resolve_all_wide e rest with
      | Some s, Some ss => Some (s :: ss)
      | _, _ => None
      end
  end.

(* every array inside [v] is shorter than 2^32 (true of any value a 32-bit Wasm interpreter holds) *)
Fixpoint arrays_fit_u32 (v : json) : bool :=
  match v with
  | JArr l => (N.of_nat (length l) <=? 4294967296) &&
              (fix go (l : list json) := match l with [] => true | x :: r => arrays_fit_u32 x && go r end) l
  | JObj kvs => (fix go (l : list (string * json)) := match l with [] => true | (_, x) :: r => arrays_fit_u32 x && go r end) kvs
  | _ => true
  end.

(* the key a first accessor selects in a canon map; a fold iterator is NOT accepted as a key *)
Definition resolve_key (e : env) (a : accessor) : option map_key :=
  match a with
  | ArrayAccess idx => Some (MKInt (Z.of_N idx))
  | FieldAccessByName f => Some (MKStr f)
  | FieldAccessByScalar s => match e s with EnvRef (SrValue j) => stream_map_key_from_value j | _ => None end
  | AccessorError => None
  end.

(* ------------------------------------------------------------------------------------------ *)
(* statements of C24 *)

Definition path_parsed (path : list accessor) : bool :=
  forallb (fun a => match a with AccessorError => false | _ => true end) path.

(* the catchable errors a value-path lens may end in *)
Definition path_catchable (c : catchable_error) : bool :=
  match c with
  | LambdaApplierError _ | VariableNotFound _ | VariableWasNotInitializedAfterNew _ => true
  | LengthFunctorAppliedToNotArray _ => false
  end.

(* selection = navigation *)
Definition C24_scalar_stmt : Prop :=
  forall (e : env) (v : json) (path : list accessor) (r : json),
    select_by_lambda_from_scalar e v (LValuePath path) = LOk r <->
    exists ss, resolve_all e path = Some ss /\ nav v ss = Some r.

(* ... and it fails with a catchable error exactly when navigation is impossible; it never panics
   on a lens the parser produced *)
Definition C24_scalar_total_stmt : Prop :=
  forall (e : env) (v : json) (path : list accessor),
    path_parsed path = true ->
    match select_by_lambda_from_scalar e v (LValuePath path) with
    | LOk r => exists ss, resolve_all e path = Some ss /\ nav v ss = Some r
    | LCatchable c => path_catchable c = true /\
                      (forall ss, resolve_all e path = Some ss -> nav v ss = None)
    | LCrash _ => False
    end.

(* which error: the one of the first accessor that cannot be followed *)
Definition C24_scalar_first_failure_stmt : Prop :=
  forall (e : env) (v : json) (path : list accessor) (c : catchable_error),
    select_by_lambda_from_scalar e v (LValuePath path) = LCatchable c ->
    exists pre a post ss v',
      path = (pre ++ a :: post)%list /\ resolve_all e pre = Some ss /\ nav v ss = Some v' /\
      apply_accessor e v' a = LCatchable c /\
      (resolve e a = None \/ exists s, resolve e a = Some s /\ nav1 v' s = None).

(* the u32 bound on indices taken from scalars cannot be told from plain navigation on values
   whose arrays fit a 32-bit address space *)
Definition C24_scalar_wide_stmt : Prop :=
  forall (e : env) (v : json) (path : list accessor) (r : json),
    arrays_fit_u32 v = true ->
    (select_by_lambda_from_scalar e v (LValuePath path) = LOk r <->
     exists ss, resolve_all_wide e path = Some ss /\ nav v ss = Some r).

(* .length *)
Definition C24_length_stmt : Prop :=
  forall (e : env) (v : json),
    (forall l, v = JArr l -> select_by_lambda_from_scalar e v LFunctorLength = LOk (JInt (Z.of_nat (length l)))) /\
    ((forall l, v <> JArr l) ->
       select_by_lambda_from_scalar e v LFunctorLength = LCatchable (LengthFunctorAppliedToNotArray v)) /\
    (forall elems, select_by_lambda_from_stream e elems LFunctorLength = LOk (JInt (Z.of_nat (length elems)))) /\
    (forall cm, select_by_lambda_from_canon_map e cm LFunctorLength = LOk (JInt (Z.of_nat (length cm)))).

(* a canon stream is navigated as the array of its elements *)
Definition C24_canon_stream_stmt : Prop :=
  forall (e : env) (elems : list json) (path : list accessor) (r : json),
    path <> [] ->
    (select_by_lambda_from_stream e elems (LValuePath path) = LOk r <->
     exists ss, resolve_all e path = Some ss /\ nav (JArr elems) ss = Some r).

(* the first accessor must give an index; the rest is applied to that element as to a scalar *)
Definition C24_canon_stream_first_stmt : Prop :=
  forall (e : env) (elems : list json) (a : accessor) (body : list accessor) (r : json),
    select_by_lambda_from_stream e elems (LValuePath (a :: body)) = LOk r <->
    exists i x, resolve e a = Some (SIndex i) /\ nth_N elems i = Some x /\
                select_by_lambda_from_scalar e x (LValuePath body) = LOk r.

Definition C24_canon_stream_total_stmt : Prop :=
  forall (e : env) (elems : list json) (path : list accessor),
    path_parsed path = true -> path <> [] ->
    match select_by_lambda_from_stream e elems (LValuePath path) with
    | LOk r => exists ss, resolve_all e path = Some ss /\ nav (JArr elems) ss = Some r
    | LCatchable c => path_catchable c = true /\
                      (forall ss, resolve_all e path = Some ss -> nav (JArr elems) ss = None)
    | LCrash _ => False
    end.

(* canon map, as the code behaves: the first accessor selects the group of a key; a present
   key's group is navigated as an array; an ABSENT key gives [] whatever the rest of the lens is *)
Definition C24_canon_map_stmt : Prop :=
  forall (e : env) (cm : canon_map) (a : accessor) (body : list accessor) (r : json),
    select_by_lambda_from_canon_map e cm (LValuePath (a :: body)) = LOk r <->
    exists k, resolve_key e a = Some k /\
      match key_group cm k with
      | [] => r = JArr []
      | g => exists ss, resolve_all e body = Some ss /\ nav (JArr g) ss = Some r
      end.

Definition C24_canon_map_total_stmt : Prop :=
  forall (e : env) (cm : canon_map) (path : list accessor),
    path_parsed path = true -> path <> [] ->
    match select_by_lambda_from_canon_map e cm (LValuePath path) with
    | LOk _ => True
    | LCatchable c => path_catchable c = true
    | LCrash _ => False
    end.

(* canon map, as the property reads: an absent key is an empty group, navigated like any other *)
Definition C24_canon_map_full : Prop :=
  forall (e : env) (cm : canon_map) (a : accessor) (body : list accessor) (r : json),
    select_by_lambda_from_canon_map e cm (LValuePath (a :: body)) = LOk r <->
    exists k ss, resolve_key e a = Some k /\ resolve_all e body = Some ss /\ nav (JArr (key_group cm k)) ss = Some r.

(* the part of it that holds: the key is present, or nothing follows the key *)
Definition C24_canon_map_partial_stmt : Prop :=
  forall (e : env) (cm : canon_map) (a : accessor) (body : list accessor) (r : json),
    (body = [] \/ forall k, resolve_key e a = Some k -> key_group cm k <> []) ->
    (select_by_lambda_from_canon_map e cm (LValuePath (a :: body)) = LOk r <->
     exists k ss, resolve_key e a = Some k /\ resolve_all e body = Some ss /\ nav (JArr (key_group cm k)) ss = Some r).

(* the witness refuting the full statement: `#%m.$.nokey.[0]` on the empty map is `[]`, not an error *)
Definition C24_canon_map_full_refuted_stmt : Prop :=
  exists (e : env) (cm : canon_map) (a : accessor) (body : list accessor) (r : json),
    select_by_lambda_from_canon_map e cm (LValuePath (a :: body)) = LOk r /\
    ~ (exists k ss, resolve_key e a = Some k /\ resolve_all e body = Some ss /\ nav (JArr (key_group cm k)) ss = Some r).

(* second deviation on maps: a key held by a fold iterator is always refused, though the same key
   held by a plain scalar (or written literally) selects its group *)
Definition C24_canon_map_iterable_key_stmt : Prop :=
  forall (e : env) (cm : canon_map) (s : string) (j : json) (body : list accessor),
    e s = EnvRef (SrIterable j) ->
    select_by_lambda_from_canon_map e cm (LValuePath (FieldAccessByScalar s :: body)) =
    LCatchable (LambdaApplierError CanonStreamMapAccessorMustNotBeIterable).

(* the numeric codes of the four catchable errors, through the generated variant table *)
Definition C24_codes_stmt : Prop :=
  map catchable_error_code
      [LambdaApplierError EmptyStream; LengthFunctorAppliedToNotArray JNull; VariableNotFound ""; VariableWasNotInitializedAfterNew ""]
  = [Some 10007%Z; Some 10010%Z; Some 10003%Z; Some 10009%Z].
