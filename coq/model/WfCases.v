(* WfCases.v -- the C10 oracle on what the implementation produced.
   (1) every output trace of every run of a generated history: harness/src/bin/wftrace.rs runs the real
       `air::execute_air` and prints the trace of every produced data ([wcase]; content ids replaced by
       numbers); the same oracle is defined on the cases of the `exec` driver ([oracle_wf], ExecCases.case_t);
   (2) the real TraceHandler driven through its public API by a driver forest of model/WfTrace.v
       (harness/src/bin/handler.rs, cases of HandlerCases.v). *)
From Aqua Require Import Base Trace Handler HandlerCases WfTrace.
Open Scope N_scope.
Open Scope list_scope.

(* ---- (1) histories ---- *)
Record wcase := { wc_kind : N;   (* 0 new data; 1 previous data returned; 2 panic; 3 empty data *)
                  wc_trace : list (state N) }.
Definition wproduced (c : wcase) : option (list (state N)) := if wc_kind c =? 0 then Some (wc_trace c) else None.
Definition w_wf (c : wcase) : bool := match wproduced c with Some t => wf_trace_b N t | None => true end.
(* the three clauses separately, to say which one failed *)
Definition w_struct (c : wcase) : bool := match wproduced c with Some t => wf_struct_b N t | None => true end.
Definition w_value_pos (c : wcase) : bool := match wproduced c with Some t => vp_ok_b N t | None => true end.
Definition w_no_stub (c : wcase) : bool := match wproduced c with Some t => no_stub_b N t | None => true end.
(* informative (not C10): the reader's grouping by generation tiles as well, value positions distinct *)
Definition w_reader (c : wcase) : bool := match wproduced c with Some t => reader_ok_b N t | None => true end.
