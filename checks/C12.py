"""C12 -- a peer never reorders the stream values it has already seen.

Histories of purpose-built scripts (lib/streams_common.py) run through the real `air::execute_air` by the
harness driver `streams`; for every run and every stream instance the driver prints the add_value
operations the run performs (reconstructed from the previous / current / produced traces) and the
generations of the produced trace; Coq evaluates model/Stream.v on them (`StreamCases.check_case`) and the
property oracle `c12_oracle` on the implementation's observation alone."""
import streams_common as sc

PID = "C12"
MODEL_TARGETS = ["model/StreamCases.vo"]
HARNESS_BINS = ["streams"]
RULE = ("a case is one stream instance (a global stream or the stream of one `new` scope) in one run of execute_air on one peer of a "
        "simulated honest history (3-5 peers, random delivery order with duplicated and re-delivered particles, call results returned in "
        "random batches, then drained); scripts: `par` of chains of appends (call results from any peer, literal aps) with local canons, "
        "optionally under `new`, optionally followed by a (recursive) stream fold, + single-peer programs around STREAM_MAX_SIZE; the "
        "produced data of a run is the previous data of the peer's next run, so every run is a pair of consecutive outputs; "
        "non-trivial = the previous data already held a value of the instance and the run handles at least two values "
        "(something could be reordered); distinct = distinct case terms among the non-trivial ones")
PARTIAL = [
    "the run-pair theorems (C12_run_pair, C12_seen_before_new) are stated on the stream component: a run re-adds the values of the "
    "previous data under Previous(stored generation), those of the current data under Current(g), its own under New; that the executor "
    "does exactly this (populate_context_from_data / Generation::from_met_result, scheme Both => PreviousData) is tied by "
    "C12_source_tie and checked by the correspondence on every run, not proved about a model of the whole executor",
    "C12_compactify_order assumes fewer than 2^32 non-empty generations (beyond that the code panics in checked_add; unreachable below "
    "STREAM_MAX_SIZE values)",
]
ASSUMPTIONS = [
    "the trace reader of the driver attributes a state to an instruction instance by the program shape, the par sizes and the fold lore "
    "recorded in the trace itself (shapes documented in harness/src/bin/streams.rs); a trace it cannot read is reported as an error",
    "the order of HashMap iteration in Streams::compactify is irrelevant here: generations are numbered per stream",
]


def gen_cases(rng, tier, escalate=False):
    return sc.gen_cases(rng, tier, escalate)


def evaluate(cases, result, tier):
    sc.evaluate(PID, cases, result, {"model": "check_case", "oracle": "c12_oracle"},
                nontrivial=lambda inf, cl: inf.get("prev", 0) >= 1 and inf.get("adds", 0) >= 2)
