"""Translator extension for model/JsonText.v (property C26): the shape of JValue, the map type behind
JValue::Object, which serde_json (version, cargo features) /repo is locked to, the constants of that
serde_json the model mirrors (recursion limit, hex digits of \\u escapes), the table of mixed comparisons
of partial_eq.rs and the accessor each of them goes through."""
import glob
import os
import re

import gen_model as g

VALUE = "crates/air-lib/interpreter-value/"


def _manifests():
    out = []
    for root, dirs, files in os.walk(g.REPO):
        dirs[:] = [d for d in dirs if d not in ("target", ".git", "node_modules")]
        if "Cargo.toml" in files:
            out.append(os.path.relpath(os.path.join(root, "Cargo.toml"), g.REPO))
    return sorted(out)


def _dep_features(manifest_text, dep):
    """features requested for dependency `dep` in one manifest (inline tables and [dependencies.dep] sections)"""
    feats = []
    for m in re.finditer(r"^\s*" + re.escape(dep) + r"\s*=\s*\{([^}]*)\}", manifest_text, flags=re.M):
        f = re.search(r"features\s*=\s*\[([^\]]*)\]", m.group(1))
        if f:
            feats += re.findall(r'"([^"]+)"', f.group(1))
    for m in re.finditer(r"^\[(?:[\w.-]*dependencies)\." + re.escape(dep) + r"\]\s*\n((?:(?!\[).*\n?)*)", manifest_text, flags=re.M):
        f = re.search(r"features\s*=\s*\[([^\]]*)\]", m.group(1))
        if f:
            feats += re.findall(r'"([^"]+)"', f.group(1))
    return feats


def _lock_entry(name):
    lock = g.read("Cargo.lock")
    ms = re.findall(r'\[\[package\]\]\nname = "' + re.escape(name) + r'"\nversion = "([^"]+)"\n(?:source = "[^"]*"\n)?(?:checksum = "[^"]*"\n)?(?:dependencies = \[(.*?)\]\n)?',
                    lock, flags=re.S)
    if len(ms) != 1:
        raise g.TranslationError(f"expected exactly one {name} package in Cargo.lock, found {len(ms)}")
    ver, deps = ms[0]
    return ver, [d.split(" ")[0] for d in re.findall(r'"([^"]+)"', deps or "")]


def _serde_json_src(ver):
    home = os.environ.get("CARGO_HOME", os.path.expanduser("~/.cargo"))
    dirs = sorted(glob.glob(os.path.join(home, "registry", "src", "*", "serde_json-" + ver)))
    if not dirs:
        raise g.TranslationError(f"source of serde_json {ver} not found under {home}/registry/src")
    return dirs[0]


def _read_abs(p):
    try:
        with open(p, encoding="utf-8") as f:
            return f.read()
    except OSError as e:
        raise g.TranslationError(f"cannot read {p}: {e}")


def generate():
    out = ["", "(* ---- tools/genx_jsonvalue.py (C26) ---- *)"]
    w = out.append
    # 1. the enum
    variants = g.enum_variants(VALUE + "src/value/mod.rs", "JValue")
    w(f"Definition jvalue_variants : list string := {g.coq_list([g.coq_str(v) for v in variants])}.")
    # 2. the map type
    lib = g.strip_comments(g.read(VALUE + "src/lib.rs"))
    btree = re.search(r'#\[cfg\(not\(feature = "preserve_order"\)\)\]\s*pub type Map<K, V> = BTreeMap<K, V>;', lib) is not None
    enabled = False
    sj_feats = []
    for rel in _manifests():
        txt = g.read(rel)
        if "preserve_order" in _dep_features(txt, "air-interpreter-value"):
            enabled = True
        sj_feats += _dep_features(txt, "serde_json")
    w(f"Definition jvalue_map_is_btreemap : bool := {'true' if btree and not enabled else 'false'}.")
    w(f"Definition serde_json_features_requested : list string := {g.coq_list([g.coq_str(f) for f in sorted(set(sj_feats))])}.")
    # 3. the locked serde_json
    ver, deps = _lock_entry("serde_json")
    w(f"Definition serde_json_lock_version : string := {g.coq_str(ver)}.")
    w(f"Definition serde_json_lock_deps : list string := {g.coq_list([g.coq_str(d) for d in deps])}.")
    src = _serde_json_src(ver)
    de = g.strip_comments(_read_abs(os.path.join(src, "src", "de.rs")))
    m = re.search(r"remaining_depth:\s*(\d+)\s*,", de)
    if not m or "if $this.remaining_depth == 0" not in de:
        raise g.TranslationError(f"serde_json {ver}: recursion limit not recognised in de.rs")
    w(f"Definition serde_json_recursion_limit : N := {int(m.group(1))}%N.")
    ser = g.strip_comments(_read_abs(os.path.join(src, "src", "ser.rs")))
    m = re.search(r'HEX_DIGITS:\s*\[u8;\s*16\]\s*=\s*\*b"([0-9a-fA-F]{16})"', ser)
    if not m:
        raise g.TranslationError(f"serde_json {ver}: HEX_DIGITS not recognised in ser.rs")
    w(f"Definition serde_json_hex_digits : string := {g.coq_str(m.group(1))}.")
    # 4. how JValue is printed, read and converted
    modrs = g.strip_comments(g.read(VALUE + "src/value/mod.rs"))
    w(f"Definition jvalue_display_is_serde_json_compact : bool := {'true' if 'serde_json::ser::to_writer(&mut wr, self)' in modrs else 'false'}.")
    ders = g.strip_comments(g.read(VALUE + "src/value/de.rs"))
    inserts = "values.insert(first_key, tri!(visitor.next_value()));" in ders and "values.insert(key, value);" in ders
    w(f"Definition jvalue_visit_map_inserts_in_order : bool := {'true' if inserts else 'false'}.")
    f64_to_null = "Number::from_f64(value).map_or(JValue::Null, JValue::Number)" in ders
    w(f"Definition jvalue_visit_f64_is_from_f64 : bool := {'true' if f64_to_null else 'false'}.")
    fromrs = g.strip_comments(g.read(VALUE + "src/value/from.rs"))
    fi = re.search(r"impl From<&serde_json::Value> for JValue \{(.*?)\n\}", fromrs, flags=re.S)
    if not fi:
        raise g.TranslationError("impl From<&serde_json::Value> for JValue not found")
    w(f"Definition jvalue_from_std_rebuilds_map : bool := {'true' if 'Map::from_iter(o.into_iter().map(' in fi.group(1) else 'false'}.")
    # 5. mixed comparisons
    pe = g.strip_comments(g.read(VALUE + "src/value/partial_eq.rs"))
    acc = []
    for fn, a in re.findall(r"fn (eq_\w+)\(value: &JValue, other: [^)]+\) -> bool \{(.*?)\n\}", pe, flags=re.S):
        mm = re.search(r"\.(as_\w+)\(\)\.map_or\(false,", a)
        if not mm:
            raise g.TranslationError(f"partial_eq.rs: {fn} does not go through an as_* accessor")
        acc.append((fn, mm.group(1)))
    if not acc:
        raise g.TranslationError("partial_eq.rs: no eq_* function found")
    w("Definition jvalue_eq_accessors : list (string * string) := "
      + g.coq_list(["(" + g.coq_str(a) + ", " + g.coq_str(b) + ")" for a, b in acc]) + ".")
    body = pe.rsplit("partialeq_numeric! {", 1)
    if len(body) != 2:
        raise g.TranslationError("partial_eq.rs: partialeq_numeric! invocation not found")
    rows = re.findall(r"(eq_\w+)\[([^\]]*)\]", body[1])
    if not rows:
        raise g.TranslationError("partial_eq.rs: partialeq_numeric! table is empty")
    w("Definition jvalue_partialeq_numeric : list (string * list string) := "
      + g.coq_list(["(" + g.coq_str(fn) + ", " + g.coq_list([g.coq_str(x) for x in tys.split()]) + ")" for fn, tys in rows]) + ".")
    return out
