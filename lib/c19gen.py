"""Generator for C19: AIR scripts in which every call site has its own function name, so that a call
request seen by a host identifies the call site, and for every call site the peer it is addressed
to is known at generation time (`sites`: function name -> peer name, or "@arg0" when the addressed
peer id is passed as the first argument, e.g. under a fold over a list of peers).

Targets: literal peers, %init_peer_id%, scalars holding a peer id, lens-selected peers
(`ps.$.[1]`, `o.$.p`, `o.$.q.[0]`), fold iterators over a list of peers, canon-lens targets
(`#c.$.[0]`), and canons designated to literal / variable peers.
Built on lib/airgen.py (shared, not edited): Gen19 overrides target / call / failing / leaf."""
import airgen

BASE = {
    "id": {"echo": 0},
    "arr": {"const": ["a", "b", "c"]},
    "arr2": {"const": [["x", "y"], ["z"]]},
    "obj": {"const": {"f": "v", "n": 7, "l": ["p", "q"], "o": {"k": "w"}}},
    "num": {"const": 1},
    "args": {"args": 1},
    "tag": {"peertag": 1},
    "fail": {"err": [1, "boom"]},
    "fail2": {"err": [42, {"why": "bad"}]},
}


class Gen19(airgen.Gen):
    def __init__(self, rng, profile, init=0):
        super().__init__(rng, profile)
        self.init = self.peers[init]
        self.sites = {}          # function name -> addressed peer name | "@arg0"
        self.kinds = {}          # function name -> kind of target
        self.services = []       # [service, function, behaviour]
        self.peer_vars = {}      # scalar name -> ("peer", X) | ("peers", [X..]) | ("pobj", {"p": X, "q": [Y, Z]})

    # ---- targets -------------------------------------------------------------------------
    def pick_target(self, sc):
        """(token, addressed peer, kind)"""
        r = self.r
        cands = []
        for n in sc["scalars"]:
            pv = self.peer_vars.get(n)
            if not pv:
                continue
            if pv[0] == "peer":
                cands.append((n, pv[1], "var"))
            elif pv[0] == "peers":
                for i, x in enumerate(pv[1]):
                    cands.append(("%s.$.[%d]" % (n, i), x, "lens"))
            elif pv[0] == "pobj":
                cands.append((n + ".$.p", pv[1]["p"], "lens"))
                cands.append((n + ".$.q.[0]", pv[1]["q"][0], "lens"))
                cands.append((n + ".$.q.[1]", pv[1]["q"][1], "lens"))
        x = r.random()
        if cands and x < 0.55:
            # variables and lens-selected peers equally likely
            kinds = sorted({c[2] for c in cands})
            k = r.choice(kinds)
            return r.choice([c for c in cands if c[2] == k])
        if x < 0.63:
            return ("%init_peer_id%", self.init, "init")
        p = r.choice(self.peers)
        return ('"@%s"' % p, p, "lit")

    def target(self, sc):
        return self.pick_target(sc)[0]

    def site(self, base, addr, kind, behaviour=None):
        fn = "%s_%d" % (base, len(self.services) + 1)
        self.services.append(["s", fn, behaviour if behaviour is not None else BASE[base]])
        self.sites[fn] = addr
        self.kinds[fn] = kind
        return fn

    # ---- failing left branches of xor -----------------------------------------------------
    def failing_par(self, sc, d):
        """(added after the seeded change C19-xor-truncates-next-peers was missed): a par that
        completes (its other branch is (null) or a local leaf) and has just marked / forwarded a remote call, followed by
        an instruction that fails catchably IN THE SAME RUN -- the marks of the failed left branch stay in the trace, so
        their targets must still be among the next peers."""
        r = self.r
        if r.random() < 0.4:
            # the two branches must not depend on each other's definitions (a par branch that reads what its sibling
            # defines does not even parse when it comes first): the sibling is generated in a copy of the scope
            side = dict(sc, scalars=dict(sc["scalars"]), streams=list(sc["streams"]), canons=list(sc["canons"]))
            c1 = self.call(sc)
            other = "(null)" if r.random() < 0.6 else self.call(side)
            par = "(par %s %s)" % ((c1, other) if r.random() < 0.7 else (other, c1))
            tail = r.choice(['(fail %d "user error")' % r.choice([1, 7, 1337]), '(match "a" "b" (null))', '(mismatch 1 1 (null))'])
            return "(seq %s %s)" % (par, tail)
        return None

    # ---- calls ---------------------------------------------------------------------------
    def call(self, sc, fn=None, out=None, failing_ok=True):
        r = self.r
        tok, addr, kind = self.pick_target(sc)
        peer_val = None
        if fn is None:
            fns = [("id", "any"), ("arr", "arr"), ("obj", "obj"), ("num", "any"), ("args", "arr"), ("tag", "any"), ("tag", "any"), ("arr2", "arr")]
            if self.p.var_targets:
                fns += [("peer", "peer"), ("peer", "peer"), ("peer", "peer"), ("peers", "peers"), ("peers", "peers"), ("pobj", "pobj"), ("pobj", "pobj")]
            fn, k = r.choice(fns)
        else:
            k = "any"
        if fn == "id":
            argl = "[" + self.arg(sc) + "]"
            k = "any"
        else:
            argl = self.args(sc)
        behaviour = None
        if fn == "peer":
            x = r.choice(self.peers)
            peer_val = ("peer", x)
            behaviour = {"const": "@" + x}
            k = "any"
        elif fn == "peers":
            xs = [r.choice(self.peers) for _ in range(r.choice([2, 3]))]
            peer_val = ("peers", xs)
            behaviour = {"const": ["@" + x for x in xs]}
            k = "arr"
        elif fn == "pobj":
            v = {"p": r.choice(self.peers), "q": [r.choice(self.peers), r.choice(self.peers)]}
            peer_val = ("pobj", v)
            behaviour = {"const": {"p": "@" + v["p"], "q": ["@" + v["q"][0], "@" + v["q"][1]]}}
            k = "any"
        name_fn = self.site(fn, addr, kind, behaviour)
        outs = ""
        if out is None:
            c = r.random()
            if peer_val is not None or c < 0.55:
                name = self.fresh("v")
                outs = " " + name
                sc["scalars"][name] = k
                if peer_val is not None:
                    self.peer_vars[name] = peer_val
            elif c < 0.75 and self.p.streams and not self.p.fragment:
                if sc["streams"] and r.random() < 0.7:
                    outs = " " + r.choice(sc["streams"])
                elif not sc.get("no_new_streams"):
                    s = self.fresh("$s")
                    sc["streams"].append(s)
                    outs = " " + s
        else:
            outs = " " + out if out else ""
        return '(call %s ("s" "%s") %s%s)' % (tok, name_fn, argl, outs)

    def failing(self, sc, d):
        r = self.r
        special = self.failing_par(sc, d)
        if special is not None:
            return special
        k = r.choice(["svc", "svc", "fail_lit", "match", "lens"] if self.p.lenses else ["svc", "fail_lit", "match"])
        if k == "svc":
            tok, addr, kind = self.pick_target(sc)
            fn = self.site(r.choice(["fail", "fail2"]), addr, kind)
            c = '(call %s ("s" "%s") %s)' % (tok, fn, self.args(sc))
            if r.random() < 0.5:
                return "(seq %s %s)" % (self.leaf(sc), c)
            return c
        if k == "fail_lit":
            return '(seq %s (fail %d "user error"))' % (self.leaf(sc), r.choice([1, 7, 1337]))
        if k == "match":
            return '(seq %s (match "a" "b" (null)))' % self.leaf(sc)
        objs = [n for n, kk in sc["scalars"].items() if kk == "obj"]
        if objs:
            p = r.choice(self.peers)
            fn = self.site("id", p, "lit")
            return '(call "@%s" ("s" "%s") [%s.$.nonexistent])' % (p, fn, r.choice(objs))
        return '(seq %s (fail 9 "no obj"))' % self.leaf(sc)

    # ---- extra leaves ----------------------------------------------------------------------
    def leaf(self, sc):
        r = self.r
        x = r.random()
        if self.p.var_targets and x < 0.05:
            # a fold over a list of peers: the call inside is addressed to the iterator
            xs = [r.choice(self.peers) for _ in range(r.choice([2, 3]))]
            p0 = r.choice(self.peers)
            ps, it = self.fresh("v"), self.fresh("i")
            f0 = self.site("peers", p0, "lit", {"const": ["@" + x for x in xs]})
            f1 = self.site("tag", "@arg0", "iter")
            mode = r.random()
            body = '(call %s ("s" "%s") [%s])' % (it, f1, it)
            b = "(seq %s (next %s))" % (body, it) if mode < 0.5 else "(par %s (next %s))" % (body, it)
            sc["scalars"][ps] = "arr"
            self.peer_vars[ps] = ("peers", xs)
            return '(seq (call "@%s" ("s" "%s") [] %s) (fold %s %s %s))' % (p0, f0, ps, ps, it, b)
        if self.p.var_targets and self.p.canon and self.p.streams and not self.p.fragment and not sc.get("no_new_streams") and x < 0.10:
            # a canon of a stream of peer ids, made at a designated peer; the call is addressed through a lens on the canon
            xs = [r.choice(self.peers) for _ in range(r.choice([1, 2]))]
            st, cn = self.fresh("$ps"), "#" + self.fresh("pcan")
            aps = " ".join('(ap "@%s" %s)' % (x, st) for x in xs)
            if len(xs) == 2:
                aps = "(seq %s)" % aps
            tok, addr, kind = self.pick_target(sc)
            f1 = self.site("tag", xs[0], "canon-lens")
            sc["canons"].append(cn)
            return '(seq %s (seq (canon %s %s %s) (call %s.$.[0] ("s" "%s") [])))' % (aps, tok, st, cn, cn, f1)
        if self.p.canon and self.p.streams and not self.p.fragment and sc["streams"] and x < 0.16:
            # canon designated through any kind of target
            tok, addr, kind = self.pick_target(sc)
            s = r.choice(sc["streams"])
            c = "#" + self.fresh("canon")
            sc["canons"].append(c)
            return "(canon %s %s %s)" % (tok, s, c)
        return super().leaf(sc)


def gen_case(rng, profile, n_ops=None, oracles=("C19",), **extra):
    init = rng.randrange(profile.peers)
    g = Gen19(rng, profile, init)
    script = g.script()
    ops = airgen.gen_schedule(rng, n_ops=n_ops if n_ops is not None else rng.choice([6, 12, 20]))
    c = {"script": script, "peers": airgen.PEERS[:profile.peers], "init": init,
         "services": g.services + [["s", "arr", BASE["arr"]], ["s", "tag", BASE["tag"]]],
         "ops": ops, "oracles": list(oracles), "seed": rng.randrange(1 << 30),
         "sites": g.sites, "kinds": g.kinds, "drain": True, "probe": True}
    c.update(extra)
    return c
