"""Translator piece for C04/C09 (model/KeepSpec.v): which error variants of the interpreter are the
"data-consistency errors" of property C04, with the codes they have in /repo's sources today.

    c04_consistency_errors   list of (enum, variant, code): the variants of PreparationError and
                             UncatchableError whose declaration (error text / payload type / name) says
                             trace-merge, generation, CID lookup, parameter mismatch, signature or CID-store
                             verification, in declaration order; code = start id + position in the enum
                             (what generate_to_error_code! computes)
    c04_consistency_classes  the class each of them was put in (same order)
    c04_trace_error_leaves   the leaf variants below TraceHandlerError (KeeperError, MergeError and its
                             four sub-enums, StateFSMError), in the order of model/Handler.v's [herr]

The classification is by what the declaration says, not by a list of names, so that a renamed or a newly
added error of one of these kinds is picked up (and then breaks C04_codes_tie until the model knows it):

    trace-merge         the payload mentions TraceHandlerError
    generation          the variant name, payload or error text mentions `generation`
    cid-lookup          the error text reads `... for CID ... not found`
    parameter-mismatch  the error text says `doesn't match`
    signature           the payload is DataVerifierError
    cid-store           the payload is CidStoreVerificationError

The oracle of C04 uses exactly this generated code list."""
import re

from gen_model import TranslationError, const_int, coq_list, coq_str, read, strip_comments

UNCATCHABLE = "air/src/execution_step/errors/uncatchable_errors.rs"
PREPARATION = "air/src/preparation_step/errors.rs"
CODES = "air/src/utils/error_codes.rs"
TH_ERRORS = "crates/air-lib/trace-handler/src/errors.rs"
MERGE_ERRORS = "crates/air-lib/trace-handler/src/merger/errors.rs"
KEEPER_ERRORS = "crates/air-lib/trace-handler/src/data_keeper/errors.rs"
FSM_ERRORS = "crates/air-lib/trace-handler/src/state_automata/errors.rs"

CLASSES = [
    ("trace-merge", lambda name, attrs, payload: "TraceHandlerError" in payload),
    ("generation", lambda name, attrs, payload: re.search(r"generation", name + " " + payload + " " + attrs, re.I) is not None),
    ("cid-lookup", lambda name, attrs, payload: re.search(r"for CID.*not found", attrs) is not None),
    ("parameter-mismatch", lambda name, attrs, payload: "doesn't match" in attrs),
    ("signature", lambda name, attrs, payload: "DataVerifierError" in payload),
    ("cid-store", lambda name, attrs, payload: "CidStoreVerificationError" in payload),
]


def enum_items(rel, name):
    """[(variant, attribute text, payload text)] of `pub enum <name>` in declaration order."""
    src = strip_comments(read(rel))
    m = re.search(r"\benum\s+" + re.escape(name) + r"\b[^{]*\{", src)
    if not m:
        raise TranslationError("enum %s not found in %s" % (name, rel))
    i, depth = m.end(), 1
    start = i
    while i < len(src) and depth > 0:
        depth += {"{": 1, "}": -1}.get(src[i], 0)
        i += 1
    body = src[start:i - 1]
    items, token, depth, in_str = [], "", 0, False
    prev = ""
    for ch in body:
        if ch == '"' and prev != "\\":
            in_str = not in_str
        if not in_str:
            if ch in "({[":
                depth += 1
            elif ch in ")}]":
                depth -= 1
        if ch == "," and depth == 0 and not in_str:
            items.append(token)
            token = ""
        else:
            token += ch
        prev = ch
    if token.strip():
        items.append(token)
    out = []
    for it in items:
        s = it.strip()
        attrs = ""
        while s.startswith("#["):
            d, j, ins = 0, 0, False
            while j < len(s):
                c = s[j]
                if c == '"' and (j == 0 or s[j - 1] != "\\"):
                    ins = not ins
                if not ins:
                    if c == "[":
                        d += 1
                    elif c == "]":
                        d -= 1
                        if d == 0:
                            break
                j += 1
            attrs += s[:j + 1] + " "
            s = s[j + 1:].lstrip()
        mm = re.match(r"([A-Za-z_][A-Za-z0-9_]*)(.*)", s, flags=re.S)
        if not mm:
            if s:
                raise TranslationError("cannot read a variant of %s: %r" % (name, s[:40]))
            continue
        out.append((mm.group(1), attrs, mm.group(2)))
    if not out:
        raise TranslationError("enum %s in %s has no variants" % (name, rel))
    return out


def leaves(rel, name, subs):
    """Leaf variants of an error enum: a variant whose payload is one of the enums in `subs` is replaced
    by that enum's leaves (subs: payload type name -> (file, enum name, its own subs))."""
    res = []
    for v, attrs, payload in enum_items(rel, name):
        hit = None
        for ty, spec in subs.items():
            if re.search(r"\b" + re.escape(ty) + r"\b", payload) and "#[from]" in payload:
                hit = spec
                break
        if hit is None:
            res.append(v)
        elif hit is not False:
            res.extend(leaves(hit[0], hit[1], hit[2]))
    return res


def generate():
    out = []
    w = out.append
    w("(* ---- tools/genx_consistency.py (C04, C09) ---- *)")
    rows = []
    for enum, rel, start_name in [("PreparationError", PREPARATION, "PREPARATION_ERROR_START_ID"),
                                  ("UncatchableError", UNCATCHABLE, "UNCATCHABLE_ERRORS_START_ID")]:
        start = const_int(CODES, start_name)
        src = strip_comments(read(rel))
        if not re.search(r"generate_to_error_code!\(\s*self\s*,\s*" + enum + r"\s*,\s*" + start_name + r"\s*\)", src):
            raise TranslationError("%s: to_error_code is not generate_to_error_code!(self, %s, %s)" % (rel, enum, start_name))
        for pos, (v, attrs, payload) in enumerate(enum_items(rel, enum)):
            for cls, pred in CLASSES:
                if pred(v, attrs, payload):
                    rows.append((enum, v, cls, start + pos))
                    break
    seen = {r[2] for r in rows}
    for cls, _ in CLASSES:
        if cls not in seen:
            raise TranslationError("no error variant of class %s found (the sources changed shape)" % cls)
    w("Definition c04_consistency_errors : list (string * string * Z) := %s." % coq_list(
        ["(%s, %s, %d%%Z)" % (coq_str(e), coq_str(v), code) for e, v, _, code in rows]))
    w("Definition c04_consistency_classes : list string := %s." % coq_list([coq_str(c) for _, _, c, _ in rows]))

    # leaves below TraceHandlerError, in the order KeeperError, MergeError (with its sub-enums inline), StateFSMError;
    # the KeeperError re-exported inside MergeError / StateFSMError is the same enum and is not repeated
    merge_subs = {
        "KeeperError": False,
        "ApResultError": (MERGE_ERRORS, "ApResultError", {}),
        "CallResultError": (MERGE_ERRORS, "CallResultError", {}),
        "CanonResultError": (MERGE_ERRORS, "CanonResultError", {}),
        "FoldResultError": (MERGE_ERRORS, "FoldResultError", {}),
    }
    top = {
        "KeeperError": (KEEPER_ERRORS, "KeeperError", {}),
        "MergeError": (MERGE_ERRORS, "MergeError", merge_subs),
        "StateFSMError": (FSM_ERRORS, "StateFSMError", {"KeeperError": False}),
    }
    tl = leaves(TH_ERRORS, "TraceHandlerError", top)
    w("Definition c04_trace_error_leaves : list string := %s." % coq_list([coq_str(v) for v in tl]))
    w("")
    return out
